#!/usr/bin/env python3
"""Take over a seeded change written by an independent sub-agent in /tmp/seed-<id>[-n]:
  1. extract patch.diff (non-test sources), the demonstration (new files) and SEEDED.md into /verif/seeded/<name>/
  2. confirm in the scratch worktree: builds, demonstration FAILS with the change and PASSES without it,
     the existing tests of the touched packages still pass with the change
  3. apply the patch to /repo, run the named checks (quick, then thorough if quick stays silent), undo it
  4. write meta.json
Usage: seed_eval.py <worktree dir> <name> <property> [check ids to run, default = property]"""
import json, os, subprocess, sys, time, shutil

ENV = dict(os.environ, GOFLAGS='-mod=mod', GOPROXY='off', GOSUMDB='off', GOTOOLCHAIN='local')

def sh(cmd, cwd=None, timeout=None):
    if cmd.startswith('go test'):
        # the repository's tests bind fixed loopback ports: give every run its own network namespace
        cmd = "unshare -n sh -c " + repr("ip link set lo up; " + cmd)
    return subprocess.run(cmd, shell=True, cwd=cwd, env=ENV, capture_output=True, text=True, timeout=timeout)

def main():
    wt, name, prop = sys.argv[1], sys.argv[2], sys.argv[3]
    checks = sys.argv[4:] or [prop]
    out = f'/verif/seeded/{name}'
    os.makedirs(out, exist_ok=True)
    meta = {'name': name, 'property': prop, 'worktree': wt, 'checks': {}}
    # 1. split the working tree change
    changed = sh('git diff --name-only', cwd=wt).stdout.split()
    new = [f for f in sh('git ls-files --others --exclude-standard', cwd=wt).stdout.split() if f != 'SEEDED.md']
    src = [f for f in changed if not f.endswith('_test.go')]
    testmods = [f for f in changed if f.endswith('_test.go')]
    meta['changed_sources'] = src
    meta['modified_existing_tests'] = testmods
    meta['demonstration_files'] = new
    patch = sh('git diff -- ' + ' '.join(src), cwd=wt).stdout
    open(f'{out}/patch.diff', 'w').write(patch)
    for f in new:
        os.makedirs(os.path.dirname(f'{out}/demo/{f}') or f'{out}/demo', exist_ok=True)
        shutil.copy(f'{wt}/{f}', f'{out}/demo/{f}')
    if os.path.exists(f'{wt}/SEEDED.md'):
        shutil.copy(f'{wt}/SEEDED.md', f'{out}/SEEDED.md')
    # 2. confirmation
    b = sh('go build ./...', cwd=wt)
    meta['builds'] = b.returncode == 0
    pkgs = sorted(set('./' + (os.path.dirname(f) or '.') for f in src))
    demo_pkgs = sorted(set('./' + (os.path.dirname(f) or '.') for f in new if f.endswith('_test.go')))
    demo_tests = []
    for f in new:
        if f.endswith('_test.go'):
            for l in open(f'{wt}/{f}'):
                if l.startswith('func Test'):
                    demo_tests.append(l.split('(')[0].replace('func ', ''))
    meta['demo_tests'] = demo_tests
    runexp = '|'.join(demo_tests) or 'NONE'
    def run_demo():
        res = {}
        for p in demo_pkgs:
            r = sh(f"go test -count=1 -run '^({runexp})$' {p}", cwd=wt, timeout=1500)
            res[p] = r.returncode
        return res
    with_change = run_demo()
    # (git stash is shared between worktrees: revert and re-apply by patch)
    assert sh(f'git apply -R {out}/patch.diff', cwd=wt).returncode == 0
    without = run_demo()
    assert sh(f'git apply {out}/patch.diff', cwd=wt).returncode == 0
    meta['demo_with_change_exit'] = with_change
    meta['demo_without_change_exit'] = without
    meta['demo_confirms'] = bool(demo_pkgs) and all(v != 0 for v in with_change.values()) and all(v == 0 for v in without.values())
    # existing tests of the touched packages (demonstration excluded by moving it aside)
    for f in new:
        os.rename(f'{wt}/{f}', f'{wt}/{f}.aside')
    et = {}
    for p in pkgs:
        if p == './.' or p == '.':
            r = sh("go test -vet=off -count=1 -run 'Test(Pending|Entry|Request|Snapshot|Quiesce|Bitmap|WorkReady|LeaderInfo|Lazy|Logical|Read|Queue)' .", cwd=wt, timeout=1500)
        else:
            r = sh(f'go test -vet=off -count=1 {p}', cwd=wt, timeout=1500)
        et[p] = r.returncode
    for f in new:
        os.rename(f'{wt}/{f}.aside', f'{wt}/{f}')
    meta['existing_tests_exit'] = et
    # 3. run my checks against the scratch worktree (it has the change applied): the driver builds the
    #    engines from it (VERIF_REPO) and writes under /verif/.build/alt-*, so /repo and the committed
    #    evidence are never touched and other checks can run meanwhile. The confirmation on /repo
    #    itself (git apply, run, git checkout) is done later by tools/seed_confirm.py.
    for c in checks:
        for tier in (['quick'] if os.environ.get('SEED_QUICK_ONLY') else ['quick', 'thorough']):
            t = time.time()
            r = sh(f'VERIF_REPO={wt} ./check {c} {tier}', cwd='/verif', timeout=9000)
            keys = sorted(set(l.split('key=')[1].split(' what=')[0] for l in r.stdout.splitlines() if 'key=' in l))
            meta['checks'][f'{c}:{tier}'] = {'exit': r.returncode, 'wall_s': round(time.time() - t), 'keys': keys[:8]}
            print(name, c, tier, 'rc', r.returncode, keys[:4], flush=True)
            if r.returncode == 1:
                break
    meta['detected'] = any(v['exit'] == 1 for v in meta['checks'].values())
    json.dump(meta, open(f'{out}/meta.json', 'w'), indent=1)
    print(json.dumps({k: meta[k] for k in ['name', 'builds', 'demo_confirms', 'existing_tests_exit', 'detected']}, indent=None))

main()
