#!/usr/bin/env python3
"""Print the markdown table of DESIGN.md section 8.6 from /verif/seeded/*/meta.json."""
import json, glob, os

STRENGTHENED = {
 'C01-nonvoting-heartbeat-hint-stale-read': 'E1 scheduler: membership requests add the non-voting member first, a partition shape that keeps the leader with the non-voting members only, partition phases lasting several election timeouts',
 'C02-prevote-candidate-forgets-vote': 'C02 mode biased to 5 voters / long partitions / crashes; the divergence itself stays too rare (needs two leaders of one term that both commit), the change is caught through the vote monitor of C03',
 'C03-transfer-target-skips-cc-guard': 'monitor added: no campaign while a committed membership change is not applied (C03 and C07)',
 'C07-transfer-target-skips-cc-guard': 'same monitor, reported to C07 as well',
 'C04-tan-vote-not-synced-in-persisted-term': 'store half added to C04: storecheck crash-tan / crash-pebble-plain stages (power loss at every file-system operation of SaveRaftState workloads)',
 'C03b-vote-only-state-not-persisted': 'persist-before-send monitor added to E1 (vote requests, vote grants, replication acks, heartbeat responses against the durable store) and registered as a C04 stage',
 'C04b-pebble-cache-ignores-vote': 'storecheck workloads now contain hard state updates in which exactly one field (vote or commit) changes',
 'C05b-session-load-merges': 'rsmcheck/sessions: half of the snapshot twins are live lagging replicas (applied a prefix, hold its sessions) that install the snapshot',
 'C08b-session-load-merge-if-same-size': '(same strengthening as C05b for the C05 check)',
 'C08-stream-prepare-without-lock': 'new E2 replay stage for C08 (chaos lifetimes tuned for snapshots + catch-up cycles, every replica compared with the replay of the whole committed log); catch-up cases with dwelling PrepareSnapshot added to the C11 contract stage',
 'C11-sync-rlock-overlaps-prepare': 'catch-up cases in the contract stage: streamed / file snapshots during continuous writes, periodic Sync, requested and exported snapshots, PrepareSnapshot and Sync dwelling 0-2 ms',
 'C12b-deferred-release-stale-result': 'requests stage: 4 SyncPropose clients whose context expires near the running completion latency or is cancelled from inside Update when their own entry is applied; a completed call must carry its own payload id',
 'C14-blockwriter-zero-copy-crc-clobber': 'snapcheck hands the writers a private copy of the payload and compares with the pristine one (a writer scribbling over its input made the comparison agree with itself)',
 'C14b-chunkwriter-aliases-block': 'stream sinks of snapcheck / rsmcheck keep the chunks as handed over and deliver them after the writer is done (as the transport job does) instead of copying at once',
 'C17-delayed-snapshot-status-lost': 'new compcheck/msgqueue stage: server.MessageQueue against a delivery model (accepted = delivered exactly once, delayed SnapshotStatus neither early nor lost)',
 'C17b-streaming-count-never-deleted': '(caught by the E2 progress stage built after round 1)',
 'C18-nonvoting-heartbeat-hint-read-quorum': 'read-confirmation quorum monitor reported to C18 as well, C18 mode reads more and excludes duplicated ReadIndex requests',
 'C18b-timeoutnow-removed-replica-campaigns': 'E1: long network delays (held messages, TimeoutNow preferably), membership changes that remove the latest transfer target, and the step-worker iteration that overlaps the application of the own removal',
 'C20b-unlisted-witness-not-removed': 'importer stage: optional witness member before the export (must be refused as a regular member, must end up in the removed set)',
}

def fmt_checks(d):
    out = []
    for k, v in d.items():
        out.append(f"{k.replace(':', ' ')}: {'**caught**' if v['exit'] == 1 else 'silent' if v['exit'] == 0 else 'rc %d' % v['exit']}")
    return '; '.join(out)

def main():
    print('| seeded change | touched | first trial (checks as they were) | strengthening | confirmed on /repo (quick) |')
    print('|---|---|---|---|---|')
    for d in sorted(glob.glob('/verif/seeded/*/')):
        name = os.path.basename(d[:-1])
        m = json.load(open(d + 'meta.json'))
        patch = open(d + 'patch.diff').read()
        files = sorted(set(l[6:] for l in patch.splitlines() if l.startswith('+++ b/')))
        conf = m.get('confirmed_on_repo', {}).get('quick', [])
        c = '; '.join(f"{x['command'].split('./check ')[1].split(';')[0]}: {'**caught** (' + ', '.join(k[:60] for k in x['keys'][:2]) + ')' if x['exit'] == 1 else 'silent' if x['exit'] == 0 else 'rc %d' % x['exit']}" for x in conf) or 'not run'
        print(f"| {name} | {', '.join(files)} | {fmt_checks(m.get('checks', {}))} | {STRENGTHENED.get(name, '-')} | {c} |")

main()
