#!/usr/bin/env python3
"""Print the markdown table of DESIGN.md section 8.6 from /verif/seeded/*/meta.json."""
import json, glob, os

STRENGTHENED = {
 'C16f-import-records-snapshot-before-finalize': 'importer stage: on one listed host (never the one that holds the export) the import tool first runs with the power cut right before or right after it rewrites the log store (sites in the log store wrapper the tool opens through the host\'s factory; the tool runs to its end on a disk that no longer persists anything); after the reboot the real start-up cleanup and the directory oracle of C16 are applied (a recorded snapshot must exist, complete and loadable), then the import is repeated as an operator would; 67 such power losses per quick run',
 'C02f-tan-index-load-partial-overwrite-untrimmed': 'E1: half of the cases that keep the raft state in a real log store use Tan (closed and reopened at every restart, compared with what was saved, and the replica runs on what the store returns): conflict overwrites in the middle of a multi-entry record followed by restarts under a raft core that then uses the stale entries',
 'C08f-stream-refusal-reported-for-self': 'directed two-lagging-streams scenario (replay and progress stages): on-disk shard of 5 voters, two followers lag beyond the compacted log together and are reconnected together, SaveSnapshot dwells 0.4-1.2 s so that the second stream request is refused; verdict in ticks of each follower\'s own clock',
 'C17f-broken-snapshot-transfer-not-reported': 'restart-during-send / -receive scenarios end with a verdict in ticks instead of an inconclusive wall-clock wait; new cut-during-transfer mode (the link of the receiving host is cut while the rest of the image is on its way); PreVote, so that the follower that comes back does not depose the leader (a new leader starts with fresh remotes, which hid the missing status); 8 such cases in the quick tier of the progress stage',
 'C13f-plain-iterate-reuses-decode-target': '- (every codec of C13 still round-trips when it decodes into a fresh value; the mistake is the log store\'s range read, which is C09\'s matter and is caught by C09 in every run)',
 'C03f-single-node-quorum-counts-regular-members-only': '(= C18e found again)',
 'C06f-pending-readindex-keeps-queue-buffer': '(the idea of C01c / C12 at another site; caught through the clients that release without taking the result, added for C06e)',
 'C02e-batch-apply-decided-by-last-entry': '- (the divergence needs two replicas that group the same committed entries into apply tasks differently, with registered and NoOP sessions mixed on a concurrent state machine; the session model of C05 (rsmcheck/sessions, PRNG task boundaries on a concurrent state machine) sees the cause in every run)',
 'C03e-applied-index-published-before-config-change': 'E1: in a third of the C03 / C07 cases a quarter of the applied membership changes run one step-worker iteration (with 0-19 piled-up ticks) after the state machine side and before node.ApplyConfigChange hands the change to the raft core - the two workers only meet at raftMu; a campaign launched in such a step is a violation (17017 such steps per quick run, every one skipped its campaign on the unchanged tree)',
 'C06e-pooled-requeststate-keeps-unconsumed-result': 'requests stage (C12): 3 clients that issue Propose / ReadIndex, do not look at the result channel and Release after 0-12 ms (an object released with an unconsumed result goes back to the pool); readstorm stage (C06): 2 such clients on the slow follower',
 'C10e-tan-record-write-error-overwritten': 'storecheck fault workloads: in every second workload the entries of the last SaveRaftState carry 40-70 KB commands (a record of several 32 KB blocks); every file-system operation of the last save is a fault point in the quick tier',
 'C13e-frame-crc-zero-means-unset': 'frames stage: a frame class whose payload CRC32 or header CRC32 is a boundary value of the checksum field (0, 2^32-1, 1, 2^31), four command bytes solved over GF(2) (extended before the first measured run)',
 'C14e-blockreader-shared-hasher': 'snapcheck/rw: after the sequential cases of a batch 8 readers load 6 multi-block images for 6 (thorough: 30) rounds at overlapping times while 2 writers produce and verify new images; every load must be byte-identical',
 'C01e-heartbeatresp-confirms-every-pending-read': '- (needs 5 voters, a deposed leader with one follower and a delayed confirmation: the read-confirmation monitor of C06 sees the cause in every run, the history oracle of C01 does not reach the stale read in the quick tier)',
 'C04e-prepare-outside-the-lock': 'the comparison of every replica with the replay of the committed log (replay stage) reports to C04 as well when the replica went through a recovery; the first trial of C04 / C08 had died on defect 22 of the unchanged tree (the scratch copy predated its fix) and was repeated',
 'C11e-concurrent-save-sessions-after-prepare': 'rsmcheck/twins: in half of the overlapped saves an apply batch is already queued behind the lock when PrepareSnapshot returns (it runs right after the section that fixes index, sessions and image)',
 'C12e-logquery-dropped-by-prevote-candidate': 'requests stage: PreVote in half of the cases; log queries get the tick bound too (timeout 0 + 300 ticks); during the expiry drain one host is cut off and is sent requests of every kind first',
 'C17e-restoreremotes-forgets-witness-addresses': 'progress stage: directed case 2 voters + witness, snapshots covering AddWitness (follower optionally repaired by snapshot), follower host restarted, then the leader host stays down: the follower must lead with the witness within 400 ticks and complete a proposal',
 'C17d-lower-term-noop-only-with-checkquorum': 'caught as it was (E1, 1 key); silent at seed 1 once a quarter of the E1 cases had become rate limiting cases (the case that caught it was displaced): a third of the partitions of the C17 cases now mute the target of the latest leader transfer (caught at seeds 1-3, 5-7 cases of 6400 each)',
 'C01d-early-replicate-commit-cap-neutralised': 'the E2 learner stage (single voter + non-voting replica, power loss between the early Replicate and SaveRaftState) reports the same observation in terms of C01 and is registered for C01',
 'C04d-ondisk-shrink-before-sync': 'crash sites at the user state machine boundary (exit of RecoverFromSnapshot, entry of the first Sync after it, entry / exit of SaveSnapshot, any Sync); power loss of the follower while it is being caught up by snapshot in the catch-up cycles; replay stage registered for C04',
 'C05d-empty-result-not-recorded-in-session': 'rsmcheck user state machine returns boundary results: the zero Result, a zero value with data, an empty non-nil Data',
 'C08d-received-snapshot-files-not-fsynced': 'snapcheck/chunks runs on a strict file system and ends every script with a power loss: a finalized, announced snapshot must survive byte for byte; registered for C08 and C16',
 'C16d-streamed-snapshot-tail-chunk-not-fsynced': '(same power loss; besides, the white-box sscrash stage caught it as it was)',
 'C09d-removenodedata-leaves-entries': 'storecheck model: after RemoveNodeData nothing saved before may be reported again (ReadRaftState first index); two scripted sequences (replica comes back, in the same process and after a reopen, through a snapshot inside its old log)',
 'C11d-ondisk-index-not-initialised-at-open': 'rsmcheck/twins (delivery through snapshot or Update, never both, never neither; Open index of on-disk state machines) registered for C11',
 'C12d-key-generator-seed-reused-across-restarts': 'requests stage: one NoOP session object per host kept across restarts; directed double in-process restart (snapshot first, a short incarnation whose proposals are the tail of the log, the next incarnation replays them slowly while it makes its first proposals)',
 'C13d-last-chunk-size-modulo-again': '(same idea as C15b, found again) the E2 wire stage with external snapshot files of exactly 1 and 2 chunks is registered for C13; the codec stages do not see it (every codec still round-trips), C15 does in every run',
 'C14d-shrunk-snapshot-keeps-compression-type': '-',
 'C01c-readindex-batch-aliases-queue': 'E2 clients now wait for a result only as long as the replica needs to process 4x the deadline in ticks (+200): the reads that this change leaves without any result no longer hang the clients until the watchdog (first trial: watchdog, then the crash key)',
 'C02c-maxindex-record-never-shrinks': 'E1: one case in eight keeps the raft state of every replica in a real sharded Pebble store that is reopened at restart; the recovered log and hard state are compared with what was saved (C02 / C03 / C04)',
 'C03c-pebble-cache-ignores-vote': '(same: real store under E1, vote-lost-across-restart)',
 'C05c-batch-path-skips-sessions': 'rsmcheck/sessions: the same streams also run through a concurrent state machine (batched apply path) with PRNG task boundaries',
 'C06c-read-joins-inflight-round': 'new E2 readstorm stage (C06, C01): a slowly applying follower under a storm of linearizable reads, decided by the history oracle',
 'C11c-waitready-double-offload': 'contract stage: restarts with Config.WaitReady that race with a stop of the same replica, dwelling RecoverFromSnapshot',
 'C12c-gc-skipped-when-quiesced': 'progress stage: Quiesce cases idle long enough to go quiescent before the no-quorum probe; directed quiesced-leader-loss prefix. (This change relied on defect #16 of the unchanged tree - proposals did not wake a quiesced replica - found through it and fixed)',
 'C13c-shared-decompress-buffer': 'new rsmcheck/payload stage for C13 (apply path: plain / encoded / Snappy entries, per-entry and batched); Snappy entry compression in a third of the E2 lifetimes',
 'C14c-final-validation-skipped-with-external-files': 'the receiver-side chunk stage (snapcheck/chunks) is registered for C14 as well (corrupted or truncated streams must not be finalized)',
 'C15c-stream-chunks-alias-block-buffer': 'a stream source of more than two blocks in the quick tier of snapcheck/chunks',
 'C16c-ondisk-shrink-without-sync-on-initial-recover': 'importer stage: power loss at the first SaveRaftState after the import (PreSave hook), right after the first start, and after a second restart; registered for C16; the on-disk harness state machine no longer treats RecoverFromSnapshot as durable before Sync (first measured after the strengthening)',
 'C17c-idle-send-queue-never-removed': 'hook H3c (idle timeout of the transport send queues, 300-900 ms in the progress stage) (first measured after the strengthening)',
 'C20c-imported-snapshot-never-considered-shrunk': 'importer stage: second restart (graceful and after a power loss) of the repaired replicas (first measured after the strengthening)',
 'C01-nonvoting-heartbeat-hint-stale-read': 'E1 scheduler: membership requests add the non-voting member first, a partition shape that keeps the leader with the non-voting members only, partition phases lasting several election timeouts',
 'C02-prevote-candidate-forgets-vote': 'C02 mode biased to 5 voters / long partitions / crashes; the divergence itself stays too rare (needs two leaders of one term that both commit), the change is caught through the vote monitor of C03',
 'C03-transfer-target-skips-cc-guard': 'monitor added: no campaign while a committed membership change is not applied (C03 and C07)',
 'C07-transfer-target-skips-cc-guard': 'same monitor, reported to C07 as well',
 'C04-tan-vote-not-synced-in-persisted-term': 'store half added to C04: storecheck crash-tan / crash-pebble-plain stages (power loss at every file-system operation of SaveRaftState workloads)',
 'C03b-vote-only-state-not-persisted': 'persist-before-send monitor added to E1 (vote requests, vote grants, replication acks, heartbeat responses against the durable store) and registered as a C04 stage',
 'C04b-pebble-cache-ignores-vote': 'storecheck workloads now contain hard state updates in which exactly one field (vote or commit) changes',
 'C05b-session-load-merges': 'rsmcheck/sessions: half of the snapshot twins are live lagging replicas (applied a prefix, hold its sessions) that install the snapshot',
 'C08b-session-load-merge-if-same-size': '(same strengthening as C05b for the C05 check)',
 'C08-stream-prepare-without-lock': 'new E2 replay stage for C08 (chaos lifetimes tuned for snapshots + catch-up cycles, every replica compared with the replay of the whole committed log); catch-up cases with dwelling PrepareSnapshot added to the C11 contract stage',
 'C11-sync-rlock-overlaps-prepare': 'catch-up cases in the contract stage: streamed / file snapshots during continuous writes, periodic Sync, requested and exported snapshots, PrepareSnapshot and Sync dwelling 0-2 ms',
 'C12b-deferred-release-stale-result': 'requests stage: 4 SyncPropose clients whose context expires near the running completion latency or is cancelled from inside Update when their own entry is applied; a completed call must carry its own payload id',
 'C14-blockwriter-zero-copy-crc-clobber': 'snapcheck hands the writers a private copy of the payload and compares with the pristine one (a writer scribbling over its input made the comparison agree with itself)',
 'C14b-chunkwriter-aliases-block': 'stream sinks of snapcheck / rsmcheck keep the chunks as handed over and deliver them after the writer is done (as the transport job does) instead of copying at once',
 'C17-delayed-snapshot-status-lost': 'new compcheck/msgqueue stage: server.MessageQueue against a delivery model (accepted = delivered exactly once, delayed SnapshotStatus neither early nor lost)',
 'C17b-streaming-count-never-deleted': '(caught by the E2 progress stage built after round 1)',
 'C18-nonvoting-heartbeat-hint-read-quorum': 'read-confirmation quorum monitor reported to C18 as well, C18 mode reads more and excludes duplicated ReadIndex requests',
 'C18b-timeoutnow-removed-replica-campaigns': 'E1: long network delays (held messages, TimeoutNow preferably), membership changes that remove the latest transfer target, and the step-worker iteration that overlaps the application of the own removal',
 'C20b-unlisted-witness-not-removed': 'importer stage: optional witness member before the export (must be refused as a regular member, must end up in the removed set)',
}

def fmt_checks(d):
    out = []
    for k, v in d.items():
        out.append(f"{k.replace(':', ' ')}: {'**caught**' if v['exit'] == 1 else 'silent' if v['exit'] == 0 else 'rc %d' % v['exit']}")
    return '; '.join(out)

def main():
    print('| seeded change | touched | first trial (checks as they were) | strengthening | confirmed on /repo (quick) |')
    print('|---|---|---|---|---|')
    for d in sorted(glob.glob('/verif/seeded/*/')):
        name = os.path.basename(d[:-1])
        m = json.load(open(d + 'meta.json'))
        patch = open(d + 'patch.diff').read()
        files = sorted(set(l[6:] for l in patch.splitlines() if l.startswith('+++ b/')))
        conf = m.get('confirmed_on_repo', {}).get('quick', [])
        c = '; '.join(f"{x['command'].split('./check ')[1].split(';')[0]}: {'**caught** (' + ', '.join(k[:60] for k in x['keys'][:2]) + ')' if x['exit'] == 1 else 'silent' if x['exit'] == 0 else 'rc %d' % x['exit']}" for x in conf) or 'not run'
        print(f"| {name} | {', '.join(files)} | {fmt_checks(m.get('first_trial') or m.get('checks', {}))} | {STRENGTHENED.get(name, '-')} | {c} |")

main()
