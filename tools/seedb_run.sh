#!/bin/bash
# usage: seedb_run.sh <seedid> <prop> <tier>
export GOFLAGS=-mod=mod GOPROXY=off GOSUMDB=off GOTOOLCHAIN=local
s=$1; p=$2; t=$3
rsync -a --exclude .git /tmp/seed-$s/ /tmp/seedb-$s-$p/
(cd /tmp/seedb-$s-$p && patch -p1 -s < /verif/.build/h7.patch)
cd /verif && VERIF_REPO=/tmp/seedb-$s-$p ./check $p $t 2>&1 | grep -v "^  key" | cut -c1-250 | sed 's/-s[0-9]*-b.*//' | sort | uniq -c | sort -rn | head -8
rm -rf /tmp/seedb-$s-$p /verif/.build/alt-tmp_seedb_${s}_$p
