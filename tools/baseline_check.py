#!/usr/bin/env python3
"""Run the repository's test suite with the verif guard OFF and report which tests of the stable baseline
(/root/.vp/BASELINE.json stable_pass) did not pass. Usage: baseline_check.py [pkg ...]"""
import json, subprocess, sys, os
env = dict(os.environ, GOFLAGS='-mod=mod', GOPROXY='off', GOSUMDB='off', GOTOOLCHAIN='local')
pk = sys.argv[1:] or ['./...']
p = subprocess.run(['go', 'test', '-json', '-vet=off', '-count=1', '-timeout', '25m', '-p', '2'] + pk, cwd='/repo', env=env, capture_output=True, text=True)
res = {}
for l in p.stdout.splitlines():
    try:
        e = json.loads(l)
    except Exception:
        continue
    if e.get('Test') and e.get('Action') in ('pass', 'fail', 'skip'):
        res[e['Package'] + '::' + e['Test']] = e['Action']
b = json.load(open('/root/.vp/BASELINE.json'))
stable = b['stable_pass']
pkgs = set(k.split('::')[0] for k in res)
bad = [t for t in stable if t.split('::')[0] in pkgs and res.get(t) != 'pass']
print('ran', len(res), 'tests in', len(pkgs), 'packages; stable tests in those packages:', len([t for t in stable if t.split('::')[0] in pkgs]))
print('stable tests not passing:', len(bad))
for t in bad[:50]:
    print('  ', t, res.get(t))
sys.exit(1 if bad else 0)
