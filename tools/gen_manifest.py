#!/usr/bin/env python3
"""Source of truth for /verif/MANIFEST.json: edit CLAIMS / NOT_YET below and run
this script. Only properties whose check exists and is silent on the unchanged
tree are claimed."""
import json, subprocess

PROPS = [json.loads(l)['id'] for l in open('/verif/properties.jsonl')]

E1_NOTE = ("trusted base: the mini-node of engine E1 (harness/raftsim/replica.go) re-implements the glue of node.go/"
           "engine.processSteps around the real raft.Peer, logdb.LogReader and rsm.StateMachine; the durable store of a "
           "simulated replica keeps exactly what SaveRaftState/SaveSnapshots received; schedules are sampled by a seeded "
           "PRNG (deterministic per seed), not enumerated")

E2_NOTE = ("trusted base: engine E2 runs real NodeHosts in one process on lni/vfs strict in-memory file systems with an in-process transport written for the harness (never duplicates or fabricates); "
           "goroutine schedules, fault scripts and crash instants are sampled by a seeded PRNG; a crash drops all unsynced data of the host after its traffic was cut (the property's crash model)")

CLAIMS = {
 'C01': dict(engine='raftsim+clusterrun', category='exploration', design='DESIGN.md section 4 C01',
   technique='runtime monitoring: recorded client history (logical call/return stamps) decided by an exact n log n linearizability oracle for the unique-value append-only-list model, cross-checked with porcupine',
   text=('Every simulated execution records a history of proposals and ReadIndex reads issued on any replica (leader, followers, non-voting) under loss, delay, '
         'reordering, partitions (symmetric, one-way, leader isolation), leader transfers, crashes at step-internal points and restarts - never duplication; '
         'the history is decided exactly against the final per-key lists (unique ids make it unambiguous). Held on the executions explored, not for all schedules.'),
   note=E1_NOTE + '; second stage (E2 chaos): the same oracle over histories recorded at the public NodeHost API (SyncPropose, Propose+wait, SyncRead, ReadIndex+ReadLocalNode on every replica incl. a non-voting one) of real NodeHosts under a fault script, built with the race detector; third stage (E2 readstorm): a slowly applying follower under a storm of linearizable reads (several per tick, many in flight) while writers complete through the leader, same oracle. ' + E2_NOTE),
 'C02': dict(engine='raftsim+clusterrun', category='exploration', design='DESIGN.md section 4 C02',
   technique='runtime monitoring: online invariant monitors with a global view over a deterministic hostile simulation of real raft peers (apply streams, durable logs, commit map, state hashes)',
   text=('After every simulator step: per-replica apply stream gap-free and increasing, first applier fixes (term,type,payload) per index and every later applier must match, '
         'no committed entry overwritten or truncated in any durable log, a leader only advances commit by counting entries of its own term, pairwise log matching, '
         'equal user/session/membership hashes at equal applied index, final lists prefix-consistent. Message loss, duplication, delay, reordering, crashes and restarts included. '
         'E2 learner stage: power loss of a single-voter leader between sending Replicate and persisting, with a non-voting replica listening; both replicas must still agree index by index. One E1 case in eight keeps the raft state of every replica in a real sharded Pebble store that is reopened at every restart: the recovered log must be the log that was saved.'),
   note=E1_NOTE + '. ' + E2_NOTE),
 'C03': dict(engine='raftsim', category='exploration', design='DESIGN.md section 4 C03',
   technique='runtime monitoring: term->leader map, durable and sent votes per (replica, term), vote-quorum and leader-completeness checks at every LeaderUpdated event of the simulation',
   text=('Every LeaderUpdated event of every replica feeds a single-valued term->leader map; every persisted vote, granted RequestVoteResp and RequestVote feeds a single-valued '
         '(replica, term)->candidate map that survives restarts; a new leader must have received granted votes from a quorum of its voting members and must hold every entry committed so far; no replica campaigns while a committed membership change is not yet applied by it. '
         'With a real log store under the replicas (one case in eight) the hard state recovered at a restart must carry the term and the vote that were saved. Matrix PreVote x CheckQuorum x sizes 1-5 x non-voting/witness joins x membership changes x transfers x crash points.'),
   note=E1_NOTE),
 'C06': dict(engine='raftsim+clusterrun', category='exploration', design='DESIGN.md section 4 C06',
   technique='runtime monitoring: global-view monitor comparing every released read index with the maximum commit index of any replica at request time, plus leadership-confirmation accounting per read context',
   text=('For every ReadIndex context: the index released to the requester is >= the highest commit index any replica had when the request was issued; the answering replica was the leader of the term stamped on the answer, '
         'had committed in that term, and a quorum of its voting members handled one of its heartbeats and had a response handled by it after the request arrived. Local, forwarded and batched requests, deposed leaders, partitions, heartbeat loss/duplication/reordering, membership changes.'),
   note=E1_NOTE + '; duplication of ReadIndex *request* messages is excluded (see DESIGN.md observations); the clause "released only after local applied index reached the index" is enforced by the mini-node itself in E1; the real request.go / node.go path (batching of read requests, contexts, release at the local applied index) is the E2 readstorm stage: a slowly applying follower under a storm of linearizable reads while writers complete through the leader, decided by the exact history oracle. ' + E2_NOTE),
 'C07': dict(engine='rsmcheck+raftsim', category='exploration', design='DESIGN.md section 4 C07',
   technique='runtime monitoring: differential check of the real rsm.StateMachine membership handling against a reference of the stated rules (E5), plus cross-replica outcome/membership monitors in the simulation (E1)',
   text=('E5: random config-change streams (valid, invalid, ordered/unordered) through the real rsm.StateMachine, every accept/reject and resulting membership compared with a reference written from the statement, also across snapshot cuts. '
         'E1: per config-change index all replicas must report the same outcome and membership hash; the raft core member sets equal the applied membership; no campaign with a committed, unapplied membership change; C02/C03 monitors stay armed under concurrent changes and leader failure.'),
   note=E1_NOTE),

 'C04': dict(engine='clusterrun+storecheck+raftsim', category='fault_enumeration', design='DESIGN.md section 4 C04',
   technique='runtime monitoring with fault injection: durable shadow of every successful SaveRaftState checked against every outgoing vote / vote request / replication ack / heartbeat response in the step worker (hook), power-loss crashes at step-worker points and arbitrary moments with recovery comparison, full power loss with final reads',
   text=('M1: every RequestVote, granted RequestVoteResp, accepting ReplicateResp and HeartbeatResp is checked, in the goroutine that sends it, against the durable shadow (term, vote, entries) of its replica. '
         'M2: hosts lose power (unsynced data dropped) just before / just after SaveRaftState or at arbitrary moments; the reopened log store must dominate the shadow frozen at the crash instant. '
         'M3: after a power loss of all hosts every proposal reported Completed must be in the final lists. Pebble and Tan. Crash sites are enumerated by kind, crash instants within a site are sampled. '
         'Store half (E3 crash-tan / crash-pebble-plain stages): power loss at every mutating file-system operation of deterministic SaveRaftState workloads; every acknowledged hard state (term, vote, commit), entry and snapshot record must be readable after reopen. Simulator half (E1 stage): every vote request, vote grant, replication acknowledgement and heartbeat response is checked against the durable store of its sender when it leaves; with a real log store under the replicas the state and log recovered at a restart must be what was saved.'),
   note=E2_NOTE),
 'C05': dict(engine='rsmcheck+clusterrun', category='exploration', design='DESIGN.md section 4 C05',
   technique='runtime monitoring: differential check of the real rsm.StateMachine session handling against a reference session/LRU model over random register/propose/retry/acknowledge/unregister streams, with a snapshot twin at every index',
   text=('10k streams per quick run (more clients than the LRU limit): for every entry the model predicts whether the user state machine is called, the result, rejected and ignored flags; '
         'at every index a twin is recovered from a snapshot and must behave identically for the rest of the stream (session hash included); half of the twins are live lagging replicas that hold the sessions of a prefix and install the snapshot; the same streams also run through a concurrent state machine (batched apply path) with PRNG task boundaries.'),
   note='E5 is single replica, single-threaded: leader changes and restarts appear as duplicate placements and snapshot cuts. E2 sessions stage: clients with registered sessions retry timed-out proposals with the same series id through any host across leader changes, snapshots, crashes and restarts; unique payload ids make a second application, a wrong cached result or a lost acknowledged write visible in the final lists. ' + E2_NOTE),
 'C08': dict(engine='rsmcheck+clusterrun', category='exploration', design='DESIGN.md section 4 C08',
   technique='runtime monitoring: twin replicas (full replay vs snapshot + suffix) over the real snapshotter and state machine adapters at every cut index; online assertion in the log store wrapper that compaction never passes a recoverable snapshot',
   text=('E5: for random streams and every cut, regular / concurrent / on-disk state machines, with and without compression: user state, sessions, membership, index and term of the recovered twin equal the uninterrupted replica; file-transfer and streamed followers included. '
         'E2 replay stage: chaos lifetimes with frequent snapshots and short logs plus catch-up cycles (followers cut off / crashed until the log they miss is compacted, repaired by file or streamed snapshot while entries keep being applied, a non-voting replica joining from nothing, dwelling PrepareSnapshot); afterwards the state of every replica must equal the replay of the whole committed log (union of the apply records of all state machine incarnations) up to the last entry it holds; every RemoveEntriesTo is checked against the recorded snapshot (index and file validity).'),
   note=E2_NOTE),
 'C09': dict(engine='storecheck', category='exploration', design='DESIGN.md section 4 C09',
   technique='runtime monitoring: model-based differential test of the real log stores (sharded Pebble plain + batched, Tan regular + multiplexed) against a reference logical log after every operation and reopen',
   text=('Random and scripted operation sequences over several (shard, replica) pairs sharing a store: saves with overwrites of shorter newer-term suffixes, snapshot records, compaction, node removal, import, reopen; '
         'after every operation ReadRaftState, IterateEntries (random ranges and size limits), GetSnapshot, ListNodeInfo, GetBootstrapInfo are compared with the model. Two known findings for multiplexed Tan are listed in KNOWN_FINDINGS.txt.'),
   note='sequences are generated, not enumerated; preconditions of the ILogDB interface are respected by the generator'),
 'C10': dict(engine='storecheck', category='fault_enumeration', design='DESIGN.md section 4 C10',
   technique='fault enumeration at run time: power loss at every mutating file-system operation of deterministic workloads (all unsynced data dropped) with recovery comparison, and an injected I/O error at file-system operations and at every KV-store call (child process per injection)',
   text=('Every FS operation k of every workload is a crash point: the reopened store must hold every acknowledged save completely and the interrupted save all-or-nothing per replica. '
         'Every KV call index and sampled FS operations get an injected error: the API call in flight must fail (error, panic or process exit), never return success having persisted nothing. All four store flavours.'),
   note='Pebble background work makes operation numbering slightly schedule dependent (the site actually hit is recorded; exhaustive is not claimed); torn unsynced tails are run as a diagnostic only (beyond the property fault model)'),
 'C11': dict(engine='clusterrun', category='exploration', design='DESIGN.md section 4 C11',
   technique='runtime monitoring: instrumented user state machines of all three kinds check the call contract online (interval monitor under its own mutex); the Go race detector is a second oracle through a deliberately unsynchronised field',
   text=('Three shards (regular, concurrent, on-disk) under proposals, stale / linearizable / delayed local reads, periodic and requested snapshots, a lagging follower, StopShard / StopReplica / restart and NodeHost close under load: '
         'Update indexes strictly increase per incarnation, no forbidden overlap among Update/Sync/PrepareSnapshot/RecoverFromSnapshot/Close (+ Lookup/SaveSnapshot for the plain SM), nothing after Close, on-disk SM never handed an index at or below Open. '
         'Catch-up cases add streamed and file snapshots to lagging replicas during continuous writes, periodic Sync, requested and exported snapshots on every replica, with PrepareSnapshot and Sync dwelling 1-4 ms; snapshots are requested right before stops and closes; restarts with Config.WaitReady race with a stop of the same replica during a dwelling RecoverFromSnapshot.'),
   note=E2_NOTE + '; race reports are attributed to C11 only if a frame of the instrumented state machine is on a stack'),
 'C12': dict(engine='clusterrun', category='exploration', design='DESIGN.md section 4 C12',
   technique='runtime monitoring: a watcher per accepted request drains its result channel until quiescence; unique payload ids tie results to requests; apply stamps of the instrumented state machine give applied-before-completed; race reports with request.go frames are attributed',
   text=('Every accepted Propose / ReadIndex / config change / RequestSnapshot / QueryRaftLog is followed to quiescence (after StopShard / NodeHost.Close returned): exactly one terminal result, at most one commit notification before it, '
         'Completed carries the requester own id and follows the local apply, Dropped/Rejected proposals are never applied. Short timeouts, immediate Release and reuse, NotifyCommit on/off, leader isolation, stops and closes under load, delays at the hand-over windows. Synchronous clients whose context expires near the running completion latency, or is cancelled from inside Update when their own entry is applied, must get the result of their own payload. In every E2 workload a client waits for a result only until its replica has processed 4x the deadline in ticks (+200): a request that is never answered is reported, not waited for.'),
   note=E2_NOTE + '; expiry is decided in logical time: the NodeTick hook counts the ticks the accepting replica processed, a request without a terminal result after its timeout plus 300 more ticks is a violation (the slack covers the expiry granularity and, generously, the lag of the watcher goroutine); wall clocks decide nothing'),

 'C14': dict(engine='snapcheck', category='exploration', design='DESIGN.md section 4 C14',
   technique='runtime monitoring of the real snapshot writer / reader / validator on generated payloads around the block boundaries, with exhaustive bit flips of header, block checksums and tail and sampled payload flips, truncations and extensions of chunk streams',
   text=('Random payload lengths around the 2 MB block size and its multiples, random write and read segmentations, both compression settings, both format versions on the read side (the writers get a private copy of the payload so that a writer scribbling over its input cannot agree with itself): bytes read back are identical, recorded size and checksum match the file, shrunk files reload as empty payload. '
         'Every flipped bit either fails the load or yields the original bytes; the stream validator accepts exactly what the writer produces for any chunking and rejects every truncation, extension and covered flip; the receiver side (real transport.Chunk fed with corrupted / truncated chunk scripts, with and without external files) never finalizes such a stream.'),
   note='the header checksum slot of files written by SnapshotWriter is zero by design (the reader skips the check): flips there are counted, not judged; input space sampled around the boundaries'),
 'C15': dict(engine='snapcheck', category='exploration', design='DESIGN.md section 4 C15',
   technique='runtime monitoring: the real sender-side splitter and receiver (transport.Chunk) driven with perturbed chunk scripts against a predictor written from the statement; directory contents compared byte for byte',
   text=('192k scripts per quick run: snapshots with 0-3 external files and streamed snapshots are split by the real sender code; drop / swap / duplicate / interleave (two senders, two indexes) / corrupt / restart / wrong deployment id or version / removed replica / path escape / ticks anywhere; '
         'the receiver must finalize iff the accepted chunks form the complete valid sequence, notify exactly once, produce byte-identical files, leave no temporary directory after the timeout, and never create a file outside the snapshot directory.'),
   note='no network in this check (TCP framing is C13); the parallel feed variant is not built with -race'),
 'C16': dict(engine='rsmcheck+clusterrun', category='fault_enumeration', design='DESIGN.md section 4 C16',
   technique='fault enumeration at run time: power loss at every file-system operation of the real snapshotter sequences (save+commit, receive+record+flag removal, shrink, compact, racing local save / incoming snapshot) followed by start-up cleanup and a directory / record / load oracle',
   text=('For every operation k of every sequence: crash, ResetToSyncedState, reopen log store, processOrphans; then only complete snapshot directories remain, the recorded snapshot exists and validates, no temporary or flagged directory is left, the record never goes backwards, Load reproduces the saved state. '
         'The real Pebble log store runs on the same crash file system so that record-versus-directory ordering is real.'),
   note='white-box level (snapshotter + SSEnv + log store); E2 importer stage (imported / shrunk clauses at node level): after an import the repaired hosts lose power at their first SaveRaftState, right after the first start and after a second restart, and must come back with the exported state. ' + E2_NOTE),
 'C13': dict(engine='codeccheck+rsmcheck', category='exploration', design='DESIGN.md section 4 C13',
   technique='runtime monitoring of the real codecs on structure-aware generated values (boundary sets), canary-guarded MarshalTo buffers, and corrupted/truncated real TCP frames fed to the real reader',
   text=('About 1M generated values per quick run over every persisted/wire type: decode(encode(v)) == v up to listed normalisations, encoded length <= Size()/SizeUpperLimit(), MarshalTo never writes outside the advertised size (canaries), '
         'payload codec identity for both compression settings; real frames with every single-bit flip of magic+header, sampled payload flips/bursts and truncations are rejected or delivered intact. rsmcheck/payload: the decode step of the apply path (per-entry and batched) for plain, encoded and Snappy-encoded entries - the command bytes reaching the user state machine equal the proposed payload.'),
   note='input space sampled around the stated boundaries, not enumerated; CRC32 detects injected damage classes by construction (bursts <= 32 bits)'),
 'C17': dict(engine='raftsim+clusterrun+compcheck', category='exploration', design='DESIGN.md section 4 C17',
   technique='runtime monitoring of bounded progress in logical ticks: after a seeded fault prefix a fair schedule must reach leader + proposal + read + membership change + snapshot + catch-up within 60 election timeouts, confirmed under three re-seeded fair phases',
   text=('Bounded restatement of liveness (a finite run cannot decide "eventually"): after every explored fault prefix (loss, partitions, crashes, restarts, membership changes, transfers) the fair phase must converge within 60 election timeouts of logical ticks; '
         'a miss counts only if three re-seeded fair phases from the same prefix all miss and every running replica operates under a membership with a running majority. '
         'E2 progress stage (real NodeHosts, PreVote/CheckQuorum/Quiesce matrix, non-voting and witness members): fault prefix, a no-quorum probe (requests must end, not hang), then a fault-free period in which a leader, completion of proposals / reads through every replica / a membership change / a snapshot request, and catch-up of every reachable replica are required within bounds counted in ticks processed per replica (NodeTick hook) and dragonboat tick-based deadlines; directed prefixes: the leader of witness-dependent shards loses power between send and persist; a quiescent shard loses its leader and is then only asked to make proposals; a replica streams a snapshot and must still save / recover snapshots afterwards; transport send queues give up idle connections after 300-900 ms. '
         'compcheck/msgqueue: the real server.MessageQueue against a reference model (accepted = delivered exactly once, delayed SnapshotStatus neither early nor lost), sequential and concurrent under the race detector.'),
   note=E1_NOTE + '; bounded progress, not liveness; wall clocks are watchdogs only (firing = inconclusive); rate limiting is driven in a quarter of the E1 cases and a third of the E2 progress cases. ' + E2_NOTE),
 'C18': dict(engine='raftsim+clusterrun', category='exploration', design='DESIGN.md section 4 C18',
   technique='runtime monitoring: role/kind monitors at every simulator step, inspection of every message addressed to a witness, quorum-set accounting at commit advances, elections and read confirmations',
   text=('At every step: a replica in candidate/leader role is a regular voter in its own view; campaigns only by voters; after applying its own removal a replica is not leader; every Replicate to a witness carries only metadata/config-change entries and every snapshot to a witness is a witness snapshot; '
         'a commit advance needs a quorum of voters+witnesses holding the entry; vote and read-confirmation quorums are counted over voting members only; the witness state machine never sees Update. '
         'E2 roles stage: 2 voters + witness + non-voting replica on real NodeHosts with voter partitions and witness restarts: every message to the witness inspected at the send hook, the witness state machine untouched, every client API call on the witness refused, no leader event ever names the witness or the non-voting replica.'),
   note=E1_NOTE + '. ' + E2_NOTE),
 'C19': dict(engine='logview', category='exploration', design='DESIGN.md section 4 C19',
   technique='runtime monitoring: model-based differential test of the real entryLog/inMemory over the real LogReader against a reference slice after every operation',
   text=('Random operation sequences (appends, conflicting follower appends above commit, commit advances, Update/Commit cycles with lagging apply acknowledgements, snapshot restores, LogReader compaction, in-memory resizing, late persistence acknowledgements); after each operation first/last index, term(i), ranges with size limits, entries to save and entries to apply are compared with the reference.'),
   note='the persistent store under the LogReader is a harness ILogDB (real stores are C09/C10); sequences are generated, not enumerated'),

 'C20': dict(engine='clusterrun', category='exploration', design='DESIGN.md section 4 C20',
   technique='runtime monitoring of the whole repair procedure on real NodeHosts: export, stop, invalid imports (refusal + unchanged file tree hash), valid import on every listed host, restart, then membership / state / leader / new proposal checks; corrupted exports must be refused or load exactly the exported state',
   text=('PRNG-chosen history, export point, store, state machine kind and new member list (subset of old members, old + entirely new ids on spare hosts, single member), optional removed and non-voting members before the export; '
         'six kinds of invalid request are tried before the valid one; after the restart every listed replica must hold exactly the exported state, report exactly the given members with the unlisted old ones removed, elect a leader and complete a proposal; then the repaired replicas are restarted again (gracefully, after a power loss, and - in other cases - crashed at their first SaveRaftState) and must still hold the exported state. An optional witness member before the export must be refused as a regular member and end up removed.'),
   note=E2_NOTE + '; the exported state is reconstructed from the apply records of the exporting replica up to the returned index'),
}

NOT_YET = {}
# claimed later: engines still under construction
HOLD = []
for _p in HOLD:
    CLAIMS.pop(_p, None)

WIRE = (' E2 wire stage: real NodeHosts on the real file system over dragonboat\'s own TCP transport on loopback behind byte-level proxies of the harness that flip bits and cut connections inside frames; '
        'snapshot chunk streams lose / repeat chunks and get payload bytes changed before framing; snapshot images carry a ballast of several blocks and 1-2 external files derived from the data, commands carry derived padding, '
        'all verified inside the user state machine (altered data must never reach it), plus the history oracle and the comparison of every replica with the replay of the committed log; hosts stop gracefully in this stage.')

EXTRA_TEXT = {
 'C02': ' E2 chaos stage (node level): over the apply records of every state machine incarnation of a lifetime of real NodeHosts under faults and power losses, an index is applied with one value only, the final lists are equal on all replicas and every replica equals the replay of the committed log. Half of the E1 cases that keep the raft state in a real log store use Tan (closed and reopened at every restart; what the reopened store reports is compared with what was saved, and the replica runs on it). In the E2 chaos-type stages snapshot images are compressed by all, none or some of the replicas, and a third of the cases run with small byte limits on the transport\'s send queues and the replicas\' receive queues.',
 'C01': WIRE + ' E2 learner stage (single voter + non-voting replica, power loss of the voter between sending Replicate and persisting): a proposal that ended without a result must not be visible on the non-voting replica only.',
 'C03': ' E2 members stage: LeaderUpdated events of every host of real NodeHosts during concurrent membership changes, leader isolation and leader transfer feed a single-valued (shard, term) -> leader map. E1: in a third of the cases a quarter of the applied membership changes run one step-worker iteration (with the ticks that piled up) after the state machine side of the change and before node.ApplyConfigChange hands it to the raft core (the two workers only meet at raftMu); a campaign launched in such a step is a violation.',
 'C04': ' E2 replay stage: power loss of a follower while it is being caught up by snapshot - at the exit of RecoverFromSnapshot, at the entry of the Sync that follows it (on-disk state machines), at the entry / exit of its own SaveSnapshot, a few milliseconds into the repair; it must restart (no panic) with everything it acknowledged; a replica that went through a recovery and differs from the replay of the committed log is reported to C04 as well.',
 'C07': ' E2 members stage (node level): 40-70 concurrent valid and invalid membership requests through several hosts of real NodeHosts under leader isolation / transfer / loss; the committed log is read back through QueryRaftLog, its config change entries are judged in log order by the reference of the stated rules, and the membership reported by every running replica as well as every definite request outcome must agree (entries the statement does not decide adopt the requester\'s outcome, else the case is not judged). E1: in a third of the cases a quarter of the applied membership changes run one step-worker iteration (with the ticks that piled up) after the state machine side of the change and before node.ApplyConfigChange hands it to the raft core (the two workers only meet at raftMu); a campaign launched in such a step is a violation.',
 'C08': WIRE + ' E4 chunks stage (power loss after every receiver script): a snapshot that was finalized and announced to the node must be durable byte for byte. Power loss of the follower during catch-up by snapshot (see C04). Directed compaction-back scenario: user requested snapshots whose compaction index moves back and forth (larger CompactionOverhead, explicit CompactionIndex) under writes; nothing may crash, every replica equals the replay of the log. Directed restart-during-send (the sender of a three-chunk image over a slow link records a newer snapshot and is restarted in-process) and restart-during-save (100 in-process restarts under continuous snapshot requests) scenarios. Directed restart-during-receive scenario (the receiver of the three-chunk image is restarted in-process after the first chunk; its start-up cleanup removes the receiving directory). Directed two-lagging-streams scenario: two followers of an on-disk shard of 5 voters lag beyond the compacted log together and are reconnected together, SaveSnapshot dwells so that the second stream request is refused while the first runs; both must be up to date within 2000 ticks of their own clocks. The restart-during-send / restart-during-receive scenarios and the new cut-during-transfer scenario (the link of the receiving host is cut while the rest of a three-chunk image is on its way; PreVote on, so that the leader that started the transfer has to repeat it) end with a verdict in ticks: the follower whose transfer was disturbed is up to date within 4000 ticks of its own clock once every link is up and the shard completes proposals.',
 'C11': ' E5 twins stage: below the node, a replica that restarts from its own snapshot, installs a file snapshot or is streamed one must have been delivered exactly the committed entries (through the snapshot or through Update, never both, never neither); on-disk state machines are never handed an entry at or below the index returned by Open; in half of the overlapped saves of a concurrent state machine an apply batch is already queued behind the lock when PrepareSnapshot returns.',
 'C12': ' One NoOP session object per host is kept across restarts; directed double in-process restart of a replica (the next incarnation makes its first proposals while the previous incarnation\'s proposals are replayed slowly); expiry is decided in ticks of the accepting replica (timeout + 300 ticks), log queries included (timeout 0); PreVote in half of the cases; during the expiry drain of half of the cases one host is cut off and sent requests of every kind (log queries must still be answered). Three clients issue Propose / ReadIndex and release the request after 0-12 ms without taking its result (an object released with an unconsumed result goes back to the pool; whoever gets it next must not see that result).',
 'C13': WIRE + ' The frames stage includes frames whose payload CRC32 or header CRC32 is a boundary value of the checksum field (0, 2^32-1, 1, 2^31; four command bytes solved over GF(2)), each with the full set of damages.',
 'C14': WIRE + ' snapcheck/rw ends every batch with a concurrent phase: 8 readers load 6 images (1.5-3 blocks and small ones) at overlapping times with PRNG read sizes while 2 writers produce and verify new images; every load must be byte-identical.',
 'C15': WIRE + ' The chunks stage runs on a strict file system and ends every script with a power loss (finalized, announced snapshots must survive byte for byte).',
 'C16': ' Node level (E2 replay stage): whenever a host comes back - after a power loss at step-worker points, at call boundaries of the user state machine (snapshot save / recovery / sync), at the log store boundary (a snapshot record that became durable ahead of the durable commit index) or at arbitrary moments, or after a graceful stop - the real start-up cleanup (snapshotter.processOrphans) is run on the reopened log store before the replica starts and the directory oracle is applied: only the recorded snapshot remains, complete and loadable, no temporary, flagged or unrecorded directory. E4 chunks stage: power loss after every receiver script, a finalized and announced snapshot must survive byte for byte. Importer stage: on one listed host the import tool first runs with the power cut right before or right after it rewrites the log store (it runs to its end on a disk that no longer persists anything); after the reboot the real start-up cleanup and the same directory oracle are applied (a snapshot that the log store records exists, complete and loadable), then the import is repeated. One known finding of that stage is listed in KNOWN_FINDINGS.txt (power loss before the log store is rewritten, on a host that holds old data of the replica: the old snapshot directories are already removed); the same oracle at the other site and at every other restart stays armed.',
 'C17': ' A quarter of the E1 cases run with rate limiting (MaxInMemLogSize 2-18 KB, padded proposals, the mini-node holds proposals back while the peer reports RateLimited as node.go does). Directed E2 case: 2 voters + witness, snapshots covering the AddWitness entry, the follower host restarts, the leader host stays down - the follower must lead with the witness within 400 ticks and complete a proposal. A third of the E2 progress cases run with rate limiting (MaxInMemLogSize 8-72 KB, commands up to 1.5 KB, a slowly applying voter, bursts of writers; proposals refused with ErrSystemBusy are counted). Directed prefixes of the fifth session: two followers of an on-disk shard that need a streamed snapshot at the same time (the second request is refused while the first stream runs), and a snapshot transfer disturbed by an in-process restart of the receiver or by a cut of its link (PreVote on): the lagging replica catches up within 2000 / 4000 ticks of its own clock.',
 'C06': ' E2 readstorm stage: two more clients on the slow follower issue ReadIndex and release the request without taking its result (one every 10-30 ms): a read that gets such a pooled object must still be confirmed and wait for its index.',
 'C10': ' In every second fault workload the last SaveRaftState carries up to three entries of 40-70 KB (one Tan record of several 32 KB blocks, a large Pebble batch); every file-system operation of that save is a fault point in the quick tier too.',
}

EXTRA_ENGINE = {'C01': 'raftsim+clusterrun', 'C03': 'raftsim+clusterrun', 'C07': 'rsmcheck+raftsim+clusterrun', 'C11': 'clusterrun+rsmcheck', 'C13': 'codeccheck+rsmcheck+clusterrun',
                'C14': 'snapcheck+clusterrun', 'C15': 'snapcheck+clusterrun', 'C16': 'rsmcheck+clusterrun+snapcheck', 'C08': 'rsmcheck+clusterrun+snapcheck'}


def main():
    checks = []
    for p in PROPS:
        if p not in CLAIMS:
            continue
        c = CLAIMS[p]
        checks.append({
            'property_id': p,
            'quick_cmd': f'./check {p} quick',
            'thorough_cmd': f'./check {p} thorough',
            'evidence_file': f'/verif/evidence/{p}.json',
            'replay_cmd_template': './check --replay {path}',
            'engine': EXTRA_ENGINE.get(p, c['engine']),
            'level_claimed': {'category': c['category'], 'text': c['text'] + EXTRA_TEXT.get(p, ''), 'design_ref': c['design']},
            'level_note': c['note'],
            'technique': c['technique'],
        })
    na = []
    for p in PROPS:
        if p in CLAIMS:
            continue
        na.append({'property_id': p, 'reason': NOT_YET.get(p, 'check under construction in this session (DESIGN.md section 7 build order); not claimed until its monitor is built and silent on the unchanged tree')})
    commits = subprocess.run("git -C /repo log --format=%H --grep='^verif hook'", shell=True, capture_output=True, text=True).stdout.split()
    m = {
        'version': 1,
        'setup_cmd': './check --setup',
        'hooks': {
            'guard': 'verif',
            'enable': 'go build -tags verif (the harness module github.com/lni/dragonboat/v4/verifh replaces github.com/lni/dragonboat/v4 with /repo)',
            'baseline_off_cmd': 'cd /repo && go test -vet=off -count=1 -timeout 25m ./...',
            'source_commits': list(reversed(commits)),
            'add_only': True,
        },
        'engines': [
            {'name': 'raftsim', 'path': 'harness/raftsim, harness/cmd/raftsim', 'serves_properties': ['C01', 'C02', 'C03', 'C04', 'C06', 'C07', 'C17', 'C18'], 'kind_free_text': 'E1: deterministic single-goroutine simulation of a shard of real raft.Peer + LogReader + rsm.StateMachine replicas with global-view monitors'},
            {'name': 'codeccheck', 'path': 'harness/cmd/codeccheck', 'serves_properties': ['C13'], 'kind_free_text': 'E4: codec round-trip / size-bound / frame corruption monitor'},
            {'name': 'clusterrun', 'path': 'harness/cluster, harness/cmd/clusterrun', 'serves_properties': ['C01', 'C02', 'C03', 'C04', 'C05', 'C06', 'C07', 'C08', 'C11', 'C12', 'C13', 'C14', 'C15', 'C16', 'C17', 'C18', 'C20'], 'kind_free_text': 'E2: real NodeHosts in-process, fault injecting transport (in-process, or the real TCP transport behind corrupting proxies in the wire stage), strict in-memory FS with power-loss crashes (real FS in the wire stage), instrumented state machines, request watchers'},
            {'name': 'rsmcheck', 'path': 'harness/cmd/rsmcheck', 'serves_properties': ['C05', 'C07', 'C08', 'C11', 'C13', 'C16'], 'kind_free_text': 'E5: real rsm.StateMachine / snapshotter driven with synthetic streams, reference models, twins, crash enumeration'},
            {'name': 'storecheck', 'path': 'harness/cmd/storecheck', 'serves_properties': ['C04', 'C09', 'C10'], 'kind_free_text': 'E3: real ILogDB implementations against a reference model, crash and error injection'},
            {'name': 'snapcheck', 'path': 'harness/cmd/snapcheck', 'serves_properties': ['C08', 'C14', 'C15', 'C16'], 'kind_free_text': 'E4: snapshot file reader/writer/validator and chunk receiver monitors'},
            {'name': 'compcheck', 'path': 'harness/cmd/compcheck', 'serves_properties': ['C17'], 'kind_free_text': 'component monitors: server.MessageQueue against a reference delivery model'},
            {'name': 'logview', 'path': 'harness/cmd/logview', 'serves_properties': ['C19'], 'kind_free_text': 'E6: entryLog + LogReader against a reference slice'},
        ],
        'checks': checks,
        'notes': 'Technique family: runtime monitoring and sanitizers. Every check rebuilds its engines from /repo with -tags verif; see DESIGN.md.',
        'not_applicable': na,
    }
    json.dump(m, open('/verif/MANIFEST.json', 'w'), indent=1)
    print('claimed', [c['property_id'] for c in checks])

main()
