#!/usr/bin/env python3
"""Self-made seeded breaks (the M lists of DESIGN.md): apply one at a time to a
scratch worktree of /repo, run the named check against it with VERIF_REPO, and
report whether the check fired. Usage: mutate.py [-t tier] [name ...] (default all)."""
import subprocess, sys, os, json, time
WT = '/tmp/wt-mut'
ENV = dict(os.environ, GOFLAGS='-mod=mod', GOPROXY='off', GOSUMDB='off', GOTOOLCHAIN='local')

def sh(cmd, **kw):
    return subprocess.run(cmd, shell=True, capture_output=True, text=True, env=ENV, **kw)

def ensure_wt():
    if not os.path.isdir(WT):
        r = sh(f'git -C /repo worktree add --detach {WT} HEAD')
        assert r.returncode == 0, r.stderr
    sh(f'git -C {WT} checkout -- . && git -C {WT} clean -fdq')
    # untracked verif hook files of engines under construction
    sh(f"cd /repo && git ls-files --others --exclude-standard | grep verif_export | while read f; do cp /repo/$f {WT}/$f; done")

from mutations import MUTS

def apply(m):
    for path, old, new in m['edits']:
        p = os.path.join(WT, path)
        s = open(p).read()
        assert s.count(old) == 1, (m['name'], path, s.count(old))
        open(p, 'w').write(s.replace(old, new))

def main():
    tier = 'quick'
    args = sys.argv[1:]
    if args and args[0] == '-t':
        tier = args[1]; args = args[2:]
    names = args
    res = []
    for m in MUTS:
        if names and m['name'] not in names:
            continue
        ensure_wt()
        apply(m)
        b = sh('go build ./... ', cwd=WT)
        if b.returncode != 0:
            print(m['name'], 'DOES NOT COMPILE', b.stderr[:300]); continue
        for prop in m['props']:
            t = time.time()
            r = sh(f'VERIF_REPO={WT} ./check {prop} {tier}', cwd='/verif')
            keys = sorted(set(l.split('key=')[1].split(' what=')[0] for l in r.stdout.splitlines() if 'key=' in l))
            print(f"{m['name']:40s} {prop} rc={r.returncode} {time.time()-t:5.0f}s keys={keys[:4]}", flush=True)
            res.append((m['name'], prop, r.returncode, keys[:4]))
    ensure_wt()
    json.dump(res, open('/verif/.build/mutate_results.json', 'w'), indent=1)

if __name__ == '__main__':
    sys.path.insert(0, os.path.dirname(os.path.abspath(__file__)))
    main()
