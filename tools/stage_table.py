#!/usr/bin/env python3
"""Print DESIGN.md section 8.7 from `vtool list`, the latest silence sweep log and the thorough logs."""
import subprocess, re, glob
lst = subprocess.run(['/verif/.build/vtool', 'list'], capture_output=True, text=True).stdout.splitlines()
quick, thor = {}, {}
for f in sorted(glob.glob('/verif/.build/sweep*.log')):
    for l in open(f):
        m = re.match(r'seed=(\d+) (C\d+) rc=0 .*evaluations=(\d+) distinct_nontrivial=(\d+).*wall=(\d+)s', l)
        if m:
            quick.setdefault(m.group(2), {})[f + m.group(1)] = (int(m.group(5)), int(m.group(3)), int(m.group(4)))
for f in sorted(glob.glob('/verif/.build/thorough*.log')):
    for l in open(f):
        m = re.match(r'(C\d+) thorough rc=0 (\d+)s .*evaluations=(\d+) distinct_nontrivial=(\d+)', l)
        if m:
            thor[m.group(1)] = (int(m.group(2)), int(m.group(3)), int(m.group(4)))
print('### 8.7 Stages per property as built, and what a run costs\n')
print('`./check list` prints the stages from the plans. Quick: evaluations / distinct non-trivial cases of the latest sweep and the range of wall times over the seeds of the final silence sweeps; thorough: one run at seed 1 (16 cores, sometimes shared with other work).\n')
print('| property | level | stages | quick: evaluations / distinct non-trivial / wall | thorough: evaluations / distinct non-trivial / wall |')
print('|---|---|---|---|---|')
for l in lst:
    if 'SELF' in l:
        continue
    pid, rest = l.split(' ', 1)
    lvl = rest[rest.index('[') + 1:rest.index(']')]
    stages = rest[rest.index(']') + 2:]
    q = list(quick.get(pid, {}).values())
    qs = f"{q[-1][1]} / {q[-1][2]} / {min(x[0] for x in q)}-{max(x[0] for x in q)} s" if q else '-'
    t = thor.get(pid)
    ts = f"{t[1]} / {t[2]} / {t[0]} s" if t else '-'
    print(f"| {pid} | {lvl} | {stages} | {qs} | {ts} |")
