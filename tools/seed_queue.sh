#!/bin/bash
# run seed_eval.py for every line "worktree name property [checks...]" of the given file, one after another
while read -r line; do
  [ -z "$line" ] && continue
  python3 /verif/tools/seed_eval.py $line
done < "$1"
