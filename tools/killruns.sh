#!/bin/bash
# stop background check / seed evaluation / thorough processes (patterns live in this file so that the calling shell is not matched)
for pat in "seed_queue.sh" "seed_eval.py" "seed_confirm.py" "tools/thorough.sh" "tools/sweep.sh" "vtool check" "/verif/.build/.*-prop C"; do
  for p in $(pgrep -f "$pat"); do
    [ "$p" != "$$" ] && kill -9 "$p" 2>/dev/null
  done
done
sleep 1
pgrep -fl "seed_queue|seed_eval|seed_confirm|thorough.sh|sweep.sh|vtool check|-prop C" | grep -v killruns || true
