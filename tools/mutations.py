R = 'internal/raft/raft.go'
L = 'internal/raft/logentry.go'
MUTS = [
 dict(name='c02-drop-committed-guard', props=['C02'], edits=[(R, '''	if m.LogIndex < r.log.committed {
		resp.LogIndex = r.log.committed
		r.send(resp)
		return nil
	}
	ok, err := r.log.matchTerm(m.LogIndex, m.LogTerm)''', '''	ok, err := r.log.matchTerm(m.LogIndex, m.LogTerm)''')]),
 dict(name='c02-commit-old-term-by-counting', props=['C02', 'C03'], edits=[(L, '''	if index > l.committed && lterm == term {
		l.commitTo(index)''', '''	if index > l.committed && lterm != 0 {
		l.commitTo(index)''')]),
 dict(name='c02-truncate-below-commit', props=['C02'], edits=[(L, '''		if conflictIndex <= l.committed {
			plog.Panicf("entry %d conflicts with committed entry, committed %d",
				conflictIndex, l.committed)
		}
''', ''), (L, '''	if entries[0].Index <= l.committed {
		plog.Panicf("committed entries being changed, committed %d, first idx %d",
			l.committed, entries[0].Index)
	}
''', '')]),
 dict(name='c02-uptodate-always', props=['C02', 'C03'], edits=[(L, '''	if term >= lastTerm {
		if term > lastTerm {
			return true, nil
		}
		return index >= l.lastIndex(), nil
	}
	return false, nil''', '''	_ = lastTerm
	return true, nil''')]),
 dict(name='c03-vote-not-loaded', props=['C03'], edits=[(R, '''	r.term = st.Term
	r.vote = st.Vote
}''', '''	r.term = st.Term
}''')]),
 dict(name='c03-cangrantvote-always', props=['C03'], edits=[(R, '''	return r.vote == NoNode || r.vote == m.From || m.Term > r.term
}''', '''	return true
}''')]),
 dict(name='c03-skip-pending-cc-check', props=['C03', 'C07'], edits=[(R, '''		if r.hasConfigChangeToApply() {
			plog.Warningf("%s campaign skipped, pending config change",''', '''		if false && r.hasConfigChangeToApply() {
			plog.Warningf("%s campaign skipped, pending config change",''')]),
 dict(name='c06-drop-committed-in-term-check', props=['C06'], edits=[(R, '''		if !r.hasCommittedEntryAtCurrentTerm() {
			// leader doesn't know the commit value of the shard''', '''		if false && !r.hasCommittedEntryAtCurrentTerm() {
			// leader doesn't know the commit value of the shard''')]),
 dict(name='c06-confirm-quorum-minus-one', props=['C06'], edits=[('internal/raft/readindex.go', '''	if len(p.confirmed)+1 < quorum {''', '''	if len(p.confirmed)+2 < quorum {''')]),
 dict(name='c06-answer-without-heartbeat', props=['C06', 'C01'], edits=[(R, '''		r.readIndex.addRequest(r.log.committed, ctx, m.From)
		r.broadcastHeartbeatMessageWithHint(ctx)
	} else {''', '''		r.readIndex.addRequest(r.log.committed, ctx, m.From)
		r.broadcastHeartbeatMessageWithHint(ctx)
		r.handleReadIndexLeaderConfirmation(pb.Message{From: r.replicaID, Hint: ctx.Low, HintHigh: ctx.High})
		r.handleReadIndexLeaderConfirmation(pb.Message{From: NoNode, Hint: ctx.Low, HintHigh: ctx.High})
	} else {''')]),
 dict(name='c18-trycommit-counts-nonvoting', props=['C18', 'C02'], edits=[(R, '''	idx := 0
	for _, v := range r.remotes {
		r.matched[idx] = v.match
		idx++
	}
	for _, v := range r.witnesses {
		r.matched[idx] = v.match
		idx++
	}
	r.sortMatchValues()
	q := r.matched[r.numVotingMembers()-r.quorum()]''', '''	all := make([]uint64, 0)
	for _, v := range r.remotes {
		all = append(all, v.match)
	}
	for _, v := range r.witnesses {
		all = append(all, v.match)
	}
	for _, v := range r.nonVotings {
		all = append(all, v.match)
	}
	sort.Slice(all, func(i, j int) bool { return all[i] < all[j] })
	q := all[len(all)-r.quorum()]''')]),
 dict(name='c18-real-entries-to-witness', props=['C18'], edits=[(R, '''	if _, ok := r.witnesses[to]; ok {
		entries = makeMetadataEntries(entries)
	}''', '''	if _, ok := r.witnesses[to]; ok && len(entries) > 3 {
		entries = makeMetadataEntries(entries)
	}''')]),
 dict(name='c18-nonvoting-vote-counted', props=['C18', 'C03'], edits=[('internal/raft/peer.go', '''	if rok || ook || wok || !isResponseMessageType(m.Type) {
		return p.raft.Handle(m)
	}
	return nil''', '''	_, _, _ = rok, ook, wok
	return p.raft.Handle(m)''')]),
 dict(name='c17-drop-wait-to-retry', props=['C17'], edits=[(R, '''	rp.setActive()
	rp.waitToRetry()
	if rp.match < r.log.lastIndex() {''', '''	rp.setActive()
	if rp.match < r.log.lastIndex() {''')]),
 dict(name='c17-never-abort-transfer', props=['C17'], edits=[(R, '''	if timeToAbortLeaderTransfer {
		r.abortLeaderTransfer()
	}''', '''	_ = timeToAbortLeaderTransfer''')]),
]

MUTS += [
 dict(name='c04-send-before-save', props=['C04'], edits=[('engine.go', '''	verifhook.Updates(verifhook.PreSave, nodeUpdates)
	if err := e.logdb.SaveRaftState(nodeUpdates, workerID); err != nil {
		return err
	}''', '''	for _, ud := range nodeUpdates {
		nodes[ud.ShardID].sendMessages(ud.Messages)
	}
	verifhook.Updates(verifhook.PreSave, nodeUpdates)
	if err := e.logdb.SaveRaftState(nodeUpdates, workerID); err != nil {
		return err
	}'''), ('node.go', '''	n.sendMessages(ud.Messages)
	if err := n.removeLog(); err != nil {''', '''	if err := n.removeLog(); err != nil {''')]),
 dict(name='c04-pebble-nosync', props=['C04'], edits=[('internal/logdb/kv/pebble/kv_pebble.go', '''	wo := &pebble.WriteOptions{Sync: true}''', '''	wo := &pebble.WriteOptions{Sync: false}''')]),
 dict(name='c04-tan-skip-sync-on-state', props=['C04'], edits=[('internal/tan/db.go', '''		len(u.EntriesToSave) > 0 || stateSyncChange(u.State, st)''', '''		len(u.EntriesToSave) > 0''')]),
]

MUTS += [
 dict(name='c20-skip-checkmembers', props=['C20'], edits=[('tools/import.go', '''	if err := checkMembers(oldss.Membership, memberNodes); err != nil {
		return err
	}''', '''	if err := checkMembers(oldss.Membership, memberNodes); err != nil && len(memberNodes) > 3 {
		return err
	}''')]),
 dict(name='c20-unlisted-not-removed', props=['C20'], edits=[('tools/import.go', '''	for nid := range old.Membership.Addresses {
		_, ok := members[nid]
		if !ok {
			ss.Membership.Removed[nid] = true
		}
	}''', '''	for nid := range old.Membership.Addresses {
		_, ok := members[nid]
		if !ok && nid > 2 {
			ss.Membership.Removed[nid] = true
		}
	}''')]),
 dict(name='c20-ondisk-ignore-imported', props=['C20'], edits=[('internal/rsm/statemachine.go', '''	if init {
		if ss.Imported {
			return true
		}
		return ss.OnDiskIndex > s.onDiskInitIndex
	}''', '''	if init {
		return ss.OnDiskIndex > s.onDiskInitIndex
	}''')]),
]
