#!/bin/bash
# thorough tier of the given properties (default all), one after another; one line per run
cd /verif
props=${@:-"C13 C19 C15 C14 C16 C09 C10 C20 C12 C11 C05 C08 C18 C06 C03 C07 C02 C04 C17 C01"}
for p in $props; do
  t0=$(date +%s)
  out=$(./check $p thorough 2>&1); rc=$?
  echo "$p thorough rc=$rc $(( $(date +%s) - t0 ))s $(echo "$out" | grep -c '^VIOLATION') violation lines; $(echo "$out" | tail -1 | cut -c1-130)"
  if [ $rc -ne 0 ]; then echo "$out" | grep -A1 '^VIOLATION' | head -8; echo "$out" | grep -i "inconclusive" | head -3; fi
  [ -z "$VERIF_REPO" ] && mkdir -p /verif/.build/evidence-thorough && cp /verif/evidence/$p.json /verif/.build/evidence-thorough/$p.json
done
