#!/bin/bash
# processes the lines "worktree name property [checks...]" appended to the queue file, one after another, until a line "END"
export GOFLAGS=-mod=mod GOPROXY=off GOSUMDB=off GOTOOLCHAIN=local SEED_QUICK_ONLY=${SEED_QUICK_ONLY-1}
q=${1:-/verif/.build/seedq.txt}
n=0
touch "$q"
while true; do
  total=$(wc -l < "$q")
  if [ "$n" -lt "$total" ]; then
    n=$((n+1))
    line=$(sed -n "${n}p" "$q")
    [ "$line" = "END" ] && exit 0
    [ -z "$line" ] && continue
    python3 /verif/tools/seed_eval.py $line
  else
    sleep 15
  fi
done
