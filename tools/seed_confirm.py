#!/usr/bin/env python3
"""Final confirmation of the seeded changes kept under /verif/seeded/<name>/ against /repo itself:
    git -C /repo apply seeded/<name>/patch.diff ; run the checks ; git -C /repo checkout -- .
The checks build from /repo's (patched) working tree and write /verif/evidence/<id>.json like any run:
those files are NOT committed, the evidence is regenerated on the unchanged tree afterwards.
Nothing is ever committed in /repo.
Usage: seed_confirm.py [name ...]        (default: every directory under /verif/seeded)
       SEED_TIER=thorough seed_confirm.py name   (default tier: quick)"""
import json, os, subprocess, sys, time

ENV = dict(os.environ, GOFLAGS='-mod=mod', GOPROXY='off', GOSUMDB='off', GOTOOLCHAIN='local', VERIF_REPO='/repo')
TIER = os.environ.get('SEED_TIER', 'quick')

def sh(cmd, cwd=None, timeout=None):
    return subprocess.run(cmd, shell=True, cwd=cwd, env=ENV, capture_output=True, text=True, timeout=timeout)

def clean():
    return sh('git status --short', cwd='/repo').stdout.strip() == ''

def main():
    names = sys.argv[1:] or sorted(os.listdir('/verif/seeded'))
    if not clean():
        print('/repo working tree is not clean; refusing'); sys.exit(2)
    summary = []
    for name in names:
        d = f'/verif/seeded/{name}'
        mp = f'{d}/meta.json'
        meta = json.load(open(mp)) if os.path.exists(mp) else {'name': name}
        prop = meta.get('property') or name.split('-')[0]
        checks = meta.get('confirm_checks') or [prop]
        a = sh(f'git apply {d}/patch.diff', cwd='/repo')
        if a.returncode != 0:
            print(name, 'patch does not apply:', a.stderr.strip()[:200]); summary.append((name, 'patch-failed')); continue
        ran = []
        try:
            b = sh('go build ./... && go build -tags verif ./...', cwd='/repo', timeout=900)
            for c in checks:
                t = time.time()
                r = sh(f'./check {c} {TIER}', cwd='/verif', timeout=4 * 3600)
                keys = sorted(set(l.split('key=')[1].split(' what=')[0] for l in r.stdout.splitlines() if 'key=' in l))
                ran.append({'command': f'git -C /repo apply seeded/{name}/patch.diff; VERIF_REPO=/repo ./check {c} {TIER}; git -C /repo checkout -- .',
                            'builds': b.returncode == 0, 'exit': r.returncode, 'violation_lines': r.stdout.count('VIOLATION property='),
                            'keys': keys[:10], 'wall_s': round(time.time() - t)})
                print(name, c, TIER, 'rc', r.returncode, keys[:3], flush=True)
        finally:
            sh('git checkout -- .', cwd='/repo')
        assert clean(), 'could not restore /repo'
        meta.setdefault('confirmed_on_repo', {})[TIER] = ran
        meta['detected_on_repo_' + TIER] = any(x['exit'] == 1 for x in ran)
        json.dump(meta, open(mp, 'w'), indent=1)
        summary.append((name, [(x['command'].split('./check ')[1].split(';')[0], x['exit']) for x in ran]))
    print(json.dumps(summary, indent=1))

main()
