#!/bin/bash
# silence sweep against a clean scratch worktree of /repo (VERIF_REPO), so that /repo itself may be in use
# usage: tools/sweep_alt.sh <worktree> "seeds" [props...]
cd /verif
export GOFLAGS=-mod=mod GOPROXY=off GOSUMDB=off GOTOOLCHAIN=local
wt=$1; shift
seeds=${1:-"2 3"}; shift
props=${@:-"C01 C02 C03 C04 C05 C06 C07 C08 C09 C10 C11 C12 C13 C14 C15 C16 C17 C18 C19 C20"}
for s in $seeds; do for p in $props; do
  out=$(VERIF_REPO=$wt VERIF_SEED=$s ./check $p quick 2>&1); rc=$?
  echo "seed=$s $p rc=$rc $(echo "$out" | grep -c '^VIOLATION') violation lines; $(echo "$out" | tail -1 | cut -c1-110)"
  if [ $rc -ne 0 ]; then echo "$out" | grep -A1 '^VIOLATION\|INCONCLUSIVE' | head -8; fi
done; done
