// Package common holds what every engine shares: flag parsing, seed plumbing,
// the counters that become the evidence file, violation reporting with
// KNOWN_FINDINGS handling, and the part-file format the driver merges.
package common

import (
	"crypto/sha256"
	"encoding/hex"
	"encoding/json"
	"flag"
	"fmt"
	"hash/fnv"
	"math/rand"
	"os"
	"path/filepath"
	"regexp"
	"sort"
	"strings"
	"sync"
	"time"
)

// Finding is one line of KNOWN_FINDINGS.jsonl.
type Finding struct {
	Status   string `json:"status"` // "known" | "fixed"
	Property string `json:"property"`
	Key      string `json:"key"`
	Commit   string `json:"commit,omitempty"`
	What     string `json:"what"`
}

// ViolationRec is a violation as recorded in a part file.
type ViolationRec struct {
	Property string `json:"property"`
	Key      string `json:"key"`
	What     string `json:"what"`
	Replay   string `json:"replay"`
	Known    bool   `json:"known"`
}

// Part is what one engine process reports to the driver.
type Part struct {
	Property     string                 `json:"property"`
	Engine       string                 `json:"engine"`
	Mode         string                 `json:"mode"`
	Tier         string                 `json:"tier"`
	Seed         int64                  `json:"seed"`
	Batch        int                    `json:"batch"`
	Evaluations  int64                  `json:"evaluations"`
	Distinct     []string               `json:"distinct_hashes"` // hashes of distinct non-trivial cases
	Rule         string                 `json:"rule"`
	Samples      []interface{}          `json:"samples"`
	Counters     map[string]int64       `json:"counters"`
	Extra        map[string]interface{} `json:"extra,omitempty"`
	Violations   []ViolationRec         `json:"violations"`
	Inconclusive []string               `json:"inconclusive"`
	Assumptions  []string               `json:"assumptions"`
	Exhaustive   *bool                  `json:"exhaustive,omitempty"`
	WallS        float64                `json:"wall_s"`
	Finished     bool                   `json:"finished"`
}

// Run is the per-process verification context.
type Run struct {
	Prop    string
	Engine  string
	Mode    string
	Tier    string
	Seed    int64
	Batch   int
	NBatch  int
	OutPath string
	Replays string
	Known   string
	Workers int
	Replay  string // path of a replay file to re-execute (optional)

	mu         sync.Mutex
	start      time.Time
	evals      int64
	distinct   map[string]struct{}
	rule       string
	samples    []interface{}
	maxSamples int
	counters   map[string]int64
	extra      map[string]interface{}
	violations []ViolationRec
	vioKeys    map[string]int
	inconcl    []string
	assume     []string
	exhaustive *bool
	findings   []Finding
}

// Start parses the common flags. Engines may register their own flags before
// calling Start.
func Start(engine string) *Run {
	r := &Run{Engine: engine}
	flag.StringVar(&r.Prop, "prop", "", "property id")
	flag.StringVar(&r.Mode, "mode", "", "engine mode / sub-check")
	flag.StringVar(&r.Tier, "tier", "quick", "quick|thorough")
	flag.Int64Var(&r.Seed, "seed", 1, "seed")
	flag.IntVar(&r.Batch, "batch", 0, "batch index")
	flag.IntVar(&r.NBatch, "nbatch", 1, "number of batches")
	flag.StringVar(&r.OutPath, "out", "", "part file to write")
	flag.StringVar(&r.Replays, "replays", "/verif/replays", "replay directory")
	flag.StringVar(&r.Known, "known", "/verif/KNOWN_FINDINGS.txt", "known findings file")
	flag.IntVar(&r.Workers, "workers", 0, "worker goroutines (0 = engine default)")
	flag.StringVar(&r.Replay, "replay", "", "replay file")
	flag.Parse()
	r.start = time.Now()
	r.distinct = map[string]struct{}{}
	r.counters = map[string]int64{}
	r.extra = map[string]interface{}{}
	r.vioKeys = map[string]int{}
	r.maxSamples = 4
	r.findings = LoadFindings(r.Known)
	if r.Prop == "" {
		fmt.Fprintln(os.Stderr, "missing -prop")
		os.Exit(2)
	}
	return r
}

// LoadFindings reads the known-findings file; a missing file is an empty
// list. Line formats (anything else is a comment):
//
//	known: property=<id> key=<stable witness key> <what fails>
//	fixed: property=<id> <commit> key=<stable witness key> <what failed>
//
// Only "known" lines suppress anything; "fixed" lines are a record.
func LoadFindings(path string) []Finding {
	var out []Finding
	b, err := os.ReadFile(path)
	if err != nil {
		return nil
	}
	for _, ln := range strings.Split(string(b), "\n") {
		ln = strings.TrimSpace(ln)
		var status string
		switch {
		case strings.HasPrefix(ln, "known:"):
			status = "known"
		case strings.HasPrefix(ln, "fixed:"):
			status = "fixed"
		default:
			continue
		}
		f := Finding{Status: status}
		rest := strings.Fields(ln[len("known:"):])
		var what []string
		for _, w := range rest {
			switch {
			case strings.HasPrefix(w, "property=") && f.Property == "":
				f.Property = strings.TrimPrefix(w, "property=")
			case strings.HasPrefix(w, "key=") && f.Key == "":
				f.Key = strings.TrimPrefix(w, "key=")
			case status == "fixed" && f.Commit == "" && f.Property != "" && f.Key == "":
				f.Commit = w
			default:
				what = append(what, w)
			}
		}
		f.What = strings.Join(what, " ")
		if f.Property != "" {
			out = append(out, f)
		}
	}
	return out
}

// Thorough reports whether the thorough tier was asked for.
func (r *Run) Thorough() bool { return r.Tier == "thorough" }

// Pick returns q for quick and t for thorough.
func (r *Run) Pick(q, t int) int {
	if r.Thorough() {
		return t
	}
	return q
}

// SubSeed derives a deterministic 64-bit seed from the run seed, the batch
// and a label.
func (r *Run) SubSeed(label string, n int) int64 {
	h := fnv.New64a()
	fmt.Fprintf(h, "%d/%d/%s/%d", r.Seed, r.Batch, label, n)
	return int64(h.Sum64() & 0x7fffffffffffffff)
}

// Rand returns a PRNG for the given label and case number.
func (r *Run) Rand(label string, n int) *rand.Rand {
	return rand.New(rand.NewSource(r.SubSeed(label, n)))
}

// MyCases splits case numbers [0,total) among batches; returns those of this
// batch.
func (r *Run) MyCases(total int) []int {
	var out []int
	nb := r.NBatch
	if nb <= 0 {
		nb = 1
	}
	for i := 0; i < total; i++ {
		if i%nb == r.Batch {
			out = append(out, i)
		}
	}
	return out
}

// SetRule records the generation / non-triviality rule.
func (r *Run) SetRule(rule string) {
	r.mu.Lock()
	r.rule = rule
	r.mu.Unlock()
}

// Assume records an assumption of the check.
func (r *Run) Assume(a string) {
	r.mu.Lock()
	r.assume = append(r.assume, a)
	r.mu.Unlock()
}

// SetExhaustive records whether the run enumerated its space completely.
func (r *Run) SetExhaustive(b bool) {
	r.mu.Lock()
	r.exhaustive = &b
	r.mu.Unlock()
}

// Count adds n to a named counter.
func (r *Run) Count(key string, n int64) {
	r.mu.Lock()
	r.counters[key] += n
	r.mu.Unlock()
}

// Max records the maximum seen for a named counter.
func (r *Run) Max(key string, n int64) {
	r.mu.Lock()
	if n > r.counters[key] {
		r.counters[key] = n
	}
	r.mu.Unlock()
}

// Counter returns the present value of a counter.
func (r *Run) Counter(key string) int64 {
	r.mu.Lock()
	defer r.mu.Unlock()
	return r.counters[key]
}

// SetExtra stores a free-form evidence value.
func (r *Run) SetExtra(key string, v interface{}) {
	r.mu.Lock()
	r.extra[key] = v
	r.mu.Unlock()
}

// Case counts one evaluated case. If nontrivial, hash identifies it for the
// distinct count (the hash must be a content hash of the case as executed).
func (r *Run) Case(nontrivial bool, hash string) {
	r.mu.Lock()
	r.evals++
	if nontrivial {
		r.distinct[hash] = struct{}{}
	}
	r.mu.Unlock()
}

// Sample keeps up to a handful of written-out cases.
func (r *Run) Sample(v interface{}) {
	r.mu.Lock()
	if len(r.samples) < r.maxSamples {
		r.samples = append(r.samples, v)
	}
	r.mu.Unlock()
}

// WantSample says whether another sample would be kept.
func (r *Run) WantSample() bool {
	r.mu.Lock()
	defer r.mu.Unlock()
	return len(r.samples) < r.maxSamples
}

// Inconclusive records that something could not be decided.
func (r *Run) Inconclusive(what string) {
	r.mu.Lock()
	if len(r.inconcl) < 50 {
		r.inconcl = append(r.inconcl, what)
	}
	r.counters["inconclusive"]++
	r.mu.Unlock()
}

// Hash returns a short content hash of the arguments.
func Hash(parts ...interface{}) string {
	h := sha256.New()
	for _, p := range parts {
		switch v := p.(type) {
		case []byte:
			h.Write(v)
		case string:
			h.Write([]byte(v))
		default:
			fmt.Fprintf(h, "%v", v)
		}
		h.Write([]byte{0})
	}
	return hex.EncodeToString(h.Sum(nil))[:16]
}

var keySan = regexp.MustCompile(`[^A-Za-z0-9_.:-]+`)

// Violation records a violation of the run's property. key is a stable
// witness key (names the input class / call site / history shape); witness is
// written to a replay file. Returns true if the violation is a listed known
// finding.
func (r *Run) Violation(key, what string, witness interface{}) bool {
	return r.ViolationOf(r.Prop, key, what, witness)
}

// ViolationOf is Violation for an explicitly named property (engines that
// serve several properties in one execution).
func (r *Run) ViolationOf(prop, key, what string, witness interface{}) bool {
	r.mu.Lock()
	defer r.mu.Unlock()
	k := prop + "|" + key
	r.vioKeys[k]++
	if r.vioKeys[k] > 3 { // keep the first few witnesses per key
		return r.isKnown(prop, key)
	}
	known := r.isKnown(prop, key)
	_ = os.MkdirAll(r.Replays, 0o755)
	name := fmt.Sprintf("%s-%s-%s-s%d-b%d-%d.json", prop, r.Engine,
		strings.Trim(keySan.ReplaceAllString(key, "_"), "_"), r.Seed, r.Batch, r.vioKeys[k])
	if len(name) > 180 {
		name = name[:170] + ".json"
	}
	path := filepath.Join(r.Replays, name)
	w := map[string]interface{}{
		"property": prop, "engine": r.Engine, "mode": r.Mode, "tier": r.Tier,
		"seed": r.Seed, "batch": r.Batch, "nbatch": r.NBatch,
		"key": key, "what": what, "witness": witness,
	}
	b, err := json.MarshalIndent(w, "", " ")
	if err != nil {
		b, _ = json.MarshalIndent(map[string]interface{}{
			"property": prop, "engine": r.Engine, "seed": r.Seed, "batch": r.Batch,
			"key": key, "what": what, "witness": fmt.Sprintf("%+v", witness),
		}, "", " ")
	}
	_ = os.WriteFile(path, b, 0o644)
	r.violations = append(r.violations, ViolationRec{Property: prop, Key: key, What: what, Replay: path, Known: known})
	if known {
		fmt.Printf("KNOWN-FINDING: property=%s %s [%s]\n", prop, what, key)
	} else {
		fmt.Printf("VIOLATION property=%s replay=%s\n", prop, path)
		fmt.Printf("  key=%s what=%s\n", key, what)
	}
	return known
}

func (r *Run) isKnown(prop, key string) bool {
	for _, f := range r.findings {
		if f.Status == "known" && f.Property == prop && f.Key == key {
			return true
		}
	}
	return false
}

// NViolations returns the number of unlisted violations so far.
func (r *Run) NViolations() int {
	r.mu.Lock()
	defer r.mu.Unlock()
	n := 0
	for _, v := range r.violations {
		if !v.Known {
			n++
		}
	}
	return n
}

// Flush writes the part file with finished=false (so that a later crash of
// the process still leaves what was observed).
func (r *Run) Flush() { r.write(false) }

func (r *Run) write(finished bool) {
	r.mu.Lock()
	p := Part{
		Property: r.Prop, Engine: r.Engine, Mode: r.Mode, Tier: r.Tier, Seed: r.Seed, Batch: r.Batch,
		Evaluations: r.evals, Rule: r.rule, Samples: r.samples,
		Counters: map[string]int64{}, Extra: r.extra, Violations: r.violations,
		Inconclusive: r.inconcl, Assumptions: r.assume, Exhaustive: r.exhaustive,
		WallS: time.Since(r.start).Seconds(), Finished: finished,
	}
	for k, v := range r.counters {
		p.Counters[k] = v
	}
	for h := range r.distinct {
		p.Distinct = append(p.Distinct, h)
	}
	sort.Strings(p.Distinct)
	r.mu.Unlock()
	if r.OutPath == "" {
		return
	}
	b, err := json.Marshal(p)
	if err != nil {
		// samples that do not marshal must not lose the verdict
		p.Samples = []interface{}{fmt.Sprintf("%+v", p.Samples)}
		p.Extra = nil
		b, _ = json.Marshal(p)
	}
	tmp := r.OutPath + ".tmp"
	if err := os.WriteFile(tmp, b, 0o644); err == nil {
		_ = os.Rename(tmp, r.OutPath)
	}
}

// Finish writes the part file and exits: 0 held, 1 violation, 2 nothing
// decided.
func (r *Run) Finish() {
	r.write(true)
	r.mu.Lock()
	ev := r.evals
	r.mu.Unlock()
	nv := r.NViolations()
	fmt.Printf("[%s/%s/%s b%d] evaluations=%d distinct_nontrivial=%d violations=%d wall=%.1fs\n",
		r.Prop, r.Engine, r.Mode, r.Batch, ev, len(r.distinct), nv, time.Since(r.start).Seconds())
	if nv > 0 {
		os.Exit(1)
	}
	if ev == 0 {
		fmt.Println("no case evaluated: inconclusive")
		os.Exit(2)
	}
	os.Exit(0)
}
