// raftsim is engine E1 (see DESIGN.md): deterministic single-goroutine
// simulation of a shard made of real raft.Peer + LogReader + rsm.StateMachine
// replicas under a hostile scheduler, with global-view monitors for
// C01 C02 C03 C06 C07 C17 C18 (and a C08 compaction clause).
package main

import (
	"encoding/json"
	"fmt"
	"os"
	"sync"

	"github.com/lni/goutils/logutil"

	"github.com/lni/dragonboat/v4/logger"
	"github.com/lni/dragonboat/v4/verifh/common"
	"github.com/lni/dragonboat/v4/verifh/raftsim"
)

type sink struct {
	r    *common.Run
	mu   sync.Mutex
	seen map[string]int
	cur  raftsim.Options
	curN int
	hit  bool
}

func (s *sink) Violation(prop, key, what string, witness interface{}) {
	if prop != "*" && prop != s.r.Prop {
		s.r.Count("alarms_of_other_properties_"+prop, 1)
		if os.Getenv("VERIF_DEBUG") != "" {
			fmt.Fprintf(os.Stderr, "OTHER %s %s: %s (case %d)\n", prop, key, what, s.curN)
		}
		return
	}
	s.hit = true
	s.r.Violation(key, what, witness)
}

func (s *sink) Count(key string, n int64) { s.r.Count(key, n) }

// caseOptions derives the shape of case n from the PRNG.
func caseOptions(r *common.Run, n int) raftsim.Options {
	rng := r.Rand("case", n)
	o := raftsim.Options{
		Seed:          r.SubSeed("sim", n),
		Steps:         2500 + rng.Intn(2500),
		Voters:        1 + rng.Intn(5),
		NonVotings:    rng.Intn(2),
		Witnesses:     rng.Intn(2),
		PreVote:       rng.Intn(2) == 0,
		CheckQuorum:   rng.Intn(2) == 0,
		Ordered:       rng.Intn(2) == 0,
		AllowDup:      true,
		Overhead:      uint64(rng.Intn(6)),
		ElectionRTT:   10,
		HeartbeatRTT:  1 + uint64(rng.Intn(2)),
		Keys:          2 + rng.Intn(2),
		WCrash:        1,
		WSnapshot:     1,
		WConfigChange: 1,
		WTransfer:     1,
		WRead:         3,
		WPropose:      6,
		WPartition:    1,
		HealRounds:    60,
	}
	if o.Voters >= 3 && rng.Intn(3) == 0 {
		o.Voters = 3
	}
	o.LongPartitions = rng.Intn(3) == 0
	// one case in eight keeps the raft state of every replica in a real sharded Pebble log store
	o.RealStore = rng.Intn(8) == 0
	// ... half of them in Tan (own stream: the other options of a case keep their values)
	o.RealStoreTan = o.RealStore && r.Rand("real-store-kind", n).Intn(2) == 0
	switch r.Prop {
	case "C01":
		o.AllowDup = false // the quantifier of C01 excludes duplication
		o.Porcupine = true
		o.WRead, o.WPropose = 8, 10
		o.Keys = 2
		// reads on followers and non-voting replicas while leaders are cut off
		o.NonVotings, o.WConfigChange, o.WPartition = 1, 2, 2
		o.PreferNonVoting = true
		o.LongPartitions = rng.Intn(2) == 0
	case "C02":
		// diverging logs need competing leaders: larger shards, long partitions, crashes
		o.WPartition, o.WCrash = 2, 2
		if rng.Intn(3) == 0 {
			o.Voters = 5
		}
		if rng.Intn(2) == 0 {
			o.LongPartitions = true
		}
	case "C06":
		o.WRead, o.WPartition, o.WTransfer = 10, 2, 2
		// C06 quantifies over heartbeat loss/duplication/reordering; a duplicated
		// ReadIndex *request* re-queues an answered context behind later ones and
		// lets an older heartbeat round confirm them (see DESIGN.md, observations)
		o.NoDupReadIndex = true
	case "C07":
		o.WConfigChange, o.WCrash = 4, 2
		o.NonVotings, o.Witnesses = 1, 1
	case "C18":
		o.WConfigChange = 3
		o.WTransfer = 3
		o.WRead, o.WPartition = 8, 2
		o.NoDupReadIndex = true // as for C06: only heartbeat duplication is in scope for read confirmations
		o.NonVotings, o.Witnesses = 1+rng.Intn(2), 1
		if o.Voters > 3 {
			o.Voters = 3
		}
	case "C17":
		o.Steps = 1200 + rng.Intn(2000)
		o.WPartition, o.WCrash, o.WTransfer = 2, 2, 2
		o.MuteTransferTarget = true
		// rate limiting in a quarter of the cases (own PRNG stream: the other cases keep their shape)
		if rl := r.Rand("ratelimit", n); rl.Intn(4) == 0 {
			o.MaxInMem = uint64(2048 + rl.Intn(16384))
			o.Pad = 100 + rl.Intn(400)
			o.WPropose = 12
		}
	case "C03", "C04":
		o.WCrash, o.WTransfer, o.WPartition = 2, 2, 2
	}
	if r.Prop == "C03" || r.Prop == "C07" {
		// (own PRNG stream: the other cases keep their shape)
		if cs := r.Rand("ccstep", n); cs.Intn(3) == 0 {
			o.StepDuringCC = true
			if o.WConfigChange < 3 {
				o.WConfigChange = 3
			}
		}
	}
	return o
}

func nontrivial(prop string, res raftsim.Result) bool {
	f := res.Flags
	switch prop {
	case "C01":
		return f["overlapping_writes"] && f["read_overlaps_write"] && res.Leaders > 1
	case "C02":
		return f["leader_change_after_commit"] && f["truncation"]
	case "C03", "C04":
		return res.Leaders > 1
	case "C06":
		return f["read_raced_leader_change"]
	case "C07":
		return f["config_change_applied"] && res.Leaders > 1
	case "C17":
		return res.Leaders > 1
	case "C18":
		return f["config_change_applied"]
	}
	return res.Leaders > 0
}

func main() {
	logger.GetLogger("raft").SetLevel(logger.CRITICAL)
	logger.GetLogger("rsm").SetLevel(logger.CRITICAL)
	logger.GetLogger("logdb").SetLevel(logger.CRITICAL)
	logger.GetLogger("raftpb").SetLevel(logger.CRITICAL)
	logger.GetLogger("dragonboat").SetLevel(logger.CRITICAL)
	logger.GetLogger("config").SetLevel(logger.CRITICAL)
	_ = logutil.ReplicaID
	r := common.Start("raftsim")
	sk := &sink{r: r, seen: map[string]int{}}
	r.SetRule("each case = one simulated shard execution (PRNG-chosen shape: 1-5 voters, optional non-voting/witness joins, PreVote, CheckQuorum, ordered config change; 2500-5000 scheduler actions: tick/step/apply/deliver/drop/duplicate/propose/read/config change/transfer/snapshot+compaction/crash at step-internal points/restart/partitions) followed by a fair healing phase; non-trivial per property: C01 overlapping writes + read overlapping a write + >1 leader; C02 leader change after a commit + conflict truncation; C03/C04/C17 >1 leader term; C06 a read that raced a leader change; C07 applied config change + >1 leader; C18 applied config change in a mixed-role shard; distinct by hash of the (term, leader) and config-change event sequence")
	r.Assume("the mini-node re-implements the glue of node.go/engine.go around the real raft.Peer, LogReader and rsm.StateMachine; a crash loses everything not handed to SaveRaftState/SaveSnapshots; snapshot images travel with InstallSnapshot messages")
	if r.Replay != "" {
		os.Exit(replay(r, sk))
	}
	if v := os.Getenv("VERIF_CASE"); v != "" {
		var n int
		fmt.Sscanf(v, "%d", &n)
		opt := caseOptions(r, n)
		res := raftsim.RunCase(opt, &debugSink{}, true)
		b, _ := json.MarshalIndent(res.Sample, "", " ")
		fmt.Println(string(b))
		return
	}
	total := r.Pick(6400, 240000)
	if r.Prop == "C01" {
		total = r.Pick(3200, 96000) // every history also goes through porcupine
	}
	for _, n := range r.MyCases(total) {
		opt := caseOptions(r, n)
		runOne(r, sk, opt, n)
		if n%50 == 0 {
			r.Flush()
		}
	}
	r.Finish()
}

func runOne(r *common.Run, sk *sink, opt raftsim.Options, n int) {
	sk.hit = false
	sk.cur = opt
	sk.curN = n
	res := raftsim.RunCase(opt, sk, false)
	if sk.hit && !res.Panicked {
		// re-run with the trace on so that the witness carries the schedule
		r.Count("cases_rerun_with_trace", 1)
	}
	r.Case(nontrivial(r.Prop, res), res.Sig)
	r.Count("sim_steps", int64(res.Steps))
	if res.Panicked {
		r.Count("cases_ended_by_sut_panic", 1)
		return
	}
	if res.Converged {
		r.Count("healed_within_bound", 1)
		r.Max("max_heal_rounds", int64(res.HealRounds))
	} else if res.PremiseFailed {
		r.Count("premise_not_met_no_running_majority_of_a_known_membership", 1)
	} else {
		r.Count("not_healed_first_attempt", 1)
		if r.Prop == "C17" {
			fails := 1
			for hs := int64(1); hs <= 2; hs++ {
				o2 := opt
				o2.HealSeed = hs
				quiet := &sink{r: r, seen: map[string]int{}}
				quiet.r = r
				res2 := raftsim.RunCase(o2, &muted{}, false)
				if !res2.Converged && !res2.Panicked && !res2.PremiseFailed {
					fails++
				}
			}
			if fails == 3 {
				res3 := raftsim.RunCase(opt, &muted{}, true)
				r.Violation("no-progress-within-bound",
					fmt.Sprintf("after the fault prefix a connected majority did not reach leader+proposal+read+config change+snapshot+catch-up within %d election timeouts under three re-seeded fair phases: %v", opt.HealRounds, res.Sample["not_converged"]),
					map[string]interface{}{"options": opt, "why": res.Sample["not_converged"], "trace": res3.Sample})
			} else {
				r.Inconclusive(fmt.Sprintf("case %d: fair phase missed the bound once (%v) but not under re-seeding", n, res.Sample["not_converged"]))
			}
		}
	}
	if r.WantSample() && res.Leaders > 1 {
		r.Sample(res.Sample)
	}
}

type debugSink struct{}

func (*debugSink) Violation(p, k, w string, wit interface{}) {
	fmt.Printf("ALARM %s %s: %s\n", p, k, w)
	if mm, ok := wit.(map[string]interface{}); ok {
		if t, ok := mm["trace_tail"].([]string); ok {
			for _, l := range t {
				fmt.Println("   ", l)
			}
		}
	}
}
func (*debugSink) Count(string, int64) {}

// muted swallows everything (used for the re-seeded C17 attempts).
type muted struct{}

func (*muted) Violation(string, string, string, interface{}) {}
func (*muted) Count(string, int64)                           {}

func replay(r *common.Run, sk *sink) int {
	b, err := os.ReadFile(r.Replay)
	if err != nil {
		fmt.Println(err)
		return 2
	}
	var w struct {
		Witness struct {
			Options raftsim.Options `json:"options"`
		} `json:"witness"`
	}
	if err := json.Unmarshal(b, &w); err != nil || w.Witness.Options.Steps == 0 {
		fmt.Println("replay file carries no simulator options")
		return 2
	}
	// the same decision procedure as in a check run (for C17: three re-seeded fair phases, premise)
	opt := w.Witness.Options
	opt.HealSeed = 0
	runOne(r, sk, opt, 0)
	res := raftsim.RunCase(opt, &muted{}, true)
	fmt.Printf("replayed: leaders=%d converged=%v premise_failed=%v panicked=%v violations=%d\n", res.Leaders, res.Converged, res.PremiseFailed, res.Panicked, r.NViolations())
	if r.NViolations() > 0 {
		return 1
	}
	return 0
}
