package main

import (
	"context"
	"fmt"
	"math/rand"
	"sort"
	"strings"
	"sync"
	"sync/atomic"
	"time"

	dragonboat "github.com/lni/dragonboat/v4"
	"github.com/lni/dragonboat/v4/config"
	pb "github.com/lni/dragonboat/v4/raftpb"
	"github.com/lni/dragonboat/v4/verifh/cluster"
	"github.com/lni/dragonboat/v4/verifh/common"
)

// membersMode (C07 at node level, with the C03 leader monitor and the C02 final state
// comparison armed): concurrent membership requests - valid and invalid, retried, with stale
// ConfigChangeIDs when ordered config change is on - issued through several hosts of a cluster of
// real NodeHosts while leaders are isolated and leadership is transferred. Oracle:
//  1. the committed log of the shard is read back through QueryRaftLog; its config change entries,
//     in log order, are judged by a reference of the rules in the statement (accepted / rejected /
//     not decided by the statement); where the statement does not decide, the outcome the requester
//     was given is adopted, and if there is none the case is not judged;
//  2. the membership every running replica reports (linearizable read through its own host) must
//     equal the membership the reference ends with: members of each kind with their addresses,
//     the removed set and the ConfigChangeID (index of the last accepted change);
//  3. every definite outcome a requester got (Completed / Rejected) must be the reference's
//     verdict for an entry of that request in the log.
func membersMode(r *common.Run, sk *sink) {
	r.SetRule("each case = 6 real NodeHosts, one shard that starts with voters 1-3; 3 goroutines on different hosts issue 40-70 membership requests concurrently (add voter 4 / non-voting 5 then promote / witness 6 on spare hosts that start the replica once added, remove members, re-add removed ids, add with an address in use, kind changes other than promotion, remove unknown ids, never-started non-voting ids with unique addresses; with ordered config change on: fresh and stale ConfigChangeIDs) while a fault script isolates or transfers the leader and 2 writers propose; afterwards the log is read back through QueryRaftLog and every config change entry is judged by a reference of the stated rules; the membership reported by every running replica and every definite request outcome must agree with it; non-trivial = at least 6 accepted and 4 rejected changes in the log, a leader change, and at least one request whose outcome was unknown to its requester; distinct by hash of the sequence of config change entries")
	r.Assume("where the statement does not decide (removing an id that is not a member, an existing id with a different address) the outcome given to the requester is adopted; a case with such an entry and no definite outcome is counted as not judged")
	n := r.Pick(16, 160)
	for _, c := range r.MyCases(n) {
		runMembers(r, sk, c, r.Rand("members", c), r.SubSeed("members-seed", c))
		r.Flush()
	}
}

type memReq struct {
	sig     string // type/id/address[/ccid]
	outcome string // completed, rejected, unknown
}

func ccSig(t pb.ConfigChangeType, id uint64, addr string, ordered bool, ccid uint64) string {
	s := fmt.Sprintf("%s/%d/%s", t, id, addr)
	if ordered {
		s += fmt.Sprintf("/%d", ccid)
	}
	return s
}

func runMembers(r *common.Run, sk *sink, caseNo int, rng *rand.Rand, seed int64) {
	ordered := rng.Intn(2) == 0
	kind := []cluster.SMKind{cluster.Regular, cluster.Concurrent, cluster.OnDisk}[rng.Intn(3)]
	store := cluster.Pebble
	if rng.Intn(3) == 0 {
		store = cluster.Tan
	}
	preVote, checkQuorum := rng.Intn(2) == 0, rng.Intn(2) == 0
	snap := []uint64{0, 0, 30}[rng.Intn(3)]
	nReq := 40 + rng.Intn(31)
	desc := fmt.Sprintf("ordered=%v sm=%s store=%s prevote=%v checkquorum=%v snapshot_entries=%d requests=%d", ordered, kind, store, preVote, checkQuorum, snap, nReq)
	fmt.Printf("members case %d %s\n", caseNo, desc)
	const nHosts = 6
	const shardID = 1
	c := cluster.NewCluster(cluster.Options{Hosts: nHosts, Seed: seed, RTTMs: 10, Store: store,
		SMOpt: func(uint64, uint64) cluster.SMOptions { return cluster.SMOptions{Kind: kind, RecordApply: true} }}, sk)
	if err := c.StartAll(); err != nil {
		r.Inconclusive(fmt.Sprintf("members case %d: start failed: %v", caseNo, err))
		return
	}
	defer c.StopAll()
	shardCfg := func(rep uint64) config.Config {
		cfg := cluster.ShardConfig(shardID, rep)
		cfg.PreVote, cfg.CheckQuorum, cfg.OrderedConfigChange = preVote, checkQuorum, ordered
		// the whole log must stay readable for the oracle: snapshots, but no compaction below index 1
		cfg.SnapshotEntries, cfg.CompactionOverhead = snap, 100000
		return cfg
	}
	members := c.Members(3)
	var repMu sync.RWMutex
	replicas := map[uint64]int{}
	for i := 0; i < 3; i++ {
		if err := c.Hosts[i].StartReplica(members, false, kind, shardCfg(uint64(i+1))); err != nil {
			r.Inconclusive(fmt.Sprintf("members case %d: %v", caseNo, err))
			return
		}
		replicas[uint64(i+1)] = i
	}
	snapshotReplicas := func() map[uint64]int {
		repMu.RLock()
		defer repMu.RUnlock()
		m := map[uint64]int{}
		for k, v := range replicas {
			m[k] = v
		}
		return m
	}
	if !waitFor(15*time.Second, func() bool { return c.LeaderHost(shardID, snapshotReplicas()) >= 0 }) {
		r.Inconclusive(fmt.Sprintf("members case %d: no first leader", caseNo))
		return
	}
	var mu sync.Mutex
	var reqs []*memReq
	started := map[uint64]bool{} // spare replicas already started
	witnessStarted := map[uint64]bool{}
	var uniq int64
	// spare replicas: id -> (host, kind of membership)
	spareHost := map[uint64]int{4: 3, 5: 4, 6: 5}
	// startSpare starts the replica of a spare id in the role the membership gives it at that
	// moment (a replica started in another role than its membership entry says is a user error
	// that raft answers with a panic)
	startSpare := func(id uint64, role string) {
		mu.Lock()
		if started[id] {
			mu.Unlock()
			return
		}
		started[id] = true
		mu.Unlock()
		cfg := shardCfg(id)
		switch role {
		case "nonvoting":
			cfg.IsNonVoting = true
		case "witness":
			cfg.IsWitness = true
			cfg.SnapshotEntries = 0
		}
		if err := c.Hosts[spareHost[id]].StartReplica(nil, true, kind, cfg); err == nil {
			if role != "witness" {
				repMu.Lock()
				replicas[id] = spareHost[id]
				repMu.Unlock()
			} else {
				mu.Lock()
				witnessStarted[id] = true
				mu.Unlock()
			}
			sk.Count("spare_replicas_started_as_"+role, 1)
		} else {
			mu.Lock()
			started[id] = false
			mu.Unlock()
		}
	}
	// startMissing starts every spare id the shard has as a member but that is not running yet
	// (its add request ended with an unknown outcome)
	startMissing := func() {
		for hi := 0; hi < 3; hi++ {
			nh := c.Hosts[hi].NodeHost()
			if nh == nil {
				continue
			}
			ctx, cancel := context.WithTimeout(context.Background(), time.Second)
			m, err := nh.SyncGetShardMembership(ctx, shardID)
			cancel()
			if err != nil {
				continue
			}
			for id, hidx := range spareHost {
				addr := c.Hosts[hidx].Addr
				switch {
				case m.Nodes[id] == addr:
					startSpare(id, "voter")
				case m.NonVotings[id] == addr:
					startSpare(id, "nonvoting")
				case m.Witnesses[id] == addr:
					startSpare(id, "witness")
				}
			}
			return
		}
	}
	issue := func(prng *rand.Rand, hi int) {
		nh := c.Hosts[hi].NodeHost()
		if nh == nil {
			return
		}
		var ccid uint64
		if ordered {
			ctx, cancel := context.WithTimeout(context.Background(), 500*time.Millisecond)
			m, err := nh.SyncGetShardMembership(ctx, shardID)
			cancel()
			if err != nil {
				return
			}
			ccid = m.ConfigChangeID
			if prng.Intn(5) == 0 && ccid > 1 {
				ccid -= uint64(1 + prng.Intn(2)) // stale on purpose (may name an index that is no change at all)
			}
		}
		fake := func() (uint64, string) {
			u := atomic.AddInt64(&uniq, 1)
			return uint64(1000 + u), fmt.Sprintf("nowhere%d:1", u)
		}
		var t pb.ConfigChangeType
		var id uint64
		var addr string
		switch x := prng.Intn(20); {
		case x < 3: // add voter 4 (again and again: once accepted it is an existing id with the same address)
			t, id, addr = pb.AddNode, 4, c.Hosts[3].Addr
		case x < 5: // add non-voting 5
			t, id, addr = pb.AddNonVoting, 5, c.Hosts[4].Addr
		case x < 7: // promote 5 once it runs as a non-voting replica
			mu.Lock()
			run5 := started[5]
			mu.Unlock()
			if !run5 {
				return
			}
			t, id, addr = pb.AddNode, 5, c.Hosts[4].Addr
		case x < 9: // witness 6
			t, id, addr = pb.AddWitness, 6, c.Hosts[5].Addr
		case x < 11: // remove a real member (at most two of the original voters ever get this request)
			t, id = pb.RemoveNode, []uint64{2, 4, 5, 6, 6}[prng.Intn(5)]
		case x < 12: // re-add an id that may have been removed
			id = []uint64{2, 3, 4, 5, 6}[prng.Intn(5)]
			t, addr = pb.AddNode, fmt.Sprintf("again%d:1", atomic.AddInt64(&uniq, 1))
		case x < 13: // address in use
			id, _ = fake()
			t, addr = []pb.ConfigChangeType{pb.AddNode, pb.AddNonVoting, pb.AddWitness}[prng.Intn(3)], c.Hosts[prng.Intn(3)].Addr
			if t == pb.AddNode {
				t = pb.AddNonVoting // a never-started voter would change the quorum if the check failed: keep the damage visible but bounded
			}
		case x < 15: // kind changes other than promotion
			// (ids 5 and 6 only once they run in their role: before that the same request is a valid add
			// in another role than the one the spare host would start the replica in)
			mu.Lock()
			run5, run6 := started[5], started[6]
			mu.Unlock()
			switch k := prng.Intn(4); {
			case k == 2 && run6:
				t, id, addr = pb.AddNonVoting, 6, c.Hosts[5].Addr
			case k == 3 && run5:
				t, id, addr = pb.AddWitness, 5, c.Hosts[4].Addr
			case k == 1:
				t, id, addr = pb.AddWitness, 1, c.Hosts[0].Addr
			default:
				t, id, addr = pb.AddNonVoting, 1, c.Hosts[0].Addr
			}
		case x < 16: // remove an id that never was a member
			id, _ = fake()
			t = pb.RemoveNode
		default: // a non-voting member that is never started (unique id and address)
			id, addr = fake()
			t = pb.AddNonVoting
		}
		to := time.Duration(300+prng.Intn(700)) * time.Millisecond
		var rs *dragonboat.RequestState
		var err error
		switch t {
		case pb.AddNode:
			rs, err = nh.RequestAddReplica(shardID, id, addr, ccid, to)
		case pb.AddNonVoting:
			rs, err = nh.RequestAddNonVoting(shardID, id, addr, ccid, to)
		case pb.AddWitness:
			rs, err = nh.RequestAddWitness(shardID, id, addr, ccid, to)
		case pb.RemoveNode:
			rs, err = nh.RequestDeleteReplica(shardID, id, ccid, to)
		}
		if err != nil {
			sk.Count("membership_requests_not_accepted_by_the_api", 1)
			return
		}
		rec := &memReq{sig: ccSig(t, id, addr, ordered, ccid), outcome: "unknown"}
		select {
		case res := <-rs.ResultC():
			switch {
			case res.Completed():
				rec.outcome = "completed"
			case res.Rejected():
				rec.outcome = "rejected"
			}
		case <-time.After(to + 20*time.Second):
			sk.Count("membership_request_without_result_watchdog", 1)
		}
		rs.Release()
		sk.Count("membership_request_"+rec.outcome, 1)
		mu.Lock()
		reqs = append(reqs, rec)
		mu.Unlock()
		if rec.outcome == "completed" && spareHost[id] != 0 && addr == c.Hosts[spareHost[id]].Addr {
			switch {
			case t == pb.AddNode && id == 4:
				startSpare(id, "voter")
			case t == pb.AddNonVoting && id == 5:
				startSpare(id, "nonvoting")
			case t == pb.AddWitness && id == 6:
				startSpare(id, "witness")
			}
		}
	}
	// writers
	var stopFlag int32
	var wg sync.WaitGroup
	for g := 0; g < 2; g++ {
		wg.Add(1)
		go func(g int) {
			defer wg.Done()
			prng := rand.New(rand.NewSource(seed + 1000 + int64(g)))
			for atomic.LoadInt32(&stopFlag) == 0 {
				if nh := c.Hosts[prng.Intn(3)].NodeHost(); nh != nil {
					ctx, cancel := context.WithTimeout(context.Background(), 300*time.Millisecond)
					_, _ = nh.SyncPropose(ctx, nh.GetNoOPSession(shardID), cluster.MakeCmd(byte(prng.Intn(2)), cluster.NewID()))
					cancel()
				}
				time.Sleep(time.Duration(2+prng.Intn(6)) * time.Millisecond)
			}
		}(g)
	}
	// requesters
	var rwg sync.WaitGroup
	var issued int64
	for g := 0; g < 3; g++ {
		rwg.Add(1)
		go func(g int) {
			defer rwg.Done()
			prng := rand.New(rand.NewSource(seed + 77*int64(g+1)))
			for atomic.AddInt64(&issued, 1) <= int64(nReq) {
				issue(prng, []int{0, 1, 2, 3}[prng.Intn(4)])
				time.Sleep(time.Duration(30+prng.Intn(120)) * time.Millisecond)
			}
		}(g)
	}
	// fault script while the requesters run
	reqDone := make(chan struct{})
	go func() { rwg.Wait(); close(reqDone) }()
	leaderChanges := 0
	last := c.LeaderHost(shardID, snapshotReplicas())
	frng := rand.New(rand.NewSource(seed ^ 0xfa17))
faults:
	for {
		select {
		case <-reqDone:
			break faults
		case <-time.After(time.Duration(150+frng.Intn(350)) * time.Millisecond):
		}
		li := c.LeaderHost(shardID, snapshotReplicas())
		if li >= 0 && li != last {
			leaderChanges++
			last = li
		}
		switch frng.Intn(4) {
		case 0:
			if li >= 0 {
				c.Net.Isolate(c.Hosts[li].Addr, frng.Intn(2) == 0)
				time.Sleep(time.Duration(250+frng.Intn(300)) * time.Millisecond)
				c.Net.HealAll()
				sk.Count("fault_leader_isolated", 1)
			}
		case 1:
			if li >= 0 {
				if nh := c.Hosts[li].NodeHost(); nh != nil {
					_ = nh.RequestLeaderTransfer(shardID, uint64(1+frng.Intn(4)))
					sk.Count("fault_leader_transfer", 1)
				}
			}
		case 2:
			c.Net.SetLoss(30000+frng.Intn(100000), 50000, 50)
			time.Sleep(time.Duration(150+frng.Intn(250)) * time.Millisecond)
			c.Net.SetLoss(0, 0, 0)
			sk.Count("fault_lossy_network", 1)
		}
	}
	c.Net.SetLoss(0, 0, 0)
	c.Net.HealAll()
	atomic.StoreInt32(&stopFlag, 1)
	wg.Wait()
	startMissing()
	if li := c.LeaderHost(shardID, snapshotReplicas()); li >= 0 && li != last {
		leaderChanges++
	}
	// quiescence: a barrier proposal, then every running replica with a state machine applies it
	marker := cluster.NewID()
	okMarker := false
	for try := 0; try < 100 && !okMarker; try++ {
		for hi := 0; hi < 4 && !okMarker; hi++ {
			if nh := c.Hosts[hi].NodeHost(); nh != nil {
				ctx, cancel := context.WithTimeout(context.Background(), time.Second)
				if _, err := nh.SyncPropose(ctx, nh.GetNoOPSession(shardID), cluster.MakeCmd(7, marker)); err == nil {
					okMarker = true
				}
				cancel()
			}
		}
		if !okMarker {
			time.Sleep(50 * time.Millisecond)
		}
	}
	if !okMarker {
		r.Inconclusive(fmt.Sprintf("members case %d: the barrier proposal did not complete after healing (%s)", caseNo, desc))
		sk.Count("cases_not_judged_no_barrier", 1)
		return
	}
	// the committed log, read back from a replica that has the barrier entry
	var entries []pb.Entry
	readLog := func(nh *dragonboat.NodeHost) bool {
		entries = entries[:0]
		next := uint64(1)
		for round := 0; round < 400; round++ {
			rs, err := nh.QueryRaftLog(shardID, next, next+200, 8*1024*1024)
			if err != nil {
				return false
			}
			var res dragonboat.RequestResult
			select {
			case res = <-rs.ResultC():
			case <-time.After(20 * time.Second):
				return false
			}
			rs.Release()
			if res.RequestOutOfRange() {
				_, lr := res.RaftLogs()
				if next >= lr.LastIndex {
					return true
				}
				return false
			}
			if !res.Completed() {
				return false
			}
			ents, _ := res.RaftLogs()
			if len(ents) == 0 {
				return true
			}
			for _, e := range ents {
				if e.Index != next {
					return false
				}
				entries = append(entries, e)
				next++
			}
		}
		return false
	}
	hasMarker := func() bool {
		for _, e := range entries {
			if e.Type == pb.ApplicationEntry || e.Type == pb.EncodedEntry {
				if strings.Contains(string(e.Cmd), string(cluster.MakeCmd(7, marker)[1:9])) {
					return true
				}
			}
		}
		return false
	}
	gotLog := false
	for try := 0; try < 40 && !gotLog; try++ {
		for hi := 0; hi < 3 && !gotLog; hi++ {
			if nh := c.Hosts[hi].NodeHost(); nh != nil {
				if readLog(nh) && hasMarker() {
					gotLog = true
				}
			}
		}
		if !gotLog {
			time.Sleep(100 * time.Millisecond)
		}
	}
	if !gotLog {
		r.Inconclusive(fmt.Sprintf("members case %d: the log could not be read back up to the barrier entry", caseNo))
		sk.Count("cases_not_judged_log_not_readable", 1)
		return
	}
	// outcomes by signature
	mu.Lock()
	all := append([]*memReq(nil), reqs...)
	mu.Unlock()
	outcomes := map[string]map[string]int{}
	unknown := 0
	for _, q := range all {
		if outcomes[q.sig] == nil {
			outcomes[q.sig] = map[string]int{}
		}
		outcomes[q.sig][q.outcome]++
		if q.outcome == "unknown" {
			unknown++
		}
	}
	// replay of the config change entries through the reference
	model := newMModel(ordered)
	type judged struct {
		Index   uint64 `json:"index"`
		Sig     string `json:"change"`
		Verdict string `json:"verdict"`
		Reason  string `json:"reason"`
	}
	var trace []judged
	acceptedBySig, rejectedBySig := map[string]int{}, map[string]int{}
	nAcc, nRej := 0, 0
	notJudged := ""
	for _, e := range entries {
		if e.Type != pb.ConfigChangeEntry {
			continue
		}
		var cc pb.ConfigChange
		if err := cc.Unmarshal(e.Cmd); err != nil {
			sk.Violation("C07", "config-change-entry-unreadable", fmt.Sprintf("entry %d: %v", e.Index, err), nil)
			return
		}
		sig := ccSig(cc.Type, cc.ReplicaID, cc.Address, ordered && !cc.Initialize, cc.ConfigChangeId)
		v, reason := model.judge(cc)
		accept := v == mustAccept
		if v == silent {
			o := outcomes[sig]
			switch {
			case o["completed"] > 0 && o["rejected"] == 0 && o["unknown"] == 0:
				accept = true
			case o["rejected"] > 0 && o["completed"] == 0 && o["unknown"] == 0:
				accept = false
			default:
				notJudged = fmt.Sprintf("entry %d (%s): the statement does not decide (%s) and the requesters' outcomes are %v", e.Index, sig, reason, o)
			}
			sk.Count("entries_not_decided_by_the_statement_"+reason, 1)
		}
		if notJudged != "" {
			break
		}
		if accept {
			model.apply(cc, e.Index)
			acceptedBySig[sig]++
			nAcc++
		} else {
			rejectedBySig[sig]++
			nRej++
		}
		trace = append(trace, judged{e.Index, sig, map[bool]string{true: "accepted", false: "rejected"}[accept], reason})
	}
	sk.Count("config_change_entries_in_the_logs", int64(nAcc+nRej))
	sk.Count("config_change_entries_accepted_by_the_reference", int64(nAcc))
	sk.Count("config_change_entries_rejected_by_the_reference", int64(nRej))
	if notJudged != "" {
		sk.Count("cases_not_judged_undecided_entry", 1)
		r.Case(false, common.Hash("members", caseNo, desc))
		return
	}
	wit := func() map[string]interface{} {
		t := trace
		if len(t) > 60 {
			t = t[len(t)-60:]
		}
		return map[string]interface{}{"case": caseNo, "config": desc, "judged_entries": t, "reference_membership": fmt.Sprintf("%+v", model.pb())}
	}
	// (3) definite outcomes of the requesters
	for sig, o := range outcomes {
		if o["completed"] > acceptedBySig[sig] {
			w := wit()
			w["request"], w["outcomes"] = sig, o
			sk.Violation("C07", "request-completed-but-the-rules-reject-it",
				fmt.Sprintf("%d requests %s were reported Completed; the log holds %d entries of it that the stated rules accept and %d they reject", o["completed"], sig, acceptedBySig[sig], rejectedBySig[sig]), w)
		}
		if o["rejected"] > rejectedBySig[sig] {
			w := wit()
			w["request"], w["outcomes"] = sig, o
			sk.Violation("C07", "request-rejected-but-the-rules-accept-it",
				fmt.Sprintf("%d requests %s were reported Rejected; the log holds %d entries of it that the stated rules reject and %d they accept", o["rejected"], sig, rejectedBySig[sig], acceptedBySig[sig]), w)
		}
	}
	// (2) the membership every running replica reports
	want := model.pb()
	same := func(a map[uint64]string, b map[uint64]string) bool {
		if len(a) != len(b) {
			return false
		}
		for k, v := range a {
			if b[k] != v {
				return false
			}
		}
		return true
	}
	compared := 0
	for hi := 0; hi < nHosts; hi++ {
		nh := c.Hosts[hi].NodeHost()
		if nh == nil {
			continue
		}
		rep := uint64(hi + 1)
		if hi >= 3 {
			mu.Lock()
			st, wit := started[rep], witnessStarted[rep]
			mu.Unlock()
			if !st || wit {
				continue // witnesses serve no reads
			}
		}
		if model.R[rep] {
			continue // removed from the shard: it may never learn the end of the story
		}
		var got *dragonboat.Membership
		for try := 0; try < 60 && got == nil; try++ {
			ctx, cancel := context.WithTimeout(context.Background(), time.Second)
			m, err := nh.SyncGetShardMembership(ctx, shardID)
			cancel()
			if err == nil {
				got = m
			} else {
				time.Sleep(50 * time.Millisecond)
			}
		}
		if got == nil {
			sk.Count("replicas_without_a_membership_answer", 1)
			continue
		}
		compared++
		removed := map[uint64]bool{}
		for k := range got.Removed {
			removed[k] = true
		}
		okR := len(removed) == len(want.Removed)
		for k := range want.Removed {
			okR = okR && removed[k]
		}
		if !same(got.Nodes, want.Addresses) || !same(got.NonVotings, want.NonVotings) || !same(got.Witnesses, want.Witnesses) || !okR || got.ConfigChangeID != want.ConfigChangeId {
			w := wit()
			w["replica"] = rep
			w["reported"] = fmt.Sprintf("%+v", *got)
			ids := func(m map[uint64]bool) []uint64 {
				var o []uint64
				for k := range m {
					o = append(o, k)
				}
				sort.Slice(o, func(i, j int) bool { return o[i] < o[j] })
				return o
			}
			sk.Violation("C07", "membership-differs-from-the-stated-rules",
				fmt.Sprintf("replica %d reports voters %v non-voting %v witnesses %v removed %v change id %d; replaying the %d config change entries of the log by the stated rules gives voters %v non-voting %v witnesses %v removed %v change id %d",
					rep, got.Nodes, got.NonVotings, got.Witnesses, ids(removed), got.ConfigChangeID, nAcc+nRej, want.Addresses, want.NonVotings, want.Witnesses, ids(want.Removed), want.ConfigChangeId), w)
		}
	}
	sk.Count("replica_memberships_compared_with_the_reference", int64(compared))
	sk.Count("leader_changes", int64(leaderChanges))
	sk.Count("requests_with_unknown_outcome", int64(unknown))
	// C02 at node level: the replicas with a state machine hold the same data
	reps := snapshotReplicas()
	for rep := range reps {
		if model.R[rep] {
			delete(reps, rep)
		}
	}
	if waitFor(20*time.Second, func() bool { return sameState(c, shardID, reps) }) {
		replayCheck(c, sk, shardID, reps, caseNo, "members-after-heal")
	} else {
		sk.Count("not_converged_after_heal", 1)
	}
	var sigs []string
	for _, t := range trace {
		sigs = append(sigs, t.Sig+"="+t.Verdict)
	}
	r.Case(nAcc >= 6 && nRej >= 4 && leaderChanges > 0 && unknown > 0 && compared >= 2, common.Hash(strings.Join(sigs, ";")))
	if r.WantSample() {
		t := trace
		if len(t) > 25 {
			t = t[:25]
		}
		r.Sample(map[string]interface{}{"case": caseNo, "config": desc, "first_judged_entries": t, "accepted": nAcc, "rejected": nRej, "leader_changes": leaderChanges, "unknown_outcomes": unknown})
	}
}
