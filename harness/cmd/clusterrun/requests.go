package main

import (
	"context"
	"encoding/binary"
	"fmt"
	"math/rand"
	"os"
	"sync"
	"sync/atomic"
	"time"

	dragonboat "github.com/lni/dragonboat/v4"
	"github.com/lni/dragonboat/v4/client"
	"github.com/lni/dragonboat/v4/internal/verifhook"
	"github.com/lni/dragonboat/v4/verifh/cluster"
	"github.com/lni/dragonboat/v4/verifh/common"
)

// reqRec follows one accepted request to quiescence.
type reqRec struct {
	kind      string
	id        uint64 // payload id (proposals)
	host      int
	acceptAt  int64
	timeoutMs int
	// ticks the replica of the accepting host had processed when the request was accepted (read
	// after the request's deadline was fixed: an upper bound of the deadline's base), 0 = unknown
	acceptTick int64
	overdue    bool
	released   bool
	mu         sync.Mutex
	results    []string // codes in arrival order
	committed  int
	value      uint64
	data       []byte
	doneAt     int64
}

// expirySlack: ticks beyond its deadline after which a request without a terminal result is overdue.
const expirySlack = 300

// requestsMode (C12): every accepted request is followed by a watcher until
// the shard / host has fully stopped: exactly one terminal result, at most one
// commit notification before it, a Completed result carries the requester's
// own value and comes after the local apply, a Dropped/Rejected proposal is
// never applied.
func requestsMode(r *common.Run, sk *sink) {
	r.SetRule("each case = one 3-host cluster (PRNG: NotifyCommit, store, state machine kind) with 12 goroutines issuing Propose / ReadIndex / config change / RequestSnapshot / QueryRaftLog with timeouts of 1-4 ticks up to 1s, half of the requests released and re-issued at once (pool reuse), under leader isolation, StopShard + restart and final NodeHost.Close under load, with delays injected at the commit-notification and read-index hand-over windows; every accepted request is watched to quiescence; 4 more goroutines call SyncPropose with a context deadline tuned to the running completion latency (the ctx.Done() branch races the result) and require that a completed call carries the id of its own payload; non-trivial = expirations raced with applies, pooled objects were reused, and a stop/close happened with requests in flight; distinct by hash of the per-kind outcome histogram")
	r.Assume("'never zero results' is decided at quiescence (after StopShard / NodeHost.Close returned) and, while the shard runs, in logical time: no terminal result although the accepting replica processed timeout + 300 more ticks (NodeTick hook) is a violation; wall clocks decide nothing")
	n := r.Pick(36, 240)
	for _, c := range r.MyCases(n) {
		runRequests(r, sk, c, r.Rand("requests", c), r.SubSeed("requests-seed", c))
		r.Flush()
	}
}

func runRequests(r *common.Run, sk *sink, caseNo int, rng *rand.Rand, seed int64) {
	notify := rng.Intn(2) == 0
	store := cluster.Pebble
	if rng.Intn(3) == 0 {
		store = cluster.Tan
	}
	kind := []cluster.SMKind{cluster.Regular, cluster.Regular, cluster.Concurrent, cluster.OnDisk}[rng.Intn(4)]
	winDelay := time.Duration(rng.Intn(3)) * time.Millisecond
	preVote := rand.New(rand.NewSource(seed^0x9e7)).Intn(2) == 0
	var cancelAtApply sync.Map
	var slowReplayHost int32 // host index + 1 whose state machine dwells in every Update (0: none)
	fmt.Printf("requests case %d notifyCommit %v store %s sm %s windowDelay %v\n", caseNo, notify, store, kind, winDelay)
	c := cluster.NewCluster(cluster.Options{Hosts: 3, Seed: seed, RTTMs: 10, Store: store, NotifyCommit: notify,
		SMOpt: func(uint64, uint64) cluster.SMOptions {
			return cluster.SMOptions{Kind: kind, RecordApply: true, OnApply: func(host int, id uint64) {
				// a client whose context ends exactly when its entry is applied on its host
				if f, ok := cancelAtApply.Load([2]uint64{uint64(host), id}); ok {
					f.(context.CancelFunc)()
				}
				// a replica that replays its log slowly after an in-process restart
				if atomic.LoadInt32(&slowReplayHost) == int32(host)+1 {
					sk.Count("updates_dwelling_during_slow_replay", 1)
					if os.Getenv("VERIF_DEBUG") != "" {
						fmt.Fprintf(os.Stderr, "DWELL %d id %d\n", time.Now().UnixNano()/1000, id)
					}
					time.Sleep(2 * time.Millisecond)
				}
			}}
		}}, sk)
	if winDelay > 0 {
		var n1, n2 uint32
		verifhook.SetPoint(verifhook.ProposalCommittedWindow, func(uint64, uint64) {
			if atomic.AddUint32(&n1, 1)%7 == 0 {
				time.Sleep(winDelay)
			}
		})
		verifhook.SetPoint(verifhook.ReadIndexWindow, func(uint64, uint64) {
			if atomic.AddUint32(&n2, 1)%5 == 0 {
				time.Sleep(winDelay)
			}
		})
		defer verifhook.SetPoint(verifhook.ProposalCommittedWindow, func(uint64, uint64) {})
		defer verifhook.SetPoint(verifhook.ReadIndexWindow, func(uint64, uint64) {})
	}
	const shardID = 1
	if err := c.StartAll(); err != nil {
		r.Inconclusive(fmt.Sprintf("case %d: start failed: %v", caseNo, err))
		return
	}
	var recMu sync.Mutex
	var recs []*reqRec
	var watchers sync.WaitGroup
	var stopFlag, pauseFlag int32
	addRec := func(rec *reqRec) {
		recMu.Lock()
		recs = append(recs, rec)
		recMu.Unlock()
	}
	// watch drains the result channel of an accepted request. quiesce is closed
	// once the cluster has fully stopped; a request without a terminal result
	// by then never got one.
	quiesce := make(chan struct{})
	watch := func(rs *dragonboat.RequestState, rec *reqRec, release bool) {
		defer watchers.Done()
		ch := rs.ResultC()
		terminal := false
		handle := func(res dragonboat.RequestResult) bool {
			code := "other"
			switch {
			case res.Completed():
				code = "completed"
			case res.Committed():
				code = "committed"
			case res.Timeout():
				code = "timeout"
			case res.Terminated():
				code = "terminated"
			case res.Dropped():
				code = "dropped"
			case res.Rejected():
				code = "rejected"
			case res.Aborted():
				code = "aborted"
			case res.RequestOutOfRange():
				code = "out-of-range"
			}
			rec.mu.Lock()
			rec.results = append(rec.results, code)
			if code == "committed" {
				rec.committed++
			} else {
				if code == "completed" && rec.kind == "propose" {
					rec.value = res.GetResult().Value
					rec.data = append([]byte(nil), res.GetResult().Data...)
				}
				rec.doneAt = c.Clock.Now()
				terminal = true
			}
			rec.mu.Unlock()
			if terminal && release {
				rec.mu.Lock()
				rec.released = true
				rec.mu.Unlock()
				rs.Release()
				return true
			}
			return false
		}
		for {
			select {
			case res := <-ch:
				if handle(res) {
					return
				}
			case <-quiesce:
				// a result that was delivered before quiescence but not read yet (the scheduler may have
				// kept this goroutine waiting) still counts
				for {
					select {
					case res := <-ch:
						if handle(res) {
							return
						}
					default:
						return
					}
				}
			}
		}
	}
	var sessMu sync.Mutex
	sessions := map[int]*client.Session{}
	noopSession := func(hi int, nh *dragonboat.NodeHost) *client.Session {
		sessMu.Lock()
		defer sessMu.Unlock()
		if sessions[hi] == nil {
			sessions[hi] = nh.GetNoOPSession(shardID)
		}
		return sessions[hi]
	}
	var forceHost int32    // host index + 1 that every request goes through, as proposals only (0: any host, any kind)
	var forceAnyKind int32 // with forceHost: requests of every kind
	issue := func(g int, prng *rand.Rand) {
		h := c.Hosts[prng.Intn(3)]
		forced := atomic.LoadInt32(&forceHost)
		if forced != 0 {
			h = c.Hosts[forced-1]
		}
		nh := h.NodeHost()
		if nh == nil {
			return
		}
		toMs := []int{10, 20, 30, 40, 100, 300, 1000}[prng.Intn(7)]
		to := time.Duration(toMs) * time.Millisecond
		release := prng.Intn(2) == 0
		var rs *dragonboat.RequestState
		var err error
		rec := &reqRec{host: h.Index, timeoutMs: toMs}
		x := prng.Intn(20)
		if forced != 0 && atomic.LoadInt32(&forceAnyKind) == 0 {
			x = 0
		}
		switch {
		case x < 11:
			rec.kind = "propose"
			rec.id = cluster.NewID()
			// one NoOP session object per host, kept across restarts of the replica and of the NodeHost
			// (a client does not make a new one for every proposal)
			rs, err = nh.Propose(noopSession(h.Index, nh), cluster.MakeCmd(byte(prng.Intn(2)), rec.id), to)
		case x < 17:
			rec.kind = "readindex"
			rs, err = nh.ReadIndex(shardID, to)
		case x < 18:
			rec.kind = "snapshot"
			opt := dragonboat.SnapshotOption{}
			if prng.Intn(3) == 0 {
				// exported snapshots are also taken when nothing new was applied
				opt.Exported = true
				opt.ExportPath = fmt.Sprintf("/export-%d", cluster.NewID())
				if h.FS.MkdirAll(opt.ExportPath, 0o755) != nil {
					return
				}
			}
			rs, err = nh.RequestSnapshot(shardID, opt, to)
		case x < 19:
			rec.kind = "querylog"
			rs, err = nh.QueryRaftLog(shardID, 1, 5, 1024)
		default:
			rec.kind = "configchange"
			// add a non-voting member that is never started (cannot affect quorums)
			rs, err = nh.RequestAddNonVoting(shardID, 100+uint64(prng.Intn(50)), fmt.Sprintf("nohost%d:1", prng.Intn(50)), 0, to)
		}
		if err != nil {
			sk.Count("not_accepted_"+rec.kind, 1)
			return
		}
		rec.acceptAt = c.Clock.Now()
		if forced != 0 && os.Getenv("VERIF_DEBUG") != "" {
			fmt.Fprintf(os.Stderr, "ACCEPT %d id %d to %d\n", time.Now().UnixNano()/1000, rec.id, toMs)
		}
		// (a log query has no deadline; raft answers it locally in its next step, whatever the
		// replica's role: timeout 0 + the same slack)
		rec.acceptTick = c.Ticks(shardID, uint64(h.Index+1))
		if rec.kind == "querylog" {
			rec.timeoutMs = 0
		}
		addRec(rec)
		watchers.Add(1)
		go watch(rs, rec, release)
	}
	members := c.Members(3)
	for _, h := range c.Hosts {
		cfg := cluster.ShardConfig(shardID, uint64(h.Index+1))
		cfg.SnapshotEntries, cfg.CompactionOverhead = 50, 5
		cfg.PreVote = preVote
		if err := h.StartReplica(members, false, kind, cfg); err != nil {
			r.Inconclusive(fmt.Sprintf("case %d: %v", caseNo, err))
			c.StopAll()
			return
		}
	}
	// requests of every kind from the first moment on: replicas that have not applied anything
	// yet (no membership, no leader) must answer them as well
	early := rand.New(rand.NewSource(seed ^ 0xea71))
	for i := 0; i < 60; i++ {
		issue(0, early)
		if i%6 == 5 {
			time.Sleep(time.Millisecond)
		}
	}
	replicas := map[uint64]int{1: 0, 2: 1, 3: 2}
	if !waitFor(15*time.Second, func() bool { return c.LeaderHost(shardID, replicas) >= 0 }) {
		r.Inconclusive(fmt.Sprintf("case %d: no leader", caseNo))
		c.StopAll()
		return
	}
	var wg sync.WaitGroup
	for g := 0; g < 12; g++ {
		wg.Add(1)
		go func(g int) {
			defer wg.Done()
			prng := rand.New(rand.NewSource(seed + int64(g)*31))
			for atomic.LoadInt32(&stopFlag) == 0 {
				if atomic.LoadInt32(&pauseFlag) != 0 {
					time.Sleep(5 * time.Millisecond)
					continue
				}
				issue(g, prng)
				time.Sleep(time.Duration(prng.Intn(3000)) * time.Microsecond)
			}
		}(g)
	}
	// synchronous clients whose context expires about when the result is due: SyncPropose returns
	// through its ctx.Done() branch while the result is being delivered, the request object goes
	// back to the pool, the next request may get that object. A completed SyncPropose must carry
	// the id of its own payload, and what it reports as completed must have been applied.
	for g := 0; g < 4; g++ {
		wg.Add(1)
		go func(g int) {
			defer wg.Done()
			prng := rand.New(rand.NewSource(seed + 1000 + int64(g)*17))
			lat := 3 * time.Millisecond // running estimate of the completion latency
			for atomic.LoadInt32(&stopFlag) == 0 {
				if atomic.LoadInt32(&pauseFlag) != 0 {
					time.Sleep(5 * time.Millisecond)
					continue
				}
				h := c.Hosts[prng.Intn(3)]
				nh := h.NodeHost()
				if nh == nil {
					time.Sleep(5 * time.Millisecond)
					continue
				}
				id := cluster.NewID()
				to := time.Duration(float64(lat) * (0.6 + 0.8*prng.Float64()))
				if to < 200*time.Microsecond {
					to = 200 * time.Microsecond
				}
				atApply := prng.Intn(3) == 0
				if atApply {
					to = time.Second
				}
				ctx, cancel := context.WithTimeout(context.Background(), to)
				if atApply {
					cancelAtApply.Store([2]uint64{uint64(h.Index), id}, cancel)
					sk.Count("sync_proposals_cancelled_at_apply", 1)
				}
				t0 := time.Now()
				res, err := nh.SyncPropose(ctx, nh.GetNoOPSession(shardID), cluster.MakeCmd(byte(prng.Intn(2)), id))
				d := time.Since(t0)
				cancel()
				if atApply {
					cancelAtApply.Delete([2]uint64{uint64(h.Index), id})
					if err == nil {
						d = lat
					} else {
						err, d = nil, 0
						continue
					}
				}
				sk.Count("sync_proposals", 1)
				if err == nil {
					lat = (lat*7 + d) / 8
					sk.Count("sync_proposals_completed", 1)
					if len(res.Data) != 8 || binary.BigEndian.Uint64(res.Data) != id {
						sk.Violation("C12", "result-of-another-request",
							fmt.Sprintf("SyncPropose of payload %d on host %d returned a result that carries id %x (value %d)", id, h.Index, res.Data, res.Value),
							map[string]interface{}{"case": caseNo, "id": id, "host": h.Index, "ctx_timeout_us": to.Microseconds(), "notify_commit": notify})
					}
				} else {
					sk.Count("sync_proposals_failed_or_expired", 1)
					if d < to+to/4 && d > to-to/4 {
						sk.Count("sync_proposals_expired_close_to_their_deadline", 1)
					}
					lat = (lat*15 + 2*to) / 16
				}
			}
		}(g)
	}
	// clients that give up: the request is issued with a generous library timeout, the client does
	// not look at the result channel, waits about as long as a completion takes and releases the
	// request object (deferred Release + a select that took the branch of the caller's own timer
	// although the result had just arrived). An object released with an unconsumed result goes
	// back to the pool; whoever gets it next must not see that result. Nothing is asserted about
	// the abandoned requests themselves; the requests of the other clients are judged as always.
	for g := 0; g < 3; g++ {
		wg.Add(1)
		go func(g int) {
			defer wg.Done()
			prng := rand.New(rand.NewSource(seed + 5000 + int64(g)*13))
			for atomic.LoadInt32(&stopFlag) == 0 {
				if atomic.LoadInt32(&pauseFlag) != 0 {
					time.Sleep(5 * time.Millisecond)
					continue
				}
				h := c.Hosts[prng.Intn(3)]
				nh := h.NodeHost()
				if nh == nil {
					time.Sleep(5 * time.Millisecond)
					continue
				}
				var rs *dragonboat.RequestState
				var err error
				if prng.Intn(3) == 0 {
					rs, err = nh.ReadIndex(shardID, time.Second)
				} else {
					rs, err = nh.Propose(noopSession(h.Index, nh), cluster.MakeCmd(byte(prng.Intn(2)), cluster.NewID()), time.Second)
				}
				if err != nil {
					time.Sleep(2 * time.Millisecond)
					continue
				}
				time.Sleep(time.Duration(prng.Intn(12000)) * time.Microsecond)
				// (the field, not ResultC(): with NotifyCommit that method starts a goroutine which
				// bridges the two channels and keeps using the object until both results were taken)
				if len(rs.CompletedC) > 0 {
					sk.Count("requests_released_with_an_unconsumed_result", 1)
				} else {
					sk.Count("requests_abandoned_before_their_result", 1)
				}
				rs.Release()
			}
		}(g)
	}
	// operator
	type opEvent struct {
		What  string `json:"what"`
		Host  int    `json:"host"`
		Stamp int64  `json:"stamp"`
	}
	var evMu sync.Mutex
	var events []opEvent
	logEvent := func(what string, host int) {
		evMu.Lock()
		events = append(events, opEvent{what, host, c.Clock.Now()})
		evMu.Unlock()
	}
	stopsUnderLoad := 0
	steps := 8 + rng.Intn(6)
	for i := 0; i < steps; i++ {
		h := c.Hosts[rng.Intn(3)]
		switch rng.Intn(6) {
		case 5:
			// two in-process restarts of one replica in a row (the NodeHost keeps running): the short
			// incarnation in between makes a few dozen proposals through that host; the next incarnation
			// replays them slowly while it makes its own first proposals
			nh := h.NodeHost()
			if nh == nil {
				break
			}
			cfg := cluster.ShardConfig(shardID, uint64(h.Index+1))
			cfg.SnapshotEntries, cfg.CompactionOverhead = 50, 5
			cfg.PreVote = preVote
			// the other clients pause: the short incarnation's proposals are the tail of the log
			atomic.StoreInt32(&pauseFlag, 1)
			time.Sleep(30 * time.Millisecond)
			{
				// a snapshot now, so that the periodic one (every 50 entries) does not cover the short
				// incarnation's proposals before the second restart
				ctx, cancel := context.WithTimeout(context.Background(), time.Second)
				_, _ = nh.SyncRequestSnapshot(ctx, shardID, dragonboat.SnapshotOption{})
				cancel()
			}
			logEvent("double-restart: StopShard #1 called", h.Index)
			if nh.StopShard(shardID) != nil {
				atomic.StoreInt32(&pauseFlag, 0)
				break
			}
			logEvent("double-restart: StopShard #1 returned", h.Index)
			restartNow := func() bool {
				// StopShard returns before the replica is fully unloaded
				for try := 0; try < 100; try++ {
					if h.RestartReplica(members, kind, cfg) == nil {
						return true
					}
					time.Sleep(5 * time.Millisecond)
				}
				return false
			}
			if !restartNow() {
				atomic.StoreInt32(&pauseFlag, 0)
				break
			}
			atomic.StoreInt32(&forceHost, int32(h.Index)+1)
			time.Sleep(time.Duration(80+rng.Intn(80)) * time.Millisecond)
			short := rand.New(rand.NewSource(seed ^ int64(i)*7919))
			for k := 0; k < 20+rng.Intn(20); k++ {
				issue(0, short)
			}
			time.Sleep(time.Duration(60+rng.Intn(60)) * time.Millisecond)
			atomic.StoreInt32(&slowReplayHost, int32(h.Index)+1)
			logEvent("double-restart: StopShard #2 called", h.Index)
			if nh.StopShard(shardID) == nil {
				logEvent("double-restart: StopShard #2 returned", h.Index)
				stopsUnderLoad++
				ok := restartNow()
				logEvent("double-restart: replica restarted", h.Index)
				// proposals made before the replica knows the leader are dropped at once; the first
				// proposals that can stay pending are made while the log is still being replayed
				waitFor(300*time.Millisecond, func() bool {
					_, _, known, err := nh.GetLeaderID(shardID)
					return err == nil && known
				})
				if os.Getenv("VERIF_DEBUG") != "" {
					fmt.Fprintf(os.Stderr, "UNPAUSE %d\n", time.Now().UnixNano()/1000)
				}
				atomic.StoreInt32(&pauseFlag, 0)
				time.Sleep(time.Duration(150+rng.Intn(150)) * time.Millisecond)
				if ok {
					sk.Count("double_in_process_restart_with_slow_replay", 1)
				}
			}
			atomic.StoreInt32(&pauseFlag, 0)
			atomic.StoreInt32(&slowReplayHost, 0)
			atomic.StoreInt32(&forceHost, 0)
		case 0:
			if li := c.LeaderHost(shardID, replicas); li >= 0 {
				c.Net.Isolate(c.Hosts[li].Addr, rng.Intn(2) == 0)
				time.Sleep(time.Duration(200+rng.Intn(300)) * time.Millisecond)
				c.Net.HealAll()
				sk.Count("leader_isolated", 1)
			}
		case 1:
			if nh := h.NodeHost(); nh != nil {
				logEvent("StopShard called", h.Index)
				if err := nh.StopShard(shardID); err == nil {
					logEvent("StopShard returned", h.Index)
					stopsUnderLoad++
					sk.Count("stop_shard_under_load", 1)
					time.Sleep(time.Duration(20+rng.Intn(60)) * time.Millisecond)
					cfg := cluster.ShardConfig(shardID, uint64(h.Index+1))
					cfg.SnapshotEntries, cfg.CompactionOverhead = 50, 5
					cfg.PreVote = preVote
					_ = h.RestartReplica(members, kind, cfg)
				}
			}
		case 2:
			if h.NodeHost() != nil {
				logEvent("NodeHost.Close called", h.Index)
				h.Stop()
				logEvent("NodeHost.Close returned", h.Index)
				stopsUnderLoad++
				sk.Count("host_close_under_load", 1)
				time.Sleep(30 * time.Millisecond)
				if err := h.Restart(); err != nil {
					sk.Violation("C16", "restart-failed", fmt.Sprintf("host %d failed to restart: %v", h.Index, err), nil)
				}
			}
		default:
			time.Sleep(time.Duration(100+rng.Intn(200)) * time.Millisecond)
		}
		time.Sleep(time.Duration(100+rng.Intn(150)) * time.Millisecond)
	}
	// expiry in logical time: a request that has no terminal result although the replica that
	// accepted it has processed its whole timeout plus expirySlack more ticks is overdue ("by
	// tick-driven expiry shortly after its deadline at the latest"). The slack covers the expiry
	// granularity (a few ticks) and, generously, the lag of the watcher goroutine; in half of the
	// cases the clients pause here until every replica has ticked long enough for the requests
	// issued so far to be judged.
	sweep := func() {
		recMu.Lock()
		cur := append([]*reqRec(nil), recs...)
		recMu.Unlock()
		now := map[int]int64{}
		for i := 0; i < 3; i++ {
			now[i] = c.Ticks(shardID, uint64(i+1))
		}
		for _, rec := range cur {
			if rec.acceptTick == 0 {
				continue
			}
			rec.mu.Lock()
			terminal := false
			for _, code := range rec.results {
				if code != "committed" {
					terminal = true
				}
			}
			due := rec.acceptTick + int64(rec.timeoutMs/10) + expirySlack
			if !terminal && !rec.overdue && now[rec.host] >= due {
				rec.overdue = true
				sk.Violation("C12", "no-result-long-after-the-deadline:"+rec.kind,
					fmt.Sprintf("%s request accepted on host %d with a timeout of %d ticks when its replica had processed %d ticks still has no terminal result after %d ticks (the shard was not stopped)", rec.kind, rec.host, rec.timeoutMs/10, rec.acceptTick, now[rec.host]),
					map[string]interface{}{"case": caseNo, "kind": rec.kind, "host": rec.host, "timeout_ms": rec.timeoutMs, "accept_tick": rec.acceptTick, "ticks_now": now[rec.host], "results": append([]string(nil), rec.results...)})
			}
			if terminal || rec.overdue {
				rec.acceptTick = 0 // judged
				sk.Count("requests_judged_for_expiry_in_ticks", 1)
			}
			rec.mu.Unlock()
		}
	}
	if rng.Intn(2) == 0 {
		atomic.StoreInt32(&pauseFlag, 1)
		if iso := rng.Intn(4); iso < 3 {
			// one host is cut off for the whole drain and gets requests of every kind first: without
			// a quorum proposals, reads and membership changes must expire on their deadlines, log
			// queries - answered by the replica itself, whatever its role - must still be answered
			time.Sleep(20 * time.Millisecond)
			c.Net.Isolate(c.Hosts[iso].Addr, rng.Intn(2) == 0)
			time.Sleep(time.Duration(150+rng.Intn(150)) * time.Millisecond) // past the election timeout
			atomic.StoreInt32(&forceAnyKind, 1)
			atomic.StoreInt32(&forceHost, int32(iso)+1)
			lone := rand.New(rand.NewSource(seed ^ 0x150))
			for k := 0; k < 60; k++ {
				issue(0, lone)
				if k%10 == 9 {
					time.Sleep(15 * time.Millisecond)
				}
			}
			atomic.StoreInt32(&forceHost, 0)
			atomic.StoreInt32(&forceAnyKind, 0)
			sk.Count("expiry_drains_with_a_host_without_quorum", 1)
		}
		base := map[int]int64{}
		for i := 0; i < 3; i++ {
			base[i] = c.Ticks(shardID, uint64(i+1))
		}
		reached := waitFor(8*time.Second, func() bool {
			for i := 0; i < 3; i++ {
				if c.Hosts[i].NodeHost() != nil && c.Ticks(shardID, uint64(i+1)) < base[i]+100+expirySlack+5 {
					return false
				}
			}
			return true
		})
		if reached {
			sweep()
			sk.Count("cases_with_expiry_drain", 1)
		} else {
			sk.Count("expiry_drain_watchdog", 1)
		}
		c.Net.HealAll()
		atomic.StoreInt32(&pauseFlag, 0)
		time.Sleep(time.Duration(150+rng.Intn(200)) * time.Millisecond)
	}
	sweep()
	// final close under load, then quiescence
	c.StopAll()
	stopsUnderLoad++
	atomic.StoreInt32(&stopFlag, 1)
	wg.Wait()
	time.Sleep(100 * time.Millisecond)
	close(quiesce)
	watchers.Wait()

	// what every state machine instance applied
	appliedAt := map[int]map[uint64]int64{} // host -> id -> first apply stamp
	appliedAny := map[uint64]bool{}
	for _, in := range c.SMs.Instances() {
		m := appliedAt[in.Host]
		if m == nil {
			m = map[uint64]int64{}
			appliedAt[in.Host] = m
		}
		for _, a := range in.Applied() {
			if _, ok := m[a.ID]; !ok {
				m[a.ID] = a.Stamp
			}
			appliedAny[a.ID] = true
		}
	}
	hist := map[string]int{}
	expiredButApplied, reused := 0, 0
	recMu.Lock()
	all := recs
	recMu.Unlock()
	for _, rec := range all {
		rec.mu.Lock()
		results := append([]string(nil), rec.results...)
		rec.mu.Unlock()
		terminals := 0
		committedAfterTerminal := false
		seenTerminal := false
		for _, code := range results {
			if code == "committed" {
				if seenTerminal {
					committedAfterTerminal = true
				}
				continue
			}
			terminals++
			seenTerminal = true
		}
		last := "none"
		if len(results) > 0 {
			last = results[len(results)-1]
		}
		hist[rec.kind+":"+last]++
		wit := map[string]interface{}{"case": caseNo, "kind": rec.kind, "host": rec.host, "timeout_ms": rec.timeoutMs, "results": results,
			"notify_commit": notify, "id": rec.id, "released": rec.released, "accept_stamp": rec.acceptAt, "accept_tick": rec.acceptTick}
		if terminalsOf(results) == 0 {
			evMu.Lock()
			var near []opEvent
			for _, e := range events {
				if e.Host == rec.host {
					near = append(near, e)
				}
			}
			evMu.Unlock()
			wit["operator_events_on_that_host"] = near
		}
		switch {
		case terminals == 0:
			sk.Violation("C12", "no-terminal-result:"+rec.kind,
				fmt.Sprintf("%s request accepted on host %d never got a terminal result although the host was closed (results %v)", rec.kind, rec.host, results), wit)
		case terminals > 1:
			sk.Violation("C12", "two-terminal-results:"+rec.kind,
				fmt.Sprintf("%s request got %d terminal results %v", rec.kind, terminals, results), wit)
		}
		if rec.committed > 1 {
			sk.Violation("C12", "two-commit-notifications", fmt.Sprintf("%s request got %d commit notifications %v", rec.kind, rec.committed, results), wit)
		}
		if committedAfterTerminal {
			sk.Violation("C12", "commit-notification-after-terminal", fmt.Sprintf("%s request got a commit notification after its terminal result %v", rec.kind, results), wit)
		}
		if rec.committed > 0 && !notify {
			sk.Violation("C12", "commit-notification-without-notifycommit", fmt.Sprintf("%s request got a commit notification although NotifyCommit is off", rec.kind), wit)
		}
		if rec.kind != "propose" {
			continue
		}
		switch last {
		case "completed":
			if len(rec.data) != 8 || binary.BigEndian.Uint64(rec.data) != rec.id {
				sk.Violation("C12", "result-of-another-request",
					fmt.Sprintf("proposal %d completed with a result carrying id %x", rec.id, rec.data), wit)
			}
			st, ok := appliedAt[rec.host][rec.id]
			if !ok {
				sk.Violation("C12", "completed-before-local-apply",
					fmt.Sprintf("proposal %d was reported Completed on host %d but no state machine instance of that host ever applied it", rec.id, rec.host), wit)
			} else if st > rec.doneAt {
				sk.Violation("C12", "completed-before-local-apply",
					fmt.Sprintf("proposal %d was reported Completed on host %d (stamp %d) before it was applied there (stamp %d)", rec.id, rec.host, rec.doneAt, st), wit)
			}
		case "dropped", "rejected":
			if appliedAny[rec.id] {
				sk.Violation("C12", "dropped-proposal-applied",
					fmt.Sprintf("proposal %d was reported %s but was applied to the state machine", rec.id, last), wit)
			}
		case "timeout":
			if appliedAny[rec.id] {
				expiredButApplied++
			}
		}
		if rec.released {
			reused++
		}
	}
	for k, v := range hist {
		sk.Count("outcome_"+k, int64(v))
	}
	sk.Count("requests_watched", int64(len(all)))
	sk.Count("expired_but_applied_later", int64(expiredButApplied))
	sk.Count("released_for_reuse", int64(reused))
	sk.Count("stops_or_closes_under_load", int64(stopsUnderLoad))
	nontrivial := expiredButApplied > 0 && reused > 0 && stopsUnderLoad > 0
	r.Case(nontrivial, common.Hash(fmt.Sprintf("%v", hist)))
	if r.WantSample() {
		r.Sample(map[string]interface{}{"case": caseNo, "notify_commit": notify, "store": store.String(), "sm": kind.String(),
			"requests": len(all), "outcomes": hist, "expired_but_applied_later": expiredButApplied})
	}
}

func terminalsOf(results []string) int {
	n := 0
	for _, c := range results {
		if c != "committed" {
			n++
		}
	}
	return n
}
