package main

import (
	"fmt"
	"math/rand"
	"sync"
	"time"

	"github.com/lni/dragonboat/v4/verifh/cluster"
	"github.com/lni/dragonboat/v4/verifh/common"
	"github.com/lni/dragonboat/v4/verifh/linz"
)

// readStormMode (C06 at node level; the request.go / node.go half of the
// ReadIndex path that the simulator does not contain): one follower applies
// slowly and its Replicate traffic is delayed, writers complete through the
// leader, and many clients issue linearizable reads (ReadIndex +
// ReadLocalNode, SyncRead) back to back on that follower - several per tick,
// many in flight at once, new ones arriving while earlier rounds are being
// confirmed. A read invoked after a write completed must contain it; decided
// by the exact history oracle on the recorded client history.
func readStormMode(r *common.Run, sk *sink) {
	r.SetRule("each case = 3 real NodeHosts; the state machine of one follower dwells 1-4 ms in every Update and the network delays a share of the messages; 3 writers append through the leader, 8 readers issue ReadIndex+ReadLocalNode / SyncRead on the slow follower without pause (2 more on the other hosts); PRNG: store, NotifyCommit, delays, read timeout; the recorded history (logical call / return stamps) is decided against the final lists by the exact oracle for the append-only-list model; non-trivial = at least 200 reads completed on the slow follower, reads overlapped writes and at least 50 writes completed; distinct by hash of the history")
	r.Assume("no faults other than delay and slow apply: every anomaly is a stale or non-prefix read (C06) of the unchanged request path")
	n := r.Pick(16, 160)
	for _, c := range r.MyCases(n) {
		runReadStorm(r, sk, c, r.Rand("readstorm", c), r.SubSeed("readstorm-seed", c))
		r.Flush()
	}
}

func runReadStorm(r *common.Run, sk *sink, caseNo int, rng *rand.Rand, seed int64) {
	store := cluster.Pebble
	if rng.Intn(3) == 0 {
		store = cluster.Tan
	}
	slow := time.Duration(1+rng.Intn(4)) * time.Millisecond
	delayPpm := 100000 + rng.Intn(300000)
	timeout := time.Duration(300+rng.Intn(700)) * time.Millisecond
	fmt.Printf("readstorm case %d store %s slowUpdate %v delayPpm %d timeout %v\n", caseNo, store, slow, delayPpm, timeout)
	const shardID = 1
	const slowReplica = 3
	c := cluster.NewCluster(cluster.Options{Hosts: 3, Seed: seed, RTTMs: 10, Store: store, NotifyCommit: rng.Intn(3) == 0,
		SMOpt: func(_, replicaID uint64) cluster.SMOptions {
			o := cluster.SMOptions{Kind: cluster.Regular, RecordApply: true}
			if replicaID == slowReplica {
				o.SlowUpdate = slow
			}
			return o
		}}, sk)
	if err := c.StartAll(); err != nil {
		r.Inconclusive(fmt.Sprintf("readstorm case %d: start failed: %v", caseNo, err))
		return
	}
	defer c.StopAll()
	members := c.Members(3)
	replicas := map[uint64]int{1: 0, 2: 1, 3: 2}
	for i := 0; i < 3; i++ {
		if err := c.Hosts[i].StartReplica(members, false, cluster.Regular, cluster.ShardConfig(shardID, uint64(i+1))); err != nil {
			r.Inconclusive(fmt.Sprintf("readstorm case %d: %v", caseNo, err))
			return
		}
	}
	if !waitFor(15*time.Second, func() bool { return c.SelfLeader(shardID, replicas) >= 0 }) {
		r.Inconclusive(fmt.Sprintf("readstorm case %d: no leader", caseNo))
		return
	}
	// the slow replica must be a follower
	for try := 0; try < 20 && c.SelfLeader(shardID, replicas) == 2; try++ {
		if nh := c.Hosts[2].NodeHost(); nh != nil {
			_ = nh.RequestLeaderTransfer(shardID, 1)
		}
		time.Sleep(200 * time.Millisecond)
	}
	if c.SelfLeader(shardID, replicas) == 2 {
		r.Inconclusive(fmt.Sprintf("readstorm case %d: leadership stayed on the slow replica", caseNo))
		return
	}
	c.Net.SetLoss(0, delayPpm, 50)
	hist := &cluster.History{}
	w := &cluster.Workload{C: c, ShardID: shardID, Keys: 2, Hist: hist, Seed: seed, Replicas: replicas, Timeout: timeout}
	var wg sync.WaitGroup
	stopW := make(chan struct{})
	for g := 0; g < 3; g++ {
		wg.Add(1)
		go func(g int) {
			defer wg.Done()
			prng := rand.New(rand.NewSource(seed + int64(g)))
			for i := 0; i < 120; i++ {
				select {
				case <-stopW:
					return
				default:
				}
				li := c.SelfLeader(shardID, replicas)
				if li < 0 {
					li = prng.Intn(2)
				}
				w.Append(c.Hosts[li], byte(prng.Intn(2)), prng.Intn(2) == 0, g)
				time.Sleep(time.Duration(prng.Intn(6)) * time.Millisecond)
			}
		}(g)
	}
	var rg sync.WaitGroup
	for g := 0; g < 10; g++ {
		rg.Add(1)
		go func(g int) {
			defer rg.Done()
			prng := rand.New(rand.NewSource(seed + 100 + int64(g)))
			h := c.Hosts[2]
			if g >= 8 {
				h = c.Hosts[g-8]
			}
			for i := 0; i < 150; i++ {
				w.Read(h, byte(prng.Intn(2)), prng.Intn(3) > 0, 10+g)
			}
		}(g)
	}
	// two clients that give up on their reads: ReadIndex on the slow follower, no look at the result
	// channel, Release after about the time a confirmation takes. A request object released with an
	// unconsumed result goes back to the pool; the read that gets it next must still be confirmed
	// and wait for its index.
	for g := 0; g < 2; g++ {
		wg.Add(1)
		go func(g int) {
			defer wg.Done()
			prng := rand.New(rand.NewSource(seed + 300 + int64(g)))
			for {
				select {
				case <-stopW:
					return
				default:
				}
				nh := c.Hosts[2].NodeHost()
				if nh == nil {
					return
				}
				rs, err := nh.ReadIndex(shardID, time.Second)
				if err != nil {
					time.Sleep(time.Millisecond)
					continue
				}
				time.Sleep(time.Duration(prng.Intn(8000)) * time.Microsecond)
				if len(rs.CompletedC) > 0 {
					sk.Count("reads_released_with_an_unconsumed_result", 1)
				}
				rs.Release()
				time.Sleep(time.Duration(10+prng.Intn(20)) * time.Millisecond)
			}
		}(g)
	}
	rg.Wait()
	close(stopW)
	wg.Wait()
	c.Net.SetLoss(0, 0, 0)
	converged := waitFor(60*time.Second, func() bool { return sameState(c, shardID, replicas) })
	if !converged {
		r.Inconclusive(fmt.Sprintf("readstorm case %d: replicas did not reach equal state within 60s", caseNo))
		return
	}
	final := finalLists(c, sk, shardID, replicas, 2)
	ops := hist.Ops()
	if final == nil {
		return
	}
	an := linz.Check(ops, final)
	for _, a := range an {
		wit := map[string]interface{}{"case": caseNo, "anomaly": a, "slow_update_ms": slow.Milliseconds(), "delay_ppm": delayPpm, "final_lengths": fmt.Sprintf("%d/%d", len(final["k0"]), len(final["k1"]))}
		sk.Violation("C06", "history:"+a.Kind, a.What, wit)
		sk.Violation("C01", "history:"+a.Kind, a.What, wit)
	}
	nOK, overlapW, overlapRW := histShape(ops)
	_ = overlapW
	readsSlow, writesOK := 0, 0
	for _, o := range ops {
		if o.Outcome != linz.OK {
			continue
		}
		if o.Append {
			writesOK++
		} else if o.Via == "host 2" {
			readsSlow++
		}
	}
	for k, v := range w.Stats() {
		sk.Count(k, v)
	}
	sk.Count("histories_decided", 1)
	sk.Count("reads_completed_on_slow_follower", int64(readsSlow))
	sk.Count("writes_completed", int64(writesOK))
	r.Case(readsSlow >= 200 && writesOK >= 50 && overlapRW, common.Hash(fmt.Sprintf("%v", ops)))
	if r.WantSample() {
		r.Sample(map[string]interface{}{"readstorm_case": caseNo, "ops": len(ops), "ops_ok": nOK, "reads_on_slow_follower": readsSlow, "writes": writesOK, "anomalies": len(an)})
	}
}
