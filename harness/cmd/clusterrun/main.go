// clusterrun is engine E2 (see DESIGN.md): real NodeHosts in one process on
// strict in-memory file systems and a fault injecting in-process network,
// driven by concurrent clients and a PRNG fault script, observed at the
// client, state machine, log store, network and event boundaries.
package main

import (
	"context"
	"fmt"
	"github.com/lni/dragonboat/v4/config"
	"math/rand"
	"os"
	"sort"
	"sync"
	"time"

	"github.com/anishathalye/porcupine"

	"github.com/lni/dragonboat/v4/internal/verifhook"
	"github.com/lni/dragonboat/v4/logger"
	pb "github.com/lni/dragonboat/v4/raftpb"
	"github.com/lni/dragonboat/v4/verifh/cluster"
	"github.com/lni/dragonboat/v4/verifh/common"
	"github.com/lni/dragonboat/v4/verifh/linz"
)

type sink struct {
	r  *common.Run
	mu sync.Mutex
}

func (s *sink) Violation(prop, key, what string, witness interface{}) {
	if prop != s.r.Prop {
		s.r.Count("alarms_of_other_properties_"+prop, 1)
		if os.Getenv("VERIF_DEBUG") != "" {
			fmt.Fprintf(os.Stderr, "OTHER %s %s: %s\n", prop, key, what)
		}
		return
	}
	s.r.Violation(key, what, witness)
}

func (s *sink) Count(key string, n int64) { s.r.Count(key, n) }

func quietLogs() {
	if os.Getenv("VERIF_LOGS") != "" {
		return
	}
	for _, n := range []string{"raft", "rsm", "logdb", "raftpb", "dragonboat", "config", "transport", "grpc", "tan", "registry", "settings", "server", "utils", "fileutil", "pebblekv", "tests", "order"} {
		logger.GetLogger(n).SetLevel(logger.CRITICAL)
	}
}

func main() {
	quietLogs()
	r := common.Start("clusterrun")
	sk := &sink{r: r}
	switch r.Mode {
	case "chaos", "sessions", "wire":
		chaosMode(r, sk)
	case "replay":
		replayMode(r, sk)
	case "learner":
		learnerMode(r, sk)
	case "contract":
		contractMode(r, sk)
	case "requests":
		requestsMode(r, sk)
	case "importer":
		importerMode(r, sk)
	case "roles":
		rolesMode(r, sk)
	case "progress":
		progressMode(r, sk)
	case "readstorm":
		readStormMode(r, sk)
	case "members":
		membersMode(r, sk)
	default:
		fmt.Fprintln(os.Stderr, "unknown mode", r.Mode)
		os.Exit(2)
	}
	r.Finish()
}

type chaosOpt struct {
	Case          int                `json:"case"`
	Hosts         int                `json:"hosts"`
	Store         string             `json:"store"`
	SM            string             `json:"sm"`
	NotifyCommit  bool               `json:"notify_commit"`
	PreVote       bool               `json:"pre_vote"`
	CheckQuorum   bool               `json:"check_quorum"`
	SnapEntries   uint64             `json:"snapshot_entries"`
	Overhead      uint64             `json:"compaction_overhead"`
	Keys          int                `json:"keys"`
	Clients       int                `json:"clients"`
	OpsPerClient  int                `json:"ops_per_client"`
	TimeoutMs     int                `json:"timeout_ms"`
	ScriptLen     int                `json:"script_len"`
	Crashes       bool               `json:"crashes"`
	NonVoting     bool               `json:"non_voting_replica"`
	SaveDelayMs   int                `json:"save_delay_ms"`
	PaceMs        int                `json:"pace_ms"`
	SlowPrepareMs int                `json:"slow_prepare_ms"`
	Snappy        bool               `json:"entry_compression_snappy"`
	SendQ         uint64             `json:"max_send_queue_bytes"`
	RecvQ         uint64             `json:"max_receive_queue_bytes"`
	SnapSnappy    int                `json:"snapshot_compression_snappy"` // 0 none, 1 every replica, 2 odd replica ids, 3 even replica ids
	CmdPad        int                `json:"max_command_padding"`
	Wire          bool               `json:"real_tcp_transport_behind_corrupting_proxies"`
	Ballast       int                `json:"snapshot_ballast_bytes"`
	ExtFiles      bool               `json:"external_snapshot_files"`
	WireFaults    cluster.WireFaults `json:"wire_faults"`
	Seed          int64              `json:"seed"`
}

func chaosMode(r *common.Run, sk *sink) {
	r.SetRule("each case = one lifetime of a 3- or 5-host cluster of real NodeHosts (one shard; PRNG-chosen store, state machine kind, NotifyCommit, PreVote/CheckQuorum, snapshot frequency) with 6-10 concurrent clients mixing SyncPropose, Propose+wait, SyncRead and ReadIndex+ReadLocalNode on every replica while a PRNG fault script runs (loss/delay/reordering, partitions, leader isolation, one-way cuts, leader transfer, power-loss crash + restart, graceful restart), then heal, convergence, power loss of all hosts, restart and final reads; non-trivial = the history has overlapping writes on a key, a read overlapping a write and more than one leader term; distinct by hash of the recorded history")
	r.Assume("E2 samples goroutine schedules of the real pipeline; a crash drops exactly the unsynced data of the host's strict in-memory file system after its traffic was cut; results observed after a host's crash instant count as unknown")
	if r.Mode == "replay" {
		r.SetRule("each case = one lifetime of a 3- or 5-host cluster of real NodeHosts as in the chaos stage, tuned for C08: snapshots every 8-25 entries with a compaction overhead of 1-3 entries so that lagging, isolated, crashed and newly added (non-voting) replicas are caught up by snapshot (file transfer for plain/concurrent state machines, live stream for on-disk ones), PrepareSnapshot dwelling 0-3 ms; after healing and again after a power loss of all hosts the state of every replica is compared with the replay of the whole committed log (union of the apply records of all state machine incarnations) up to the last entry that replica holds; non-trivial = at least one RecoverFromSnapshot happened and the replicas converged; distinct by hash of the recorded history. Then catch-up cases: 3 replicas (+1 non-voting replica added half way) under continuous writes, 8-13 cycles of cutting off or crashing a follower until the leader compacted the log it misses, healing, and catching it up by snapshot while entries keep being applied; same oracle")
	}
	if r.Mode == "wire" {
		r.SetRule("each case = one lifetime of a 3- or 5-host cluster of real NodeHosts as in the chaos stage, but on the real file system and over dragonboat's own TCP transport on loopback: every host advertises the address of a byte-level proxy of the harness that flips single bits, cuts connections inside frames and forwards the rest (the frame checks of the receiver are what keeps altered batches and chunks out); snapshot chunk streams lose, repeat and get single payload bytes changed before framing (the chunk tracker and the stream validator are what keeps altered images out); snapshots carry a ballast of up to 5 MB derived from the data (several blocks / chunks) and, for plain and concurrent state machines, 1-2 external files of sizes around the chunk size, all verified inside RecoverFromSnapshot; commands carry padding derived from their id, verified inside Update; hosts are stopped gracefully and restarted instead of losing power. Oracles: altered snapshot data or an altered command reaching the state machine, the linearizability oracle over the client history, every replica equal to the replay of the whole committed log. non-trivial = a snapshot was recovered from, bits were flipped on the wire and the replicas converged; distinct by hash of the recorded history")
		r.Assume("the proxies and the chunk perturbation never fabricate a message and never repeat a raft message batch; a bit flip the CRC32 of a frame cannot see (none for single flips) would be reported")
	}
	n := r.Pick(8, 96)
	if r.Prop == "C04" {
		n = r.Pick(8, 96)
	}
	if r.Mode == "wire" {
		n = r.Pick(6, 64)
	}
	for _, c := range r.MyCases(n) {
		rng := r.Rand("chaos", c)
		o := chaosOpt{
			Case: c, Hosts: 3, Store: "pebble", SM: "regular",
			NotifyCommit: rng.Intn(3) == 0, PreVote: rng.Intn(2) == 0, CheckQuorum: rng.Intn(3) != 0,
			SnapEntries: []uint64{0, 25, 60}[rng.Intn(3)], Overhead: uint64(3 + rng.Intn(8)),
			Keys: 2 + rng.Intn(2), Clients: 6 + rng.Intn(5), OpsPerClient: 120 + rng.Intn(60), PaceMs: 20 + rng.Intn(30),
			TimeoutMs: 400 + rng.Intn(1200), ScriptLen: 10 + rng.Intn(10), Crashes: true,
			Seed: r.SubSeed("chaos-seed", c),
		}
		if rng.Intn(4) == 0 {
			o.Hosts = 5
		}
		if rng.Intn(3) == 0 {
			o.Store = "tan"
		}
		switch rng.Intn(5) {
		case 0:
			o.SM = "concurrent"
		case 1:
			o.SM = "ondisk"
		}
		if r.Mode == "sessions" {
			// registered sessions are not supported by on-disk state machines;
			// small timeouts make retries frequent
			if o.SM == "ondisk" {
				o.SM = "regular"
			}
			o.TimeoutMs = 60 + rng.Intn(300)
			o.SnapEntries = []uint64{15, 25, 60}[rng.Intn(3)]
		}
		if rng.Intn(4) == 0 {
			o.SaveDelayMs = 2 + rng.Intn(4)
		}
		o.NonVoting = rng.Intn(3) == 0
		o.Snappy = rng.Intn(3) == 0
		// own stream: the other options of a case keep their values
		o.SnapSnappy = r.Rand("snapcomp", c).Intn(4)
		// a third of the cases: small byte limits on the send queues of the transport and on the
		// receive queues of the replicas, so that dragonboat itself drops messages under load
		if q := r.Rand("queues", c); q.Intn(3) == 0 {
			o.SendQ = uint64(2048 << uint(q.Intn(6)))
			o.RecvQ = uint64(2048 << uint(q.Intn(6)))
			if q.Intn(3) == 0 {
				o.SendQ = 0
			} else if q.Intn(2) == 0 {
				o.RecvQ = 0
			}
		}
		if rng.Intn(3) == 0 {
			o.CmdPad = 40 + rng.Intn(400)
		}
		if r.Mode == "wire" {
			wr := r.Rand("wire", c)
			o.Wire = true
			o.SnapEntries = []uint64{12, 20, 35}[wr.Intn(3)]
			o.Overhead = uint64(2 + wr.Intn(4))
			o.Ballast = []int{0, 2<<20 - 30, 2<<20 + 5, 4<<20 + 100, 5 << 20}[wr.Intn(5)]
			o.ExtFiles = o.SM != "ondisk" && wr.Intn(2) == 0
			o.CmdPad = 200 + wr.Intn(3000)
			o.SaveDelayMs = 0
			o.WireFaults = cluster.WireFaults{FlipPerMB: int32(1 + wr.Intn(12)), CutPerMB: int32(wr.Intn(5)),
				ChunkLostPm: int32(wr.Intn(100)), ChunkCorruptPm: int32(50 + wr.Intn(200)), ChunkDupPm: int32(wr.Intn(100))}
		}
		if r.Mode == "replay" {
			// C08: frequent snapshots, short logs (lagging replicas need a snapshot: a file for
			// plain / concurrent state machines, a live stream for on-disk ones), slow PrepareSnapshot
			o.SnapEntries = []uint64{8, 15, 25}[rng.Intn(3)]
			o.Overhead = uint64(1 + rng.Intn(3))
			o.SM = []string{"ondisk", "ondisk", "concurrent", "regular"}[rng.Intn(4)]
			o.SlowPrepareMs = rng.Intn(4)
			o.PaceMs = 5 + rng.Intn(15)
		}
		runChaos(r, sk, o)
		r.Flush()
	}
}

// snapSnappy: does this replica write its snapshot images compressed (images travel between
// replicas of different settings: the reader goes by the header of the image)
func (o chaosOpt) snapSnappy(replicaID uint64) bool {
	return o.SnapSnappy == 1 || (o.SnapSnappy == 2 && replicaID%2 == 1) || (o.SnapSnappy == 3 && replicaID%2 == 0)
}

func runChaos(r *common.Run, sk *sink, o chaosOpt) {
	start := time.Now()
	fmt.Printf("case %d options %+v\n", o.Case, o)
	kind := map[string]cluster.SMKind{"regular": cluster.Regular, "concurrent": cluster.Concurrent, "ondisk": cluster.OnDisk}[o.SM]
	store := cluster.Pebble
	if o.Store == "tan" {
		store = cluster.Tan
	}
	nHosts := o.Hosts
	if o.NonVoting {
		nHosts++ // one more host carrying a non-voting replica that clients use as well
	}
	cluster.SetCmdPad(o.CmdPad)
	defer cluster.SetCmdPad(0)
	wireDir := ""
	if o.Wire {
		d, err := os.MkdirTemp("", "wire")
		if err != nil {
			r.Inconclusive(fmt.Sprintf("case %d: no scratch directory: %v", o.Case, err))
			return
		}
		wireDir = d
		defer os.RemoveAll(d)
	}
	var extDir func(int) string
	if o.ExtFiles {
		extDir = func(h int) string { return fmt.Sprintf("%s/ext%d", wireDir, h+1) }
	}
	c := cluster.NewCluster(cluster.Options{
		Hosts: nHosts, Seed: o.Seed, RTTMs: 10, Store: store, NotifyCommit: o.NotifyCommit,
		SaveDelay: time.Duration(o.SaveDelayMs) * time.Millisecond, Wire: o.Wire, WireDir: wireDir,
		MaxSendQueueSize: o.SendQ, MaxReceiveQueueSize: o.RecvQ,
		SMOpt: func(uint64, uint64) cluster.SMOptions {
			return cluster.SMOptions{Kind: kind, RecordApply: true, RaceCanary: true, StrictCmd: true,
				SlowPrepare: time.Duration(o.SlowPrepareMs) * time.Millisecond, Ballast: o.Ballast, ExtDir: extDir}
		},
	}, sk)
	if o.Wire {
		c.Net.SetWireFaults(o.WireFaults)
	}
	const shardID = 1
	replicas := map[uint64]int{}
	for i := 0; i < o.Hosts; i++ {
		replicas[uint64(i+1)] = i
	}
	var repMu sync.RWMutex // hostOf runs in step workers (hooks) while the non-voting replica is added
	hostOf := func(s, rep uint64) *cluster.Host {
		repMu.RLock()
		hi, ok := replicas[rep]
		repMu.RUnlock()
		if ok && s == shardID {
			return c.Hosts[hi]
		}
		return nil
	}
	verifhook.SetSend(c.SendMonitor(hostOf))
	defer verifhook.SetSend(func(*pb.Message) {})
	atPoint := func(point int32) func(uds []pb.Update) {
		return func(uds []pb.Update) {
			for i := range uds {
				if h := hostOf(uds[i].ShardID, uds[i].ReplicaID); h != nil {
					h.AtPoint(point)
				}
			}
		}
	}
	verifhook.SetUpdates(verifhook.PreSave, atPoint(1))
	verifhook.SetUpdates(verifhook.PostSave, atPoint(2))
	defer verifhook.SetUpdates(verifhook.PreSave, func([]pb.Update) {})
	defer verifhook.SetUpdates(verifhook.PostSave, func([]pb.Update) {})
	if err := c.StartAll(); err != nil {
		r.Inconclusive(fmt.Sprintf("case %d: cluster did not start: %v", o.Case, err))
		return
	}
	members := c.Members(o.Hosts)
	for i := 0; i < o.Hosts; i++ {
		cfg := cluster.ShardConfig(shardID, uint64(i+1))
		cfg.PreVote, cfg.CheckQuorum = o.PreVote, o.CheckQuorum
		cfg.SnapshotEntries, cfg.CompactionOverhead = o.SnapEntries, o.Overhead
		if o.Snappy {
			cfg.EntryCompressionType = config.Snappy
		}
		if o.snapSnappy(uint64(i + 1)) {
			cfg.SnapshotCompressionType = config.Snappy
		}
		if err := c.Hosts[i].StartReplica(members, false, kind, cfg); err != nil {
			r.Inconclusive(fmt.Sprintf("case %d: replica did not start: %v", o.Case, err))
			c.StopAll()
			return
		}
	}
	if o.SendQ != 0 || o.RecvQ != 0 {
		sk.Count("cases_with_byte_limited_message_queues", 1)
	}
	if o.SnapSnappy != 0 {
		sk.Count([]string{"", "cases_with_compressed_snapshot_images", "cases_with_mixed_snapshot_compression", "cases_with_mixed_snapshot_compression"}[o.SnapSnappy], 1)
	}
	hist := &cluster.History{}
	w := &cluster.Workload{C: c, ShardID: shardID, Keys: o.Keys, Hist: hist, Seed: o.Seed, Replicas: replicas,
		Timeout: time.Duration(o.TimeoutMs) * time.Millisecond}
	// wait for a first leader (bounded; a miss is inconclusive)
	if !waitFor(15*time.Second, func() bool { return c.LeaderHost(shardID, replicas) >= 0 }) {
		r.Inconclusive(fmt.Sprintf("case %d: no leader within 15s after start", o.Case))
		c.StopAll()
		return
	}
	if o.NonVoting {
		nvID := uint64(o.Hosts + 1)
		nvHost := c.Hosts[o.Hosts]
		added := false
		for try := 0; try < 40 && !added; try++ {
			if li := c.LeaderHost(shardID, replicas); li >= 0 {
				ctx, cancel := context.WithTimeout(context.Background(), time.Second)
				err := c.Hosts[li].NodeHost().SyncRequestAddNonVoting(ctx, shardID, nvID, nvHost.Addr, 0)
				cancel()
				added = err == nil
			}
			if !added {
				time.Sleep(50 * time.Millisecond)
			}
		}
		if added {
			cfg := cluster.ShardConfig(shardID, nvID)
			cfg.PreVote, cfg.CheckQuorum = o.PreVote, o.CheckQuorum
			cfg.SnapshotEntries, cfg.CompactionOverhead = o.SnapEntries, o.Overhead
			cfg.IsNonVoting = true
			if o.Snappy {
				cfg.EntryCompressionType = config.Snappy
			}
			if o.snapSnappy(nvID) {
				cfg.SnapshotCompressionType = config.Snappy
			}
			if err := nvHost.StartReplica(nil, true, kind, cfg); err == nil {
				repMu.Lock()
				replicas[nvID] = o.Hosts
				repMu.Unlock()
				sk.Count("cases_with_non_voting_replica", 1)
			}
		}
	}
	stop := make(chan struct{})
	script := cluster.MakeScript(rand.New(rand.NewSource(o.Seed^0x5c)), nHosts, o.ScriptLen, o.Crashes, 250)
	var fstats map[string]int64
	var wg sync.WaitGroup
	wg.Add(1)
	crashes := 0
	go func() {
		defer wg.Done()
		fstats = c.RunScript(script, shardID, replicas, func(h *cluster.Host) {
			// at most a minority is down at any time
			down := 0
			for _, x := range c.Hosts {
				if x.Crashed() {
					down++
				}
			}
			if down >= (o.Hosts-1)/2 {
				// restart one instead
				for _, x := range c.Hosts {
					if x.Crashed() {
						restart(c, sk, x)
						return
					}
				}
			}
			// crash instant: at a step-worker point (just before / just after SaveRaftState), at a
			// call boundary of the user state machine (snapshot save / recovery / sync), or at an
			// arbitrary moment
			crashes++
			crng := rand.New(rand.NewSource(o.Seed + 77*int64(crashes)))
			site := "arbitrary-moment"
			p := int32(crng.Intn(int(cluster.SiteLast) + 3))
			if p > cluster.SiteLast {
				p = 0
			}
			if p > 0 {
				ch := h.ArmCrash(p)
				select {
				case <-ch:
					site = cluster.SiteName(p)
					h.CrashFinish()
				case <-time.After(400 * time.Millisecond):
					if h.Disarm() {
						h.Crash()
					} else {
						<-ch
						site = cluster.SiteName(p)
						h.CrashFinish()
					}
				}
			} else {
				h.Crash()
			}
			sk.Count("crash_site_"+site, 1)
			sk.Count("host_power_loss", 1)
			if rand.New(rand.NewSource(o.Seed+int64(crashes))).Intn(2) == 0 {
				time.Sleep(30 * time.Millisecond)
				restart(c, sk, h)
			}
		}, stop)
	}()
	// clients run for as long as the fault script does (bounded by an
	// operation cap so that the history stays decidable)
	done := make(chan struct{})
	go func() { wg.Wait(); close(done) }()
	if r.Mode == "sessions" {
		// session clients (retry with the same series id) plus two plain readers
		var swg sync.WaitGroup
		swg.Add(1)
		go func() { defer swg.Done(); w.RunClientsPaced(2, o.OpsPerClient, o.PaceMs, done) }()
		w.RunSessionClients(o.Clients, o.OpsPerClient/2, o.PaceMs, done)
		swg.Wait()
	} else {
		w.RunClientsPaced(o.Clients, o.OpsPerClient, o.PaceMs, done)
	}
	close(stop)
	wg.Wait()
	// heal
	c.Net.SetLoss(0, 0, 0)
	c.Net.HealAll()
	c.Net.SetWireFaults(cluster.WireFaults{})
	for _, h := range c.Hosts {
		if h.Crashed() || h.NH == nil {
			restart(c, sk, h)
		}
	}
	converged := waitFor(30*time.Second, func() bool { return sameState(c, shardID, replicas) })
	if !converged {
		r.Inconclusive(fmt.Sprintf("case %d: replicas did not reach equal state within 30s after healing", o.Case))
		sk.Count("not_converged_after_heal", 1)
	}
	replayCheck(c, sk, shardID, replicas, o.Case, "after-heal")
	if o.Wire && converged {
		// directed transfers: a follower is cut off until the leader has compacted what it misses,
		// then healed - with the chunk level faults on again - so that every case sends snapshots
		// (ballast, external files) over the wire; all replicas must agree again afterwards
		wf := o.WireFaults
		wf.FlipPerMB, wf.CutPerMB = wf.FlipPerMB/2, 0
		for cy := 0; cy < 2; cy++ {
			li := c.LeaderHost(shardID, replicas)
			if li < 0 {
				break
			}
			f := (li + 1 + cy) % o.Hosts
			c.Net.Isolate(c.Hosts[f].Addr, false)
			w.RunClients(3, int(o.SnapEntries+o.Overhead)/2+8, nil)
			c.Net.SetWireFaults(wf)
			c.Net.HealAll()
			ok := waitFor(20*time.Second, func() bool { return sameState(c, shardID, replicas) })
			c.Net.SetWireFaults(cluster.WireFaults{})
			if !ok {
				ok = waitFor(20*time.Second, func() bool { return sameState(c, shardID, replicas) })
			}
			if !ok {
				sk.Count("wire_directed_transfer_not_converged", 1)
				break
			}
			sk.Count("wire_directed_transfer_cycles", 1)
		}
		replayCheck(c, sk, shardID, replicas, o.Case, "after-directed-transfers")
	}
	// a few final client operations through the healed cluster
	w.RunClients(2, 6, nil)
	waitFor(10*time.Second, func() bool { return sameState(c, shardID, replicas) })
	// M3: every host loses power, restarts; completed writes must still be there
	for _, h := range c.Hosts {
		h.Crash()
	}
	for _, h := range c.Hosts {
		restart(c, sk, h)
	}
	recovered := waitFor(30*time.Second, func() bool {
		return c.LeaderHost(shardID, replicas) >= 0 && sameState(c, shardID, replicas)
	})
	if !recovered {
		r.Inconclusive(fmt.Sprintf("case %d: replicas did not reach equal state within 30s after the full power loss", o.Case))
		sk.Count("not_converged_after_full_power_loss", 1)
	}
	final := finalLists(c, sk, shardID, replicas, o.Keys)
	replayCheck(c, sk, shardID, replicas, o.Case, "after-full-power-loss")
	ops := hist.Ops()
	c.StopAll()

	// decide
	nOK, overlapW, overlapRW := histShape(ops)
	if recovered && final != nil {
		an := linz.Check(ops, final)
		for _, a := range an {
			wit := map[string]interface{}{"anomaly": a, "options": o, "final": final}
			if a.Kind == "acknowledged-write-lost" {
				sk.Violation("C04", "completed-proposal-lost-after-power-loss", a.What, wit)
			}
			sk.Violation("C01", "history:"+a.Kind, a.What, wit)
			if o.Wire && a.Kind == "fabricated-value" {
				sk.Violation("C13", "history:"+a.Kind, a.What, wit)
			}
			if a.Kind == "duplicate-apply" || a.Kind == "failed-write-visible" {
				sk.Violation("C12", "history:"+a.Kind, a.What, wit)
			}
			if r.Mode == "sessions" && (a.Kind == "duplicate-apply" || a.Kind == "wrong-result" || a.Kind == "acknowledged-write-lost") {
				sk.Violation("C05", "sessions:"+a.Kind, a.What, wit)
			}
		}
		sk.Count("histories_decided", 1)
		if len(ops) <= 1200 {
			res, desc := linz.Porcupine(ops, final, 20*time.Second)
			switch res {
			case porcupine.Illegal:
				sk.Count("porcupine_illegal", 1)
				if len(an) == 0 {
					sk.Violation("C01", "history:porcupine-illegal", desc, map[string]interface{}{"options": o, "ops": ops, "final": final})
				}
			case porcupine.Unknown:
				sk.Count("porcupine_unknown", 1)
			default:
				sk.Count("porcupine_ok", 1)
			}
		}
	}
	for k, v := range w.Stats() {
		sk.Count(k, v)
	}
	for k, v := range fstats {
		sk.Count(k, v)
	}
	ns := c.Net.Stats()
	sk.Count("net_batches", ns.Batches)
	sk.Count("net_messages", ns.Messages)
	sk.Count("net_dropped", ns.Dropped+ns.DroppedBlocked)
	sk.Count("net_delayed", ns.Delayed)
	sk.Count("net_reordered", ns.Reordered)
	sk.Count("net_conn_failures", ns.ConnFailures)
	sk.Count("net_chunks", ns.Chunks)
	ws := c.Net.WireStats()
	if o.Wire {
		sk.Count("wire_tcp_connections_through_proxies", ws.Conns)
		sk.Count("wire_bytes_through_proxies", ws.Bytes)
		sk.Count("wire_bits_flipped", ws.Flips)
		sk.Count("wire_connections_cut_inside_the_stream", ws.Cuts)
		sk.Count("wire_chunks_sent", ws.ChunksSent)
		sk.Count("wire_chunks_lost", ws.ChunksLost)
		sk.Count("wire_chunks_corrupted_before_framing", ws.ChunksCorrupted)
		sk.Count("wire_chunks_repeated", ws.ChunksDuplicated)
		sk.Count("wire_chunk_send_errors", ws.ChunkSendErrors)
		sk.Count("wire_chunks_of_external_files", ns.ExtFileChunks)
		sk.Count("wire_chunks_of_external_files_that_are_a_whole_number_of_chunks", ns.ExtFileChunksOfWholeChunkFiles)
	}
	sk.Count("leader_terms", int64(c.LeaderTerms()))
	var ssRecoveries int64
	for _, in := range c.SMs.Instances() {
		for m, n := range in.Calls() {
			sk.Count("sm_calls_"+m, n)
			if m == "RecoverFromSnapshot" {
				ssRecoveries += n
			}
		}
	}
	leaderTerms := c.LeaderTerms()
	nontrivial := overlapW && overlapRW && leaderTerms > 1 && recovered
	if r.Mode == "replay" {
		// C08: some replica continued from a snapshot (installed or recovered) and then applied a log suffix
		nontrivial = ssRecoveries > 0 && recovered
	}
	if r.Mode == "wire" {
		nontrivial = ssRecoveries > 0 && recovered && ws.Flips > 0
	}
	r.Case(nontrivial, common.Hash(fmt.Sprintf("%v", ops)))
	if r.WantSample() {
		sample := map[string]interface{}{"options": o, "ops": len(ops), "ops_ok": nOK, "leader_terms": leaderTerms,
			"crashes": crashes, "wall_s": time.Since(start).Seconds()}
		if len(ops) > 6 {
			sample["first_ops"] = ops[:6]
		}
		r.Sample(sample)
	}
}

func restart(c *cluster.Cluster, sk *sink, h *cluster.Host) {
	if err := h.Restart(); err != nil {
		sk.Violation("C16", "restart-failed", fmt.Sprintf("host %d failed to restart: %v", h.Index, err), nil)
		sk.Violation("C04", "restart-failed", fmt.Sprintf("host %d failed to restart: %v", h.Index, err), nil)
	}
	sk.Count("host_restarts", 1)
}

func waitFor(d time.Duration, f func() bool) bool {
	deadline := time.Now().Add(d)
	for time.Now().Before(deadline) {
		if f() {
			return true
		}
		time.Sleep(25 * time.Millisecond)
	}
	return f()
}

// sameState: every replica's newest state machine instance holds the same
// data (and some data was applied).
func sameState(c *cluster.Cluster, shardID uint64, replicas map[uint64]int) bool {
	var first uint64
	n := 0
	for rep := range replicas {
		in := c.SMs.Latest(shardID, rep)
		if in == nil || in.Closed() {
			return false
		}
		h := in.DataHash()
		if n == 0 {
			first = h
		} else if h != first {
			return false
		}
		n++
	}
	return n > 0
}

// finalLists reads the final lists from every replica; they must be equal
// (C02 at node level).
func finalLists(c *cluster.Cluster, sk *sink, shardID uint64, replicas map[uint64]int, keys int) map[string][]uint64 {
	ids := make([]uint64, 0, len(replicas))
	for id := range replicas {
		ids = append(ids, id)
	}
	sort.Slice(ids, func(i, j int) bool { return ids[i] < ids[j] })
	var ref map[byte][]uint64
	for _, id := range ids {
		in := c.SMs.Latest(shardID, id)
		if in == nil {
			return nil
		}
		l := in.Snapshot()
		if ref == nil {
			ref = l
			continue
		}
		for k := 0; k < keys; k++ {
			a, b := ref[byte(k)], l[byte(k)]
			if len(a) != len(b) {
				sk.Violation("C02", "final-state-differs", fmt.Sprintf("replica %d and replica %d hold lists of different length for key %d at quiescence", ids[0], id, k), nil)
				return nil
			}
			for i := range a {
				if a[i] != b[i] {
					sk.Violation("C02", "final-state-differs", fmt.Sprintf("replica %d and replica %d differ at position %d of key %d", ids[0], id, i+1, k), nil)
					return nil
				}
			}
		}
	}
	out := map[string][]uint64{}
	for k := 0; k < keys; k++ {
		out[cluster.KeyName(byte(k))] = ref[byte(k)]
	}
	return out
}

// replayCheck (C08): whatever mix of snapshots (saved, streamed, installed, recovered after a
// crash) and log suffixes a replica went through, the state it holds must equal the replay of
// the whole committed log up to the last entry it holds. The committed log is the union of the
// apply records of every state machine incarnation of the shard (index -> key, id).
func replayCheck(c *cluster.Cluster, sk *sink, shardID uint64, replicas map[uint64]int, caseNo int, when string) {
	log := map[uint64]cluster.ApplyRec{}
	var idxs []uint64
	recovered := map[uint64]int64{}
	for _, in := range c.SMs.Instances() {
		if in.ShardID != shardID {
			continue
		}
		recovered[in.ReplicaID] += in.Calls()["RecoverFromSnapshot"]
		for _, a := range in.Applied() {
			if p, ok := log[a.Index]; ok {
				if p.Key != a.Key || p.ID != a.ID {
					sk.Violation("C02", "index-applied-with-two-values", fmt.Sprintf("index %d applied as id %d and as id %d", a.Index, p.ID, a.ID), nil)
				}
				continue
			}
			log[a.Index] = a
			idxs = append(idxs, a.Index)
		}
	}
	sort.Slice(idxs, func(i, j int) bool { return idxs[i] < idxs[j] })
	for rep := range replicas {
		in := c.SMs.Latest(shardID, rep)
		if in == nil {
			continue
		}
		applied, lists := in.AppliedAndLists()
		want := map[byte][]uint64{}
		for _, i := range idxs {
			if i > applied {
				break
			}
			want[log[i].Key] = append(want[log[i].Key], log[i].ID)
		}
		sk.Count("replica_states_compared_with_full_replay", 1)
		if recovered[rep] > 0 {
			sk.Count("replica_states_compared_after_snapshot_recovery", 1)
		}
		bad := ""
		for k, w := range want {
			g := lists[k]
			if len(g) != len(w) {
				bad = fmt.Sprintf("key %d holds %d ids, the replay of the log up to index %d gives %d", k, len(g), applied, len(w))
				break
			}
			for i := range w {
				if g[i] != w[i] {
					bad = fmt.Sprintf("key %d position %d holds id %d, the replay of the log gives %d", k, i+1, g[i], w[i])
					break
				}
			}
		}
		for k, g := range lists {
			if len(g) > 0 && len(want[k]) == 0 && bad == "" {
				bad = fmt.Sprintf("key %d holds %d ids, the replay of the log up to index %d gives none", k, len(g), applied)
			}
		}
		if bad != "" {
			sk.Violation("C08", "state-differs-from-full-replay",
				fmt.Sprintf("replica %d (%s, %d snapshot recoveries): %s", rep, when, recovered[rep], bad),
				map[string]interface{}{"case": caseNo, "replica": rep, "applied": applied, "when": when, "snapshot_recoveries": recovered[rep]})
			if recovered[rep] > 0 {
				// in terms of C04: what this replica holds after recovering (restart, repair by snapshot) is not
				// what was committed and acknowledged - entries reported Completed are missing or doubled
				sk.Violation("C04", "state-after-recovery-differs-from-the-committed-log",
					fmt.Sprintf("replica %d (%s, %d snapshot recoveries): %s", rep, when, recovered[rep], bad),
					map[string]interface{}{"case": caseNo, "replica": rep, "applied": applied, "when": when, "snapshot_recoveries": recovered[rep]})
			}
		}
	}
}

func histShape(ops []linz.Op) (nOK int, overlapW, overlapRW bool) {
	type iv struct {
		call, ret int64
		w         bool
		key       string
	}
	var ivs []iv
	for _, o := range ops {
		if o.Outcome == linz.OK {
			nOK++
			ivs = append(ivs, iv{o.Call, o.Ret, o.Append, o.Key})
		}
	}
	sort.Slice(ivs, func(i, j int) bool { return ivs[i].call < ivs[j].call })
	for i := range ivs {
		for j := i + 1; j < len(ivs) && ivs[j].call < ivs[i].ret; j++ {
			if ivs[i].key != ivs[j].key {
				continue
			}
			if ivs[i].w && ivs[j].w {
				overlapW = true
			} else if ivs[i].w != ivs[j].w {
				overlapRW = true
			}
		}
		if overlapW && overlapRW {
			break
		}
	}
	return
}
