package main

// Reference of the membership rules of property C07 (same text as cmd/rsmcheck/membership.go, the
// E5 stage that validates it against the real rsm.StateMachine on 10^4 generated streams).

import (
	"strings"

	pb "github.com/lni/dragonboat/v4/raftpb"
)

// ---------------------------------------------------------------------------
// reference of the membership rules in the property statement

type verdict int

const (
	mustAccept verdict = iota
	mustReject
	silent // the statement does not decide: the code's outcome is adopted and counted
)

type mmodel struct {
	V, N, W map[uint64]string
	R       map[uint64]bool
	ccid    uint64
	ordered bool
}

func newMModel(ordered bool) *mmodel {
	return &mmodel{V: map[uint64]string{}, N: map[uint64]string{}, W: map[uint64]string{}, R: map[uint64]bool{}, ordered: ordered}
}

func (m *mmodel) clone() *mmodel {
	c := newMModel(m.ordered)
	for k, v := range m.V {
		c.V[k] = v
	}
	for k, v := range m.N {
		c.N[k] = v
	}
	for k, v := range m.W {
		c.W[k] = v
	}
	for k := range m.R {
		c.R[k] = true
	}
	c.ccid = m.ccid
	return c
}

func (m *mmodel) pb() pb.Membership {
	c := m.clone()
	return pb.Membership{ConfigChangeId: c.ccid, Addresses: c.V, NonVotings: c.N, Witnesses: c.W, Removed: c.R}
}

func foldEq(a, b string) bool {
	return strings.EqualFold(strings.TrimSpace(a), strings.TrimSpace(b))
}

// addrUse reports whether addr is used by a member exactly, or only up to
// case / surrounding blanks.
func (m *mmodel) addrUse(addr string) (exact bool, folded bool) {
	for _, mm := range []map[uint64]string{m.V, m.N, m.W} {
		for _, a := range mm {
			if a == addr {
				exact = true
			} else if foldEq(a, addr) {
				folded = true
			}
		}
	}
	return
}

// judge applies the rules of the statement to one change. The reason names
// the first rule that matched.
func (m *mmodel) judge(cc pb.ConfigChange) (verdict, string) {
	v, reason := mustAccept, "valid"
	set := func(nv verdict, r string) {
		// mustReject wins over silent wins over mustAccept
		if nv == mustReject && v != mustReject {
			v, reason = nv, r
		} else if nv == silent && v == mustAccept {
			v, reason = nv, r
		}
	}
	isAdd := cc.Type == pb.AddNode || cc.Type == pb.AddNonVoting || cc.Type == pb.AddWitness
	if m.ordered && !cc.Initialize && cc.ConfigChangeId != m.ccid {
		if cc.ConfigChangeId < m.ccid {
			set(mustReject, "stale-config-change-id")
		} else {
			set(silent, "future-config-change-id")
		}
	}
	if isAdd && m.R[cc.ReplicaID] {
		set(mustReject, "add-removed-id")
	}
	_, inV := m.V[cc.ReplicaID]
	nAddr, inN := m.N[cc.ReplicaID]
	_, inW := m.W[cc.ReplicaID]
	switch cc.Type {
	case pb.RemoveNode:
		if inV && len(m.V) == 1 {
			if len(m.W) == 0 {
				set(mustReject, "remove-last-voter")
			} else {
				set(silent, "remove-last-full-member-witness-left")
			}
		}
		if !inV && !inN && !inW {
			set(silent, "remove-non-member")
		}
	case pb.AddNode:
		if inW {
			set(mustReject, "kind-change-witness-to-voter")
		}
	case pb.AddNonVoting:
		if inV {
			set(mustReject, "kind-change-voter-to-nonvoting")
		}
		if inW {
			set(mustReject, "kind-change-witness-to-nonvoting")
		}
	case pb.AddWitness:
		if inV {
			set(mustReject, "kind-change-voter-to-witness")
		}
		if inN {
			set(mustReject, "kind-change-nonvoting-to-witness")
		}
	}
	if isAdd {
		promotion := cc.Type == pb.AddNode && inN
		if promotion && nAddr == cc.Address {
			// the one legal kind change; its own address is of course in use
		} else {
			exact, folded := m.addrUse(cc.Address)
			switch {
			case exact:
				set(mustReject, "address-in-use")
			case folded:
				set(silent, "address-in-use-up-to-case-or-blanks")
			}
			if promotion {
				set(silent, "promotion-with-different-address")
			}
			sameKind := (cc.Type == pb.AddNode && inV) || (cc.Type == pb.AddNonVoting && inN) || (cc.Type == pb.AddWitness && inW)
			if sameKind {
				set(silent, "existing-id-different-address")
			}
		}
	}
	return v, reason
}

func (m *mmodel) apply(cc pb.ConfigChange, index uint64) {
	m.ccid = index
	switch cc.Type {
	case pb.AddNode:
		delete(m.N, cc.ReplicaID)
		m.V[cc.ReplicaID] = cc.Address
	case pb.AddNonVoting:
		m.N[cc.ReplicaID] = cc.Address
	case pb.AddWitness:
		m.W[cc.ReplicaID] = cc.Address
	case pb.RemoveNode:
		delete(m.V, cc.ReplicaID)
		delete(m.N, cc.ReplicaID)
		delete(m.W, cc.ReplicaID)
		m.R[cc.ReplicaID] = true
	}
}
