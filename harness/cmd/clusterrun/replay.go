package main

import (
	"context"
	"fmt"
	"math/rand"
	"sync"
	"sync/atomic"
	"time"

	dragonboat "github.com/lni/dragonboat/v4"
	"github.com/lni/dragonboat/v4/config"
	"github.com/lni/dragonboat/v4/internal/verifhook"
	"github.com/lni/dragonboat/v4/verifh/cluster"
	"github.com/lni/dragonboat/v4/verifh/common"
)

// replayMode (C08 at node level) = chaos lifetimes tuned for snapshots (see
// chaosMode) followed by catch-up cycles: a follower is cut off while writers
// keep the shard busy, the log it needs is compacted away, the link is healed
// and the follower is caught up by snapshot while entries are being applied -
// many times per case, on every state machine kind.
func replayMode(r *common.Run, sk *sink) {
	chaosMode(r, sk)
	n := r.Pick(16, 240)
	for _, c := range r.MyCases(n) {
		runCatchUp(r, sk, c, r.Rand("catchup", c), r.SubSeed("catchup-seed", c))
		r.Flush()
	}
	// directed: the replica that is sending a snapshot over a slow link is restarted on its running
	// NodeHost (StopShard + StartReplica) after a newer snapshot was recorded
	for _, c := range r.MyCases(r.Pick(4, 32)) {
		runRestartDuringSend(r, sk, c, 0, r.Rand("restart-during-send", c), r.SubSeed("restart-during-send-seed", c))
		r.Flush()
	}
	// directed: the same, but the replica that is *receiving* the image is restarted on its running
	// NodeHost after the first chunk arrived (its start-up cleanup removes .receiving directories)
	for _, c := range r.MyCases(r.Pick(4, 32)) {
		runRestartDuringSend(r, sk, c, 1, r.Rand("restart-during-receive", c), r.SubSeed("restart-during-receive-seed", c))
		r.Flush()
	}
	// directed: the same, but the link of the receiving host is cut while the image is on its way
	for _, c := range r.MyCases(r.Pick(4, 32)) {
		runRestartDuringSend(r, sk, c, 2, r.Rand("cut-during-transfer", c), r.SubSeed("cut-during-transfer-seed", c))
		r.Flush()
	}
	// directed: a replica is stopped and started again on its running NodeHost while its snapshot
	// worker is busy (a snapshot being saved, older ones being removed)
	for _, c := range r.MyCases(r.Pick(4, 32)) {
		runRestartDuringSave(r, sk, c, r.Rand("restart-during-save", c), r.SubSeed("restart-during-save-seed", c))
		r.Flush()
	}
	// directed: snapshots requested by the user whose compaction index lies below the one of the
	// snapshot before (a larger CompactionOverhead, an explicit lower CompactionIndex)
	for _, c := range r.MyCases(r.Pick(4, 32)) {
		runCompactionBack(r, sk, c, r.Rand("compaction-back", c), r.SubSeed("compaction-back-seed", c))
		r.Flush()
	}
	// directed: two followers of an on-disk shard lag beyond the compacted log and are reconnected
	// together (progress.go; verdict in ticks of their own clocks)
	for _, c := range r.MyCases(r.Pick(4, 32)) {
		runTwoLaggingStreams(r, sk, c, r.Rand("two-lagging-streams", c), r.SubSeed("two-lagging-streams-seed", c))
		r.Flush()
	}
}

// runCompactionBack: one replica set, a writer, and a user who requests snapshots in quick
// succession with compaction overheads / indexes that move the compaction point back and forth.
// Every request must be answered, nothing may crash, and every replica must equal the replay of
// the committed log afterwards (C08: compaction never removes what no snapshot covers).
func runCompactionBack(r *common.Run, sk *sink, caseNo int, rng *rand.Rand, seed int64) {
	kind := []cluster.SMKind{cluster.Regular, cluster.Concurrent, cluster.OnDisk}[rng.Intn(3)]
	store := cluster.Pebble
	if rng.Intn(3) == 0 {
		store = cluster.Tan
	}
	fmt.Printf("compaction-back case %d sm %s store %s\n", caseNo, kind, store)
	c := cluster.NewCluster(cluster.Options{Hosts: 3, Seed: seed, RTTMs: 5, Store: store,
		SMOpt: func(uint64, uint64) cluster.SMOptions { return cluster.SMOptions{Kind: kind, RecordApply: true} }}, sk)
	const shardID = 1
	if err := c.StartAll(); err != nil {
		r.Inconclusive(fmt.Sprintf("compaction-back case %d: start failed: %v", caseNo, err))
		return
	}
	defer c.StopAll()
	members := c.Members(3)
	replicas := map[uint64]int{1: 0, 2: 1, 3: 2}
	for i := 0; i < 3; i++ {
		cfg := cluster.ShardConfig(shardID, uint64(i+1))
		cfg.SnapshotEntries, cfg.CompactionOverhead = uint64(rng.Intn(2)*10), 2
		if err := c.Hosts[i].StartReplica(members, false, kind, cfg); err != nil {
			r.Inconclusive(fmt.Sprintf("compaction-back case %d: %v", caseNo, err))
			return
		}
	}
	if !waitFor(15*time.Second, func() bool { return c.LeaderHost(shardID, replicas) >= 0 }) {
		r.Inconclusive(fmt.Sprintf("compaction-back case %d: no leader", caseNo))
		return
	}
	var stopFlag int32
	var wg sync.WaitGroup
	wg.Add(1)
	go func() {
		defer wg.Done()
		prng := rand.New(rand.NewSource(seed + 5))
		for atomic.LoadInt32(&stopFlag) == 0 {
			if li := c.LeaderHost(shardID, replicas); li >= 0 {
				if nh := c.Hosts[li].NodeHost(); nh != nil {
					ctx, cancel := context.WithTimeout(context.Background(), 300*time.Millisecond)
					_, _ = nh.SyncPropose(ctx, nh.GetNoOPSession(shardID), cluster.MakeCmd(byte(prng.Intn(2)), cluster.NewID()))
					cancel()
				}
			}
		}
	}()
	time.Sleep(200 * time.Millisecond)
	var answered, completed int64
	h := c.Hosts[rng.Intn(3)]
	for i := 0; i < 150; i++ {
		nh := h.NodeHost()
		if nh == nil {
			break
		}
		opt := dragonboat.SnapshotOption{OverrideCompactionOverhead: true}
		switch i % 3 {
		case 0:
			opt.CompactionOverhead = 1
		case 1:
			opt.CompactionOverhead = uint64(8 + rng.Intn(20))
		default:
			// an explicit compaction index well below the previous ones
			opt.CompactionIndex = uint64(2 + rng.Intn(10))
		}
		rs, err := nh.RequestSnapshot(shardID, opt, time.Second)
		if err != nil {
			time.Sleep(time.Millisecond)
			continue
		}
		res := <-rs.ResultC()
		rs.Release()
		answered++
		if res.Completed() {
			completed++
		}
		if rng.Intn(3) == 0 {
			time.Sleep(time.Duration(rng.Intn(3)) * time.Millisecond)
		}
	}
	atomic.StoreInt32(&stopFlag, 1)
	wg.Wait()
	sk.Count("compaction_back_snapshot_requests_answered", answered)
	sk.Count("compaction_back_snapshot_requests_completed", completed)
	converged := waitFor(20*time.Second, func() bool { return sameState(c, shardID, replicas) })
	replayCheck(c, sk, shardID, replicas, caseNo, "after-compaction-back")
	r.Case(completed >= 20 && converged, common.Hash("compaction-back", caseNo, kind.String(), store.String(), completed))
}

func runCatchUp(r *common.Run, sk *sink, caseNo int, rng *rand.Rand, seed int64) {
	runCatchUpKind(r, sk, caseNo, false, rng, seed)
}

// runCatchUpKind: mostlyOnDisk = 5 of 6 cases use the on-disk state machine (the kind with Sync,
// streamed snapshots and the widest contract).
func runCatchUpKind(r *common.Run, sk *sink, caseNo int, mostlyOnDisk bool, rng *rand.Rand, seed int64) {
	kind := []cluster.SMKind{cluster.OnDisk, cluster.OnDisk, cluster.Concurrent, cluster.Regular}[rng.Intn(4)]
	if mostlyOnDisk && rng.Intn(3) > 0 {
		kind = cluster.OnDisk
	}
	store := cluster.Pebble
	if rng.Intn(3) == 0 {
		store = cluster.Tan
	}
	snap := uint64(6 + rng.Intn(12))
	overhead := uint64(1 + rng.Intn(2))
	slow := time.Duration(rng.Intn(3)) * time.Millisecond
	slowSync := time.Duration(rng.Intn(3)) * time.Millisecond
	if mostlyOnDisk {
		// contract cases: exclusive methods always dwell, so that a forbidden overlap has a width
		slow = time.Duration(1+rng.Intn(4)) * time.Millisecond
		slowSync = time.Duration(1+rng.Intn(4)) * time.Millisecond
	}
	cycles := 8 + rng.Intn(6)
	fmt.Printf("catch-up case %d sm %s store %s snapshotEntries %d overhead %d slowPrepare %v slowSync %v cycles %d\n", caseNo, kind, store, snap, overhead, slow, slowSync, cycles)
	// in half of the cases SaveRaftState dwells 1-6 ms before it writes (a slow disk): committed
	// entries handed to the apply worker before the update is persisted (fast apply) get further
	// ahead of the durable hard state
	saveDelay := time.Duration(0)
	if sd := rand.New(rand.NewSource(seed ^ 0x5ade)); sd.Intn(2) == 0 {
		saveDelay = time.Duration(1+sd.Intn(6)) * time.Millisecond
	}
	c := cluster.NewCluster(cluster.Options{Hosts: 4, Seed: seed, RTTMs: 5, Store: store, SaveDelay: saveDelay,
		SMOpt: func(uint64, uint64) cluster.SMOptions {
			return cluster.SMOptions{Kind: kind, RecordApply: true, RaceCanary: true, SlowPrepare: slow, SlowSync: slowSync}
		}}, sk)
	const shardID = 1
	if err := c.StartAll(); err != nil {
		r.Inconclusive(fmt.Sprintf("catch-up case %d: start failed: %v", caseNo, err))
		return
	}
	defer c.StopAll()
	members := c.Members(3)
	replicas := map[uint64]int{1: 0, 2: 1, 3: 2}
	for i := 0; i < 3; i++ {
		cfg := cluster.ShardConfig(shardID, uint64(i+1))
		cfg.SnapshotEntries, cfg.CompactionOverhead = snap, overhead
		if err := c.Hosts[i].StartReplica(members, false, kind, cfg); err != nil {
			r.Inconclusive(fmt.Sprintf("catch-up case %d: %v", caseNo, err))
			return
		}
	}
	if !waitFor(15*time.Second, func() bool { return c.LeaderHost(shardID, replicas) >= 0 }) {
		r.Inconclusive(fmt.Sprintf("catch-up case %d: no leader", caseNo))
		return
	}
	var stopFlag int32
	var wg sync.WaitGroup
	var done int64
	for g := 0; g < 3; g++ {
		wg.Add(1)
		go func(g int) {
			defer wg.Done()
			prng := rand.New(rand.NewSource(seed + int64(g)))
			for atomic.LoadInt32(&stopFlag) == 0 {
				if li := c.LeaderHost(shardID, replicas); li >= 0 {
					if nh := c.Hosts[li].NodeHost(); nh != nil {
						ctx, cancel := context.WithTimeout(context.Background(), 300*time.Millisecond)
						if _, err := nh.SyncPropose(ctx, nh.GetNoOPSession(shardID), cluster.MakeCmd(byte(prng.Intn(2)), cluster.NewID())); err == nil {
							atomic.AddInt64(&done, 1)
						}
						cancel()
					}
				}
				time.Sleep(time.Duration(prng.Intn(1500)) * time.Microsecond)
			}
		}(g)
	}
	// snapshots requested by the user (plain and exported) on any replica while all of this runs
	wg.Add(1)
	go func() {
		defer wg.Done()
		prng := rand.New(rand.NewSource(seed ^ 0x77))
		n := 0
		for atomic.LoadInt32(&stopFlag) == 0 {
			time.Sleep(time.Duration(20+prng.Intn(60)) * time.Millisecond)
			h := c.Hosts[prng.Intn(3)]
			nh := h.NodeHost()
			if nh == nil {
				continue
			}
			opt := dragonboat.SnapshotOption{}
			if prng.Intn(2) == 0 {
				n++
				opt.Exported = true
				opt.ExportPath = fmt.Sprintf("/export-%d", n)
				if err := h.FS.MkdirAll(opt.ExportPath, 0o755); err != nil {
					continue
				}
			} else if prng.Intn(2) == 0 {
				opt.OverrideCompactionOverhead, opt.CompactionOverhead = true, uint64(1+prng.Intn(4))
			}
			if rs, err := nh.RequestSnapshot(shardID, opt, time.Second); err == nil {
				res := <-rs.ResultC()
				rs.Release()
				if res.Completed() {
					sk.Count("requested_snapshots_completed", 1)
				}
			}
		}
	}()
	joined := false
	for cy := 0; cy < cycles; cy++ {
		li := c.LeaderHost(shardID, replicas)
		if li < 0 {
			time.Sleep(100 * time.Millisecond)
			continue
		}
		// a follower (never the leader) loses its links, or its host loses power
		f := (li + 1 + rng.Intn(2)) % 3
		before := atomic.LoadInt64(&done)
		crash := rng.Intn(4) == 0
		if crash {
			c.Hosts[f].Crash()
		} else {
			c.Net.Isolate(c.Hosts[f].Addr, false)
		}
		// until the leader has compacted what the follower misses
		waitFor(3*time.Second, func() bool { return atomic.LoadInt64(&done)-before > int64(2*(snap+overhead)+4) })
		if crash {
			restart(c, sk, c.Hosts[f])
		} else {
			c.Net.HealAll()
		}
		if rng.Intn(2) == 0 {
			// the host of the follower loses power while it is being caught up: when its state machine
			// leaves RecoverFromSnapshot, enters the Sync that follows it (on-disk), saves a snapshot of
			// its own, or a few milliseconds into the repair
			h := c.Hosts[f]
			sites := []int32{cluster.SiteRecoverExit, cluster.SiteSaveEntry, cluster.SiteSaveExit, 0,
				cluster.SiteSnapshotRecordedAheadOfCommit, cluster.SiteSnapshotRecordedAheadOfCommit}
			if kind == cluster.OnDisk {
				sites = append(sites, cluster.SiteSyncAfterRecover, cluster.SiteSyncAfterRecover, cluster.SiteAnySync)
			}
			p := sites[rng.Intn(len(sites))]
			site := ""
			if p == 0 {
				time.Sleep(time.Duration(5+rng.Intn(60)) * time.Millisecond)
				h.Crash()
				site = "a-few-ms-into-the-repair"
			} else {
				ch := h.ArmCrash(p)
				select {
				case <-ch:
					h.CrashFinish()
					site = cluster.SiteName(p)
				case <-time.After(600 * time.Millisecond):
					if !h.Disarm() {
						<-ch
						h.CrashFinish()
						site = cluster.SiteName(p)
					}
				}
			}
			if site != "" {
				sk.Count("power_loss_during_catch_up_at_"+site, 1)
				time.Sleep(time.Duration(10+rng.Intn(40)) * time.Millisecond)
				restart(c, sk, h)
			}
		}
		// the follower is caught up while the writers continue
		time.Sleep(time.Duration(150+rng.Intn(250)) * time.Millisecond)
		if !joined && cy >= cycles/2 {
			// a new member that starts from nothing
			joined = true
			if li := c.LeaderHost(shardID, replicas); li >= 0 {
				ctx, cancel := context.WithTimeout(context.Background(), 2*time.Second)
				err := c.Hosts[li].NodeHost().SyncRequestAddNonVoting(ctx, shardID, 4, c.Hosts[3].Addr, 0)
				cancel()
				if err == nil {
					cfg := cluster.ShardConfig(shardID, 4)
					cfg.IsNonVoting = true
					cfg.SnapshotEntries, cfg.CompactionOverhead = snap, overhead
					if err := c.Hosts[3].StartReplica(nil, true, kind, cfg); err == nil {
						replicas[4] = 3
					}
				}
			}
		}
	}
	atomic.StoreInt32(&stopFlag, 1)
	wg.Wait()
	c.Net.HealAll()
	converged := waitFor(30*time.Second, func() bool { return sameState(c, shardID, replicas) })
	if !converged {
		sk.Count("not_converged_after_heal", 1)
	}
	// decided whether or not the replicas converged: each replica against the replay up to its own last entry
	replayCheck(c, sk, shardID, replicas, caseNo, "after-catch-up-cycles")
	var recov, prep, saves int64
	for _, in := range c.SMs.Instances() {
		calls := in.Calls()
		recov += calls["RecoverFromSnapshot"]
		prep += calls["PrepareSnapshot"]
		saves += calls["SaveSnapshot"]
		for m, n := range calls {
			sk.Count("sm_calls_"+m, n)
		}
	}
	if !converged && recov > 0 {
		// a replica that diverged can never converge: replayCheck has reported it; anything else is a liveness matter
		r.Inconclusive(fmt.Sprintf("catch-up case %d: replicas did not reach equal state within 30s after healing", caseNo))
	}
	sk.Count("catch_up_cycles", int64(cycles))
	sk.Count("net_chunks", c.Net.Stats().Chunks)
	sk.Count("proposals_completed", atomic.LoadInt64(&done))
	r.Case(recov > 0 && converged, common.Hash("catchup", caseNo, kind.String(), store.String(), recov, prep))
	if r.WantSample() {
		r.Sample(map[string]interface{}{"catch_up_case": caseNo, "sm": kind.String(), "store": store.String(), "snapshot_entries": snap,
			"cycles": cycles, "recover_from_snapshot_calls": recov, "prepare_snapshot_calls": prep, "save_snapshot_calls": saves,
			"proposals_completed": done, "converged": converged})
	}
}

// runRestartDuringSend: a follower lags behind the compacted log, the leader sends it a snapshot
// image of two or more chunks over a slow link; meanwhile the leader records a newer snapshot and
// its replica is restarted in-process (StopShard + StartReplica on the running NodeHost). Nothing
// may crash; the follower must be caught up in the end (C08: a lagging follower is brought up to
// date by a snapshot rather than left with a gap).
func runRestartDuringSend(r *common.Run, sk *sink, caseNo int, mode int, rng *rand.Rand, seed int64) {
	name := []string{"restart-during-send", "restart-during-receive", "cut-during-transfer"}[mode]
	receiver := mode == 1
	kind := []cluster.SMKind{cluster.Regular, cluster.Concurrent}[rng.Intn(2)]
	store := cluster.Pebble
	if rng.Intn(3) == 0 {
		store = cluster.Tan
	}
	ballast := 4<<20 + 4096 + rng.Intn(1<<20) // three chunks: loaded when the send starts, and after one and two chunk delays
	fmt.Printf("%s case %d sm %s store %s ballast %d seed %d\n", name, caseNo, kind, store, ballast, seed)
	c := cluster.NewCluster(cluster.Options{Hosts: 3, Seed: seed, RTTMs: 5, Store: store,
		SMOpt: func(uint64, uint64) cluster.SMOptions {
			return cluster.SMOptions{Kind: kind, RecordApply: true, Ballast: ballast}
		}}, sk)
	const shardID = 1
	clock := &tickClock{m: map[uint64]*int64{}}
	verifhook.SetPoint(verifhook.NodeTick, func(s, rep uint64) {
		if s == shardID {
			atomic.AddInt64(clock.ctr(rep), 1)
		}
	})
	defer verifhook.SetPoint(verifhook.NodeTick, func(uint64, uint64) {})
	if err := c.StartAll(); err != nil {
		r.Inconclusive(fmt.Sprintf(name+" case %d: start failed: %v", caseNo, err))
		return
	}
	defer c.StopAll()
	members := c.Members(3)
	replicas := map[uint64]int{1: 0, 2: 1, 3: 2}
	preVote := mode == 2 || (seed>>3)&1 == 0
	shardCfg := func(i int) config.Config {
		cfg := cluster.ShardConfig(shardID, uint64(i+1))
		cfg.SnapshotEntries, cfg.CompactionOverhead = 10, 2
		// with PreVote a follower that was cut off or restarted does not depose the leader when it
		// comes back: the leader that started the transfer is the one that has to repeat it
		cfg.PreVote = preVote
		return cfg
	}
	for i := 0; i < 3; i++ {
		if err := c.Hosts[i].StartReplica(members, false, kind, shardCfg(i)); err != nil {
			r.Inconclusive(fmt.Sprintf(name+" case %d: %v", caseNo, err))
			return
		}
	}
	if !waitFor(15*time.Second, func() bool { return c.LeaderHost(shardID, replicas) >= 0 }) {
		r.Inconclusive(fmt.Sprintf(name+" case %d: no leader", caseNo))
		return
	}
	propose := func(n int) int {
		ok := 0
		for i := 0; i < n*4 && ok < n; i++ {
			li := c.LeaderHost(shardID, replicas)
			if li < 0 {
				time.Sleep(20 * time.Millisecond)
				continue
			}
			if nh := c.Hosts[li].NodeHost(); nh != nil {
				ctx, cancel := context.WithTimeout(context.Background(), 500*time.Millisecond)
				if _, err := nh.SyncPropose(ctx, nh.GetNoOPSession(shardID), cluster.MakeCmd(byte(rng.Intn(2)), cluster.NewID())); err == nil {
					ok++
				}
				cancel()
			}
		}
		return ok
	}
	propose(15)
	li := c.LeaderHost(shardID, replicas)
	if li < 0 {
		r.Inconclusive(fmt.Sprintf(name+" case %d: leader lost", caseNo))
		return
	}
	f := (li + 1 + rng.Intn(2)) % 3
	c.Net.Isolate(c.Hosts[f].Addr, false)
	propose(35) // several snapshots, the log the follower misses is compacted
	before := c.Net.Stats().Chunks
	c.Net.SetChunkDelay(time.Duration(600+rng.Intn(300)) * time.Millisecond)
	c.Net.HealAll()
	sending := waitFor(5*time.Second, func() bool { return c.Net.Stats().Chunks > before })
	if sending {
		sk.Count("restart_during_send_snapshot_in_flight", 1)
	}
	// a newer snapshot on the sender, then its replica is restarted on the running NodeHost
	lh := c.Hosts[li]
	if mode == 2 {
		// the link of the receiving host fails for a while with the rest of the image still on its
		// way: the chunks that arrive at the cut are failed sends, the transfer breaks after its
		// connection was established
		time.Sleep(time.Duration(50+rng.Intn(200)) * time.Millisecond)
		c.Net.Isolate(c.Hosts[f].Addr, rng.Intn(2) == 0)
		failedBefore := c.Net.Stats().ChunksFailed
		waitFor(3*time.Second, func() bool { return c.Net.Stats().ChunksFailed > failedBefore })
		if c.Net.Stats().ChunksFailed > failedBefore {
			sk.Count("cut_during_transfer_chunks_failed_at_the_cut", 1)
		}
		time.Sleep(time.Duration(100+rng.Intn(400)) * time.Millisecond)
		c.Net.HealAll()
	} else if receiver {
		// the receiving replica is restarted on its running NodeHost while the rest of the image is
		// still on its way
		time.Sleep(time.Duration(50+rng.Intn(200)) * time.Millisecond)
		fh := c.Hosts[f]
		if nh := fh.NodeHost(); nh != nil && sending {
			if nh.StopShard(shardID) == nil {
				for try := 0; try < 200; try++ {
					if fh.RestartReplica(members, kind, shardCfg(f)) == nil {
						sk.Count("restart_during_receive_in_process_restarts", 1)
						break
					}
					time.Sleep(5 * time.Millisecond)
				}
			}
		}
	} else if nh := lh.NodeHost(); nh != nil {
		propose(3)
		ctx, cancel := context.WithTimeout(context.Background(), 2*time.Second)
		_, _ = nh.SyncRequestSnapshot(ctx, shardID, dragonboat.SnapshotOption{})
		cancel()
		if nh.StopShard(shardID) == nil {
			for try := 0; try < 200; try++ {
				if lh.RestartReplica(members, kind, shardCfg(li)) == nil {
					sk.Count("restart_during_send_in_process_restarts", 1)
					break
				}
				time.Sleep(5 * time.Millisecond)
			}
		}
	}
	time.Sleep(2500 * time.Millisecond) // the remaining chunks of the image that was being sent
	c.Net.SetChunkDelay(0)
	propose(5)
	// bounded progress in ticks of the lagging replica's own clock (as P4 of the progress stage):
	// every link is up, nothing is delayed any more, the shard completed proposals - the follower
	// whose transfer was disturbed must be brought up to date (a transfer that broke has to be
	// reported to raft as failed so that it is repeated)
	frep := uint64(f + 1)
	t0 := clock.get(frep)
	wall := time.Now()
	for !sameState(c, shardID, replicas) && clock.get(frep)-t0 < 2*catchUpTicks && time.Since(wall) < 120*time.Second {
		time.Sleep(20 * time.Millisecond)
	}
	converged := sameState(c, shardID, replicas)
	switch {
	case converged:
		r.Max("max_ticks_until_caught_up_after_disturbed_transfer", clock.get(frep)-t0)
	case clock.get(frep)-t0 >= 2*catchUpTicks:
		sk.Count("not_converged_after_heal", 1)
		what := fmt.Sprintf("%s: the transfer of a snapshot image to lagging replica %d was disturbed; with every link up again and the shard completing proposals the replica processed %d ticks and still is not up to date", name, frep, clock.get(frep)-t0)
		w := map[string]interface{}{"case": caseNo, "scenario": name, "follower": frep, "leader": li + 1}
		sk.Violation("C08", "lagging-follower-left-with-a-gap:"+name, what, w)
		sk.Violation("C17", "reachable-replica-does-not-catch-up:"+name, what, w)
	default:
		sk.Count("not_converged_after_heal", 1)
		r.Inconclusive(fmt.Sprintf(name+" case %d: replicas did not reach equal state and the ticks of replica %d did not advance", caseNo, frep))
	}
	replayCheck(c, sk, shardID, replicas, caseNo, "after-"+name)
	r.Case(sending && converged, common.Hash(name, caseNo, kind.String(), store.String()))
}

// runRestartDuringSave: StopShard + StartReplica on a running NodeHost, 100 times in a row, each time
// right after a snapshot was requested (the previous incarnation's snapshot worker may still be
// saving it and removing older snapshot directories when the next incarnation runs its start-up
// cleanup). Nothing may crash; every replica must equal the replay of the committed log.
func runRestartDuringSave(r *common.Run, sk *sink, caseNo int, rng *rand.Rand, seed int64) {
	kind := []cluster.SMKind{cluster.Regular, cluster.Concurrent, cluster.OnDisk}[rng.Intn(3)]
	store := cluster.Pebble
	if rng.Intn(3) == 0 {
		store = cluster.Tan
	}
	fmt.Printf("restart-during-save case %d sm %s store %s\n", caseNo, kind, store)
	c := cluster.NewCluster(cluster.Options{Hosts: 3, Seed: seed, RTTMs: 5, Store: store,
		SMOpt: func(uint64, uint64) cluster.SMOptions {
			return cluster.SMOptions{Kind: kind, RecordApply: true, SlowSave: time.Duration(rng.Intn(3)) * time.Millisecond}
		}}, sk)
	const shardID = 1
	if err := c.StartAll(); err != nil {
		r.Inconclusive(fmt.Sprintf("restart-during-save case %d: start failed: %v", caseNo, err))
		return
	}
	defer c.StopAll()
	members := c.Members(3)
	replicas := map[uint64]int{1: 0, 2: 1, 3: 2}
	shardCfg := func(i int) config.Config {
		cfg := cluster.ShardConfig(shardID, uint64(i+1))
		cfg.SnapshotEntries, cfg.CompactionOverhead = 5, 1
		return cfg
	}
	for i := 0; i < 3; i++ {
		if err := c.Hosts[i].StartReplica(members, false, kind, shardCfg(i)); err != nil {
			r.Inconclusive(fmt.Sprintf("restart-during-save case %d: %v", caseNo, err))
			return
		}
	}
	if !waitFor(15*time.Second, func() bool { return c.LeaderHost(shardID, replicas) >= 0 }) {
		r.Inconclusive(fmt.Sprintf("restart-during-save case %d: no leader", caseNo))
		return
	}
	var stopFlag int32
	var wg sync.WaitGroup
	wg.Add(1)
	go func() {
		defer wg.Done()
		prng := rand.New(rand.NewSource(seed + 9))
		for atomic.LoadInt32(&stopFlag) == 0 {
			if nh := c.Hosts[prng.Intn(3)].NodeHost(); nh != nil {
				ctx, cancel := context.WithTimeout(context.Background(), 200*time.Millisecond)
				_, _ = nh.SyncPropose(ctx, nh.GetNoOPSession(shardID), cluster.MakeCmd(byte(prng.Intn(2)), cluster.NewID()))
				cancel()
			}
		}
	}()
	// snapshots requested all the time on every host
	wg.Add(1)
	go func() {
		defer wg.Done()
		prng := rand.New(rand.NewSource(seed + 11))
		for atomic.LoadInt32(&stopFlag) == 0 {
			if nh := c.Hosts[prng.Intn(3)].NodeHost(); nh != nil {
				if rs, err := nh.RequestSnapshot(shardID, dragonboat.SnapshotOption{}, time.Second); err == nil {
					<-rs.ResultC()
					rs.Release()
				}
			}
			time.Sleep(time.Duration(prng.Intn(2000)) * time.Microsecond)
		}
	}()
	restarts := 0
	for i := 0; i < 100; i++ {
		hi := rng.Intn(3)
		h := c.Hosts[hi]
		nh := h.NodeHost()
		if nh == nil {
			continue
		}
		if rs, err := nh.RequestSnapshot(shardID, dragonboat.SnapshotOption{}, time.Second); err == nil {
			go func() { <-rs.ResultC(); rs.Release() }()
		}
		time.Sleep(time.Duration(rng.Intn(4)) * time.Millisecond)
		if nh.StopShard(shardID) != nil {
			continue
		}
		for try := 0; try < 400; try++ {
			if h.RestartReplica(members, kind, shardCfg(hi)) == nil {
				restarts++
				break
			}
			time.Sleep(2 * time.Millisecond)
		}
		time.Sleep(time.Duration(10+rng.Intn(40)) * time.Millisecond)
	}
	atomic.StoreInt32(&stopFlag, 1)
	wg.Wait()
	sk.Count("restart_during_save_in_process_restarts", int64(restarts))
	converged := waitFor(30*time.Second, func() bool { return sameState(c, shardID, replicas) })
	if !converged {
		sk.Count("not_converged_after_heal", 1)
		r.Inconclusive(fmt.Sprintf("restart-during-save case %d: replicas did not reach equal state within 30s", caseNo))
	}
	replayCheck(c, sk, shardID, replicas, caseNo, "after-restart-during-save")
	r.Case(restarts >= 20 && converged, common.Hash("restart-during-save", caseNo, kind.String(), store.String(), restarts))
}
