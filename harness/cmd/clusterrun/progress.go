package main

import (
	"context"
	"fmt"
	"math/rand"
	"sync"
	"sync/atomic"
	"time"

	dragonboat "github.com/lni/dragonboat/v4"
	"github.com/lni/dragonboat/v4/config"
	"github.com/lni/dragonboat/v4/internal/transport"
	"github.com/lni/dragonboat/v4/internal/verifhook"
	pb "github.com/lni/dragonboat/v4/raftpb"
	"github.com/lni/dragonboat/v4/verifh/cluster"
	"github.com/lni/dragonboat/v4/verifh/common"
)

// progressMode (C17 at node level): a PRNG fault prefix on real NodeHosts, then
// a fault-free period. Verdicts are taken on logical time only: the NodeTick
// hook counts the ticks every replica has processed, and request deadlines are
// tick based inside dragonboat (timeout / RTT). Wall clocks are watchdogs: if
// ticks do not advance the case is inconclusive.
//
//	P1 no quorum: with a majority cut off, a proposal and a read submitted with a deadline of 60
//	   ticks end (Timeout / Dropped / Rejected / Aborted) by the time the replica has processed
//	   4x that many ticks - they do not hang;
//	P2 after healing, once every voter has processed electTicks ticks, some voter reports itself as leader;
//	P3 requests submitted afterwards (proposal and linearizable read through every replica incl. the
//	   non-voting one, a membership change, a snapshot request) complete: each is retried when it
//	   is Dropped / Rejected / timed out (300 tick deadline) and must complete before its replica has
//	   processed 3000 ticks;
//	P4 every reachable replica with a state machine (voting and non-voting) has applied the entry that
//	   was committed by P3's first proposal by the time it has processed catchUpTicks further ticks.
const (
	electTicks   = 400  // 40 election timeouts
	catchUpTicks = 2000 // 200 election timeouts, includes snapshot transfers and their status delays
)

type tickClock struct {
	mu sync.Mutex
	m  map[uint64]*int64
}

func (t *tickClock) ctr(rep uint64) *int64 {
	t.mu.Lock()
	defer t.mu.Unlock()
	if t.m[rep] == nil {
		t.m[rep] = new(int64)
	}
	return t.m[rep]
}
func (t *tickClock) get(rep uint64) int64 { return atomic.LoadInt64(t.ctr(rep)) }

func progressMode(r *common.Run, sk *sink) {
	r.SetRule("each case = real NodeHosts, one shard of 3 or 5 voters plus (PRNG) a non-voting replica and a witness, PRNG PreVote/CheckQuorum/Quiesce/snapshot frequency/state machine kind; a fault prefix of 6-14 actions (leader or follower isolation with or without failing connections, one-way cuts, message loss, power-loss crash + restart, leader transfer, idle period long enough to quiesce, lag beyond the compacted log so that a snapshot is needed, snapshot streams interrupted; in a third of the cases rate limiting: MaxInMemLogSize of 8-72 KB, commands of up to 1.5 KB, one slowly applying voter and bursts of 6 more writers, proposals refused with ErrSystemBusy are counted), transport send queues that give up idle connections after 300-900 ms, a no-quorum probe (on a quiesced replica when Quiesce is on), then a fault-free period; verdicts P1-P4 are taken on the number of ticks each replica processed (NodeTick hook) and on dragonboat's tick based request deadlines; wall clocks are watchdogs only (inconclusive); non-trivial = at least one leader change and one crash or snapshot-needing lag in the prefix and all four verdicts were evaluated; distinct by hash of the fault prefix and configuration")
	r.Assume("bounded progress instead of 'eventually': leader within 40 election timeouts of ticks after healing, requests within 3000 ticks of the replica they were submitted to (retrying Dropped/Rejected/Timeout results), catch-up within 200 election timeouts of ticks; these bounds are far above what the protocol needs (an election needs 1-2 timeouts, a snapshot status is delayed by at most 10 ticks)")
	n := r.Pick(8, 160)
	for _, c := range r.MyCases(n) {
		runProgress(r, sk, c, r.Rand("progress", c), r.SubSeed("progress-seed", c))
		r.Flush()
	}
	// directed prefix: the leader of a shard whose quorum needs a witness loses power between
	// sending and persisting an entry
	for _, c := range r.MyCases(r.Pick(8, 80)) {
		runWitnessCrash(r, sk, c, r.Rand("witness-crash", c), r.SubSeed("witness-crash-seed", c))
		r.Flush()
	}
	// directed prefix: 2 voters + witness, snapshots that cover the AddWitness entry, the follower's
	// host restarts, then the leader's host goes down for good: follower + witness are a majority
	for _, c := range r.MyCases(r.Pick(6, 60)) {
		runWitnessLeaderLoss(r, sk, c, r.Rand("wll", c), r.SubSeed("wll-seed", c))
		r.Flush()
	}
	// directed prefix: a quiescent shard loses its leader
	for _, c := range r.MyCases(r.Pick(8, 80)) {
		runQuiescedLeaderLoss(r, sk, c, r.Rand("qll", c), r.SubSeed("qll-seed", c))
		r.Flush()
	}
	// directed prefix: a streamed snapshot, then snapshot save / recover jobs of the same replica
	for _, c := range r.MyCases(r.Pick(8, 80)) {
		runStreamThenSnapshot(r, sk, c, r.Rand("sts", c), r.SubSeed("sts-seed", c))
		r.Flush()
	}
	// directed prefix (replay.go): the transfer of a snapshot image to a lagging follower is disturbed by
	// an in-process restart of the receiving replica or by a cut of its link; the follower must catch up
	for _, c := range r.MyCases(r.Pick(8, 48)) {
		mode := 2
		if c%4 == 0 {
			mode = 1
		}
		runRestartDuringSend(r, sk, c, mode, r.Rand("rds", c), r.SubSeed("rds-seed", c))
		r.Flush()
	}
	// directed prefix: two followers of an on-disk shard need a streamed snapshot at the same time
	for _, c := range r.MyCases(r.Pick(4, 40)) {
		runTwoLaggingStreams(r, sk, c, r.Rand("tls", c), r.SubSeed("tls-seed", c))
		r.Flush()
	}
}

func runProgress(r *common.Run, sk *sink, caseNo int, rng *rand.Rand, seed int64) {
	voters := 3
	if rng.Intn(4) == 0 {
		voters = 5
	}
	withNV := rng.Intn(2) == 0
	withWitness := rng.Intn(4) == 0
	kind := []cluster.SMKind{cluster.Regular, cluster.Concurrent, cluster.OnDisk}[rng.Intn(3)]
	store := cluster.Pebble
	if rng.Intn(3) == 0 {
		store = cluster.Tan
	}
	preVote, checkQuorum, quiesce := rng.Intn(2) == 0, rng.Intn(2) == 0, rng.Intn(3) == 0
	snap := []uint64{0, 8, 20}[rng.Intn(3)]
	overhead := uint64(1 + rng.Intn(3))
	nFaults := 6 + rng.Intn(9)
	// rate limiting (a third of the cases): a small MaxInMemLogSize, commands of up to 1.5 KB, one
	// voter that applies slowly (its in-memory log grows, it reports that, the leader refuses
	// proposals with ErrSystemBusy until the follower caught up) and bursts of writers in the prefix
	rl := rand.New(rand.NewSource(seed ^ 0x71a7e))
	var maxInMem uint64
	slowRep := uint64(0)
	if rl.Intn(3) == 0 {
		maxInMem = uint64(8192 + rl.Intn(65536))
		slowRep = uint64(1 + rl.Intn(voters))
		cluster.SetCmdPad(1500)
		defer cluster.SetCmdPad(0)
	}
	desc := fmt.Sprintf("voters=%d nv=%v witness=%v sm=%s store=%s prevote=%v checkquorum=%v quiesce=%v snap=%d faults=%d maxinmem=%d slow=%d", voters, withNV, withWitness, kind, store, preVote, checkQuorum, quiesce, snap, nFaults, maxInMem, slowRep)
	fmt.Printf("progress case %d %s\n", caseNo, desc)
	nHosts := voters + 2
	c := cluster.NewCluster(cluster.Options{Hosts: nHosts, Seed: seed, RTTMs: 10, Store: store,
		SMOpt: func(_, rep uint64) cluster.SMOptions {
			o := cluster.SMOptions{Kind: kind, RecordApply: true}
			if rep == slowRep && slowRep != 0 {
				o.SlowUpdate = 2 * time.Millisecond
			}
			return o
		}}, sk)
	const shardID = 1
	clock := &tickClock{m: map[uint64]*int64{}}
	verifhook.SetPoint(verifhook.NodeTick, func(s, rep uint64) {
		if s == shardID {
			atomic.AddInt64(clock.ctr(rep), 1)
		}
	})
	defer verifhook.SetPoint(verifhook.NodeTick, func(uint64, uint64) {})
	// links that carry nothing for a while (follower to follower, quiesced shards) give up their
	// connection and have to come back when needed: 300-900 ms here instead of one minute
	idle := time.Duration(300+rng.Intn(600)) * time.Millisecond
	defer transport.VerifSetIdleTimeout(transport.VerifSetIdleTimeout(idle))
	if err := c.StartAll(); err != nil {
		r.Inconclusive(fmt.Sprintf("progress case %d: start failed: %v", caseNo, err))
		return
	}
	defer c.StopAll()
	shardCfg := func(rep uint64) config.Config {
		cfg := cluster.ShardConfig(shardID, rep)
		cfg.PreVote, cfg.CheckQuorum, cfg.Quiesce = preVote, checkQuorum, quiesce
		cfg.SnapshotEntries, cfg.CompactionOverhead = snap, overhead
		cfg.MaxInMemLogSize = maxInMem
		return cfg
	}
	members := c.Members(voters)
	replicas := map[uint64]int{} // replicas with a state machine that clients may use
	for i := 0; i < voters; i++ {
		if err := c.Hosts[i].StartReplica(members, false, kind, shardCfg(uint64(i+1))); err != nil {
			r.Inconclusive(fmt.Sprintf("progress case %d: %v", caseNo, err))
			return
		}
		replicas[uint64(i+1)] = i
	}
	voterSet := map[uint64]int{}
	for k, v := range replicas {
		voterSet[k] = v
	}
	if !waitFor(15*time.Second, func() bool { return c.LeaderHost(shardID, replicas) >= 0 }) {
		r.Inconclusive(fmt.Sprintf("progress case %d: no first leader", caseNo))
		return
	}
	onLeader := func(f func(ctx context.Context, nh *dragonboat.NodeHost) error) bool {
		for try := 0; try < 60; try++ {
			if li := c.LeaderHost(shardID, voterSet); li >= 0 {
				if nh := c.Hosts[li].NodeHost(); nh != nil {
					ctx, cancel := context.WithTimeout(context.Background(), time.Second)
					err := f(ctx, nh)
					cancel()
					if err == nil {
						return true
					}
				}
			}
			time.Sleep(50 * time.Millisecond)
		}
		return false
	}
	nvID, wID := uint64(voters+1), uint64(voters+2)
	if withNV {
		if onLeader(func(ctx context.Context, nh *dragonboat.NodeHost) error {
			return nh.SyncRequestAddNonVoting(ctx, shardID, nvID, c.Hosts[voters].Addr, 0)
		}) {
			cfg := shardCfg(nvID)
			cfg.IsNonVoting = true
			if err := c.Hosts[voters].StartReplica(nil, true, kind, cfg); err == nil {
				replicas[nvID] = voters
			}
		}
	}
	if withWitness {
		if onLeader(func(ctx context.Context, nh *dragonboat.NodeHost) error {
			return nh.SyncRequestAddWitness(ctx, shardID, wID, c.Hosts[voters+1].Addr, 0)
		}) {
			cfg := shardCfg(wID)
			cfg.IsWitness = true
			cfg.SnapshotEntries = 0
			_ = c.Hosts[voters+1].StartReplica(nil, true, kind, cfg)
		}
	}
	// background writers (paused while the shard is meant to go quiescent)
	var stopFlag, pause, burst int32
	var wg sync.WaitGroup
	var done, busy int64
	for g := 0; g < 8; g++ {
		wg.Add(1)
		go func(g int) {
			defer wg.Done()
			prng := rand.New(rand.NewSource(seed + int64(g)))
			for atomic.LoadInt32(&stopFlag) == 0 {
				if g >= 2 && atomic.LoadInt32(&burst) == 0 {
					// writers 2-7 only run during a burst
					time.Sleep(5 * time.Millisecond)
					continue
				}
				if atomic.LoadInt32(&pause) == 0 {
					h := c.Hosts[prng.Intn(voters)]
					if nh := h.NodeHost(); nh != nil {
						ctx, cancel := context.WithTimeout(context.Background(), 300*time.Millisecond)
						if _, err := nh.SyncPropose(ctx, nh.GetNoOPSession(shardID), cluster.MakeCmd(byte(prng.Intn(2)), cluster.NewID())); err == nil {
							atomic.AddInt64(&done, 1)
						} else if err == dragonboat.ErrSystemBusy {
							atomic.AddInt64(&busy, 1)
						}
						cancel()
					}
				}
				if g >= 2 {
					continue // burst writers do not pace themselves
				}
				time.Sleep(time.Duration(1+prng.Intn(4)) * time.Millisecond)
			}
		}(g)
	}
	// ---- fault prefix ----
	var prefix []string
	leaderChanges, hard := 0, 0
	lastLeader := c.LeaderHost(shardID, voterSet)
	note := func() {
		if li := c.LeaderHost(shardID, voterSet); li >= 0 && li != lastLeader {
			leaderChanges++
			lastLeader = li
		}
	}
	down := map[int]bool{}
	for i := 0; i < nFaults; i++ {
		li := c.LeaderHost(shardID, voterSet)
		f := rng.Intn(voters)
		if li >= 0 && rng.Intn(2) == 0 {
			f = li
		}
		dwell := time.Duration(150+rng.Intn(500)) * time.Millisecond
		if maxInMem > 0 && rl.Intn(3) == 0 {
			// burst of writers: the in-memory logs exceed MaxInMemLogSize
			atomic.StoreInt32(&burst, 1)
			time.Sleep(dwell)
			atomic.StoreInt32(&burst, 0)
			prefix = append(prefix, fmt.Sprintf("burst of 6 more writers %v", dwell))
		}
		switch k := rng.Intn(9); k {
		case 0, 1: // isolation (leader or follower), silently or with failing connections
			fc := rng.Intn(2) == 0
			c.Net.Isolate(c.Hosts[f].Addr, fc)
			prefix = append(prefix, fmt.Sprintf("isolate host %d failconn=%v %v", f, fc, dwell))
			time.Sleep(dwell)
			c.Net.HealAll()
		case 2: // one-way cut
			g := (f + 1 + rng.Intn(voters-1)) % voters
			c.Net.Cut(c.Hosts[f].Addr, c.Hosts[g].Addr, false)
			prefix = append(prefix, fmt.Sprintf("one-way cut %d->%d %v", f, g, dwell))
			time.Sleep(dwell)
			c.Net.HealAll()
		case 3: // loss, delay, reordering
			c.Net.SetLoss(50000+rng.Intn(200000), 100000, 100)
			prefix = append(prefix, fmt.Sprintf("lossy network %v", dwell))
			time.Sleep(dwell)
			c.Net.SetLoss(0, 0, 0)
		case 4: // power loss and restart (a minority at a time)
			if len(down) < (voters-1)/2 {
				c.Hosts[f].Crash()
				down[f] = true
				hard++
				prefix = append(prefix, fmt.Sprintf("power loss host %d", f))
				time.Sleep(dwell)
				if rng.Intn(2) == 0 {
					restart(c, sk, c.Hosts[f])
					delete(down, f)
					prefix = append(prefix, fmt.Sprintf("restart host %d", f))
				}
			}
		case 5: // leader transfer
			if li >= 0 {
				if nh := c.Hosts[li].NodeHost(); nh != nil {
					tgt := uint64((li+1+rng.Intn(voters-1))%voters + 1)
					_ = nh.RequestLeaderTransfer(shardID, tgt)
					prefix = append(prefix, fmt.Sprintf("leader transfer to %d", tgt))
					time.Sleep(dwell / 2)
				}
			}
		case 6: // idle long enough to quiesce (threshold = 10 election timeouts)
			atomic.StoreInt32(&pause, 1)
			prefix = append(prefix, "idle 1.5s")
			time.Sleep(1500 * time.Millisecond)
			atomic.StoreInt32(&pause, 0)
		default: // lag beyond the compacted log: a replica is cut off until enough entries were committed, streams may be interrupted
			targets := []int{f}
			if withNV && rng.Intn(2) == 0 {
				targets = append(targets, voters) // two replicas need a snapshot in overlapping periods
			}
			if li >= 0 && f == li {
				break
			}
			for _, t := range targets {
				c.Net.Isolate(c.Hosts[t].Addr, rng.Intn(2) == 0)
			}
			before := atomic.LoadInt64(&done)
			waitFor(2*time.Second, func() bool { return atomic.LoadInt64(&done)-before > int64(2*(snap+overhead)+5) })
			c.Net.HealAll()
			hard++
			prefix = append(prefix, fmt.Sprintf("lag hosts %v by %d entries", targets, atomic.LoadInt64(&done)-before))
			if rng.Intn(2) == 0 {
				// interrupt the repair shortly after it started
				time.Sleep(time.Duration(5+rng.Intn(40)) * time.Millisecond)
				c.Net.Isolate(c.Hosts[targets[0]].Addr, true)
				time.Sleep(time.Duration(20+rng.Intn(100)) * time.Millisecond)
				c.Net.HealAll()
				prefix = append(prefix, "repair interrupted")
			}
		}
		note()
	}
	// ---- P1: no quorum ----
	atomic.StoreInt32(&pause, 1)
	time.Sleep(50 * time.Millisecond)
	if quiesce {
		// long enough for the shard to go quiescent (10 election timeouts without activity): the
		// probe below is then submitted to a quiesced replica whose peers have become unreachable
		time.Sleep(1600 * time.Millisecond)
		prefix = append(prefix, "idle 1.6s before the no-quorum probe")
	}
	probe := rng.Intn(voters)
	for down[probe] {
		probe = (probe + 1) % voters
	}
	for i := 0; i < nHosts; i++ {
		if i != probe {
			c.Net.Isolate(c.Hosts[i].Addr, false)
		}
	}
	prefix = append(prefix, fmt.Sprintf("no-quorum probe through host %d", probe))
	if nh := c.Hosts[probe].NodeHost(); nh != nil {
		rep := uint64(probe + 1)
		const dl = 60
		t0 := clock.get(rep)
		var pend []*dragonboat.RequestState
		if rs, err := nh.Propose(nh.GetNoOPSession(shardID), cluster.MakeCmd(0, cluster.NewID()), dl*10*time.Millisecond); err == nil {
			pend = append(pend, rs)
		}
		if rs, err := nh.ReadIndex(shardID, dl*10*time.Millisecond); err == nil {
			pend = append(pend, rs)
		}
		for i, rs := range pend {
			ended, completed := false, false
			wall := time.Now()
			for !ended && clock.get(rep)-t0 < 4*dl && time.Since(wall) < 60*time.Second {
				select {
				case res := <-rs.ResultC():
					ended, completed = true, res.Completed()
				case <-time.After(20 * time.Millisecond):
				}
			}
			if !ended {
				select {
				case res := <-rs.ResultC():
					ended, completed = true, res.Completed()
				default:
				}
			}
			switch {
			case !ended && clock.get(rep)-t0 >= 4*dl:
				sk.Violation("C17", "request-hangs-without-quorum", fmt.Sprintf("request %d submitted without a reachable quorum with a deadline of %d ticks has no result after %d ticks of its replica", i, dl, clock.get(rep)-t0),
					map[string]interface{}{"case": caseNo, "config": desc, "prefix": prefix})
			case !ended:
				r.Inconclusive(fmt.Sprintf("progress case %d: ticks of replica %d did not advance during the no-quorum probe", caseNo, rep))
			case completed:
				// a request that was already replicated to a quorum before the cut may complete; with the writers paused and all peers cut this is not expected
				sk.Count("no_quorum_request_completed", 1)
			default:
				sk.Count("no_quorum_requests_ended_in_time", 1)
			}
			rs.Release()
		}
	}
	// ---- fault-free period ----
	c.Net.SetLoss(0, 0, 0)
	c.Net.HealAll()
	for i, h := range c.Hosts {
		if h.Crashed() || h.NodeHost() == nil {
			restart(c, sk, h)
			delete(down, i)
		}
	}
	note()
	base := map[uint64]int64{}
	for rep := range voterSet {
		base[rep] = clock.get(rep)
	}
	minTicks := func(set map[uint64]int, b map[uint64]int64) int64 {
		m := int64(-1)
		for rep := range set {
			if d := clock.get(rep) - b[rep]; m < 0 || d < m {
				m = d
			}
		}
		return m
	}
	evaluated := 0
	wit := func() map[string]interface{} {
		return map[string]interface{}{"case": caseNo, "config": desc, "prefix": prefix}
	}
	// P2. A quiescent shard exchanges no heartbeats and elects nobody until it is asked to do
	// something: one request per voter wakes it up first (their outcome is not judged).
	if quiesce {
		for _, hi := range voterSet {
			if nh := c.Hosts[hi].NodeHost(); nh != nil {
				if rs, err := nh.Propose(nh.GetNoOPSession(shardID), cluster.MakeCmd(1, cluster.NewID()), time.Second); err == nil {
					go func() { <-rs.ResultC(); rs.Release() }()
				}
			}
		}
	}
	gotLeader := false
	wall := time.Now()
	for minTicks(voterSet, base) < electTicks && time.Since(wall) < 120*time.Second {
		if c.SelfLeader(shardID, voterSet) >= 0 {
			gotLeader = true
			break
		}
		time.Sleep(20 * time.Millisecond)
	}
	if !gotLeader && c.SelfLeader(shardID, voterSet) >= 0 {
		gotLeader = true
	}
	switch {
	case gotLeader:
		r.Max("max_ticks_until_leader_after_heal", minTicks(voterSet, base))
		evaluated++
	case minTicks(voterSet, base) >= electTicks:
		sk.Violation("C17", "no-leader-after-healing", fmt.Sprintf("all %d voters are up and connected and processed at least %d ticks since healing; no replica knows a leader", voters, minTicks(voterSet, base)), wit())
		atomic.StoreInt32(&stopFlag, 1)
		wg.Wait()
		r.Case(false, common.Hash("progress", caseNo, desc, fmt.Sprint(prefix)))
		return
	default:
		r.Inconclusive(fmt.Sprintf("progress case %d: ticks did not advance while waiting for a leader", caseNo))
		atomic.StoreInt32(&stopFlag, 1)
		wg.Wait()
		return
	}
	// P3: requests submitted afterwards complete
	// a request that is Dropped / Rejected (leader not yet known on that host, transfer in
	// progress, ...) is retried after 30 further ticks of its replica; it must complete before the
	// replica has processed requestTicks ticks since the first attempt
	const requestTicks = 3000
	attempt := func(name string, f func(nh *dragonboat.NodeHost) (*dragonboat.RequestState, error), hi int) (ok bool, res dragonboat.RequestResult) {
		outcomes := []string{}
		rep := uint64(hi + 1)
		t0 := clock.get(rep)
		wall0 := time.Now()
		waitTicks := func(n int64) bool {
			from := clock.get(rep)
			for clock.get(rep)-from < n {
				if time.Since(wall0) > 180*time.Second {
					return false
				}
				time.Sleep(10 * time.Millisecond)
			}
			return true
		}
		for a := 0; clock.get(rep)-t0 < requestTicks; a++ {
			nh := c.Hosts[hi].NodeHost()
			if nh == nil {
				return true, res // host not running: not a reachable replica
			}
			rs, err := f(nh)
			if err == nil {
				select {
				case res = <-rs.ResultC():
				case <-time.After(120 * time.Second):
					r.Inconclusive(fmt.Sprintf("progress case %d: %s produced no result within the wall-clock watchdog", caseNo, name))
					return true, res
				}
				rs.Release()
				if name == "snapshot-request" && res.Rejected() {
					// nothing was applied since the replica's latest snapshot: the request is answered, not stuck
					sk.Count("snapshot_requests_rejected_nothing_new", 1)
					return true, res
				}
				if res.Completed() {
					sk.Count("requests_completed_after_heal", 1)
					r.Max("max_attempts_until_completion", int64(a+1))
					r.Max("max_ticks_until_completion", clock.get(rep)-t0)
					return true, res
				}
				outcomes = append(outcomes, fmt.Sprintf("%+v", res))
			} else {
				outcomes = append(outcomes, err.Error())
			}
			if !waitTicks(30) {
				r.Inconclusive(fmt.Sprintf("progress case %d: ticks of replica %d did not advance while retrying %s", caseNo, rep, name))
				return true, res
			}
		}
		w := wit()
		if len(outcomes) > 20 {
			outcomes = outcomes[len(outcomes)-20:]
		}
		w["last_outcomes"] = outcomes
		sk.Violation("C17", "request-does-not-complete-after-healing:"+name,
			fmt.Sprintf("%s through host %d: retried for %d ticks of its replica in the fault-free period (deadline 300 ticks per attempt), never completed", name, hi, clock.get(rep)-t0), w)
		return false, res
	}
	const reqTimeout = 300 * 10 * time.Millisecond
	firstID := cluster.NewID()
	allOK := true
	ok, _ := attempt("proposal", func(nh *dragonboat.NodeHost) (*dragonboat.RequestState, error) {
		return nh.Propose(nh.GetNoOPSession(shardID), cluster.MakeCmd(0, firstID), reqTimeout)
	}, replicas[uint64(1+rng.Intn(voters))])
	allOK = allOK && ok
	for rep, hi := range replicas {
		_ = rep
		ok, _ = attempt("proposal", func(nh *dragonboat.NodeHost) (*dragonboat.RequestState, error) {
			return nh.Propose(nh.GetNoOPSession(shardID), cluster.MakeCmd(1, cluster.NewID()), reqTimeout)
		}, hi)
		allOK = allOK && ok
		ok, _ = attempt("read-index", func(nh *dragonboat.NodeHost) (*dragonboat.RequestState, error) {
			return nh.ReadIndex(shardID, reqTimeout)
		}, hi)
		allOK = allOK && ok
	}
	lh := c.LeaderHost(shardID, voterSet)
	if lh < 0 {
		lh = 0
	}
	ok, _ = attempt("membership-change", func(nh *dragonboat.NodeHost) (*dragonboat.RequestState, error) {
		return nh.RequestAddNonVoting(shardID, 99, "host99:1", 0, reqTimeout)
	}, lh)
	allOK = allOK && ok
	ok, _ = attempt("membership-change", func(nh *dragonboat.NodeHost) (*dragonboat.RequestState, error) {
		return nh.RequestDeleteReplica(shardID, 99, 0, reqTimeout)
	}, lh)
	allOK = allOK && ok
	ok, _ = attempt("snapshot-request", func(nh *dragonboat.NodeHost) (*dragonboat.RequestState, error) {
		return nh.RequestSnapshot(shardID, dragonboat.SnapshotOption{}, reqTimeout)
	}, replicas[uint64(1+rng.Intn(voters))])
	allOK = allOK && ok
	if allOK {
		evaluated++
	}
	atomic.StoreInt32(&pause, 0)
	// P4: catch-up of every reachable replica that has a state machine
	has := func(rep uint64) bool {
		in := c.SMs.Latest(shardID, rep)
		if in == nil {
			return false
		}
		_, lists := in.AppliedAndLists()
		for _, id := range lists[0] {
			if id == firstID {
				return true
			}
		}
		return false
	}
	base2 := map[uint64]int64{}
	for rep := range replicas {
		base2[rep] = clock.get(rep)
	}
	if allOK {
		wall = time.Now()
		for rep, hi := range replicas {
			for !has(rep) && clock.get(rep)-base2[rep] < catchUpTicks && time.Since(wall) < 180*time.Second {
				time.Sleep(20 * time.Millisecond)
			}
			switch {
			case has(rep):
				sk.Count("replicas_caught_up", 1)
				r.Max("max_ticks_until_caught_up", clock.get(rep)-base2[rep])
			case clock.get(rep)-base2[rep] >= catchUpTicks:
				w := wit()
				w["replica"] = rep
				sk.Violation("C17", "reachable-replica-does-not-catch-up", fmt.Sprintf("replica %d on host %d is up and connected, processed %d ticks in the fault-free period while the shard completed requests, and still has not applied an entry committed at the beginning of that period", rep, hi, clock.get(rep)-base2[rep]), w)
			default:
				r.Inconclusive(fmt.Sprintf("progress case %d: ticks of replica %d did not advance while waiting for catch-up", caseNo, rep))
			}
		}
		evaluated++
	}
	atomic.StoreInt32(&stopFlag, 1)
	wg.Wait()
	sk.Count("fault_prefix_actions", int64(len(prefix)))
	sk.Count("leader_changes_in_prefix", int64(leaderChanges))
	sk.Count("proposals_completed_in_prefix", atomic.LoadInt64(&done))
	sk.Count("proposals_refused_system_busy_rate_limited", atomic.LoadInt64(&busy))
	if maxInMem > 0 {
		sk.Count("cases_with_rate_limiting", 1)
	}
	var recov int64
	for _, in := range c.SMs.Instances() {
		recov += in.Calls()["RecoverFromSnapshot"]
	}
	sk.Count("sm_calls_RecoverFromSnapshot", recov)
	sk.Count("net_chunks", c.Net.Stats().Chunks)
	r.Case(leaderChanges > 0 && hard > 0 && evaluated == 3, common.Hash("progress", caseNo, desc, fmt.Sprint(prefix)))
	if r.WantSample() {
		r.Sample(map[string]interface{}{"case": caseNo, "config": desc, "prefix": prefix, "leader_changes": leaderChanges, "verdicts_evaluated": evaluated + 1})
	}
}

// runWitnessCrash: directed fault prefix for shards whose quorum needs a
// witness. The leader loses power between handing a Replicate message to the
// transport and persisting the entries of the same update (the step worker
// sends Replicate messages first), while only witnesses can receive that
// message. After the restart every voting member is up and connected; P2
// (leader within electTicks ticks) and a proposal must succeed.
func runWitnessCrash(r *common.Run, sk *sink, caseNo int, rng *rand.Rand, seed int64) {
	shape := rng.Intn(2) // 0: 1 voter + 1 witness, 1: 2 voters + 2 witnesses
	voters, witnesses := 1, 1
	if shape == 1 {
		voters, witnesses = 2, 2
	}
	delay := time.Duration(10+rng.Intn(50)) * time.Millisecond
	warm := 3 + rng.Intn(10)
	store := cluster.Pebble
	if rng.Intn(3) == 0 {
		store = cluster.Tan
	}
	desc := fmt.Sprintf("voters=%d witnesses=%d store=%s warm=%d delay=%v", voters, witnesses, store, warm, delay)
	fmt.Printf("witness-crash case %d %s\n", caseNo, desc)
	c := cluster.NewCluster(cluster.Options{Hosts: voters + witnesses, Seed: seed, RTTMs: 10, Store: store,
		SMOpt: func(uint64, uint64) cluster.SMOptions {
			return cluster.SMOptions{Kind: cluster.Regular, RecordApply: true}
		}}, sk)
	const shardID = 1
	clock := &tickClock{m: map[uint64]*int64{}}
	verifhook.SetPoint(verifhook.NodeTick, func(s, rep uint64) {
		if s == shardID {
			atomic.AddInt64(clock.ctr(rep), 1)
		}
	})
	defer verifhook.SetPoint(verifhook.NodeTick, func(uint64, uint64) {})
	if err := c.StartAll(); err != nil {
		r.Inconclusive(fmt.Sprintf("witness-crash case %d: start failed: %v", caseNo, err))
		return
	}
	defer c.StopAll()
	members := c.Members(voters)
	voterSet := map[uint64]int{}
	for i := 0; i < voters; i++ {
		if err := c.Hosts[i].StartReplica(members, false, cluster.Regular, cluster.ShardConfig(shardID, uint64(i+1))); err != nil {
			r.Inconclusive(fmt.Sprintf("witness-crash case %d: %v", caseNo, err))
			return
		}
		voterSet[uint64(i+1)] = i
	}
	propose := func(cmd []byte) bool {
		for try := 0; try < 100; try++ {
			if li := c.LeaderHost(shardID, voterSet); li >= 0 {
				if nh := c.Hosts[li].NodeHost(); nh != nil {
					ctx, cancel := context.WithTimeout(context.Background(), 500*time.Millisecond)
					_, err := nh.SyncPropose(ctx, nh.GetNoOPSession(shardID), cmd)
					cancel()
					if err == nil {
						return true
					}
				}
			}
			time.Sleep(30 * time.Millisecond)
		}
		return false
	}
	if !waitFor(15*time.Second, func() bool { return c.LeaderHost(shardID, voterSet) >= 0 }) {
		r.Inconclusive(fmt.Sprintf("witness-crash case %d: no first leader", caseNo))
		return
	}
	for w := 0; w < witnesses; w++ {
		id, h := uint64(voters+w+1), c.Hosts[voters+w]
		added := false
		for try := 0; try < 50 && !added; try++ {
			if li := c.LeaderHost(shardID, voterSet); li >= 0 {
				ctx, cancel := context.WithTimeout(context.Background(), time.Second)
				added = c.Hosts[li].NodeHost().SyncRequestAddWitness(ctx, shardID, id, h.Addr, 0) == nil
				cancel()
			}
			if !added {
				time.Sleep(50 * time.Millisecond)
			}
		}
		cfg := cluster.ShardConfig(shardID, id)
		cfg.IsWitness = true
		if !added || h.StartReplica(nil, true, cluster.Regular, cfg) != nil {
			r.Inconclusive(fmt.Sprintf("witness-crash case %d: could not add witness %d", caseNo, id))
			return
		}
	}
	for i := 0; i < warm; i++ {
		if !propose(cluster.MakeCmd(byte(i%2), cluster.NewID())) {
			r.Inconclusive(fmt.Sprintf("witness-crash case %d: warm-up proposals failed", caseNo))
			return
		}
	}
	li := c.LeaderHost(shardID, voterSet)
	if li < 0 {
		r.Inconclusive(fmt.Sprintf("witness-crash case %d: no leader before the crash", caseNo))
		return
	}
	lh := c.Hosts[li]
	// the other voter (if any) hears nothing from the leader from now on: only witnesses get the entry
	for i := 0; i < voters; i++ {
		if i != li {
			c.Net.Cut(lh.Addr, c.Hosts[i].Addr, false)
		}
	}
	var armed, hit int32
	marker := cluster.MakeCmd(7, cluster.NewID())
	done := make(chan struct{})
	verifhook.SetUpdates(verifhook.PreSave, func(uds []pb.Update) {
		if atomic.LoadInt32(&armed) == 0 {
			return
		}
		for _, ud := range uds {
			if ud.ShardID != shardID || ud.ReplicaID != uint64(li+1) {
				continue
			}
			for _, e := range ud.EntriesToSave {
				if len(e.Cmd) >= 9 && string(e.Cmd[len(e.Cmd)-9:]) == string(marker) {
					if atomic.CompareAndSwapInt32(&hit, 0, 1) {
						time.Sleep(delay) // the Replicate messages are on their way
						lh.CrashInstant()
						close(done)
					}
				}
			}
		}
	})
	defer verifhook.SetUpdates(verifhook.PreSave, func([]pb.Update) {})
	atomic.StoreInt32(&armed, 1)
	if nh := lh.NodeHost(); nh != nil {
		_, _ = nh.Propose(nh.GetNoOPSession(shardID), marker, 2*time.Second)
	}
	select {
	case <-done:
	case <-time.After(5 * time.Second):
	}
	atomic.StoreInt32(&armed, 0)
	if atomic.LoadInt32(&hit) == 0 {
		r.Inconclusive(fmt.Sprintf("witness-crash case %d: the PreSave hook never saw the marked proposal", caseNo))
		return
	}
	sk.Count("leader_power_loss_between_send_and_persist", 1)
	time.Sleep(40 * time.Millisecond)
	lh.CrashFinish()
	c.Net.HealAll()
	if err := lh.Restart(); err != nil {
		sk.Violation("C16", "restart-failed", fmt.Sprintf("host failed to restart: %v", err), nil)
		return
	}
	// fault-free from here on: every voting member (voters and witnesses) is up and connected
	all := map[uint64]int{}
	for i := 0; i < voters+witnesses; i++ {
		all[uint64(i+1)] = i
	}
	base := map[uint64]int64{}
	for rep := range all {
		base[rep] = clock.get(rep)
	}
	minTicks := func() int64 {
		m := int64(-1)
		for rep := range all {
			if d := clock.get(rep) - base[rep]; m < 0 || d < m {
				m = d
			}
		}
		return m
	}
	wall := time.Now()
	leader := false
	for minTicks() < electTicks && time.Since(wall) < 120*time.Second {
		if c.SelfLeader(shardID, voterSet) >= 0 {
			leader = true
			break
		}
		time.Sleep(20 * time.Millisecond)
	}
	wit := map[string]interface{}{"case": caseNo, "config": desc,
		"prefix": "leader loses power at the PreSave point of the update that carries a new entry, after the Replicate messages of that update were handed to the transport; only witnesses could receive them; restart; all links up"}
	switch {
	case leader || c.SelfLeader(shardID, voterSet) >= 0:
		r.Max("max_ticks_until_leader_after_heal", minTicks())
		if !propose(cluster.MakeCmd(0, cluster.NewID())) {
			r.Inconclusive(fmt.Sprintf("witness-crash case %d: leader known but proposals fail", caseNo))
		}
		sk.Count("witness_crash_cases_with_leader_after_restart", 1)
	case minTicks() >= electTicks:
		sk.Violation("C17", "no-leader-after-healing:witness-holds-entries-the-voters-lost",
			fmt.Sprintf("%d voter(s) + %d witness(es), all up and connected, every member processed at least %d ticks since the restart: no leader (the leader lost power after sending an entry that only witnesses received and before persisting it)", voters, witnesses, minTicks()), wit)
	default:
		r.Inconclusive(fmt.Sprintf("witness-crash case %d: ticks did not advance", caseNo))
	}
	r.Case(true, common.Hash("witness-crash", caseNo, desc))
	if r.WantSample() {
		r.Sample(map[string]interface{}{"witness_crash_case": caseNo, "config": desc, "leader_after_restart": leader})
	}
}

// runStreamThenSnapshot: directed prefix for the snapshot worker pool. An
// on-disk state machine shard; a follower lags beyond the compacted log and is
// repaired by a streamed snapshot. In the fault-free period that follows, the
// replica that streamed must still be able to take snapshots (a snapshot
// request completes) and - after leadership moved away and it lagged itself -
// to recover from a snapshot sent to it (it catches up).
func runStreamThenSnapshot(r *common.Run, sk *sink, caseNo int, rng *rand.Rand, seed int64) {
	store := cluster.Pebble
	if rng.Intn(3) == 0 {
		store = cluster.Tan
	}
	snap := uint64(8 + rng.Intn(8))
	desc := fmt.Sprintf("ondisk store=%s snapshotEntries=%d", store, snap)
	fmt.Printf("stream-then-snapshot case %d %s\n", caseNo, desc)
	c := cluster.NewCluster(cluster.Options{Hosts: 3, Seed: seed, RTTMs: 10, Store: store,
		SMOpt: func(uint64, uint64) cluster.SMOptions {
			return cluster.SMOptions{Kind: cluster.OnDisk, RecordApply: true}
		}}, sk)
	const shardID = 1
	clock := &tickClock{m: map[uint64]*int64{}}
	verifhook.SetPoint(verifhook.NodeTick, func(s, rep uint64) {
		if s == shardID {
			atomic.AddInt64(clock.ctr(rep), 1)
		}
	})
	defer verifhook.SetPoint(verifhook.NodeTick, func(uint64, uint64) {})
	if err := c.StartAll(); err != nil {
		r.Inconclusive(fmt.Sprintf("stream-then-snapshot case %d: start failed: %v", caseNo, err))
		return
	}
	defer c.StopAll()
	members := c.Members(3)
	replicas := map[uint64]int{1: 0, 2: 1, 3: 2}
	for i := 0; i < 3; i++ {
		cfg := cluster.ShardConfig(shardID, uint64(i+1))
		cfg.SnapshotEntries, cfg.CompactionOverhead = snap, 1
		if err := c.Hosts[i].StartReplica(members, false, cluster.OnDisk, cfg); err != nil {
			r.Inconclusive(fmt.Sprintf("stream-then-snapshot case %d: %v", caseNo, err))
			return
		}
	}
	if !waitFor(15*time.Second, func() bool { return c.SelfLeader(shardID, replicas) >= 0 }) {
		r.Inconclusive(fmt.Sprintf("stream-then-snapshot case %d: no first leader", caseNo))
		return
	}
	var stopFlag int32
	var wg sync.WaitGroup
	var done int64
	var lastID uint64
	for g := 0; g < 2; g++ {
		wg.Add(1)
		go func(g int) {
			defer wg.Done()
			prng := rand.New(rand.NewSource(seed + int64(g)))
			for atomic.LoadInt32(&stopFlag) == 0 {
				if li := c.SelfLeader(shardID, replicas); li >= 0 {
					if nh := c.Hosts[li].NodeHost(); nh != nil {
						id := cluster.NewID()
						ctx, cancel := context.WithTimeout(context.Background(), 300*time.Millisecond)
						if _, err := nh.SyncPropose(ctx, nh.GetNoOPSession(shardID), cluster.MakeCmd(0, id)); err == nil {
							atomic.AddInt64(&done, 1)
							atomic.StoreUint64(&lastID, id)
						}
						cancel()
					}
				}
				time.Sleep(time.Duration(1+prng.Intn(3)) * time.Millisecond)
			}
		}(g)
	}
	defer func() { atomic.StoreInt32(&stopFlag, 1); wg.Wait() }()
	wit := func(stage string) map[string]interface{} {
		return map[string]interface{}{"case": caseNo, "config": desc, "stage": stage}
	}
	has := func(rep uint64, id uint64) bool {
		in := c.SMs.Latest(shardID, rep)
		if in == nil {
			return false
		}
		_, lists := in.AppliedAndLists()
		for i := len(lists[0]) - 1; i >= 0; i-- {
			if lists[0][i] == id {
				return true
			}
		}
		return false
	}
	// lag(host): cut it off until the others compacted what it misses, heal, then it must hold an
	// entry completed after the heal within catchUpTicks ticks of its own clock
	lag := func(hi int, stage string) bool {
		rep := uint64(hi + 1)
		c.Net.Isolate(c.Hosts[hi].Addr, false)
		before := atomic.LoadInt64(&done)
		waitFor(5*time.Second, func() bool { return atomic.LoadInt64(&done)-before > int64(3*snap+8) })
		c.Net.HealAll()
		time.Sleep(50 * time.Millisecond)
		target := atomic.LoadUint64(&lastID)
		t0 := clock.get(rep)
		wall := time.Now()
		for !has(rep, target) && clock.get(rep)-t0 < catchUpTicks && time.Since(wall) < 180*time.Second {
			time.Sleep(20 * time.Millisecond)
		}
		switch {
		case has(rep, target):
			r.Max("max_ticks_until_caught_up", clock.get(rep)-t0)
			sk.Count("replicas_caught_up", 1)
			return true
		case clock.get(rep)-t0 >= catchUpTicks:
			sk.Violation("C17", "reachable-replica-does-not-catch-up", fmt.Sprintf("replica %d lagged beyond the compacted log, is connected again and processed %d ticks while the shard completed proposals, and still misses an entry committed right after the heal (%s)", rep, clock.get(rep)-t0, stage), wit(stage))
		default:
			r.Inconclusive(fmt.Sprintf("stream-then-snapshot case %d: ticks of replica %d did not advance (%s)", caseNo, rep, stage))
		}
		return false
	}
	l1 := c.SelfLeader(shardID, replicas)
	if l1 < 0 {
		r.Inconclusive(fmt.Sprintf("stream-then-snapshot case %d: leader lost", caseNo))
		return
	}
	f := (l1 + 1 + rng.Intn(2)) % 3
	if !lag(f, "follower repaired by a streamed snapshot") {
		r.Case(false, common.Hash("sts", caseNo, desc, 1))
		return
	}
	// the replica that streamed takes a snapshot on request
	streamer := c.SelfLeader(shardID, replicas)
	if streamer < 0 {
		streamer = l1
	}
	srep := uint64(streamer + 1)
	t0 := clock.get(srep)
	completed := false
	var outcomes []string
	wall := time.Now()
	for clock.get(srep)-t0 < 3000 && time.Since(wall) < 180*time.Second {
		nh := c.Hosts[streamer].NodeHost()
		if nh == nil {
			break
		}
		rs, err := nh.RequestSnapshot(shardID, dragonboat.SnapshotOption{}, 300*10*time.Millisecond)
		if err == nil {
			res := <-rs.ResultC()
			rs.Release()
			if res.Completed() {
				completed = true
				break
			}
			outcomes = append(outcomes, fmt.Sprintf("%+v", res))
		} else {
			outcomes = append(outcomes, err.Error())
		}
		from := clock.get(srep)
		for clock.get(srep)-from < 30 && time.Since(wall) < 180*time.Second {
			time.Sleep(10 * time.Millisecond)
		}
	}
	switch {
	case completed:
		sk.Count("snapshot_requests_completed_after_streaming", 1)
	case clock.get(srep)-t0 >= 3000:
		w := wit("snapshot request on the replica that streamed")
		if len(outcomes) > 12 {
			outcomes = outcomes[len(outcomes)-12:]
		}
		w["last_outcomes"] = outcomes
		sk.Violation("C17", "request-does-not-complete-after-healing:snapshot-request-after-streaming",
			fmt.Sprintf("replica %d streamed a snapshot to a lagging follower; afterwards no snapshot request on it completed within %d ticks while entries kept being applied", srep, clock.get(srep)-t0), w)
		r.Case(false, common.Hash("sts", caseNo, desc, 2))
		return
	default:
		r.Inconclusive(fmt.Sprintf("stream-then-snapshot case %d: ticks did not advance during the snapshot requests", caseNo))
		return
	}
	// leadership moves away, the former streamer lags and must recover from a snapshot sent to it
	if nh := c.Hosts[streamer].NodeHost(); nh != nil {
		_ = nh.RequestLeaderTransfer(shardID, uint64((streamer+1)%3+1))
	}
	waitFor(3*time.Second, func() bool { l := c.SelfLeader(shardID, replicas); return l >= 0 && l != streamer })
	if l := c.SelfLeader(shardID, replicas); l >= 0 && l != streamer {
		ok := lag(streamer, "former streamer repaired by a snapshot")
		r.Case(ok, common.Hash("sts", caseNo, desc, 3))
	} else {
		sk.Count("leader_transfer_did_not_happen", 1)
		r.Case(false, common.Hash("sts", caseNo, desc, 4))
	}
	if r.WantSample() {
		r.Sample(map[string]interface{}{"stream_then_snapshot_case": caseNo, "config": desc, "proposals": atomic.LoadInt64(&done)})
	}
}

// runQuiescedLeaderLoss: directed prefix for Quiesce. The shard goes quiescent
// (no heartbeats are exchanged any more), then the host of its leader loses
// power and stays down. Two of three voters are up and connected. Requests
// submitted afterwards through one of them - only proposals in half of the
// cases, as a write-only client would - must complete within requestTicks
// ticks of that replica.
func runQuiescedLeaderLoss(r *common.Run, sk *sink, caseNo int, rng *rand.Rand, seed int64) {
	preVote, checkQuorum := rng.Intn(2) == 0, rng.Intn(2) == 0
	onlyProposals := rng.Intn(2) == 0
	store := cluster.Pebble
	if rng.Intn(3) == 0 {
		store = cluster.Tan
	}
	desc := fmt.Sprintf("voters=3 quiesce=true prevote=%v checkquorum=%v store=%s only_proposals=%v", preVote, checkQuorum, store, onlyProposals)
	fmt.Printf("quiesced-leader-loss case %d %s\n", caseNo, desc)
	c := cluster.NewCluster(cluster.Options{Hosts: 3, Seed: seed, RTTMs: 10, Store: store,
		SMOpt: func(uint64, uint64) cluster.SMOptions {
			return cluster.SMOptions{Kind: cluster.Regular, RecordApply: true}
		}}, sk)
	const shardID = 1
	clock := &tickClock{m: map[uint64]*int64{}}
	verifhook.SetPoint(verifhook.NodeTick, func(s, rep uint64) {
		if s == shardID {
			atomic.AddInt64(clock.ctr(rep), 1)
		}
	})
	defer verifhook.SetPoint(verifhook.NodeTick, func(uint64, uint64) {})
	if err := c.StartAll(); err != nil {
		r.Inconclusive(fmt.Sprintf("quiesced-leader-loss case %d: start failed: %v", caseNo, err))
		return
	}
	defer c.StopAll()
	members := c.Members(3)
	replicas := map[uint64]int{1: 0, 2: 1, 3: 2}
	for i := 0; i < 3; i++ {
		cfg := cluster.ShardConfig(shardID, uint64(i+1))
		cfg.PreVote, cfg.CheckQuorum, cfg.Quiesce = preVote, checkQuorum, true
		if err := c.Hosts[i].StartReplica(members, false, cluster.Regular, cfg); err != nil {
			r.Inconclusive(fmt.Sprintf("quiesced-leader-loss case %d: %v", caseNo, err))
			return
		}
	}
	if !waitFor(15*time.Second, func() bool { return c.SelfLeader(shardID, replicas) >= 0 }) {
		r.Inconclusive(fmt.Sprintf("quiesced-leader-loss case %d: no first leader", caseNo))
		return
	}
	for i := 0; i < 5; i++ {
		if li := c.SelfLeader(shardID, replicas); li >= 0 {
			ctx, cancel := context.WithTimeout(context.Background(), time.Second)
			nh := c.Hosts[li].NodeHost()
			_, _ = nh.SyncPropose(ctx, nh.GetNoOPSession(shardID), cluster.MakeCmd(0, cluster.NewID()))
			cancel()
		}
	}
	li := c.SelfLeader(shardID, replicas)
	if li < 0 {
		r.Inconclusive(fmt.Sprintf("quiesced-leader-loss case %d: leader lost before the idle period", caseNo))
		return
	}
	// idle: 10 election timeouts without activity make every replica quiescent (1 s at these settings)
	idle := time.Duration(1500+rng.Intn(1500)) * time.Millisecond
	time.Sleep(idle)
	c.Hosts[li].Crash()
	time.Sleep(time.Duration(rng.Intn(300)) * time.Millisecond)
	via := (li + 1 + rng.Intn(2)) % 3
	rep := uint64(via + 1)
	t0 := clock.get(rep)
	wall := time.Now()
	var outcomes []string
	completed := false
	attempts := 0
	for clock.get(rep)-t0 < 3000 && time.Since(wall) < 180*time.Second && !completed {
		nh := c.Hosts[via].NodeHost()
		if nh == nil {
			break
		}
		attempts++
		var rs *dragonboat.RequestState
		var err error
		if onlyProposals || attempts%2 == 1 {
			rs, err = nh.Propose(nh.GetNoOPSession(shardID), cluster.MakeCmd(1, cluster.NewID()), 300*10*time.Millisecond)
		} else {
			rs, err = nh.ReadIndex(shardID, 300*10*time.Millisecond)
		}
		if err == nil {
			select {
			case res := <-rs.ResultC():
				completed = res.Completed()
				outcomes = append(outcomes, fmt.Sprintf("%+v", res))
			case <-time.After(120 * time.Second):
				outcomes = append(outcomes, "no result within the watchdog")
			}
			rs.Release()
		} else {
			outcomes = append(outcomes, err.Error())
		}
		if !completed {
			from := clock.get(rep)
			for clock.get(rep)-from < 30 && time.Since(wall) < 180*time.Second {
				time.Sleep(10 * time.Millisecond)
			}
		}
	}
	switch {
	case completed:
		sk.Count("requests_completed_after_quiesced_leader_loss", 1)
		r.Max("max_ticks_until_completion_after_quiesced_leader_loss", clock.get(rep)-t0)
	case clock.get(rep)-t0 >= 3000:
		if len(outcomes) > 10 {
			outcomes = outcomes[len(outcomes)-10:]
		}
		what := "proposals and reads"
		if onlyProposals {
			what = "proposals"
		}
		sk.Violation("C17", "request-does-not-complete-after-healing:quiesced-shard-lost-its-leader",
			fmt.Sprintf("the shard went quiescent (%v idle), then the host of its leader lost power; 2 of 3 voters are up and connected; %s submitted through replica %d for %d ticks (deadline 300 ticks each, %d attempts) never completed", idle, what, rep, clock.get(rep)-t0, attempts),
			map[string]interface{}{"case": caseNo, "config": desc, "idle_ms": idle.Milliseconds(), "last_outcomes": outcomes})
	default:
		r.Inconclusive(fmt.Sprintf("quiesced-leader-loss case %d: ticks of replica %d did not advance", caseNo, rep))
	}
	r.Case(true, common.Hash("qll", caseNo, desc))
	if r.WantSample() {
		r.Sample(map[string]interface{}{"quiesced_leader_loss_case": caseNo, "config": desc, "completed": completed, "attempts": attempts})
	}
}

// runWitnessLeaderLoss: a shard of 2 voters and a witness. Both voters take snapshots after the
// witness was added (and, in some cases, the follower is repaired by a snapshot from the leader),
// the follower's host is restarted (gracefully or after a power loss), then the leader's host
// goes down and stays down. The follower and the witness are a connected majority of the voting
// members: within electTicks ticks the follower must lead, and a proposal through it must complete.
func runWitnessLeaderLoss(r *common.Run, sk *sink, caseNo int, rng *rand.Rand, seed int64) {
	kind := []cluster.SMKind{cluster.Regular, cluster.Concurrent, cluster.OnDisk}[rng.Intn(3)]
	store := cluster.Pebble
	if rng.Intn(3) == 0 {
		store = cluster.Tan
	}
	preVote, checkQuorum := rng.Intn(2) == 0, rng.Intn(2) == 0
	powerLoss := rng.Intn(2) == 0
	viaInstall := rng.Intn(2) == 0
	desc := fmt.Sprintf("sm=%s store=%s prevote=%v checkquorum=%v follower-restart=%s follower-repaired-by-snapshot=%v", kind, store, preVote, checkQuorum,
		map[bool]string{true: "power-loss", false: "graceful"}[powerLoss], viaInstall)
	fmt.Printf("witness-leader-loss case %d %s\n", caseNo, desc)
	c := cluster.NewCluster(cluster.Options{Hosts: 3, Seed: seed, RTTMs: 10, Store: store,
		SMOpt: func(uint64, uint64) cluster.SMOptions { return cluster.SMOptions{Kind: kind, RecordApply: true} }}, sk)
	const shardID = 1
	clock := &tickClock{m: map[uint64]*int64{}}
	verifhook.SetPoint(verifhook.NodeTick, func(s, rep uint64) {
		if s == shardID {
			atomic.AddInt64(clock.ctr(rep), 1)
		}
	})
	defer verifhook.SetPoint(verifhook.NodeTick, func(uint64, uint64) {})
	if err := c.StartAll(); err != nil {
		r.Inconclusive(fmt.Sprintf("witness-leader-loss case %d: start failed: %v", caseNo, err))
		return
	}
	defer c.StopAll()
	shardCfg := func(rep uint64) config.Config {
		cfg := cluster.ShardConfig(shardID, rep)
		cfg.PreVote, cfg.CheckQuorum = preVote, checkQuorum
		cfg.SnapshotEntries, cfg.CompactionOverhead = 10, 2
		return cfg
	}
	members := c.Members(2)
	voterSet := map[uint64]int{1: 0, 2: 1}
	for i := 0; i < 2; i++ {
		if err := c.Hosts[i].StartReplica(members, false, kind, shardCfg(uint64(i+1))); err != nil {
			r.Inconclusive(fmt.Sprintf("witness-leader-loss case %d: %v", caseNo, err))
			return
		}
	}
	propose := func(n int) bool {
		ok := 0
		for try := 0; try < 40*n && ok < n; try++ {
			if li := c.LeaderHost(shardID, voterSet); li >= 0 {
				if nh := c.Hosts[li].NodeHost(); nh != nil {
					ctx, cancel := context.WithTimeout(context.Background(), 500*time.Millisecond)
					_, err := nh.SyncPropose(ctx, nh.GetNoOPSession(shardID), cluster.MakeCmd(byte(try%2), cluster.NewID()))
					cancel()
					if err == nil {
						ok++
						continue
					}
				}
			}
			time.Sleep(30 * time.Millisecond)
		}
		return ok == n
	}
	if !waitFor(15*time.Second, func() bool { return c.LeaderHost(shardID, voterSet) >= 0 }) {
		r.Inconclusive(fmt.Sprintf("witness-leader-loss case %d: no first leader", caseNo))
		return
	}
	wh := c.Hosts[2]
	added := false
	for try := 0; try < 50 && !added; try++ {
		if li := c.LeaderHost(shardID, voterSet); li >= 0 {
			ctx, cancel := context.WithTimeout(context.Background(), time.Second)
			added = c.Hosts[li].NodeHost().SyncRequestAddWitness(ctx, shardID, 3, wh.Addr, 0) == nil
			cancel()
		}
		if !added {
			time.Sleep(50 * time.Millisecond)
		}
	}
	wcfg := shardCfg(3)
	wcfg.IsWitness = true
	wcfg.SnapshotEntries = 0
	if !added || wh.StartReplica(nil, true, kind, wcfg) != nil {
		r.Inconclusive(fmt.Sprintf("witness-leader-loss case %d: could not add the witness", caseNo))
		return
	}
	li := c.LeaderHost(shardID, voterSet)
	if li < 0 {
		r.Inconclusive(fmt.Sprintf("witness-leader-loss case %d: no leader", caseNo))
		return
	}
	fi := 1 - li
	if viaInstall {
		// the follower misses enough for the leader to compact what it needs
		c.Net.Isolate(c.Hosts[fi].Addr, false)
		if !propose(30) {
			r.Inconclusive(fmt.Sprintf("witness-leader-loss case %d: proposals with leader + witness failed", caseNo))
			return
		}
		c.Net.HealAll()
	}
	if !propose(25) { // snapshots on both voters, all of them after the AddWitness entry
		r.Inconclusive(fmt.Sprintf("witness-leader-loss case %d: warm-up proposals failed", caseNo))
		return
	}
	if !waitFor(15*time.Second, func() bool { return sameState(c, shardID, voterSet) }) {
		r.Inconclusive(fmt.Sprintf("witness-leader-loss case %d: the follower did not catch up before the restart", caseNo))
		return
	}
	// the follower's host restarts
	fh := c.Hosts[fi]
	if powerLoss {
		fh.Crash()
	} else {
		fh.Stop()
	}
	time.Sleep(50 * time.Millisecond)
	restart(c, sk, fh)
	li = c.LeaderHost(shardID, voterSet)
	if li != 1-fi {
		// leadership moved during the restart: the scenario needs the other voter to lead
		sk.Count("witness_leader_loss_cases_skipped_leadership_moved", 1)
		r.Case(false, common.Hash("wll", caseNo, desc))
		return
	}
	if !propose(3) {
		r.Inconclusive(fmt.Sprintf("witness-leader-loss case %d: proposals after the follower's restart failed", caseNo))
		return
	}
	waitFor(10*time.Second, func() bool { return sameState(c, shardID, voterSet) })
	// the leader's host goes down for good
	c.Hosts[li].Crash()
	frep := uint64(fi + 1)
	base := clock.get(frep)
	wall := time.Now()
	leads := func() bool {
		if nh := fh.NodeHost(); nh != nil {
			if lid, _, ok, err := nh.GetLeaderID(shardID); err == nil && ok && lid == frep {
				return true
			}
		}
		return false
	}
	// one proposal wakes the shard up if need be (its outcome is not judged)
	if nh := fh.NodeHost(); nh != nil {
		if rs, err := nh.Propose(nh.GetNoOPSession(shardID), cluster.MakeCmd(1, cluster.NewID()), time.Second); err == nil {
			go func() { <-rs.ResultC(); rs.Release() }()
		}
	}
	for !leads() && clock.get(frep)-base < electTicks && time.Since(wall) < 120*time.Second {
		time.Sleep(20 * time.Millisecond)
	}
	wit := map[string]interface{}{"case": caseNo, "config": desc}
	switch {
	case leads():
		r.Max("max_ticks_until_follower_leads_with_the_witness", clock.get(frep)-base)
	case clock.get(frep)-base >= electTicks:
		sk.Violation("C17", "no-leader-after-leader-loss:follower-and-witness-are-a-majority",
			fmt.Sprintf("2 voters + 1 witness; the follower restarted (%s), then the leader's host went down: the follower and the witness are up and connected, the follower processed %d ticks and does not lead", map[bool]string{true: "power loss", false: "gracefully"}[powerLoss], clock.get(frep)-base), wit)
		r.Case(false, common.Hash("wll", caseNo, desc))
		return
	default:
		r.Inconclusive(fmt.Sprintf("witness-leader-loss case %d: ticks of the follower did not advance", caseNo))
		return
	}
	// a proposal through the new leader completes (retried every 30 ticks, bounded by ticks)
	t0 := clock.get(frep)
	done := false
	for clock.get(frep)-t0 < 1500 && !done && time.Since(wall) < 240*time.Second {
		if nh := fh.NodeHost(); nh != nil {
			if rs, err := nh.Propose(nh.GetNoOPSession(shardID), cluster.MakeCmd(0, cluster.NewID()), 3*time.Second); err == nil {
				res := <-rs.ResultC()
				rs.Release()
				done = res.Completed()
			}
		}
		if !done {
			from := clock.get(frep)
			for clock.get(frep)-from < 30 && time.Since(wall) < 240*time.Second {
				time.Sleep(10 * time.Millisecond)
			}
		}
	}
	if !done && clock.get(frep)-t0 >= 1500 {
		sk.Violation("C17", "request-does-not-complete-after-leader-loss:follower-and-witness-are-a-majority",
			fmt.Sprintf("the follower leads with the witness after the old leader's host went down, but a proposal retried for %d ticks never completed", clock.get(frep)-t0), wit)
	}
	if done {
		sk.Count("witness_leader_loss_cases_completed", 1)
	}
	r.Case(done, common.Hash("wll", caseNo, desc))
}

// runTwoLaggingStreams: directed prefix for the stream hand-over of an on-disk state machine. A
// shard of five voters; two followers are cut off at the same time until the other three have
// compacted what they miss, then both links are healed at once: the leader has to stream to both,
// its state machine dwells in SaveSnapshot, so the request for the second stream arrives while
// the first is running and is refused. A refused stream must be reported as a failed snapshot of
// the replica it was meant for, so that raft asks again. Verdict on ticks of each lagging
// replica's own clock (P4 of the progress stage): within catchUpTicks ticks after the heal it
// holds an entry that was completed after the heal. Reported to C17 (a reachable replica catches
// up) and C08 (a lagging follower is brought up to date by a snapshot rather than left with a gap).
func runTwoLaggingStreams(r *common.Run, sk *sink, caseNo int, rng *rand.Rand, seed int64) {
	store := cluster.Pebble
	if rng.Intn(3) == 0 {
		store = cluster.Tan
	}
	snap := uint64(8 + rng.Intn(8))
	slowSave := time.Duration(400+rng.Intn(800)) * time.Millisecond
	desc := fmt.Sprintf("ondisk 5 voters store=%s snapshotEntries=%d saveSnapshot dwells %v", store, snap, slowSave)
	fmt.Printf("two-lagging-streams case %d %s\n", caseNo, desc)
	c := cluster.NewCluster(cluster.Options{Hosts: 5, Seed: seed, RTTMs: 10, Store: store,
		SMOpt: func(uint64, uint64) cluster.SMOptions {
			return cluster.SMOptions{Kind: cluster.OnDisk, RecordApply: true, SlowSave: slowSave}
		}}, sk)
	const shardID = 1
	clock := &tickClock{m: map[uint64]*int64{}}
	verifhook.SetPoint(verifhook.NodeTick, func(s, rep uint64) {
		if s == shardID {
			atomic.AddInt64(clock.ctr(rep), 1)
		}
	})
	defer verifhook.SetPoint(verifhook.NodeTick, func(uint64, uint64) {})
	if err := c.StartAll(); err != nil {
		r.Inconclusive(fmt.Sprintf("two-lagging-streams case %d: start failed: %v", caseNo, err))
		return
	}
	defer c.StopAll()
	members := c.Members(5)
	replicas := map[uint64]int{1: 0, 2: 1, 3: 2, 4: 3, 5: 4}
	for i := 0; i < 5; i++ {
		cfg := cluster.ShardConfig(shardID, uint64(i+1))
		cfg.SnapshotEntries, cfg.CompactionOverhead = snap, 1
		if err := c.Hosts[i].StartReplica(members, false, cluster.OnDisk, cfg); err != nil {
			r.Inconclusive(fmt.Sprintf("two-lagging-streams case %d: %v", caseNo, err))
			return
		}
	}
	if !waitFor(15*time.Second, func() bool { return c.SelfLeader(shardID, replicas) >= 0 }) {
		r.Inconclusive(fmt.Sprintf("two-lagging-streams case %d: no first leader", caseNo))
		return
	}
	var stopFlag int32
	var wg sync.WaitGroup
	var done int64
	var lastID uint64
	for g := 0; g < 2; g++ {
		wg.Add(1)
		go func(g int) {
			defer wg.Done()
			prng := rand.New(rand.NewSource(seed + int64(g)))
			for atomic.LoadInt32(&stopFlag) == 0 {
				if li := c.SelfLeader(shardID, replicas); li >= 0 {
					if nh := c.Hosts[li].NodeHost(); nh != nil {
						id := cluster.NewID()
						ctx, cancel := context.WithTimeout(context.Background(), 300*time.Millisecond)
						if _, err := nh.SyncPropose(ctx, nh.GetNoOPSession(shardID), cluster.MakeCmd(0, id)); err == nil {
							atomic.AddInt64(&done, 1)
							atomic.StoreUint64(&lastID, id)
						}
						cancel()
					}
				}
				time.Sleep(time.Duration(1+prng.Intn(3)) * time.Millisecond)
			}
		}(g)
	}
	defer func() { atomic.StoreInt32(&stopFlag, 1); wg.Wait() }()
	has := func(rep uint64, id uint64) bool {
		in := c.SMs.Latest(shardID, rep)
		if in == nil {
			return false
		}
		_, lists := in.AppliedAndLists()
		for i := len(lists[0]) - 1; i >= 0; i-- {
			if lists[0][i] == id {
				return true
			}
		}
		return false
	}
	l1 := c.SelfLeader(shardID, replicas)
	if l1 < 0 {
		r.Inconclusive(fmt.Sprintf("two-lagging-streams case %d: leader lost", caseNo))
		return
	}
	f1 := (l1 + 1 + rng.Intn(4)) % 5
	f2 := (l1 + 1 + rng.Intn(4)) % 5
	for f2 == f1 {
		f2 = (f2 + 1) % 5
		if f2 == l1 {
			f2 = (f2 + 1) % 5
		}
	}
	c.Net.Isolate(c.Hosts[f1].Addr, false)
	c.Net.Isolate(c.Hosts[f2].Addr, false)
	before := atomic.LoadInt64(&done)
	lagged := waitFor(8*time.Second, func() bool { return atomic.LoadInt64(&done)-before > int64(3*snap+8) })
	chunksBefore := c.Net.Stats().Chunks
	c.Net.HealAll()
	if !lagged {
		r.Inconclusive(fmt.Sprintf("two-lagging-streams case %d: the rest of the shard did not complete enough proposals to compact the log", caseNo))
		return
	}
	time.Sleep(50 * time.Millisecond)
	target := atomic.LoadUint64(&lastID)
	ok := true
	base := map[int]int64{f1: clock.get(uint64(f1 + 1)), f2: clock.get(uint64(f2 + 1))}
	wall := time.Now()
	for _, hi := range []int{f1, f2} {
		rep := uint64(hi + 1)
		for !has(rep, target) && clock.get(rep)-base[hi] < catchUpTicks && time.Since(wall) < 180*time.Second {
			time.Sleep(20 * time.Millisecond)
		}
		switch {
		case has(rep, target):
			r.Max("max_ticks_until_caught_up", clock.get(rep)-base[hi])
			sk.Count("replicas_caught_up", 1)
		case clock.get(rep)-base[hi] >= catchUpTicks:
			ok = false
			what := fmt.Sprintf("replicas %d and %d of an on-disk shard of 5 voters lagged beyond the compacted log at the same time and were reconnected together; replica %d processed %d ticks while the shard completed proposals and still misses an entry committed right after the heal", f1+1, f2+1, rep, clock.get(rep)-base[hi])
			w := map[string]interface{}{"case": caseNo, "config": desc, "lagging": []int{f1 + 1, f2 + 1}, "leader": l1 + 1, "stuck": rep}
			sk.Violation("C17", "reachable-replica-does-not-catch-up:two-streams-at-once", what, w)
			sk.Violation("C08", "lagging-follower-left-with-a-gap:two-streams-at-once", what, w)
		default:
			ok = false
			r.Inconclusive(fmt.Sprintf("two-lagging-streams case %d: ticks of replica %d did not advance", caseNo, rep))
		}
	}
	sk.Count("two_lagging_streams_chunks_after_heal", c.Net.Stats().Chunks-chunksBefore)
	var recov int64
	for _, in := range c.SMs.Instances() {
		recov += in.Calls()["RecoverFromSnapshot"]
	}
	sk.Count("two_lagging_streams_recover_from_snapshot_calls", recov)
	r.Case(ok && recov >= 2, common.Hash("tls", caseNo, desc, recov))
	if r.WantSample() {
		r.Sample(map[string]interface{}{"two_lagging_streams_case": caseNo, "config": desc, "recover_from_snapshot_calls": recov, "proposals": atomic.LoadInt64(&done)})
	}
}
