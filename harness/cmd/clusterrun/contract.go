package main

import (
	"context"
	"fmt"
	"math/rand"
	"os"
	"sync"
	"sync/atomic"
	"time"

	dragonboat "github.com/lni/dragonboat/v4"
	"github.com/lni/dragonboat/v4/config"
	"github.com/lni/dragonboat/v4/internal/verifhook"
	"github.com/lni/dragonboat/v4/verifh/cluster"
	"github.com/lni/dragonboat/v4/verifh/common"
)

// contractMode (C11): three shards, one per state machine kind, on a 3-host
// cluster; proposals, stale and linearizable lookups (slow in some runs),
// periodic and requested snapshots, a lagging follower repaired by snapshot,
// StopShard / StopReplica / restart and NodeHost close while all of it runs.
// The instrumented state machines check the call contract online; with the
// race detector their deliberately unsynchronised field turns every breach a
// user would suffer from into a race report.
func contractMode(r *common.Run, sk *sink) {
	r.SetRule("each case = one 3-host cluster with three shards (regular, concurrent, on-disk state machine) under concurrent proposals, lookups (ReadLocalNode/StaleRead/SyncRead, PRNG-chosen slowness), periodic + requested snapshots, a partitioned follower that is repaired by snapshot, StopShard/StopReplica + restart, graceful host restart and final close under load; every state machine call is checked online (index order per incarnation, no forbidden overlap, nothing after Close, no entry delivered twice, on-disk SM never handed an entry at or below the index returned by Open); non-trivial = at least one stop/close happened while lookups were in flight and all three kinds saw snapshots; distinct by hash of per-kind call counts. Then catch-up cases: 3 replicas (+1 joining non-voting replica) of one PRNG-chosen state machine kind under continuous writes, 8-13 cycles of cutting off / crashing a follower until the log it misses is compacted, repair by file or streamed snapshot, requested and exported snapshots on all replicas, PrepareSnapshot and Sync dwelling 0-2 ms; same online monitors")
	r.Assume("overlaps are judged by entry/exit stamps taken inside the user state machine methods; only overlaps forbidden by the documented contract are flagged (lookups overlapping updates are legal for concurrent and on-disk state machines)")
	n := r.Pick(12, 120)
	for _, c := range r.MyCases(n) {
		runContract(r, sk, c, r.Rand("contract", c), r.SubSeed("contract-seed", c))
		r.Flush()
	}
	// catch-up cycles (see replay.go): followers repaired by file or streamed snapshots while
	// entries are applied, periodic Sync of on-disk state machines, requested and exported
	// snapshots on every replica - with dwelling PrepareSnapshot / Sync so that an overlap the
	// contract forbids lasts long enough to be seen by the online monitor
	for _, c := range r.MyCases(r.Pick(48, 400)) {
		runCatchUpKind(r, sk, c, true, r.Rand("catchup", c), r.SubSeed("catchup-seed", c))
		r.Flush()
	}
}

func runContract(r *common.Run, sk *sink, caseNo int, rng *rand.Rand, seed int64) {
	slowLookup := time.Duration(0)
	switch rng.Intn(4) {
	case 0:
		slowLookup = time.Duration(1+rng.Intn(20)) * time.Millisecond
	case 1:
		// long enough to outlast the whole stop/offload/close sequence of a replica
		slowLookup = time.Duration(100+rng.Intn(300)) * time.Millisecond
	}
	if v := os.Getenv("VERIF_SLOWLOOKUP_MS"); v != "" {
		var ms int
		fmt.Sscanf(v, "%d", &ms)
		slowLookup = time.Duration(ms) * time.Millisecond
	}
	slowSave := time.Duration(0)
	if rng.Intn(3) > 0 {
		slowSave = time.Duration(5+rng.Intn(40)) * time.Millisecond
	}
	closeDelay := time.Duration(rng.Intn(15)) * time.Millisecond
	slowRecover := time.Duration(0)
	if rng.Intn(2) == 0 {
		slowRecover = time.Duration(10+rng.Intn(60)) * time.Millisecond
	}
	snapEntries := uint64(10 + rng.Intn(30))
	store := cluster.Pebble
	if rng.Intn(3) == 0 {
		store = cluster.Tan
	}
	fmt.Printf("contract case %d slowLookup %v slowSave %v closeDelay %v snap %d store %s\n", caseNo, slowLookup, slowSave, closeDelay, snapEntries, store)
	kinds := map[uint64]cluster.SMKind{1: cluster.Regular, 2: cluster.Concurrent, 3: cluster.OnDisk}
	c := cluster.NewCluster(cluster.Options{Hosts: 3, Seed: seed, RTTMs: 10, Store: store,
		SMOpt: func(shardID, _ uint64) cluster.SMOptions {
			return cluster.SMOptions{Kind: kinds[shardID], RecordApply: true, RaceCanary: true, SlowLookup: slowLookup, SlowSave: slowSave, SlowRecover: slowRecover}
		}}, sk)
	// widen the window of NativeSM.Close
	if closeDelay > 0 {
		verifhook.SetPoint(verifhook.NativeSMClose, func(uint64, uint64) { time.Sleep(closeDelay) })
		defer verifhook.SetPoint(verifhook.NativeSMClose, func(uint64, uint64) {})
	}
	if err := c.StartAll(); err != nil {
		r.Inconclusive(fmt.Sprintf("case %d: start failed: %v", caseNo, err))
		return
	}
	members := c.Members(3)
	startReplica := func(h *cluster.Host, shardID uint64) error {
		cfg := cluster.ShardConfig(shardID, uint64(h.Index+1))
		cfg.SnapshotEntries, cfg.CompactionOverhead = snapEntries, 5
		return h.StartReplica(members, false, kinds[shardID], cfg)
	}
	for _, h := range c.Hosts {
		for s := uint64(1); s <= 3; s++ {
			if err := startReplica(h, s); err != nil {
				r.Inconclusive(fmt.Sprintf("case %d: %v", caseNo, err))
				c.StopAll()
				return
			}
		}
	}
	replicas := map[uint64]int{1: 0, 2: 1, 3: 2}
	for s := uint64(1); s <= 3; s++ {
		if !waitFor(15*time.Second, func() bool { return c.LeaderHost(s, replicas) >= 0 }) {
			r.Inconclusive(fmt.Sprintf("case %d: shard %d has no leader", caseNo, s))
			c.StopAll()
			return
		}
	}
	var stopFlag int32
	var wg sync.WaitGroup
	var inflightLookups, stopsDuringLookups, lookups, proposals int64
	nhOf := func(h *cluster.Host) *dragonboat.NodeHost { return hostNH(h) }
	// proposers
	for g := 0; g < 6; g++ {
		wg.Add(1)
		go func(g int) {
			defer wg.Done()
			prng := rand.New(rand.NewSource(seed + int64(g)))
			for atomic.LoadInt32(&stopFlag) == 0 {
				h := c.Hosts[prng.Intn(3)]
				shard := uint64(1 + prng.Intn(3))
				if nh := nhOf(h); nh != nil {
					ctx, cancel := context.WithTimeout(context.Background(), 400*time.Millisecond)
					_, err := nh.SyncPropose(ctx, nh.GetNoOPSession(shard), cluster.MakeCmd(byte(prng.Intn(2)), cluster.NewID()))
					cancel()
					if err == nil {
						atomic.AddInt64(&proposals, 1)
					}
				}
				time.Sleep(time.Duration(prng.Intn(4)) * time.Millisecond)
			}
		}(g)
	}
	// readers
	for g := 0; g < 6; g++ {
		wg.Add(1)
		go func(g int) {
			defer wg.Done()
			prng := rand.New(rand.NewSource(seed + 100 + int64(g)))
			for atomic.LoadInt32(&stopFlag) == 0 {
				h := c.Hosts[prng.Intn(3)]
				shard := uint64(1 + prng.Intn(3))
				if nh := nhOf(h); nh != nil {
					atomic.AddInt64(&inflightLookups, 1)
					switch prng.Intn(3) {
					case 0:
						_, _ = nh.StaleRead(shard, cluster.LookupQuery{Key: 0})
					case 1:
						ctx, cancel := context.WithTimeout(context.Background(), 300*time.Millisecond)
						_, _ = nh.SyncRead(ctx, shard, cluster.LookupQuery{Key: 1})
						cancel()
					default:
						if rs, err := nh.ReadIndex(shard, 300*time.Millisecond); err == nil {
							res := <-rs.ResultC()
							if res.Completed() {
								// a client may sit on a completed ReadIndex for a
								// while before it performs the local read
								if prng.Intn(2) == 0 {
									time.Sleep(time.Duration(prng.Intn(40)) * time.Millisecond)
								}
								_, _ = nh.ReadLocalNode(rs, cluster.HashQuery{})
							}
							rs.Release()
						}
					}
					atomic.AddInt64(&inflightLookups, -1)
					atomic.AddInt64(&lookups, 1)
				}
				time.Sleep(time.Duration(prng.Intn(3)) * time.Millisecond)
			}
		}(g)
	}
	// operator: snapshots, stops, restarts, partitions
	stopsDone := 0
	noteStop := func() {
		stopsDone++
		if atomic.LoadInt64(&inflightLookups) > 0 {
			atomic.AddInt64(&stopsDuringLookups, 1)
		}
	}
	steps := 14 + rng.Intn(8)
	for i := 0; i < steps; i++ {
		h := c.Hosts[rng.Intn(3)]
		shard := uint64(1 + rng.Intn(3))
		nh := nhOf(h)
		switch rng.Intn(8) {
		case 0, 1: // requested snapshot
			if nh != nil {
				if rs, err := nh.RequestSnapshot(shard, dragonboat.SnapshotOption{OverrideCompactionOverhead: rng.Intn(2) == 0, CompactionOverhead: uint64(1 + rng.Intn(10))}, time.Second); err == nil {
					go func() { <-rs.ResultC(); rs.Release() }()
					sk.Count("snapshots_requested", 1)
				}
			}
		case 2: // stop a replica while lookups are in flight, restart it
			if nh != nil {
				noteStop()
				if err := nh.StopReplica(shard, uint64(h.Index+1)); err == nil {
					sk.Count("stop_replica", 1)
					time.Sleep(time.Duration(rng.Intn(30)) * time.Millisecond)
					cfg := cluster.ShardConfig(shard, uint64(h.Index+1))
					cfg.SnapshotEntries, cfg.CompactionOverhead = snapEntries, 5
					if err := restartReplica(h, members, kinds[shard], cfg); err != nil {
						sk.Count("replica_restart_errors", 1)
					}
				}
			}
		case 6: // a restart that waits for readiness (Config.WaitReady) races with a stop of the same replica
			if nh != nil {
				noteStop()
				if err := nh.StopReplica(shard, uint64(h.Index+1)); err == nil {
					sk.Count("stop_replica", 1)
					cfg := cluster.ShardConfig(shard, uint64(h.Index+1))
					cfg.SnapshotEntries, cfg.CompactionOverhead = snapEntries, 5
					cfg.WaitReady = true
					started := make(chan error, 1)
					go func() { started <- restartReplica(h, members, kinds[shard], cfg) }()
					time.Sleep(time.Duration(1+rng.Intn(25)) * time.Millisecond)
					for try := 0; try < 20; try++ {
						if err := nh.StopShard(shard); err == nil {
							sk.Count("stop_during_waitready_start", 1)
							break
						}
						time.Sleep(2 * time.Millisecond)
					}
					select {
					case <-started:
					case <-time.After(20 * time.Second):
						sk.Count("waitready_start_still_blocked_after_20s", 1)
					}
					_ = nh.StopShard(shard)
					cfg.WaitReady = false
					if err := restartReplica(h, members, kinds[shard], cfg); err != nil {
						sk.Count("replica_restart_errors", 1)
					}
				}
			}
		case 3: // stop the shard on this host
			if nh != nil {
				noteStop()
				if err := nh.StopShard(shard); err == nil {
					sk.Count("stop_shard", 1)
					time.Sleep(time.Duration(rng.Intn(30)) * time.Millisecond)
					cfg := cluster.ShardConfig(shard, uint64(h.Index+1))
					cfg.SnapshotEntries, cfg.CompactionOverhead = snapEntries, 5
					if err := restartReplica(h, members, kinds[shard], cfg); err != nil {
						sk.Count("replica_restart_errors", 1)
					}
				}
			}
		case 4: // lagging follower: isolate, let the others move on and compact, heal
			c.Net.Isolate(h.Addr, false)
			time.Sleep(time.Duration(300+rng.Intn(500)) * time.Millisecond)
			c.Net.Heal(h.Addr)
			sk.Count("follower_isolated_then_healed", 1)
		case 5: // graceful host restart under load, snapshots in progress
			if nh != nil {
				kickSnapshots(nh, sk)
				noteStop()
				h.Stop()
				time.Sleep(20 * time.Millisecond)
				if err := h.Restart(); err != nil {
					sk.Violation("C16", "restart-failed", fmt.Sprintf("host %d failed to restart: %v", h.Index, err), nil)
				}
				sk.Count("host_graceful_restart", 1)
			}
		default:
			time.Sleep(time.Duration(50+rng.Intn(150)) * time.Millisecond)
		}
		time.Sleep(time.Duration(80+rng.Intn(200)) * time.Millisecond)
	}
	// close everything while the load is still running and snapshots are being saved
	for _, h := range c.Hosts {
		if nh := h.NodeHost(); nh != nil {
			kickSnapshots(nh, sk)
		}
	}
	noteStop()
	c.StopAll()
	atomic.StoreInt32(&stopFlag, 1)
	wg.Wait()
	// evaluation of what the instrumented state machines saw
	perKind := map[string]map[string]int64{}
	snapKinds := map[string]bool{}
	for _, in := range c.SMs.Instances() {
		k := kinds[in.ShardID].String()
		if perKind[k] == nil {
			perKind[k] = map[string]int64{}
		}
		for m, n := range in.Calls() {
			perKind[k][m] += n
			sk.Count("sm_"+k+"_"+m, n)
			if m == "SaveSnapshot" && n > 0 {
				snapKinds[k] = true
			}
		}
	}
	sk.Count("lookups_done", atomic.LoadInt64(&lookups))
	sk.Count("proposals_completed", atomic.LoadInt64(&proposals))
	sk.Count("stops_or_closes", int64(stopsDone))
	sk.Count("stops_while_lookups_in_flight", atomic.LoadInt64(&stopsDuringLookups))
	nontrivial := atomic.LoadInt64(&stopsDuringLookups) > 0 && len(snapKinds) == 3
	r.Case(nontrivial, common.Hash(fmt.Sprintf("%v", perKind)))
	if r.WantSample() {
		r.Sample(map[string]interface{}{"case": caseNo, "slow_lookup_ms": slowLookup.Milliseconds(), "slow_save_ms": slowSave.Milliseconds(),
			"close_delay_ms": closeDelay.Milliseconds(), "calls_by_kind": perKind, "stops_while_lookups_in_flight": stopsDuringLookups})
	}
}

// kickSnapshots asks for a snapshot of every shard on the host and returns a moment later, so
// that a stop / close that follows finds snapshot workers inside the user state machine.
func kickSnapshots(nh *dragonboat.NodeHost, sk *sink) {
	for shard := uint64(1); shard <= 3; shard++ {
		if rs, err := nh.RequestSnapshot(shard, dragonboat.SnapshotOption{}, time.Second); err == nil {
			go func() { <-rs.ResultC(); rs.Release() }()
			sk.Count("snapshots_requested_before_stop", 1)
		}
	}
	time.Sleep(2 * time.Millisecond)
}

func hostNH(h *cluster.Host) *dragonboat.NodeHost { return h.NodeHost() }

func restartReplica(h *cluster.Host, members map[uint64]dragonboat.Target, kind cluster.SMKind, cfg config.Config) error {
	return h.RestartReplica(members, kind, cfg)
}
