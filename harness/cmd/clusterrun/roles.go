package main

import (
	"context"
	"errors"
	"fmt"
	"math/rand"
	"sync"
	"sync/atomic"
	"time"

	dragonboat "github.com/lni/dragonboat/v4"
	"github.com/lni/dragonboat/v4/internal/verifhook"
	pb "github.com/lni/dragonboat/v4/raftpb"
	"github.com/lni/dragonboat/v4/verifh/cluster"
	"github.com/lni/dragonboat/v4/verifh/common"
)

// rolesMode (C18 at node level): two voters, a witness and a non-voting
// replica on real NodeHosts. Every message leaving for the witness is
// inspected in the sending step worker; the witness's state machine must
// never see Update / SaveSnapshot; the API of the witness replica refuses
// proposals, reads, snapshot and membership requests; no LeaderUpdated event
// ever names the witness or the non-voting replica as leader, also while the
// voters are cut off from each other.
func rolesMode(r *common.Run, sk *sink) {
	r.SetRule("each case = real NodeHosts with a shard of 2 voters + 1 witness + 1 non-voting replica (PRNG: store, snapshot frequency so that witness snapshots are sent, partitions between the voters, restarts of the witness); every message addressed to the witness is checked at the send hook (only metadata / membership-change entries, only witness snapshots), the instrumented state machine of the witness must stay untouched, API calls on the witness must be refused with an error, and no leader event may name a witness or non-voting replica; non-trivial = entries were replicated to the witness and at least one voter partition happened; distinct by hash of the message and call counters")
	n := r.Pick(4, 60)
	for _, c := range r.MyCases(n) {
		runRoles(r, sk, c, r.Rand("roles", c), r.SubSeed("roles-seed", c))
		r.Flush()
	}
}

func runRoles(r *common.Run, sk *sink, caseNo int, rng *rand.Rand, seed int64) {
	store := cluster.Pebble
	if rng.Intn(3) == 0 {
		store = cluster.Tan
	}
	snap := uint64(10 + rng.Intn(20))
	fmt.Printf("roles case %d store %s snapshotEntries %d\n", caseNo, store, snap)
	c := cluster.NewCluster(cluster.Options{Hosts: 4, Seed: seed, RTTMs: 10, Store: store,
		SMOpt: func(uint64, uint64) cluster.SMOptions {
			return cluster.SMOptions{Kind: cluster.Regular, RecordApply: true}
		}}, sk)
	const shardID = 1
	const witnessID, nonVotingID = 3, 4
	var toWitness, payloadToWitness, snapToWitness int64
	verifhook.SetSend(func(m *pb.Message) {
		if m.ShardID != shardID || m.To != witnessID {
			return
		}
		switch m.Type {
		case pb.Replicate:
			for _, e := range m.Entries {
				atomic.AddInt64(&toWitness, 1)
				if e.Type != pb.MetadataEntry && e.Type != pb.ConfigChangeEntry || (e.Type == pb.MetadataEntry && len(e.Cmd) > 0) {
					atomic.AddInt64(&payloadToWitness, 1)
					sk.Violation("C18", "payload-sent-to-witness",
						fmt.Sprintf("replica %d sends entry %d of type %s with %d payload bytes to the witness", m.From, e.Index, e.Type, len(e.Cmd)),
						map[string]interface{}{"case": caseNo, "from": m.From, "index": e.Index, "type": e.Type.String()})
				}
			}
		case pb.InstallSnapshot:
			atomic.AddInt64(&snapToWitness, 1)
			if !m.Snapshot.Witness {
				sk.Violation("C18", "full-snapshot-sent-to-witness",
					fmt.Sprintf("replica %d sends a full snapshot (index %d, %d bytes) to the witness", m.From, m.Snapshot.Index, m.Snapshot.FileSize),
					map[string]interface{}{"case": caseNo, "from": m.From, "index": m.Snapshot.Index})
			}
		}
	})
	defer verifhook.SetSend(func(*pb.Message) {})
	if err := c.StartAll(); err != nil {
		r.Inconclusive(fmt.Sprintf("case %d: start failed: %v", caseNo, err))
		return
	}
	defer c.StopAll()
	members := c.Members(2)
	for i := 0; i < 2; i++ {
		cfg := cluster.ShardConfig(shardID, uint64(i+1))
		cfg.SnapshotEntries, cfg.CompactionOverhead = snap, 2
		if err := c.Hosts[i].StartReplica(members, false, cluster.Regular, cfg); err != nil {
			r.Inconclusive(fmt.Sprintf("case %d: %v", caseNo, err))
			return
		}
	}
	replicas := map[uint64]int{1: 0, 2: 1}
	if !waitFor(15*time.Second, func() bool { return c.LeaderHost(shardID, replicas) >= 0 }) {
		r.Inconclusive(fmt.Sprintf("case %d: no leader", caseNo))
		return
	}
	cc := func(f func(ctx context.Context, nh *dragonboat.NodeHost) error) bool {
		for try := 0; try < 40; try++ {
			if li := c.LeaderHost(shardID, replicas); li >= 0 {
				ctx, cancel := context.WithTimeout(context.Background(), time.Second)
				err := f(ctx, c.Hosts[li].NodeHost())
				cancel()
				if err == nil {
					return true
				}
			}
			time.Sleep(50 * time.Millisecond)
		}
		return false
	}
	if !cc(func(ctx context.Context, nh *dragonboat.NodeHost) error {
		return nh.SyncRequestAddWitness(ctx, shardID, witnessID, c.Hosts[2].Addr, 0)
	}) || !cc(func(ctx context.Context, nh *dragonboat.NodeHost) error {
		return nh.SyncRequestAddNonVoting(ctx, shardID, nonVotingID, c.Hosts[3].Addr, 0)
	}) {
		r.Inconclusive(fmt.Sprintf("case %d: could not add witness / non-voting member", caseNo))
		return
	}
	wcfg := cluster.ShardConfig(shardID, witnessID)
	wcfg.IsWitness = true
	if err := c.Hosts[2].StartReplica(nil, true, cluster.Regular, wcfg); err != nil {
		r.Inconclusive(fmt.Sprintf("case %d: witness start: %v", caseNo, err))
		return
	}
	ncfg := cluster.ShardConfig(shardID, nonVotingID)
	ncfg.IsNonVoting = true
	ncfg.SnapshotEntries, ncfg.CompactionOverhead = snap, 2
	if err := c.Hosts[3].StartReplica(nil, true, cluster.Regular, ncfg); err != nil {
		r.Inconclusive(fmt.Sprintf("case %d: non-voting start: %v", caseNo, err))
		return
	}
	// load through voters and the non-voting replica
	var stopFlag int32
	var wg sync.WaitGroup
	var done int64
	for g := 0; g < 4; g++ {
		wg.Add(1)
		go func(g int) {
			defer wg.Done()
			prng := rand.New(rand.NewSource(seed + int64(g)))
			hosts := []int{0, 1, 3}
			for atomic.LoadInt32(&stopFlag) == 0 {
				nh := c.Hosts[hosts[prng.Intn(3)]].NodeHost()
				if nh != nil {
					ctx, cancel := context.WithTimeout(context.Background(), 400*time.Millisecond)
					if prng.Intn(3) > 0 {
						if _, err := nh.SyncPropose(ctx, nh.GetNoOPSession(shardID), cluster.MakeCmd(byte(prng.Intn(2)), cluster.NewID())); err == nil {
							atomic.AddInt64(&done, 1)
						}
					} else {
						_, _ = nh.SyncRead(ctx, shardID, cluster.LookupQuery{Key: 0})
					}
					cancel()
				}
				time.Sleep(time.Duration(prng.Intn(3)) * time.Millisecond)
			}
		}(g)
	}
	// API guards on the witness
	wnh := c.Hosts[2].NodeHost()
	guard := func(name string, err error) {
		sk.Count("witness_api_calls", 1)
		// refused = any error: a witness that has not finished starting answers ErrShardNotReady,
		// afterwards ErrInvalidOperation; the property only forbids that the request is accepted
		if err == nil {
			sk.Violation("C18", "witness-api-accepted:"+name,
				fmt.Sprintf("%s on the witness replica was accepted (a RequestState was returned) instead of being refused", name), map[string]interface{}{"case": caseNo})
		} else if errors.Is(err, dragonboat.ErrInvalidOperation) {
			sk.Count("witness_api_refused_invalid_operation", 1)
		}
	}
	partitions := 0
	for i := 0; i < 8+rng.Intn(6); i++ {
		_, err := wnh.Propose(wnh.GetNoOPSession(shardID), cluster.MakeCmd(0, cluster.NewID()), time.Second)
		guard("Propose", err)
		_, err = wnh.ReadIndex(shardID, time.Second)
		guard("ReadIndex", err)
		_, err = wnh.RequestSnapshot(shardID, dragonboat.SnapshotOption{}, time.Second)
		guard("RequestSnapshot", err)
		_, err = wnh.RequestAddNonVoting(shardID, 50, "nohost:1", 0, time.Second)
		guard("RequestAddNonVoting", err)
		_, err = wnh.QueryRaftLog(shardID, 1, 3, 1024)
		guard("QueryRaftLog", err)
		switch rng.Intn(4) {
		case 0: // the voters cannot talk to each other; each still reaches the witness
			c.Net.Cut(c.Hosts[0].Addr, c.Hosts[1].Addr, false)
			c.Net.Cut(c.Hosts[1].Addr, c.Hosts[0].Addr, false)
			partitions++
			time.Sleep(time.Duration(300+rng.Intn(400)) * time.Millisecond)
			c.Net.HealAll()
		case 1: // one voter isolated: the other one + witness are a quorum
			c.Net.Isolate(c.Hosts[rng.Intn(2)].Addr, false)
			partitions++
			time.Sleep(time.Duration(300+rng.Intn(400)) * time.Millisecond)
			c.Net.HealAll()
		case 2: // restart the witness host (it then needs a witness snapshot or log metadata)
			c.Hosts[2].Stop()
			time.Sleep(time.Duration(100+rng.Intn(300)) * time.Millisecond)
			if err := c.Hosts[2].Restart(); err != nil {
				sk.Violation("C16", "restart-failed", fmt.Sprintf("witness host failed to restart: %v", err), nil)
			}
			wnh = c.Hosts[2].NodeHost()
		default:
			time.Sleep(time.Duration(100+rng.Intn(200)) * time.Millisecond)
		}
	}
	atomic.StoreInt32(&stopFlag, 1)
	wg.Wait()
	// the witness's user state machine was never used
	for _, in := range c.SMs.Instances() {
		if in.ReplicaID != witnessID {
			continue
		}
		calls := in.Calls()
		for _, m := range []string{"Update", "SaveSnapshot", "Lookup", "PrepareSnapshot"} {
			if calls[m] > 0 {
				sk.Violation("C18", "witness-state-machine-used:"+m,
					fmt.Sprintf("the state machine of the witness replica had %s called %d times", m, calls[m]), map[string]interface{}{"case": caseNo, "calls": calls})
			}
		}
	}
	// leaders announced during the run are voters only
	for _, l := range c.Leaders(shardID) {
		if l == witnessID || l == nonVotingID {
			sk.Violation("C18", "non-voter-announced-as-leader", fmt.Sprintf("replica %d (witness or non-voting) was announced as leader", l), map[string]interface{}{"case": caseNo})
		}
	}
	sk.Count("entries_sent_to_witness", atomic.LoadInt64(&toWitness))
	sk.Count("snapshots_sent_to_witness", atomic.LoadInt64(&snapToWitness))
	sk.Count("voter_partitions", int64(partitions))
	sk.Count("proposals_completed", atomic.LoadInt64(&done))
	r.Case(atomic.LoadInt64(&toWitness) > 0 && partitions > 0, common.Hash(caseNo, store.String(), toWitness > 0, snapToWitness > 0, partitions))
	if r.WantSample() {
		r.Sample(map[string]interface{}{"case": caseNo, "store": store.String(), "entries_sent_to_witness": toWitness,
			"witness_snapshots_sent": snapToWitness, "voter_partitions": partitions, "proposals_completed": done})
	}
}
