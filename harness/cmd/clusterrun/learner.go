package main

import (
	"context"
	"fmt"
	"sync/atomic"
	"time"

	"github.com/lni/dragonboat/v4/internal/verifhook"
	pb "github.com/lni/dragonboat/v4/raftpb"
	"github.com/lni/dragonboat/v4/verifh/cluster"
	"github.com/lni/dragonboat/v4/verifh/common"
)

// learnerMode (C02 at node level): a shard with a single voting member and a
// non-voting member; the voter's host loses power at the PreSave point of the
// step that carries a fresh proposal (its Replicate messages have been handed
// to the transport, nothing of the update is durable). After the restart both
// replicas must still agree on every applied index.
func learnerMode(r *common.Run, sk *sink) {
	r.SetRule("each case = real NodeHosts: one voting replica + one non-voting replica, PRNG-chosen store and number of warm-up entries; power loss of the voter's host at the PreSave hook of the step that carries a marked proposal (after a PRNG-chosen delay that lets the early Replicate message reach the other host), restart, further proposals, then comparison of both replicas' lists; non-trivial = the crash instant was hit while the marked proposal was in the update and the shard made progress after the restart; distinct by (store, warm-up, delay, outcome)")
	r.Assume("crash = power loss of the whole host as in E2; the Replicate messages handed to the transport before the crash instant may still be delivered (they left the host)")
	n := r.Pick(6, 60)
	for _, c := range r.MyCases(n) {
		rng := r.Rand("learner", c)
		store := cluster.Pebble
		if rng.Intn(2) == 0 {
			store = cluster.Tan
		}
		warm := 3 + rng.Intn(20)
		delay := time.Duration(5+rng.Intn(60)) * time.Millisecond
		runLearner(r, sk, c, store, warm, delay, r.SubSeed("learner-seed", c))
		r.Flush()
	}
}

func runLearner(r *common.Run, sk *sink, caseNo int, store cluster.StoreKind, warm int, delay time.Duration, seed int64) {
	fmt.Printf("learner case %d store %s warm %d delay %v\n", caseNo, store, warm, delay)
	c := cluster.NewCluster(cluster.Options{Hosts: 2, Seed: seed, RTTMs: 10, Store: store,
		SMOpt: func(uint64, uint64) cluster.SMOptions {
			return cluster.SMOptions{Kind: cluster.Regular, RecordApply: true}
		}}, sk)
	const shardID = 1
	if err := c.StartAll(); err != nil {
		r.Inconclusive(fmt.Sprintf("case %d: start failed: %v", caseNo, err))
		return
	}
	defer c.StopAll()
	h0, h1 := c.Hosts[0], c.Hosts[1]
	cfg1 := cluster.ShardConfig(shardID, 1)
	if err := h0.StartReplica(map[uint64]string{1: h0.Addr}, false, cluster.Regular, cfg1); err != nil {
		r.Inconclusive(fmt.Sprintf("case %d: %v", caseNo, err))
		return
	}
	propose := func(key byte) (uint64, bool) {
		id := cluster.NewID()
		for try := 0; try < 100; try++ {
			nh := h0.NH
			if nh == nil {
				return id, false
			}
			ctx, cancel := context.WithTimeout(context.Background(), 500*time.Millisecond)
			_, err := nh.SyncPropose(ctx, nh.GetNoOPSession(shardID), cluster.MakeCmd(key, id))
			cancel()
			if err == nil {
				return id, true
			}
			id = cluster.NewID() // the outcome of the failed attempt is unknown: use a fresh id
			time.Sleep(30 * time.Millisecond)
		}
		return id, false
	}
	for i := 0; i < warm; i++ {
		if _, ok := propose(byte(i % 2)); !ok {
			r.Inconclusive(fmt.Sprintf("case %d: warm-up proposals failed", caseNo))
			return
		}
	}
	added := false
	for try := 0; try < 50 && !added; try++ {
		ctx, cancel := context.WithTimeout(context.Background(), time.Second)
		err := h0.NH.SyncRequestAddNonVoting(ctx, shardID, 2, h1.Addr, 0)
		cancel()
		added = err == nil
	}
	if !added {
		r.Inconclusive(fmt.Sprintf("case %d: could not add the non-voting member", caseNo))
		return
	}
	cfg2 := cluster.ShardConfig(shardID, 2)
	cfg2.IsNonVoting = true
	if err := h1.StartReplica(nil, true, cluster.Regular, cfg2); err != nil {
		r.Inconclusive(fmt.Sprintf("case %d: %v", caseNo, err))
		return
	}
	same := func() bool {
		a, b := c.SMs.Latest(shardID, 1), c.SMs.Latest(shardID, 2)
		return a != nil && b != nil && a.DataHash() == b.DataHash()
	}
	if !waitFor(15*time.Second, same) {
		r.Inconclusive(fmt.Sprintf("case %d: the non-voting member did not catch up", caseNo))
		return
	}
	// arm the crash at the PreSave point of the update that carries the marker
	var armed, hit int32
	marker := cluster.NewID()
	markCmd := cluster.MakeCmd(7, marker)
	done := make(chan struct{})
	verifhook.SetUpdates(verifhook.PreSave, func(uds []pb.Update) {
		if atomic.LoadInt32(&armed) == 0 {
			return
		}
		for _, ud := range uds {
			if ud.ShardID != shardID || ud.ReplicaID != 1 {
				continue
			}
			for _, e := range ud.EntriesToSave {
				if len(e.Cmd) >= 9 && string(e.Cmd[len(e.Cmd)-9:]) == string(markCmd) {
					if atomic.CompareAndSwapInt32(&hit, 0, 1) {
						time.Sleep(delay) // the Replicate message is on its way
						h0.CrashInstant()
						close(done)
					}
				}
			}
		}
	})
	defer verifhook.SetUpdates(verifhook.PreSave, func([]pb.Update) {})
	atomic.StoreInt32(&armed, 1)
	if rs, err := h0.NH.Propose(h0.NH.GetNoOPSession(shardID), markCmd, 2*time.Second); err == nil {
		_ = rs
	}
	select {
	case <-done:
	case <-time.After(5 * time.Second):
	}
	atomic.StoreInt32(&armed, 0)
	if atomic.LoadInt32(&hit) == 0 {
		r.Inconclusive(fmt.Sprintf("case %d: the PreSave hook never saw the marked proposal", caseNo))
		r.Case(false, fmt.Sprintf("miss-%d", caseNo))
		return
	}
	sk.Count("crash_at_presave_with_marker", 1)
	time.Sleep(40 * time.Millisecond)
	h0.CrashFinish()
	if err := h0.Restart(); err != nil {
		sk.Violation("C02", "restart-failed", fmt.Sprintf("voter host failed to restart: %v", err), nil)
		return
	}
	progressed := 0
	for i := 0; i < 6; i++ {
		if _, ok := propose(byte(i % 2)); ok {
			progressed++
		}
	}
	agree := waitFor(15*time.Second, same)
	a, b := c.SMs.Latest(shardID, 1), c.SMs.Latest(shardID, 2)
	la, lb := a.Snapshot(), b.Snapshot()
	appliedMarker := false
	for _, id := range lb[7] {
		if id == marker {
			appliedMarker = true
		}
	}
	voterHasMarker := false
	for _, id := range la[7] {
		if id == marker {
			voterHasMarker = true
		}
	}
	if appliedMarker {
		sk.Count("non_voting_applied_marker", 1)
	}
	if voterHasMarker {
		sk.Count("voter_has_marker_after_restart", 1)
	}
	if !agree {
		// decide by content: the same index must hold the same entry on both
		ra, rb := a.Applied(), b.Applied()
		byIdx := map[uint64]cluster.ApplyRec{}
		for _, x := range ra {
			byIdx[x.Index] = x
		}
		// earlier incarnations of replica 1 count as well
		for _, in := range c.SMs.Instances() {
			if in.ReplicaID == 1 {
				for _, x := range in.Applied() {
					byIdx[x.Index] = x
				}
			}
		}
		for _, y := range rb {
			if x, ok := byIdx[y.Index]; ok && (x.ID != y.ID || x.Key != y.Key) {
				sk.Violation("C02", "replicas-apply-different-entries-at-one-index",
					fmt.Sprintf("index %d: the voting replica applied id %d, the non-voting replica applied id %d (power loss of the single voter between sending Replicate and persisting)", y.Index, x.ID, y.ID),
					map[string]interface{}{"case": caseNo, "store": store.String(), "warm": warm, "delay_ms": delay.Milliseconds(),
						"voter": x, "non_voting": y, "marker": marker, "non_voting_applied_marker": appliedMarker, "voter_has_marker": voterHasMarker})
				break
			}
		}
		if appliedMarker && !voterHasMarker {
			sk.Violation("C02", "non-voting-applied-entry-lost-by-the-only-voter",
				fmt.Sprintf("the non-voting replica applied proposal %d which the voting replica lost in the power loss", marker),
				map[string]interface{}{"case": caseNo, "store": store.String(), "warm": warm, "delay_ms": delay.Milliseconds()})
			// the same observation in terms of C01: the proposal never completed at its client (its
			// host lost power) and took effect on one replica only - reads through the non-voting
			// replica see it, reads through the voter never will
			sk.Violation("C01", "proposal-takes-effect-on-the-non-voting-replica-only",
				fmt.Sprintf("proposal %d ended without a result (power loss of the only voter), is visible to reads through the non-voting replica and absent on the voter: it did not take effect at a single point", marker),
				map[string]interface{}{"case": caseNo, "store": store.String(), "warm": warm, "delay_ms": delay.Milliseconds()})
		} else {
			r.Inconclusive(fmt.Sprintf("case %d: replicas did not reach equal state within 15s after the restart (marker at non-voting %v, at voter %v)", caseNo, appliedMarker, voterHasMarker))
		}
	}
	if agree {
		termReuse(r, sk, c, caseNo, delay, propose, same)
	}
	r.Case(progressed > 0, common.Hash(store.String(), warm, delay, appliedMarker, voterHasMarker, agree))
	if r.WantSample() {
		r.Sample(map[string]interface{}{"case": caseNo, "store": store.String(), "warm_up_entries": warm, "delay_ms": delay.Milliseconds(),
			"non_voting_applied_marker": appliedMarker, "voter_has_marker_after_restart": voterHasMarker, "replicas_agree": agree, "proposals_after_restart": progressed})
	}
}

// termReuse: second crash point of the same family. The single voter is
// restarted while clients keep proposing; it loses power again at the PreSave
// point of the very step in which it becomes leader of a new term and appends
// user entries (nothing of that step is durable, not even the new term).
// After the next restart it may win the same term again; both replicas must
// still agree.
func termReuse(r *common.Run, sk *sink, c *cluster.Cluster, caseNo int, delay time.Duration,
	propose func(byte) (uint64, bool), same func() bool) {
	const shardID = 1
	h0 := c.Hosts[0]
	stop := make(chan struct{})
	stopped := make(chan struct{})
	go func() {
		defer close(stopped)
		for {
			select {
			case <-stop:
				return
			default:
			}
			if nh := h0.NH; nh != nil && !h0.Crashed() {
				if rs, err := nh.Propose(nh.GetNoOPSession(shardID), cluster.MakeCmd(5, cluster.NewID()), 300*time.Millisecond); err == nil {
					_ = rs
				}
			}
			time.Sleep(300 * time.Microsecond)
		}
	}()
	var armed, hit int32
	done := make(chan struct{})
	verifhook.SetUpdates(verifhook.PreSave, func(uds []pb.Update) {
		if atomic.LoadInt32(&armed) == 0 {
			return
		}
		for _, ud := range uds {
			if ud.ShardID != shardID || ud.ReplicaID != 1 || ud.LeaderUpdate.LeaderID != 1 {
				continue
			}
			user := 0
			for _, e := range ud.EntriesToSave {
				if len(e.Cmd) > 0 {
					user++
				}
			}
			if user > 0 && atomic.CompareAndSwapInt32(&hit, 0, 1) {
				time.Sleep(delay)
				h0.CrashInstant()
				close(done)
			}
		}
	})
	// a graceful stop and restart gives an election in which proposals are queued
	for attempt := 0; attempt < 6 && atomic.LoadInt32(&hit) == 0; attempt++ {
		h0.Stop()
		atomic.StoreInt32(&armed, 1)
		if err := h0.Restart(); err != nil {
			sk.Violation("C02", "restart-failed", fmt.Sprintf("voter host failed to restart: %v", err), nil)
			close(stop)
			<-stopped
			return
		}
		select {
		case <-done:
		case <-time.After(2 * time.Second):
		}
	}
	atomic.StoreInt32(&armed, 0)
	verifhook.SetUpdates(verifhook.PreSave, func([]pb.Update) {})
	if atomic.LoadInt32(&hit) == 0 {
		close(stop)
		<-stopped
		sk.Count("term_reuse_crash_point_not_reached", 1)
		return
	}
	sk.Count("crash_at_presave_of_leader_election_step", 1)
	time.Sleep(40 * time.Millisecond)
	h0.CrashFinish()
	if err := h0.Restart(); err != nil {
		sk.Violation("C02", "restart-failed", fmt.Sprintf("voter host failed to restart: %v", err), nil)
		close(stop)
		<-stopped
		return
	}
	time.Sleep(600 * time.Millisecond)
	close(stop)
	<-stopped
	for i := 0; i < 4; i++ {
		propose(byte(i % 2))
	}
	if !waitFor(15*time.Second, same) {
		a, b := c.SMs.Latest(shardID, 1), c.SMs.Latest(shardID, 2)
		byIdx := map[uint64]cluster.ApplyRec{}
		for _, in := range c.SMs.Instances() {
			if in.ReplicaID == 1 {
				for _, x := range in.Applied() {
					byIdx[x.Index] = x
				}
			}
		}
		_ = a
		for _, y := range b.Applied() {
			if x, ok := byIdx[y.Index]; ok && (x.ID != y.ID || x.Key != y.Key) {
				sk.Violation("C02", "replicas-apply-different-entries-at-one-index",
					fmt.Sprintf("index %d: the voting replica applied id %d, the non-voting replica applied id %d (power loss of the single voter in the step in which it became leader)", y.Index, x.ID, y.ID),
					map[string]interface{}{"case": caseNo, "delay_ms": delay.Milliseconds(), "voter": x, "non_voting": y})
				return
			}
		}
		sk.Violation("C02", "replicas-diverged-after-term-reuse",
			"the voting and the non-voting replica did not reach equal state within 15s after the voter lost power in the step in which it became leader",
			map[string]interface{}{"case": caseNo, "delay_ms": delay.Milliseconds()})
	}
}
