package main

import (
	"context"
	"crypto/sha256"
	"encoding/hex"
	"fmt"
	"io"
	"math/rand"
	"sort"
	"strings"
	"time"

	gvfs "github.com/lni/vfs"

	dragonboat "github.com/lni/dragonboat/v4"
	"github.com/lni/dragonboat/v4/internal/rsm"
	"github.com/lni/dragonboat/v4/internal/verifhook"
	pb "github.com/lni/dragonboat/v4/raftpb"
	"github.com/lni/dragonboat/v4/tools"
	"github.com/lni/dragonboat/v4/verifh/cluster"
	"github.com/lni/dragonboat/v4/verifh/common"
)

// importerMode (C20): history -> exported snapshot at a PRNG-chosen point ->
// more history -> all hosts stopped -> invalid imports (must be refused and
// leave every file untouched) -> valid import on every listed host with a
// PRNG-chosen member list -> restart -> membership, state, leader, new
// proposals. A second kind of case corrupts one file of the export first.
func importerMode(r *common.Run, sk *sink) {
	r.SetRule("each case = real NodeHosts (6 hosts, shard on 3 of them, optional removed member, non-voting member and witness before the export), PRNG-chosen store / state machine kind / export point / new member list (subset of old members, old + entirely new ids on spare hosts, single member), a battery of invalid imports checked for refusal and for an unchanged file tree, the valid import on every listed host, restart and comparison of membership and state with the exported state; corruption cases flip one byte or truncate / delete one file of the export and require refusal or exactly the exported state; non-trivial = proposals were made after the export point (so that a wrong state is distinguishable) and the restarted shard completed a new proposal; distinct by hash of (options, member list, outcome)")
	r.Assume("the exported state is reconstructed from the apply records of the instrumented state machine up to the index returned by the export request")
	n := r.Pick(120, 800)
	for _, c := range r.MyCases(n) {
		runImport(r, sk, c, r.Rand("import", c), r.SubSeed("import-seed", c))
		r.Flush()
	}
}

func hashTree(fs *gvfs.MemFS, root string) string {
	h := sha256.New()
	var walk func(dir string)
	walk = func(dir string) {
		names, err := fs.List(dir)
		if err != nil {
			fmt.Fprintf(h, "ERR %s %v\n", dir, err)
			return
		}
		sort.Strings(names)
		for _, n := range names {
			p := fs.PathJoin(dir, n)
			fi, err := fs.Stat(p)
			if err != nil {
				fmt.Fprintf(h, "ERR %s\n", p)
				continue
			}
			if fi.IsDir() {
				fmt.Fprintf(h, "D %s\n", p)
				walk(p)
				continue
			}
			if n == "LOCK" {
				continue
			}
			f, err := fs.Open(p)
			if err != nil {
				fmt.Fprintf(h, "ERR %s\n", p)
				continue
			}
			fmt.Fprintf(h, "F %s %d\n", p, fi.Size())
			_, _ = io.Copy(h, f)
			_ = f.Close()
		}
	}
	walk(root)
	return hex.EncodeToString(h.Sum(nil))[:20]
}

func copyDir(src *gvfs.MemFS, dst *gvfs.MemFS, dir string) error {
	if err := dst.MkdirAll(dir, 0o755); err != nil {
		return err
	}
	names, err := src.List(dir)
	if err != nil {
		return err
	}
	for _, n := range names {
		p := src.PathJoin(dir, n)
		fi, err := src.Stat(p)
		if err != nil {
			return err
		}
		if fi.IsDir() {
			if err := copyDir(src, dst, p); err != nil {
				return err
			}
			continue
		}
		in, err := src.Open(p)
		if err != nil {
			return err
		}
		b, err := io.ReadAll(in)
		_ = in.Close()
		if err != nil {
			return err
		}
		out, err := dst.Create(p)
		if err != nil {
			return err
		}
		if _, err := out.Write(b); err != nil {
			return err
		}
		if err := out.Sync(); err != nil {
			return err
		}
		_ = out.Close()
	}
	if d, err := dst.OpenDir(dir); err == nil {
		_ = d.Sync()
		_ = d.Close()
	}
	return nil
}

func runImport(r *common.Run, sk *sink, caseNo int, rng *rand.Rand, seed int64) {
	store := cluster.Pebble
	if rng.Intn(3) == 0 {
		store = cluster.Tan
	}
	kind := []cluster.SMKind{cluster.Regular, cluster.Concurrent, cluster.OnDisk}[rng.Intn(3)]
	withRemoved := rng.Intn(3) == 0
	withNonVoting := rng.Intn(3) == 0
	withWitness := rng.Intn(3) == 0
	corrupt := rng.Intn(3) == 0
	before := 10 + rng.Intn(60)
	after := 5 + rng.Intn(30)
	fmt.Printf("import case %d store %s sm %s removed %v nonvoting %v corrupt %v before %d after %d\n", caseNo, store, kind, withRemoved, withNonVoting, corrupt, before, after)
	c := cluster.NewCluster(cluster.Options{Hosts: 6, Seed: seed, RTTMs: 10, Store: store,
		SMOpt: func(uint64, uint64) cluster.SMOptions {
			return cluster.SMOptions{Kind: kind, RecordApply: true}
		}}, sk)
	const shardID = 1
	if err := c.StartAll(); err != nil {
		r.Inconclusive(fmt.Sprintf("case %d: start failed: %v", caseNo, err))
		return
	}
	stopped := false
	defer func() {
		if !stopped {
			c.StopAll()
		}
	}()
	members := c.Members(3)
	for i := 0; i < 3; i++ {
		cfg := cluster.ShardConfig(shardID, uint64(i+1))
		cfg.SnapshotEntries, cfg.CompactionOverhead = uint64(15+rng.Intn(30)), 5
		if err := c.Hosts[i].StartReplica(members, false, kind, cfg); err != nil {
			r.Inconclusive(fmt.Sprintf("case %d: %v", caseNo, err))
			return
		}
	}
	replicas := map[uint64]int{1: 0, 2: 1, 3: 2}
	if !waitFor(15*time.Second, func() bool { return c.LeaderHost(shardID, replicas) >= 0 }) {
		r.Inconclusive(fmt.Sprintf("case %d: no leader", caseNo))
		return
	}
	propose := func(hosts []int) bool {
		for try := 0; try < 60; try++ {
			h := c.Hosts[hosts[try%len(hosts)]]
			nh := h.NodeHost()
			if nh == nil {
				continue
			}
			ctx, cancel := context.WithTimeout(context.Background(), 500*time.Millisecond)
			_, err := nh.SyncPropose(ctx, nh.GetNoOPSession(shardID), cluster.MakeCmd(byte(try%2), cluster.NewID()))
			cancel()
			if err == nil {
				return true
			}
			time.Sleep(30 * time.Millisecond)
		}
		return false
	}
	old := []int{0, 1, 2}
	for i := 0; i < before; i++ {
		if !propose(old) {
			r.Inconclusive(fmt.Sprintf("case %d: proposals before the export failed", caseNo))
			return
		}
	}
	syncCC := func(f func(ctx context.Context, nh *dragonboat.NodeHost) error) bool {
		for try := 0; try < 40; try++ {
			nh := c.Hosts[try%2].NodeHost()
			ctx, cancel := context.WithTimeout(context.Background(), time.Second)
			err := f(ctx, nh)
			cancel()
			if err == nil {
				return true
			}
			time.Sleep(50 * time.Millisecond)
		}
		return false
	}
	oldMembers := map[uint64]string{1: c.Hosts[0].Addr, 2: c.Hosts[1].Addr, 3: c.Hosts[2].Addr}
	removedID := uint64(0)
	if withRemoved {
		if !syncCC(func(ctx context.Context, nh *dragonboat.NodeHost) error {
			return nh.SyncRequestDeleteReplica(ctx, shardID, 3, 0)
		}) {
			r.Inconclusive(fmt.Sprintf("case %d: could not remove replica 3", caseNo))
			return
		}
		removedID = 3
		delete(oldMembers, 3)
		old = []int{0, 1}
		time.Sleep(100 * time.Millisecond)
	}
	nonVotingID := uint64(0)
	if withNonVoting {
		if !syncCC(func(ctx context.Context, nh *dragonboat.NodeHost) error {
			return nh.SyncRequestAddNonVoting(ctx, shardID, 9, c.Hosts[3].Addr, 0)
		}) {
			r.Inconclusive(fmt.Sprintf("case %d: could not add the non-voting member", caseNo))
			return
		}
		nonVotingID = 9
		cfg := cluster.ShardConfig(shardID, 9)
		cfg.IsNonVoting = true
		if err := c.Hosts[3].StartReplica(nil, true, kind, cfg); err != nil {
			r.Inconclusive(fmt.Sprintf("case %d: %v", caseNo, err))
			return
		}
	}
	witnessID := uint64(0)
	if withWitness {
		if !syncCC(func(ctx context.Context, nh *dragonboat.NodeHost) error {
			return nh.SyncRequestAddWitness(ctx, shardID, 8, c.Hosts[5].Addr, 0)
		}) {
			r.Inconclusive(fmt.Sprintf("case %d: could not add the witness", caseNo))
			return
		}
		witnessID = 8
		cfg := cluster.ShardConfig(shardID, 8)
		cfg.IsWitness = true
		if err := c.Hosts[5].StartReplica(nil, true, kind, cfg); err != nil {
			r.Inconclusive(fmt.Sprintf("case %d: %v", caseNo, err))
			return
		}
	}
	for i := 0; i < 3; i++ {
		propose(old)
	}
	// export on a PRNG-chosen member host
	eh := c.Hosts[old[rng.Intn(len(old))]]
	const exportDir = "/export"
	if err := eh.FS.MkdirAll(exportDir, 0o755); err != nil {
		r.Inconclusive(fmt.Sprintf("case %d: %v", caseNo, err))
		return
	}
	var exportIndex uint64
	okExport := false
	// the exporting replica must have applied the membership changes made above (they were
	// acknowledged by the leader, this host may lag): a linearizable read on it is a barrier
	barrier := false
	for try := 0; try < 40 && !barrier; try++ {
		ctx, cancel := context.WithTimeout(context.Background(), time.Second)
		_, err := eh.NodeHost().SyncRead(ctx, shardID, cluster.LookupQuery{Key: 0})
		cancel()
		barrier = err == nil
		if !barrier {
			time.Sleep(50 * time.Millisecond)
		}
	}
	if !barrier {
		r.Inconclusive(fmt.Sprintf("case %d: no linearizable read on the exporting host", caseNo))
		return
	}
	for try := 0; try < 20 && !okExport; try++ {
		ctx, cancel := context.WithTimeout(context.Background(), 3*time.Second)
		idx, err := eh.NodeHost().SyncRequestSnapshot(ctx, shardID, dragonboat.SnapshotOption{Exported: true, ExportPath: exportDir})
		cancel()
		if err == nil {
			exportIndex, okExport = idx, true
		} else {
			time.Sleep(100 * time.Millisecond)
		}
	}
	if !okExport {
		r.Inconclusive(fmt.Sprintf("case %d: export failed", caseNo))
		return
	}
	// the exported state = everything applied up to exportIndex on the exporting replica
	expected := map[byte][]uint64{}
	seen := map[uint64]bool{}
	var recs []cluster.ApplyRec
	for _, in := range c.SMs.Instances() {
		if in.ShardID == shardID && in.Host == eh.Index {
			recs = append(recs, in.Applied()...)
		}
	}
	sort.Slice(recs, func(i, j int) bool { return recs[i].Index < recs[j].Index })
	for _, a := range recs {
		if a.Index <= exportIndex && !seen[a.Index] {
			seen[a.Index] = true
			expected[a.Key] = append(expected[a.Key], a.ID)
		}
	}
	for i := 0; i < after; i++ {
		propose(old)
	}
	time.Sleep(150 * time.Millisecond)
	c.StopAll()
	stopped = true

	// the export directory as every host will see it
	names, _ := eh.FS.List(exportDir)
	if len(names) != 1 {
		r.Inconclusive(fmt.Sprintf("case %d: unexpected export directory content %v", caseNo, names))
		return
	}
	srcDir := eh.FS.PathJoin(exportDir, names[0])
	files, _ := eh.FS.List(srcDir)
	sort.Strings(files)

	// new member list
	newMembers := map[uint64]string{}
	hostOfNew := map[uint64]int{}
	shape := rng.Intn(3)
	switch shape {
	case 0: // subset of the old members
		for id := range oldMembers {
			if len(newMembers) == 0 || rng.Intn(2) == 0 {
				newMembers[id] = oldMembers[id]
				hostOfNew[id] = int(id - 1)
			}
		}
	case 1: // one old member + entirely new ids on spare hosts
		newMembers[1], hostOfNew[1] = oldMembers[1], 0
		newMembers[21], hostOfNew[21] = c.Hosts[4].Addr, 4
		if !withNonVoting {
			newMembers[22], hostOfNew[22] = c.Hosts[3].Addr, 3
		}
	default: // single member
		newMembers[2], hostOfNew[2] = oldMembers[2], 1
	}
	for id, hi := range hostOfNew {
		_ = id
		if c.Hosts[hi] != eh {
			if err := copyDir(eh.FS, c.Hosts[hi].FS, srcDir); err != nil {
				r.Inconclusive(fmt.Sprintf("case %d: copy of the export failed: %v", caseNo, err))
				return
			}
		}
	}
	wit := map[string]interface{}{"case": caseNo, "store": store.String(), "sm": kind.String(), "export_index": exportIndex,
		"old_members": oldMembers, "removed": removedID, "non_voting": nonVotingID, "new_members": newMembers, "export_files": files}

	// ---- invalid imports: refused, nothing modified ----
	refuse := func(name string, h *cluster.Host, dir string, mem map[uint64]string, id uint64) {
		before := hashTree(h.FS, "/")
		err := func() (err error) {
			defer func() {
				if x := recover(); x != nil {
					err = fmt.Errorf("panic: %v", x)
				}
			}()
			return tools.ImportSnapshot(h.ImportConfig(), dir, mem, id)
		}()
		after := hashTree(h.FS, "/")
		sk.Count("invalid_imports_tried:"+name, 1)
		if err == nil {
			sk.Violation("C20", "invalid-import-accepted:"+name, fmt.Sprintf("ImportSnapshot accepted an invalid request (%s)", name), wit)
		} else if before != after {
			sk.Violation("C20", "refused-import-modified-data:"+name, fmt.Sprintf("ImportSnapshot refused the request (%s: %v) but the files of the host changed", name, err), wit)
		}
	}
	var anyID uint64
	for id := range newMembers {
		anyID = id
		break
	}
	ah := c.Hosts[hostOfNew[anyID]]
	{
		m := map[uint64]string{}
		for k, v := range newMembers {
			if k != anyID {
				m[k] = v
			}
		}
		m[77] = c.Hosts[(hostOfNew[anyID]+1)%5].Addr
		refuse("own-id-not-in-member-list", ah, srcDir, m, anyID)
	}
	{
		m := map[uint64]string{}
		for k, v := range newMembers {
			m[k] = v
		}
		m[anyID] = "otherhost:1"
		refuse("own-id-at-another-address", ah, srcDir, m, anyID)
	}
	if removedID != 0 {
		m := map[uint64]string{}
		for k, v := range newMembers {
			m[k] = v
		}
		m[removedID] = c.Hosts[2].Addr
		refuse("removed-replica-readmitted", ah, srcDir, m, anyID)
	}
	if nonVotingID != 0 {
		m := map[uint64]string{}
		for k, v := range newMembers {
			m[k] = v
		}
		m[nonVotingID] = c.Hosts[3].Addr
		refuse("non-voting-listed-as-regular-member", ah, srcDir, m, anyID)
	}
	if witnessID != 0 {
		m := map[uint64]string{}
		for k, v := range newMembers {
			m[k] = v
		}
		m[witnessID] = c.Hosts[5].Addr
		refuse("witness-listed-as-regular-member", ah, srcDir, m, anyID)
	}
	for id, addr := range oldMembers {
		if id != anyID {
			m := map[uint64]string{}
			for k, v := range newMembers {
				m[k] = v
			}
			m[id] = addr + "0"
			refuse("member-address-changed", ah, srcDir, m, anyID)
			break
		}
	}
	{
		// missing snapshot file: a copy of the export without the .gbsnap file
		bad := "/export-missing"
		_ = ah.FS.MkdirAll(bad, 0o755)
		for _, f := range files {
			if strings.HasSuffix(f, ".gbsnap") {
				continue
			}
			in, err := ah.FS.Open(ah.FS.PathJoin(srcDir, f))
			if err != nil {
				continue
			}
			b, _ := io.ReadAll(in)
			_ = in.Close()
			out, _ := ah.FS.Create(ah.FS.PathJoin(bad, f))
			_, _ = out.Write(b)
			_ = out.Sync()
			_ = out.Close()
		}
		refuse("snapshot-file-missing", ah, bad, newMembers, anyID)
	}
	// ---- corruption of the export (one file) ----
	corruptWhat := ""
	if corrupt {
		f := files[rng.Intn(len(files))]
		mode := rng.Intn(3)
		for _, hi := range hostOfNew {
			fs := c.Hosts[hi].FS
			p := fs.PathJoin(srcDir, f)
			in, err := fs.Open(p)
			if err != nil {
				continue
			}
			b, _ := io.ReadAll(in)
			_ = in.Close()
			if len(b) == 0 {
				continue
			}
			switch mode {
			case 0:
				b[rand.New(rand.NewSource(seed)).Intn(len(b))] ^= 0x40
				corruptWhat = "byte flipped in " + f
			case 1:
				b = b[:len(b)/2]
				corruptWhat = "truncated " + f
			default:
				b = append(b, 0x55)
				corruptWhat = "byte appended to " + f
			}
			out, _ := fs.Create(p)
			_, _ = out.Write(b)
			_ = out.Sync()
			_ = out.Close()
		}
		wit["corruption"] = corruptWhat
	}
	// ---- power loss during the import (C16: "... or imported"): on one of the listed hosts the tool
	// first runs with the power cut right before or right after it rewrites the log store (it runs
	// to its end on a disk that no longer persists anything). After the reboot the start-up cleanup
	// and the directory oracle are applied - a snapshot that the log store records must exist,
	// complete and loadable - and the import is then repeated like an operator would.
	if !corrupt {
		// (not on the host that holds the export itself: its disk is the source of the copies)
		ids := make([]uint64, 0, len(hostOfNew))
		for id, hi := range hostOfNew {
			if c.Hosts[hi] != eh {
				ids = append(ids, id)
			}
		}
		sort.Slice(ids, func(i, j int) bool { return ids[i] < ids[j] })
		pl := rand.New(rand.NewSource(seed ^ 0x1a907))
		if len(ids) == 0 {
			ids = append(ids, 0)
		}
		id := ids[pl.Intn(len(ids))]
		h := c.Hosts[hostOfNew[id]]
		if id == 0 {
			h = nil
		}
		site := []int32{cluster.ImportSiteBeforeLogStore, cluster.ImportSiteAfterLogStore}[pl.Intn(2)]
		if h == nil {
			site = 0
		}
		reached := false
		if h != nil {
			reached, _ = h.ImportWithPowerLoss(site, func() error {
				return tools.ImportSnapshot(h.ImportConfig(), srcDir, newMembers, id)
			})
		}
		if reached {
			sk.Count(fmt.Sprintf("power_loss_during_import_site_%d", site), 1)
			ctx := ":power-loss-during-import-before-the-log-store-is-rewritten"
			if site == cluster.ImportSiteAfterLogStore {
				ctx = ":power-loss-during-import-after-the-log-store-was-rewritten"
			}
			if err := h.CheckSnapshotDirsOf(shardID, id, ctx); err != nil {
				sk.Violation("C16", "host-does-not-open-after-power-loss-during-import", fmt.Sprintf("host %d: NewNodeHost failed after a power loss during ImportSnapshot: %v", h.Index, err), wit)
				sk.Violation("C20", "host-does-not-open-after-power-loss-during-import", fmt.Sprintf("host %d: NewNodeHost failed after a power loss during ImportSnapshot: %v", h.Index, err), wit)
				return
			}
		}
		// the export may have lost its directory entry on that disk
		if h != nil {
			if err := copyDir(eh.FS, h.FS, srcDir); err != nil {
				r.Inconclusive(fmt.Sprintf("case %d: export could not be copied again: %v", caseNo, err))
				return
			}
		}
	}
	// ---- the import on every listed host ----
	refused := 0
	for id, hi := range hostOfNew {
		h := c.Hosts[hi]
		err := func() (err error) {
			defer func() {
				if x := recover(); x != nil {
					err = fmt.Errorf("panic: %v", x)
				}
			}()
			return tools.ImportSnapshot(h.ImportConfig(), srcDir, newMembers, id)
		}()
		if err != nil {
			refused++
			if !corrupt {
				sk.Violation("C20", "valid-import-refused", fmt.Sprintf("ImportSnapshot of a valid export refused on host %d for replica %d: %v", hi, id, err), wit)
				return
			}
		}
	}
	if corrupt && refused > 0 {
		sk.Count("corrupted_export_refused", 1)
		r.Case(false, common.Hash("corrupt-refused", corruptWhat, caseNo))
		return
	}
	if corrupt {
		// The import tool compares the recorded checksum with the checksums stored in the file,
		// not with the data (rsm.GetV2PayloadChecksum). Damage inside a block is found by the
		// snapshot reader when the replica recovers from the file: it panics ("corrupted block")
		// in the snapshot worker - the required loud failure, altered data never reaches the
		// state machine. A panic in that worker would end this process, so the same reader is run
		// here first; only an image that it reads without complaint is restarted from.
		for _, hi := range hostOfNew {
			fs := c.Hosts[hi].FS
			for _, f := range files {
				if !strings.HasSuffix(f, ".gbsnap") {
					continue
				}
				var rerr error
				func() {
					defer func() {
						if x := recover(); x != nil {
							rerr = fmt.Errorf("panic: %v", x)
						}
					}()
					rd, _, err := rsm.NewSnapshotReader(fs.PathJoin(srcDir, f), fs)
					if err != nil {
						rerr = err
						return
					}
					defer func() { _ = rd.Close() }()
					_, rerr = io.Copy(io.Discard, rd)
				}()
				if rerr != nil {
					sk.Count("corrupted_export_fails_loudly_when_loaded", 1)
					wit["load_failure"] = rerr.Error()
					r.Case(false, common.Hash("corrupt-load-fails", corruptWhat, caseNo))
					return
				}
			}
			break
		}
		sk.Count("corrupted_export_accepted_checked_for_equal_state", 1)
	}
	// ---- restart the listed hosts, start the replicas ----
	for _, h := range c.Hosts {
		h.ForgetAll()
	}
	// power loss at the first SaveRaftState after the start: the replica recovered from the
	// imported snapshot a moment ago (and, for an on-disk state machine, shrunk it), nothing else
	// happened yet - whatever it needs of the imported state must be durable by now
	firstSave := !corrupt && rng.Intn(3) == 0
	armed := map[int]<-chan struct{}{}
	if firstSave {
		verifhook.SetUpdates(verifhook.PreSave, func(uds []pb.Update) {
			for i := range uds {
				if hi, ok := hostOfNew[uds[i].ReplicaID]; ok && uds[i].ShardID == shardID {
					c.Hosts[hi].AtPoint(1)
				}
			}
		})
		defer verifhook.SetUpdates(verifhook.PreSave, func([]pb.Update) {})
	}
	startFailed := false
	for id, hi := range hostOfNew {
		h := c.Hosts[hi]
		if firstSave {
			armed[hi] = h.ArmCrash(1)
		}
		if err := h.Start(); err != nil {
			if corrupt {
				startFailed = true
				break
			}
			sk.Violation("C20", "restart-after-import-failed", fmt.Sprintf("host %d did not restart after the import: %v", hi, err), wit)
			return
		}
		cfg := cluster.ShardConfig(shardID, id)
		cfg.SnapshotEntries, cfg.CompactionOverhead = 20, 5
		if err := h.StartReplica(nil, true, kind, cfg); err != nil {
			if corrupt {
				startFailed = true
				break
			}
			sk.Violation("C20", "replica-start-after-import-failed", fmt.Sprintf("replica %d did not start on host %d after the import: %v", id, hi, err), wit)
			return
		}
	}
	stopped = false
	if firstSave && !startFailed {
		for hi, ch := range armed {
			h := c.Hosts[hi]
			select {
			case <-ch:
				sk.Count("power_loss_at_first_save_after_import", 1)
			case <-time.After(10 * time.Second):
				if h.Disarm() {
					h.CrashInstant()
				} else {
					<-ch
				}
			}
			h.CrashFinish()
		}
		for hi := range armed {
			if err := c.Hosts[hi].Restart(); err != nil {
				sk.Violation("C20", "restart-after-power-loss-failed", fmt.Sprintf("host %d did not restart after a power loss at the first SaveRaftState that followed the import: %v", hi, err), wit)
				sk.Violation("C16", "restart-after-power-loss-failed", fmt.Sprintf("host %d did not restart after a power loss at the first SaveRaftState that followed the import: %v", hi, err), wit)
				return
			}
		}
	}
	if startFailed {
		sk.Count("corrupted_export_failed_loudly_at_restart", 1)
		r.Case(false, common.Hash("corrupt-restart-failed", corruptWhat, caseNo))
		return
	}
	// settle waits until pred holds. A verdict is only taken once every listed replica has processed
	// 1500 ticks since the call (150 election timeouts; recovering a snapshot of this size takes
	// none): if the wall-clock watchdog ends the wait first the case is inconclusive.
	settle := func(pred func() bool) (ok bool, decided bool) {
		base := map[uint64]int64{}
		for id := range hostOfNew {
			base[id] = c.Ticks(shardID, id)
		}
		wall := time.Now()
		for {
			if pred() {
				return true, true
			}
			enough := true
			for id := range hostOfNew {
				if c.Ticks(shardID, id)-base[id] < 1500 {
					enough = false
				}
			}
			if enough {
				return pred(), true
			}
			if time.Since(wall) > 120*time.Second {
				return false, false
			}
			time.Sleep(20 * time.Millisecond)
		}
	}
	expHash := hashLists(expected)
	stateOK, decided := settle(func() bool {
		for id := range hostOfNew {
			in := c.SMs.Latest(shardID, id)
			if in == nil || hashLists(in.Snapshot()) != expHash {
				return false
			}
		}
		return true
	})
	if !stateOK && !decided {
		r.Inconclusive(fmt.Sprintf("case %d: ticks did not advance while waiting for the imported state", caseNo))
		return
	}
	if !stateOK {
		for id := range hostOfNew {
			in := c.SMs.Latest(shardID, id)
			got := map[byte][]uint64{}
			if in != nil {
				got = in.Snapshot()
			}
			if hashLists(got) != expHash {
				wit["replica"] = id
				wit["expected_lengths"] = fmt.Sprintf("%d/%d", len(expected[0]), len(expected[1]))
				wit["got_lengths"] = fmt.Sprintf("%d/%d", len(got[0]), len(got[1]))
				key := "state-after-import-differs-from-exported-state"
				if corrupt {
					key = "corrupted-export-loaded-with-altered-state"
				}
				sk.Violation("C20", key, fmt.Sprintf("replica %d holds lists of lengths %s after the import, the exported state has %s", id, wit["got_lengths"], wit["expected_lengths"]), wit)
				if firstSave {
					sk.Violation("C16", "imported-state-lost-after-power-loss-at-first-save", fmt.Sprintf("replica %d holds lists of lengths %s after the import, a power loss at its first SaveRaftState and a restart; the exported state has %s", id, wit["got_lengths"], wit["expected_lengths"]), wit)
				}
				return
			}
		}
	}
	// an early power loss: the repaired replicas hold the exported state (recovered from the
	// imported snapshot a moment ago); whatever they did to that snapshot file since (an on-disk
	// state machine's snapshot is shrunk once recovered) must not have destroyed the only durable copy
	if !corrupt && rng.Intn(2) == 0 {
		for id := range hostOfNew {
			c.Hosts[hostOfNew[id]].Crash()
		}
		for id := range hostOfNew {
			if err := c.Hosts[hostOfNew[id]].Restart(); err != nil {
				sk.Violation("C20", "restart-after-power-loss-failed", fmt.Sprintf("host %d did not restart after a power loss right after the first start that followed the import: %v", hostOfNew[id], err), wit)
				sk.Violation("C16", "restart-after-power-loss-failed", fmt.Sprintf("host %d did not restart after a power loss right after the first start that followed the import: %v", hostOfNew[id], err), wit)
				return
			}
		}
		sk.Count("early_power_loss_after_import", 1)
		sk.Count("early_power_loss_after_import_"+kind.String(), 1)
		fmt.Printf("import case %d: early power loss (%s)\n", caseNo, kind)
		again, decided := settle(func() bool {
			for id := range hostOfNew {
				in := c.SMs.Latest(shardID, id)
				if in == nil || in.Closed() {
					return false
				}
				got := in.Snapshot()
				for k, want := range expected {
					if len(got[k]) < len(want) {
						return false
					}
					for i := range want {
						if got[k][i] != want[i] {
							return false
						}
					}
				}
			}
			return true
		})
		if !again && !decided {
			r.Inconclusive(fmt.Sprintf("case %d: ticks did not advance after the early power loss", caseNo))
			return
		}
		if !again {
			sk.Violation("C20", "imported-state-lost-after-another-restart:an early power loss",
				"the repaired replicas held the exported state after their first start; after a power loss of their hosts right then and a restart, some replica's lists no longer start with the exported state", wit)
			sk.Violation("C16", "imported-state-lost-after-another-restart:an early power loss",
				"the repaired replicas held the exported state after their first start; after a power loss of their hosts right then and a restart, some replica's lists no longer start with the exported state", wit)
			return
		}
	}
	// leader + membership + new proposal
	newReplicas := map[uint64]int{}
	var hostIdx []int
	for id, hi := range hostOfNew {
		newReplicas[id] = hi
		hostIdx = append(hostIdx, hi)
	}
	sort.Ints(hostIdx)
	if !waitFor(20*time.Second, func() bool { return c.LeaderHost(shardID, newReplicas) >= 0 }) {
		r.Inconclusive(fmt.Sprintf("case %d: no leader within 20s after the import", caseNo))
		sk.Count("no_leader_after_import_inconclusive", 1)
		r.Case(false, common.Hash("noleader", caseNo))
		return
	}
	progressed := propose(hostIdx)
	if !progressed {
		r.Inconclusive(fmt.Sprintf("case %d: no proposal completed within the retry budget after the import", caseNo))
	}
	for id, hi := range hostOfNew {
		nh := c.Hosts[hi].NodeHost()
		var m *dragonboat.Membership
		for try := 0; try < 20 && m == nil; try++ {
			ctx, cancel := context.WithTimeout(context.Background(), time.Second)
			mm, err := nh.SyncGetShardMembership(ctx, shardID)
			cancel()
			if err == nil {
				m = mm
			}
		}
		if m == nil {
			r.Inconclusive(fmt.Sprintf("case %d: membership query failed on replica %d", caseNo, id))
			continue
		}
		sk.Count("memberships_compared", 1)
		bad := len(m.Nodes) != len(newMembers) || len(m.NonVotings) != 0 || len(m.Witnesses) != 0
		for k, v := range newMembers {
			if m.Nodes[k] != v {
				bad = true
			}
		}
		if bad {
			sk.Violation("C20", "membership-after-import-differs-from-given-list",
				fmt.Sprintf("replica %d reports members %v (non-voting %v, witnesses %v), the import was given %v", id, m.Nodes, m.NonVotings, m.Witnesses, newMembers), wit)
			return
		}
		for oid := range oldMembers {
			if _, kept := newMembers[oid]; !kept {
				if _, ok := m.Removed[oid]; !ok {
					sk.Violation("C20", "unlisted-old-member-not-marked-removed",
						fmt.Sprintf("replica %d: old member %d is not in the new list and is not recorded as removed (removed set %v)", id, oid, m.Removed), wit)
					return
				}
			}
		}
		if nonVotingID != 0 {
			if _, ok := m.Removed[nonVotingID]; !ok {
				sk.Violation("C20", "unlisted-old-member-not-marked-removed",
					fmt.Sprintf("replica %d: old non-voting member %d is not recorded as removed (removed set %v)", id, nonVotingID, m.Removed), wit)
				return
			}
		}
		if witnessID != 0 {
			if _, ok := m.Removed[witnessID]; !ok {
				sk.Violation("C20", "unlisted-old-member-not-marked-removed",
					fmt.Sprintf("replica %d: old witness %d is not recorded as removed (removed set %v)", id, witnessID, m.Removed), wit)
				return
			}
		}
	}
	// ---- second life: the repaired replicas are restarted again (gracefully, and after a power
	// loss) before they have necessarily taken a snapshot of their own; the imported state must
	// still be there (the first restart shrinks the imported snapshot of an on-disk state machine)
	hasPrefix := func(id uint64) bool {
		in := c.SMs.Latest(shardID, id)
		if in == nil || in.Closed() {
			return false
		}
		got := in.Snapshot()
		for k, want := range expected {
			g := got[k]
			if len(g) < len(want) {
				return false
			}
			for i := range want {
				if g[i] != want[i] {
					return false
				}
			}
		}
		return true
	}
	secondLife := func(how string, ids []uint64) bool {
		ok, decided := settle(func() bool {
			for _, id := range ids {
				if !hasPrefix(id) {
					return false
				}
			}
			return true
		})
		sk.Count("second_restarts_checked:"+how, 1)
		if !ok && !decided {
			r.Inconclusive(fmt.Sprintf("case %d: ticks did not advance after %s", caseNo, how))
			return false
		}
		if !ok {
			for _, id := range ids {
				if !hasPrefix(id) {
					got := map[byte][]uint64{}
					if in := c.SMs.Latest(shardID, id); in != nil {
						got = in.Snapshot()
					}
					wit["replica"] = id
					wit["how"] = how
					wit["got_lengths"] = fmt.Sprintf("%d/%d", len(got[0]), len(got[1]))
					wit["expected_lengths"] = fmt.Sprintf("%d/%d", len(expected[0]), len(expected[1]))
					sk.Violation("C20", "imported-state-lost-after-another-restart:"+how,
						fmt.Sprintf("replica %d was repaired by the import and held the exported state; after %s its lists (lengths %s) no longer start with the exported state (lengths %s)", id, how, wit["got_lengths"], wit["expected_lengths"]), wit)
					sk.Violation("C16", "imported-state-lost-after-another-restart:"+how,
						fmt.Sprintf("replica %d was repaired by the import and held the exported state; after %s its lists (lengths %s) no longer start with the exported state (lengths %s)", id, how, wit["got_lengths"], wit["expected_lengths"]), wit)
					return false
				}
			}
		}
		return true
	}
	if !corrupt {
		var ids []uint64
		for id := range hostOfNew {
			ids = append(ids, id)
		}
		sort.Slice(ids, func(i, j int) bool { return ids[i] < ids[j] })
		one := ids[rng.Intn(len(ids))]
		oh := c.Hosts[hostOfNew[one]]
		oh.Stop()
		time.Sleep(30 * time.Millisecond)
		if err := oh.Restart(); err != nil {
			sk.Violation("C20", "second-restart-after-import-failed", fmt.Sprintf("host %d did not restart a second time after the import: %v", oh.Index, err), wit)
			sk.Violation("C16", "second-restart-after-import-failed", fmt.Sprintf("host %d did not restart a second time after the import: %v", oh.Index, err), wit)
			return
		}
		if !secondLife("a graceful restart", []uint64{one}) {
			return
		}
		if rng.Intn(2) == 0 {
			for _, id := range ids {
				c.Hosts[hostOfNew[id]].Crash()
			}
			for _, id := range ids {
				if err := c.Hosts[hostOfNew[id]].Restart(); err != nil {
					sk.Violation("C20", "restart-after-power-loss-failed", fmt.Sprintf("host %d did not restart after a power loss that followed the import: %v", hostOfNew[id], err), wit)
					sk.Violation("C16", "restart-after-power-loss-failed", fmt.Sprintf("host %d did not restart after a power loss that followed the import: %v", hostOfNew[id], err), wit)
					return
				}
			}
			if !secondLife("a power loss of all repaired hosts", ids) {
				return
			}
		}
	}
	sk.Count("imports_completed", 1)
	r.Case(after > 0 && progressed, common.Hash(store.String(), kind.String(), fmt.Sprint(newMembers), shape, withRemoved, withNonVoting, withWitness, corrupt))
	if r.WantSample() {
		r.Sample(map[string]interface{}{"case": caseNo, "store": store.String(), "sm": kind.String(), "export_index": exportIndex,
			"new_members": newMembers, "old_members": oldMembers, "removed_before": removedID, "non_voting_before": nonVotingID, "witness_before": witnessID,
			"corruption": corruptWhat, "proposals_after_export": after})
	}
}

func hashLists(l map[byte][]uint64) string {
	var keys []int
	for k := range l {
		if len(l[k]) > 0 {
			keys = append(keys, int(k))
		}
	}
	sort.Ints(keys)
	h := sha256.New()
	for _, k := range keys {
		fmt.Fprintf(h, "%d:%v;", k, l[byte(k)])
	}
	return hex.EncodeToString(h.Sum(nil))[:16]
}
