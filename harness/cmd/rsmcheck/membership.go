package main

import (
	"fmt"
	"math/rand"
	"sort"
	"strings"

	"github.com/lni/dragonboat/v4/client"
	"github.com/lni/dragonboat/v4/config"
	"github.com/lni/dragonboat/v4/internal/rsm"
	pb "github.com/lni/dragonboat/v4/raftpb"
	"github.com/lni/dragonboat/v4/verifh/common"
)

// ---------------------------------------------------------------------------
// reference of the membership rules in the property statement

type verdict int

const (
	mustAccept verdict = iota
	mustReject
	silent // the statement does not decide: the code's outcome is adopted and counted
)

type mmodel struct {
	V, N, W map[uint64]string
	R       map[uint64]bool
	ccid    uint64
	ordered bool
}

func newMModel(ordered bool) *mmodel {
	return &mmodel{V: map[uint64]string{}, N: map[uint64]string{}, W: map[uint64]string{}, R: map[uint64]bool{}, ordered: ordered}
}

func (m *mmodel) clone() *mmodel {
	c := newMModel(m.ordered)
	for k, v := range m.V {
		c.V[k] = v
	}
	for k, v := range m.N {
		c.N[k] = v
	}
	for k, v := range m.W {
		c.W[k] = v
	}
	for k := range m.R {
		c.R[k] = true
	}
	c.ccid = m.ccid
	return c
}

func (m *mmodel) pb() pb.Membership {
	c := m.clone()
	return pb.Membership{ConfigChangeId: c.ccid, Addresses: c.V, NonVotings: c.N, Witnesses: c.W, Removed: c.R}
}

func foldEq(a, b string) bool {
	return strings.EqualFold(strings.TrimSpace(a), strings.TrimSpace(b))
}

// addrUse reports whether addr is used by a member exactly, or only up to
// case / surrounding blanks.
func (m *mmodel) addrUse(addr string) (exact bool, folded bool) {
	for _, mm := range []map[uint64]string{m.V, m.N, m.W} {
		for _, a := range mm {
			if a == addr {
				exact = true
			} else if foldEq(a, addr) {
				folded = true
			}
		}
	}
	return
}

// judge applies the rules of the statement to one change. The reason names
// the first rule that matched.
func (m *mmodel) judge(cc pb.ConfigChange) (verdict, string) {
	v, reason := mustAccept, "valid"
	set := func(nv verdict, r string) {
		// mustReject wins over silent wins over mustAccept
		if nv == mustReject && v != mustReject {
			v, reason = nv, r
		} else if nv == silent && v == mustAccept {
			v, reason = nv, r
		}
	}
	isAdd := cc.Type == pb.AddNode || cc.Type == pb.AddNonVoting || cc.Type == pb.AddWitness
	if m.ordered && !cc.Initialize && cc.ConfigChangeId != m.ccid {
		if cc.ConfigChangeId < m.ccid {
			set(mustReject, "stale-config-change-id")
		} else {
			set(silent, "future-config-change-id")
		}
	}
	if isAdd && m.R[cc.ReplicaID] {
		set(mustReject, "add-removed-id")
	}
	_, inV := m.V[cc.ReplicaID]
	nAddr, inN := m.N[cc.ReplicaID]
	_, inW := m.W[cc.ReplicaID]
	switch cc.Type {
	case pb.RemoveNode:
		if inV && len(m.V) == 1 {
			if len(m.W) == 0 {
				set(mustReject, "remove-last-voter")
			} else {
				set(silent, "remove-last-full-member-witness-left")
			}
		}
		if !inV && !inN && !inW {
			set(silent, "remove-non-member")
		}
	case pb.AddNode:
		if inW {
			set(mustReject, "kind-change-witness-to-voter")
		}
	case pb.AddNonVoting:
		if inV {
			set(mustReject, "kind-change-voter-to-nonvoting")
		}
		if inW {
			set(mustReject, "kind-change-witness-to-nonvoting")
		}
	case pb.AddWitness:
		if inV {
			set(mustReject, "kind-change-voter-to-witness")
		}
		if inN {
			set(mustReject, "kind-change-nonvoting-to-witness")
		}
	}
	if isAdd {
		promotion := cc.Type == pb.AddNode && inN
		if promotion && nAddr == cc.Address {
			// the one legal kind change; its own address is of course in use
		} else {
			exact, folded := m.addrUse(cc.Address)
			switch {
			case exact:
				set(mustReject, "address-in-use")
			case folded:
				set(silent, "address-in-use-up-to-case-or-blanks")
			}
			if promotion {
				set(silent, "promotion-with-different-address")
			}
			sameKind := (cc.Type == pb.AddNode && inV) || (cc.Type == pb.AddNonVoting && inN) || (cc.Type == pb.AddWitness && inW)
			if sameKind {
				set(silent, "existing-id-different-address")
			}
		}
	}
	return v, reason
}

func (m *mmodel) apply(cc pb.ConfigChange, index uint64) {
	m.ccid = index
	switch cc.Type {
	case pb.AddNode:
		delete(m.N, cc.ReplicaID)
		m.V[cc.ReplicaID] = cc.Address
	case pb.AddNonVoting:
		m.N[cc.ReplicaID] = cc.Address
	case pb.AddWitness:
		m.W[cc.ReplicaID] = cc.Address
	case pb.RemoveNode:
		delete(m.V, cc.ReplicaID)
		delete(m.N, cc.ReplicaID)
		delete(m.W, cc.ReplicaID)
		m.R[cc.ReplicaID] = true
	}
}

// what the code is known to do where the statement is silent; used only by
// the generator to keep its own picture of the membership, never by the oracle
var silentGuess = map[string]bool{ // reason -> accepted
	"future-config-change-id":              false,
	"remove-last-full-member-witness-left": false,
	"remove-non-member":                    true,
	"address-in-use-up-to-case-or-blanks":  false,
	"promotion-with-different-address":     false,
	"existing-id-different-address":        false,
}

// ---------------------------------------------------------------------------
// generator

func anyKey(rng *rand.Rand, m map[uint64]string) (uint64, bool) {
	if len(m) == 0 {
		return 0, false
	}
	ks := make([]uint64, 0, len(m))
	for k := range m {
		ks = append(ks, k)
	}
	sort.Slice(ks, func(i, j int) bool { return ks[i] < ks[j] })
	return ks[rng.Intn(len(ks))], true
}

func genMembership(rng *rand.Rand, n int, ordered bool) []pb.Entry {
	g := newMModel(ordered)
	var ents []pb.Entry
	term := uint64(1)
	key := uint64(500)
	boot := 1 + rng.Intn(3)
	for i := 1; i <= boot; i++ {
		e := bootEntry(uint64(i), uint64(i), fmt.Sprintf("a%d:1", i))
		ents = append(ents, e)
		g.apply(pb.ConfigChange{Type: pb.AddNode, ReplicaID: uint64(i), Address: fmt.Sprintf("a%d:1", i)}, uint64(i))
	}
	nextID := uint64(boot + 1)
	nextAddr := boot + 1
	oldCCIDs := []uint64{0}
	var oldCCs []pb.Entry
	uniq := 0
	emit := func(e pb.Entry) {
		if rng.Intn(10) == 0 {
			term++
		}
		key++
		e.Index, e.Term, e.Key = uint64(len(ents)+1), term, key
		ents = append(ents, e)
	}
	members := func() map[uint64]string {
		all := map[uint64]string{}
		for _, mm := range []map[uint64]string{g.V, g.N, g.W} {
			for k, v := range mm {
				all[k] = v
			}
		}
		return all
	}
	freshAddr := func() string {
		nextAddr++
		return fmt.Sprintf("a%d:1", nextAddr)
	}
	addTypes := []pb.ConfigChangeType{pb.AddNode, pb.AddNonVoting, pb.AddWitness}
	for len(ents) < n {
		if rng.Intn(100) < 30 {
			uniq++
			switch rng.Intn(4) {
			case 0:
				emit(pb.Entry{})
			case 1:
				emit(pb.Entry{ClientID: 77, SeriesID: client.SeriesIDForRegister})
			default:
				emit(pb.Entry{ClientID: uint64(5000 + rng.Intn(3)), SeriesID: client.NoOPSeriesID, Cmd: []byte(fmt.Sprintf("n/u%d", uniq))})
			}
			continue
		}
		cc := pb.ConfigChange{}
		switch p := rng.Intn(100); {
		case p < 14: // new voter
			cc = pb.ConfigChange{Type: pb.AddNode, ReplicaID: nextID, Address: freshAddr()}
			nextID++
		case p < 24:
			cc = pb.ConfigChange{Type: pb.AddNonVoting, ReplicaID: nextID, Address: freshAddr()}
			nextID++
		case p < 31:
			cc = pb.ConfigChange{Type: pb.AddWitness, ReplicaID: nextID, Address: freshAddr()}
			nextID++
		case p < 41: // promotion
			if id, ok := anyKey(rng, g.N); ok {
				cc = pb.ConfigChange{Type: pb.AddNode, ReplicaID: id, Address: g.N[id]}
			}
		case p < 53: // remove some member (may be the last voter)
			if id, ok := anyKey(rng, members()); ok {
				cc = pb.ConfigChange{Type: pb.RemoveNode, ReplicaID: id}
			}
		case p < 58: // remove a voter, preferably the last one
			if id, ok := anyKey(rng, g.V); ok {
				cc = pb.ConfigChange{Type: pb.RemoveNode, ReplicaID: id}
			}
		case p < 65: // re-admit a removed id
			if len(g.R) > 0 {
				rs := map[uint64]string{}
				for k := range g.R {
					rs[k] = ""
				}
				id, _ := anyKey(rng, rs)
				cc = pb.ConfigChange{Type: addTypes[rng.Intn(3)], ReplicaID: id, Address: freshAddr()}
			}
		case p < 74: // illegal kind change (or a legal one by chance), own or fresh address
			if id, ok := anyKey(rng, members()); ok {
				cc = pb.ConfigChange{Type: addTypes[rng.Intn(3)], ReplicaID: id, Address: members()[id]}
				if rng.Intn(3) == 0 {
					cc.Address = freshAddr()
				}
			}
		case p < 81: // address of another member
			if id, ok := anyKey(rng, members()); ok {
				cc = pb.ConfigChange{Type: addTypes[rng.Intn(3)], ReplicaID: nextID, Address: members()[id]}
				nextID++
				if rng.Intn(4) == 0 {
					cc.Address = strings.ToUpper(cc.Address)
				} else if rng.Intn(6) == 0 {
					cc.Address = " " + cc.Address
				}
			}
		case p < 85: // promotion with another address
			if id, ok := anyKey(rng, g.N); ok {
				cc = pb.ConfigChange{Type: pb.AddNode, ReplicaID: id, Address: freshAddr()}
				if oid, ok := anyKey(rng, g.V); ok && rng.Intn(2) == 0 {
					cc.Address = g.V[oid]
				}
			}
		case p < 90: // remove an id that is not a member
			cc = pb.ConfigChange{Type: pb.RemoveNode, ReplicaID: nextID + uint64(rng.Intn(3))}
			if len(g.R) > 0 && rng.Intn(2) == 0 {
				rs := map[uint64]string{}
				for k := range g.R {
					rs[k] = ""
				}
				cc.ReplicaID, _ = anyKey(rng, rs)
			}
		default: // an earlier request is retried
			if len(oldCCs) > 0 {
				e := oldCCs[rng.Intn(len(oldCCs))]
				pb.MustUnmarshal(&cc, e.Cmd)
			}
		}
		if cc.Type == pb.AddNode && cc.ReplicaID == 0 && cc.Address == "" {
			continue // nothing to build this round
		}
		if cc.Type == pb.RemoveNode && cc.ReplicaID == 0 {
			continue
		}
		// config change id
		switch q := rng.Intn(100); {
		case q < 70 || (!ordered && q < 80):
			cc.ConfigChangeId = g.ccid
		case q < 90:
			cc.ConfigChangeId = oldCCIDs[rng.Intn(len(oldCCIDs))]
		default:
			cc.ConfigChangeId = g.ccid + uint64(1+rng.Intn(3))
		}
		e := pb.Entry{Type: pb.ConfigChangeEntry, Cmd: pb.MustMarshal(&cc)}
		emit(e)
		oldCCs = append(oldCCs, e)
		v, reason := g.judge(cc)
		if v == mustAccept || (v == silent && silentGuess[reason]) {
			oldCCIDs = append(oldCCIDs, g.ccid)
			g.apply(cc, uint64(len(ents)))
		}
	}
	return ents
}

// ---------------------------------------------------------------------------
// the check

type memWitness struct {
	Case    int    `json:"case"`
	Ordered bool   `json:"ordered_config_change"`
	Index   uint64 `json:"index,omitempty"`
	Cut     uint64 `json:"cut,omitempty"`
	Reason  string `json:"rule,omitempty"`
	Before  string `json:"membership_before,omitempty"`
	Want    string `json:"want,omitempty"`
	Got     string `json:"got,omitempty"`
	Entries []went `json:"entries"`
}

func runMembership(r *common.Run) {
	r.SetRule("a case is one PRNG stream of 40-60 entries: 1-3 bootstrap AddNode(Initialize) entries, then 70% config changes " +
		"(valid adds / promotions / removals and every invalid class of the statement, with current / stale / future ConfigChangeId, OrderedConfigChange on or off, retried requests) " +
		"and 30% normal entries; non-trivial = >=3 accepted and >=3 rejected changes and >=2 different mandated reject rules; distinct by hash of the entry stream")
	r.Assume("where the statement is silent (removing a non-member, same id with a new address, promotion with a new address, address equal up to case/blanks, " +
		"future ConfigChangeId, removing the last full member while a witness remains) the code's outcome is adopted by the model and counted as silent_*")
	total := r.Pick(10000, 300000)
	for _, c := range r.MyCases(total) {
		if !wanted(c) {
			continue
		}
		func() {
			defer func() {
				if p := recover(); p != nil {
					r.Violation("membership:panic:"+normPanic(p), fmt.Sprintf("case %d: panic %v", c, p),
						map[string]interface{}{"case": c, "panic": fmt.Sprintf("%v", p)})
				}
			}()
			membershipCase(r, c)
		}()
		if c%500 == 0 {
			r.Flush()
		}
	}
}

func membershipCase(r *common.Run, c int) {
	rng := r.Rand("membership", c)
	ordered := rng.Intn(2) == 0
	n := 40 + rng.Intn(21)
	ents := genMembership(rng, n, ordered)
	n = len(ents)
	cfg := config.Config{ShardID: 1, ReplicaID: 1, OrderedConfigChange: ordered}
	wit := func(idx, cut uint64, reason, before, w, g string) memWitness {
		return memWitness{Case: c, Ordered: ordered, Index: idx, Cut: cut, Reason: reason, Before: before, Want: w, Got: g, Entries: describe(ents, nil)}
	}

	// B: one entry at a time against the model, a snapshot after every index
	m := newMModel(ordered)
	ub := newRegSM()
	ssb := newMemSnapshotter()
	b := newRegMachine(cfg, ub, ssb)
	all := copyEntries(ents)
	type cut struct {
		ss      pb.Snapshot
		mem     string
		ncc     int
		memHash uint64
	}
	cuts := make([]cut, 0, n)
	accepted, rejected := 0, 0
	rules := map[string]bool{}
	counts := map[string]int64{}
	for i, e := range ents {
		before := membershipString(m.pb())
		ncc := len(b.node.ccOuts)
		if err := b.feed(all[i:i+1], nil); err != nil {
			r.Violation("membership:apply-error", fmt.Sprintf("case %d index %d: %v", c, e.Index, err), wit(e.Index, 0, "", before, "", err.Error()))
			return
		}
		if e.IsConfigChange() {
			var cc pb.ConfigChange
			pb.MustUnmarshal(&cc, e.Cmd)
			if len(b.node.ccOuts) != ncc+1 {
				r.Violation("membership:config-change-outcome-count", fmt.Sprintf("case %d index %d: %d outcomes delivered for one change", c, e.Index, len(b.node.ccOuts)-ncc),
					wit(e.Index, 0, "", before, "1", fmt.Sprint(len(b.node.ccOuts)-ncc)))
				return
			}
			got := b.node.ccOuts[ncc]
			v, reason := m.judge(cc)
			if cc.Initialize {
				reason = "bootstrap"
			}
			wantRejected := v == mustReject
			if v == silent {
				wantRejected = got.Rejected
				if got.Rejected {
					counts["silent_"+reason+"_code_rejected"]++
				} else {
					counts["silent_"+reason+"_code_accepted"]++
				}
			}
			if got.Rejected != wantRejected {
				verb := map[bool]string{true: "rejected", false: "accepted"}
				r.Violation("membership:"+verb[got.Rejected]+"-but-statement-says-"+verb[wantRejected]+":"+reason,
					fmt.Sprintf("case %d index %d: %s was %s (rule %s), membership before: %s", c, e.Index, ccString(cc), verb[got.Rejected], reason, before),
					wit(e.Index, 0, reason, before, verb[wantRejected], verb[got.Rejected]))
				return
			}
			if got.Key != e.Key || got.CCEcho != ccString(cc) {
				r.Violation("membership:outcome-for-wrong-request", fmt.Sprintf("case %d index %d: delivered key %d %s", c, e.Index, got.Key, got.CCEcho),
					wit(e.Index, 0, reason, before, fmt.Sprintf("key %d %s", e.Key, ccString(cc)), fmt.Sprintf("key %d %s", got.Key, got.CCEcho)))
				return
			}
			if !wantRejected {
				m.apply(cc, e.Index)
				accepted++
				counts["changes_accepted_"+cc.Type.String()]++
			} else {
				rejected++
				counts["changes_rejected_"+reason]++
				if v == mustReject {
					rules[reason] = true
				}
			}
		} else if len(b.node.ccOuts) != ncc {
			r.Violation("membership:config-change-outcome-for-normal-entry", fmt.Sprintf("case %d index %d", c, e.Index), wit(e.Index, 0, "", before, "", ""))
			return
		}
		gotM := membershipString(b.sm.GetMembership())
		if wantM := membershipString(m.pb()); gotM != wantM {
			r.Violation("membership:membership-differs-from-model", fmt.Sprintf("case %d index %d: want %s got %s", c, e.Index, wantM, gotM),
				wit(e.Index, 0, "", before, wantM, gotM))
			return
		}
		counts["entries_checked"]++
		ss, _, err := b.sm.Save(rsm.SSRequest{})
		if err != nil {
			r.Violation("membership:save-error", fmt.Sprintf("case %d cut %d: %v", c, e.Index, err), wit(0, e.Index, "", "", "", err.Error()))
			return
		}
		if got := membershipString(ss.Membership); got != gotM || ss.Index != e.Index {
			r.Violation("membership:snapshot-membership", fmt.Sprintf("case %d cut %d: snapshot at %d has %s, state machine has %s", c, e.Index, ss.Index, got, gotM),
				wit(0, e.Index, "", "", gotM, got))
			return
		}
		cuts = append(cuts, cut{ss: ss, mem: gotM, ncc: len(b.node.ccOuts), memHash: b.sm.GetMembershipHash()})
	}
	finalMem := membershipString(b.sm.GetMembership())
	finalHash := b.sm.GetMembershipHash()
	var hparts []interface{}
	for _, e := range ents {
		hparts = append(hparts, e.Index, e.Term, uint64(e.Type), e.ClientID, e.SeriesID, e.Cmd)
	}
	hparts = append(hparts, ordered)
	r.Case(accepted >= 3 && rejected >= 3 && len(rules) >= 2, common.Hash(hparts...))
	for k, v := range counts {
		r.Count(k, v)
	}
	if ordered {
		r.Count("streams_ordered", 1)
	} else {
		r.Count("streams_unordered", 1)
	}
	if r.WantSample() && accepted >= 3 && rejected >= 3 {
		r.Sample(wit(0, 0, "", "", "", finalMem))
	}

	// A: whole stream in random batches must give the same outcomes
	a := newRegMachine(cfg, newRegSM(), newMemSnapshotter())
	if err := a.feed(copyEntries(ents), randSizes(rng)); err != nil {
		r.Violation("membership:apply-error", fmt.Sprintf("case %d: %v", c, err), wit(0, 0, "", "", "", err.Error()))
		return
	}
	if d := diffOuts(b.node.ccOuts, a.node.ccOuts); d != "" || membershipString(a.sm.GetMembership()) != finalMem {
		r.Violation("membership:batched-replica-differs", fmt.Sprintf("case %d: %s; final %s vs %s", c, d, finalMem, membershipString(a.sm.GetMembership())),
			wit(0, 0, "", "", finalMem, membershipString(a.sm.GetMembership())))
		return
	}

	// twins from every cut
	for i, ct := range cuts {
		idx := ents[i].Index
		sst := newMemSnapshotter()
		sst.cur, sst.data[ct.ss.Index] = ct.ss, ssb.data[ct.ss.Index]
		t := newRegMachine(cfg, newRegSM(), sst)
		task := rsm.Task{Recover: true, Index: idx}
		if rng.Intn(2) == 0 {
			task = rsm.Task{Recover: true, Initial: true}
		}
		rs, err := t.sm.Recover(task)
		if err != nil || rs.Index != idx {
			r.Violation("membership:recover-error", fmt.Sprintf("case %d cut %d: %v", c, idx, err), wit(0, idx, "", "", "", fmt.Sprint(err)))
			return
		}
		if got := membershipString(t.sm.GetMembership()); got != ct.mem || t.sm.GetMembershipHash() != ct.memHash {
			r.Violation("membership:twin-membership-at-cut", fmt.Sprintf("case %d cut %d: restored %s, original had %s", c, idx, got, ct.mem), wit(0, idx, "", "", ct.mem, got))
			return
		}
		if len(t.node.restored) != 1 || membershipString(t.node.restored[0].Membership) != ct.mem {
			r.Violation("membership:twin-restore-remotes", fmt.Sprintf("case %d cut %d: RestoreRemotes calls %d", c, idx, len(t.node.restored)), wit(0, idx, "", "", ct.mem, ""))
			return
		}
		if err := t.feed(copyEntries(ents[i+1:]), randSizes(rng)); err != nil {
			r.Violation("membership:apply-error", fmt.Sprintf("case %d twin of cut %d: %v", c, idx, err), wit(0, idx, "", "", "", err.Error()))
			return
		}
		if d := diffOuts(b.node.ccOuts[ct.ncc:], t.node.ccOuts); d != "" {
			r.Violation("membership:twin-outcome-differs", fmt.Sprintf("case %d cut %d: %s", c, idx, d), wit(0, idx, "", ct.mem, "", d))
			return
		}
		if got := membershipString(t.sm.GetMembership()); got != finalMem || t.sm.GetMembershipHash() != finalHash {
			r.Violation("membership:twin-final-membership-differs", fmt.Sprintf("case %d cut %d: twin %s original %s", c, idx, got, finalMem), wit(0, idx, "", ct.mem, finalMem, got))
			return
		}
		r.Count("cuts_compared", 1)
	}
}

func diffOuts(want, got []out) string {
	for i := 0; i < len(want) || i < len(got); i++ {
		switch {
		case i >= len(want):
			return fmt.Sprintf("extra outcome #%d: %v", i, got[i])
		case i >= len(got):
			return fmt.Sprintf("missing outcome #%d: %v", i, want[i])
		case want[i] != got[i]:
			return fmt.Sprintf("outcome #%d: original %v, other %v", i, want[i], got[i])
		}
	}
	return ""
}
