package main

import (
	"fmt"

	"github.com/lni/dragonboat/v4/client"
	"github.com/lni/dragonboat/v4/internal/rsm"
	"github.com/lni/dragonboat/v4/internal/utils/dio"
	pb "github.com/lni/dragonboat/v4/raftpb"
	"github.com/lni/dragonboat/v4/verifh/common"
)

// runPayload (C13, apply path): proposals are stored as plain application
// entries or as encoded entries (v0 header, with or without Snappy) depending
// on Config.EntryCompressionType. Whatever the encoding and however the apply
// tasks are cut, the command bytes handed to the user state machine must be
// the proposed ones, for the per-entry path (plain state machine) and for the
// batched path (concurrent state machine, several entries decoded before one
// Update call).
func runPayload(r *common.Run) {
	r.SetRule("case = a stream of 20-60 NoOP-session proposals with PRNG payload sizes (1-64 bytes, equal sizes in a row, 100-5000, sometimes 70 KB; later payloads shorter, equal or longer than earlier ones) stored as plain, encoded-uncompressed or encoded-Snappy entries (rsm.GetEncoded), applied by the real rsm.StateMachine on a plain and on a concurrent user state machine with PRNG task sizes (several tasks per Handle call included); every command the user state machine receives is compared with the proposed payload of that index; non-trivial = the stream holds Snappy entries and a task with at least two of them was applied in one batch; distinct by hash of the stream")
	total := r.Pick(4000, 80000)
	for _, c := range r.MyCases(total) {
		payloadCase(r, c)
	}
}

func payloadCase(r *common.Run, c int) {
	rng := r.Rand("payload", c)
	n := 20 + rng.Intn(41)
	var ents []pb.Entry
	var orig []string
	ents = append(ents, bootEntry(1, 1, "h1:1"))
	orig = append(orig, "")
	prev := 8
	snappy := 0
	for i := 0; i < n; i++ {
		var sz int
		switch k := rng.Intn(10); {
		case k < 3:
			sz = prev // same size as the previous payload
		case k < 6:
			sz = 1 + rng.Intn(64)
		case k < 9:
			sz = 100 + rng.Intn(4900)
		default:
			sz = 60000 + rng.Intn(20000)
		}
		prev = sz
		p := make([]byte, sz)
		switch rng.Intn(3) {
		case 0:
			rng.Read(p)
		case 1:
			for j := range p {
				p[j] = byte('a' + (i+j)%7)
			}
		default:
			copy(p, fmt.Sprintf("payload-%d-%d-", c, i))
		}
		p[0] = byte(i) // never equal to the neighbour's first byte by accident
		e := pb.Entry{Index: uint64(len(ents) + 1), Term: 1, Key: uint64(1000 + i), ClientID: uint64(7000 + i%3), SeriesID: client.NoOPSeriesID}
		switch rng.Intn(3) {
		case 0:
			e.Type, e.Cmd = pb.ApplicationEntry, p
		case 1:
			e.Type, e.Cmd = pb.EncodedEntry, rsm.GetEncoded(dio.NoCompression, p, nil)
		default:
			e.Type, e.Cmd = pb.EncodedEntry, rsm.GetEncoded(dio.Snappy, p, nil)
			snappy++
		}
		ents = append(ents, e)
		orig = append(orig, string(p))
	}
	check := func(kind string, calls []call, sizes []int) bool {
		seen := map[uint64]bool{}
		for _, cl := range calls {
			if cl.Index < 2 || int(cl.Index) > len(orig) {
				continue
			}
			seen[cl.Index] = true
			if cl.Cmd != orig[cl.Index-1] {
				d := 0
				for d < len(cl.Cmd) && d < len(orig[cl.Index-1]) && cl.Cmd[d] == orig[cl.Index-1][d] {
					d++
				}
				r.Violation("payload:"+kind+":command-differs-from-proposed-payload",
					fmt.Sprintf("case %d %s state machine, task sizes %v: entry %d (type %s) was handed to Update with %d bytes that differ from the %d proposed bytes at offset %d", c, kind, sizes, cl.Index, ents[cl.Index-1].Type, len(cl.Cmd), len(orig[cl.Index-1]), d),
					map[string]interface{}{"case": c, "kind": kind, "index": cl.Index, "task_sizes": sizes, "entry_type": ents[cl.Index-1].Type.String()})
				return false
			}
		}
		for i := 2; i <= len(ents); i++ {
			if !seen[uint64(i)] {
				r.Violation("payload:"+kind+":entry-not-delivered", fmt.Sprintf("case %d %s state machine: entry %d never reached Update", c, kind, i), map[string]interface{}{"case": c, "kind": kind, "index": i})
				return false
			}
		}
		return true
	}
	batched := false
	for pass := 0; pass < 2; pass++ {
		sizes := randSizes(rng)
		if pass == 1 {
			sizes = []int{3 + rng.Intn(4), -2, 2 + rng.Intn(3), 1}
			batched = true
		}
		ur := newRegSM()
		mr := newRegMachine(sessCfg(), ur, newMemSnapshotter())
		if err := mr.feed(copyEntries(ents), sizes); err != nil {
			r.Violation("payload:apply-error", fmt.Sprintf("case %d: %v", c, err), map[string]interface{}{"case": c})
			return
		}
		if !check("plain", ur.calls, sizes) {
			return
		}
		uc := newConSM()
		mc := newConMachine(sessCfg(), uc, newMemSnapshotter())
		if err := mc.feed(copyEntries(ents), sizes); err != nil {
			r.Violation("payload:apply-error", fmt.Sprintf("case %d: %v", c, err), map[string]interface{}{"case": c})
			return
		}
		if !check("concurrent", uc.calls, sizes) {
			return
		}
	}
	r.Count("payload_entries_compared", int64(4*n))
	r.Count("payload_snappy_entries", int64(snappy))
	var hp []interface{}
	for _, e := range ents {
		hp = append(hp, uint64(e.Type), e.Cmd)
	}
	r.Case(snappy >= 2 && batched, common.Hash(hp...))
	if r.WantSample() && c%97 == 0 {
		r.Sample(map[string]interface{}{"case": c, "entries": n, "snappy_entries": snappy})
	}
}
