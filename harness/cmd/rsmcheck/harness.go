package main

import (
	"bytes"
	"encoding/binary"
	"errors"
	"fmt"
	"hash/fnv"
	"io"
	"regexp"
	"sort"

	"github.com/lni/dragonboat/v4/config"
	"github.com/lni/dragonboat/v4/internal/rsm"
	"github.com/lni/dragonboat/v4/internal/server"
	"github.com/lni/dragonboat/v4/logger"
	pb "github.com/lni/dragonboat/v4/raftpb"
	sm "github.com/lni/dragonboat/v4/statemachine"
)

// ---------------------------------------------------------------------------
// logging: silent, but Panicf keeps panicking (it is the code's own guard)

type quietLogger struct{}

func (quietLogger) SetLevel(logger.LogLevel)                    {}
func (quietLogger) Debugf(format string, args ...interface{})   {}
func (quietLogger) Infof(format string, args ...interface{})    {}
func (quietLogger) Warningf(format string, args ...interface{}) {}
func (quietLogger) Errorf(format string, args ...interface{})   {}
func (quietLogger) Panicf(format string, args ...interface{}) {
	panic(fmt.Sprintf(format, args...))
}

func quietLogs() {
	logger.SetLoggerFactory(func(string) logger.ILogger { return quietLogger{} })
}

var numRe = regexp.MustCompile(`[0-9]+`)

// normPanic strips numbers from a panic message so that it can be a stable key.
func normPanic(v interface{}) string {
	s := fmt.Sprintf("%v", v)
	if len(s) > 120 {
		s = s[:120]
	}
	return numRe.ReplaceAllString(s, "N")
}

// ---------------------------------------------------------------------------
// outputs delivered to the node

// out is what the state machine delivered to INode for one log index.
type out struct {
	Called   bool   `json:"called"`
	CC       bool   `json:"cc,omitempty"`
	Value    uint64 `json:"value,omitempty"`
	Data     string `json:"data,omitempty"`
	Rejected bool   `json:"rejected,omitempty"`
	Ignored  bool   `json:"ignored,omitempty"`
	Key      uint64 `json:"key,omitempty"`
	CCEcho   string `json:"cc_echo,omitempty"`
	Calls    int    `json:"calls,omitempty"`
}

func (o out) String() string {
	if !o.Called {
		return "no-call"
	}
	if o.CC {
		return fmt.Sprintf("cc(rejected=%t key=%d %s calls=%d)", o.Rejected, o.Key, o.CCEcho, o.Calls)
	}
	return fmt.Sprintf("update(value=%d data=%q rejected=%t ignored=%t calls=%d)", o.Value, o.Data, o.Rejected, o.Ignored, o.Calls)
}

// recNode is the harness rsm.INode: it records what it is told.
type recNode struct {
	shardID   uint64
	replicaID uint64
	stopc     chan struct{}
	outs      map[uint64]out // by log index; config changes are keyed by their position, see ccSeq
	ccOuts    []out          // config change outcomes in delivery order
	restored  []pb.Snapshot
	steps     int
	lastFlags map[uint64]bool
}

func newRecNode(shardID, replicaID uint64) *recNode {
	return &recNode{shardID: shardID, replicaID: replicaID, stopc: make(chan struct{}),
		outs: map[uint64]out{}, lastFlags: map[uint64]bool{}}
}

func (n *recNode) StepReady()                  { n.steps++ }
func (n *recNode) ReplicaID() uint64           { return n.replicaID }
func (n *recNode) ShardID() uint64             { return n.shardID }
func (n *recNode) ShouldStop() <-chan struct{} { return n.stopc }
func (n *recNode) RestoreRemotes(ss pb.Snapshot) error {
	n.restored = append(n.restored, ss)
	return nil
}
func (n *recNode) ApplyUpdate(e pb.Entry, r sm.Result, rejected bool, ignored bool, last bool) {
	o := n.outs[e.Index]
	o.Called = true
	o.Value = r.Value
	o.Data = string(r.Data)
	o.Rejected = rejected
	o.Ignored = ignored
	o.Key = e.Key
	o.Calls++
	n.outs[e.Index] = o
	n.lastFlags[e.Index] = last
}
func (n *recNode) ApplyConfigChange(cc pb.ConfigChange, key uint64, rejected bool) error {
	o := out{Called: true, CC: true, Rejected: rejected, Key: key, CCEcho: ccString(cc), Calls: 1}
	n.ccOuts = append(n.ccOuts, o)
	return nil
}

func ccString(cc pb.ConfigChange) string {
	return fmt.Sprintf("%s id=%d addr=%q ccid=%d init=%t", cc.Type, cc.ReplicaID, cc.Address, cc.ConfigChangeId, cc.Initialize)
}

// ---------------------------------------------------------------------------
// user state machine state shared by the three kinds

// kvState is the user data: an order sensitive hash of everything applied, the
// number of applications, and how often each distinct command was applied.
type kvState struct {
	Count   uint64
	H       uint64
	Last    uint64 // index of the last applied entry
	Applied map[string]uint32
	Pad     []byte // bulk carried in snapshots
}

func newKV() *kvState { return &kvState{Applied: map[string]uint32{}} }

func (s *kvState) clone() *kvState {
	c := &kvState{Count: s.Count, H: s.H, Last: s.Last, Applied: make(map[string]uint32, len(s.Applied))}
	for k, v := range s.Applied {
		c.Applied[k] = v
	}
	c.Pad = append([]byte(nil), s.Pad...)
	return c
}

func (s *kvState) apply(index uint64, cmd []byte) sm.Result {
	h := fnv.New64a()
	var b [16]byte
	binary.LittleEndian.PutUint64(b[:8], s.H)
	binary.LittleEndian.PutUint64(b[8:], index)
	h.Write(b[:])
	h.Write(cmd)
	s.H = h.Sum64()
	s.Count++
	s.Last = index
	s.Applied[string(cmd)]++
	r := sm.Result{Value: s.H}
	if len(cmd) > 0 && cmd[len(cmd)-1]%3 == 0 {
		r.Data = []byte(fmt.Sprintf("d%x", s.H&0xffff))
	}
	// boundary results: the zero Result (a put that returns nothing, a fetch-and-add that returns
	// the previous value 0), a zero Value with data, an empty non-nil Data
	if len(cmd) > 1 {
		switch cmd[len(cmd)-2] % 7 {
		case 0:
			r = sm.Result{}
		case 1:
			r.Value = 0
		case 2:
			r.Data = []byte{}
		}
	}
	return r
}

func (s *kvState) marshal(w io.Writer) error {
	var buf bytes.Buffer
	var b [8]byte
	put := func(v uint64) {
		binary.LittleEndian.PutUint64(b[:], v)
		buf.Write(b[:])
	}
	put(s.Count)
	put(s.H)
	put(s.Last)
	keys := make([]string, 0, len(s.Applied))
	for k := range s.Applied {
		keys = append(keys, k)
	}
	sort.Strings(keys)
	put(uint64(len(keys)))
	for _, k := range keys {
		put(uint64(len(k)))
		buf.WriteString(k)
		put(uint64(s.Applied[k]))
	}
	put(uint64(len(s.Pad)))
	buf.Write(s.Pad)
	// written in several pieces so that block boundaries fall inside the data
	data := buf.Bytes()
	for len(data) > 0 {
		n := 4096
		if n > len(data) {
			n = len(data)
		}
		if _, err := w.Write(data[:n]); err != nil {
			return err
		}
		data = data[n:]
	}
	return nil
}

func (s *kvState) unmarshal(r io.Reader) error {
	var b [8]byte
	get := func() (uint64, error) {
		if _, err := io.ReadFull(r, b[:]); err != nil {
			return 0, err
		}
		return binary.LittleEndian.Uint64(b[:]), nil
	}
	var err error
	if s.Count, err = get(); err != nil {
		return err
	}
	if s.H, err = get(); err != nil {
		return err
	}
	if s.Last, err = get(); err != nil {
		return err
	}
	n, err := get()
	if err != nil {
		return err
	}
	if n > 1<<24 {
		return errors.New("kv: bad key count")
	}
	s.Applied = make(map[string]uint32, n)
	for i := uint64(0); i < n; i++ {
		l, err := get()
		if err != nil {
			return err
		}
		if l > 1<<20 {
			return errors.New("kv: bad key len")
		}
		k := make([]byte, l)
		if _, err := io.ReadFull(r, k); err != nil {
			return err
		}
		c, err := get()
		if err != nil {
			return err
		}
		s.Applied[string(k)] = uint32(c)
	}
	pl, err := get()
	if err != nil {
		return err
	}
	if pl > 1<<28 {
		return errors.New("kv: bad pad len")
	}
	s.Pad = make([]byte, pl)
	if _, err := io.ReadFull(r, s.Pad); err != nil {
		return err
	}
	// the stream must end here
	var one [1]byte
	if n, _ := r.Read(one[:]); n != 0 {
		return errors.New("kv: trailing bytes in snapshot")
	}
	return nil
}

// digest is a canonical content hash of the user data.
func (s *kvState) digest() string {
	var buf bytes.Buffer
	_ = s.marshal(&buf)
	h := fnv.New64a()
	h.Write(buf.Bytes())
	return fmt.Sprintf("%d/%x/%x", s.Count, s.H, h.Sum64())
}

// call is one Update call seen by the user state machine.
type call struct {
	Index uint64
	Cmd   string
}

// ---------------------------------------------------------------------------
// regular state machine (sm.IStateMachine)

type regSM struct {
	st    *kvState
	calls []call
	saves int
	recvs int
}

func newRegSM() *regSM { return &regSM{st: newKV()} }

func (s *regSM) Update(e sm.Entry) (sm.Result, error) {
	s.calls = append(s.calls, call{e.Index, string(e.Cmd)})
	return s.st.apply(e.Index, e.Cmd), nil
}
func (s *regSM) Lookup(interface{}) (interface{}, error) { return s.st.Count, nil }
func (s *regSM) SaveSnapshot(w io.Writer, _ sm.ISnapshotFileCollection, _ <-chan struct{}) error {
	s.saves++
	return s.st.marshal(w)
}
func (s *regSM) RecoverFromSnapshot(r io.Reader, _ []sm.SnapshotFile, _ <-chan struct{}) error {
	s.recvs++
	st := newKV()
	if err := st.unmarshal(r); err != nil {
		return err
	}
	s.st = st
	return nil
}
func (s *regSM) Close() error             { return nil }
func (s *regSM) GetHash() (uint64, error) { return s.st.H, nil }

// ---------------------------------------------------------------------------
// concurrent state machine (sm.IConcurrentStateMachine)

type conSM struct {
	st     *kvState
	calls  []call
	onSave func() // called from inside SaveSnapshot: the harness applies more entries here
	// onPrepare is called from inside PrepareSnapshot after the state was captured: the harness
	// starts a goroutine that applies more entries (it queues up behind the lock that
	// PrepareSnapshot is called under) and dwells a moment
	onPrepare func()
	saves     int
	recvs     int
	prepped   int
}

func newConSM() *conSM { return &conSM{st: newKV()} }

func (s *conSM) Update(ents []sm.Entry) ([]sm.Entry, error) {
	for i := range ents {
		s.calls = append(s.calls, call{ents[i].Index, string(ents[i].Cmd)})
		ents[i].Result = s.st.apply(ents[i].Index, ents[i].Cmd)
	}
	return ents, nil
}
func (s *conSM) Lookup(interface{}) (interface{}, error) { return s.st.Count, nil }
func (s *conSM) PrepareSnapshot() (interface{}, error) {
	s.prepped++
	c := s.st.clone()
	if s.onPrepare != nil {
		s.onPrepare()
	}
	return c, nil
}
func (s *conSM) SaveSnapshot(ctx interface{}, w io.Writer, _ sm.ISnapshotFileCollection, _ <-chan struct{}) error {
	s.saves++
	if s.onSave != nil {
		s.onSave()
	}
	return ctx.(*kvState).marshal(w)
}
func (s *conSM) RecoverFromSnapshot(r io.Reader, _ []sm.SnapshotFile, _ <-chan struct{}) error {
	s.recvs++
	st := newKV()
	if err := st.unmarshal(r); err != nil {
		return err
	}
	s.st = st
	return nil
}
func (s *conSM) Close() error             { return nil }
func (s *conSM) GetHash() (uint64, error) { return s.st.H, nil }

// ---------------------------------------------------------------------------
// on-disk state machine (sm.IOnDiskStateMachine)

// disk is what survives a restart of an on-disk state machine.
type disk struct {
	st *kvState // synced state; st.Last is the synced applied index
}

func newDisk() *disk { return &disk{st: newKV()} }

func (d *disk) clone() *disk { return &disk{st: d.st.clone()} }

type diskSM struct {
	d         *disk
	st        *kvState
	calls     []call
	syncEvery int // sync after that many updates (0: only when asked)
	sinceSync int
	onSave    func()
	opened    bool
	reapplied int // updates at or below the already applied index: must never happen
	syncs     int
	saves     int
	recvs     int
}

func newDiskSM(d *disk, syncEvery int) *diskSM { return &diskSM{d: d, syncEvery: syncEvery} }

func (s *diskSM) Open(<-chan struct{}) (uint64, error) {
	s.opened = true
	s.st = s.d.st.clone()
	return s.st.Last, nil
}
func (s *diskSM) Update(ents []sm.Entry) ([]sm.Entry, error) {
	for i := range ents {
		if ents[i].Index <= s.st.Last {
			s.reapplied++
		}
		s.calls = append(s.calls, call{ents[i].Index, string(ents[i].Cmd)})
		ents[i].Result = s.st.apply(ents[i].Index, ents[i].Cmd)
		s.sinceSync++
		if s.syncEvery > 0 && s.sinceSync >= s.syncEvery {
			_ = s.Sync()
		}
	}
	return ents, nil
}
func (s *diskSM) Lookup(interface{}) (interface{}, error) { return s.st.Count, nil }
func (s *diskSM) Sync() error {
	s.syncs++
	s.sinceSync = 0
	s.d.st = s.st.clone()
	return nil
}
func (s *diskSM) PrepareSnapshot() (interface{}, error) { return s.st.clone(), nil }
func (s *diskSM) SaveSnapshot(ctx interface{}, w io.Writer, _ <-chan struct{}) error {
	s.saves++
	if s.onSave != nil {
		s.onSave()
	}
	return ctx.(*kvState).marshal(w)
}
func (s *diskSM) RecoverFromSnapshot(r io.Reader, _ <-chan struct{}) error {
	s.recvs++
	st := newKV()
	if err := st.unmarshal(r); err != nil {
		return err
	}
	s.st = st
	// an on-disk state machine must make a recovered snapshot durable
	s.d.st = st.clone()
	return nil
}
func (s *diskSM) Close() error             { return nil }
func (s *diskSM) GetHash() (uint64, error) { return s.st.H, nil }

// ---------------------------------------------------------------------------
// in-memory rsm.ISnapshotter (sessions and membership modes)

var errNoSnapshot = errors.New("no snapshot available")

type memSnapshotter struct {
	cur   pb.Snapshot
	data  map[uint64][]byte
	saves int
	loads int
}

func newMemSnapshotter() *memSnapshotter { return &memSnapshotter{data: map[uint64][]byte{}} }

func (s *memSnapshotter) GetSnapshot() (pb.Snapshot, error) {
	if pb.IsEmptySnapshot(s.cur) {
		return pb.Snapshot{}, errNoSnapshot
	}
	return s.cur, nil
}
func (s *memSnapshotter) Stream(rsm.IStreamable, rsm.SSMeta, pb.IChunkSink) error {
	return errors.New("memSnapshotter: Stream not supported")
}
func (s *memSnapshotter) Shrunk(pb.Snapshot) (bool, error) { return false, nil }
func (s *memSnapshotter) Save(savable rsm.ISavable, meta rsm.SSMeta) (pb.Snapshot, server.SSEnv, error) {
	var buf bytes.Buffer
	dummy, err := savable.Save(meta, &buf, meta.Session.Bytes(), rsm.NewFileCollection())
	if err != nil {
		return pb.Snapshot{}, server.SSEnv{}, err
	}
	s.saves++
	ss := pb.Snapshot{
		Filepath:    fmt.Sprintf("mem-%d", meta.Index),
		FileSize:    uint64(buf.Len()),
		Membership:  meta.Membership,
		Index:       meta.Index,
		Term:        meta.Term,
		OnDiskIndex: meta.OnDiskIndex,
		Dummy:       dummy,
		Type:        meta.Type,
	}
	s.data[meta.Index] = append([]byte(nil), buf.Bytes()...)
	s.cur = ss
	return ss, server.SSEnv{}, nil
}
func (s *memSnapshotter) Load(ss pb.Snapshot, sessions rsm.ILoadable, asm rsm.IRecoverable) error {
	d, ok := s.data[ss.Index]
	if !ok {
		return fmt.Errorf("memSnapshotter: no data for snapshot %d", ss.Index)
	}
	s.loads++
	r := bytes.NewReader(d)
	if err := sessions.LoadSessions(r, rsm.V2); err != nil {
		return err
	}
	return asm.Recover(r, nil)
}
func (s *memSnapshotter) IsNoSnapshotError(err error) bool { return errors.Is(err, errNoSnapshot) }

// ---------------------------------------------------------------------------
// driving a state machine

// machine bundles one real rsm.StateMachine with its recording node.
type machine struct {
	sm    *rsm.StateMachine
	node  *recNode
	batch []rsm.Task
	apply []sm.Entry
}

func newRegMachine(cfg config.Config, user sm.IStateMachine, ss rsm.ISnapshotter) *machine {
	node := newRecNode(cfg.ShardID, cfg.ReplicaID)
	managed := rsm.NewNativeSM(cfg, rsm.NewInMemStateMachine(user), node.stopc)
	return &machine{sm: rsm.NewStateMachine(managed, ss, cfg, node, nil), node: node,
		batch: make([]rsm.Task, 0, 8), apply: make([]sm.Entry, 0, 8)}
}

// newConMachine is newRegMachine for a concurrent state machine (the kind whose updates may be
// applied through the batched path).
func newConMachine(cfg config.Config, user sm.IConcurrentStateMachine, ss rsm.ISnapshotter) *machine {
	node := newRecNode(cfg.ShardID, cfg.ReplicaID)
	managed := rsm.NewNativeSM(cfg, rsm.NewConcurrentStateMachine(user), node.stopc)
	return &machine{sm: rsm.NewStateMachine(managed, ss, cfg, node, nil), node: node,
		batch: make([]rsm.Task, 0, 8), apply: make([]sm.Entry, 0, 8)}
}

// feed applies entries through the task queue cut into tasks of the given
// sizes (cycled; nil means one task per entry). A negative size -n queues a
// task of n entries without calling Handle yet, so that one Handle call sees
// several queued tasks.
func (m *machine) feed(ents []pb.Entry, sizes []int) error {
	i, k := 0, 0
	for i < len(ents) {
		n, handle := 1, true
		if len(sizes) > 0 {
			n = sizes[k%len(sizes)]
			k++
			if n < 0 {
				n, handle = -n, false
			}
		}
		if n < 1 {
			n = 1
		}
		if i+n > len(ents) {
			n = len(ents) - i
		}
		m.sm.TaskQ().Add(rsm.Task{Entries: ents[i : i+n]})
		i += n
		if handle || i >= len(ents) {
			if _, err := m.sm.Handle(m.batch, m.apply); err != nil {
				return err
			}
		}
	}
	return nil
}

func copyEntries(ents []pb.Entry) []pb.Entry {
	out := make([]pb.Entry, len(ents))
	for i, e := range ents {
		out[i] = e
		out[i].Cmd = append([]byte(nil), e.Cmd...)
	}
	return out
}

func membershipString(m pb.Membership) string {
	f := func(mm map[uint64]string) string {
		ids := make([]uint64, 0, len(mm))
		for id := range mm {
			ids = append(ids, id)
		}
		sort.Slice(ids, func(i, j int) bool { return ids[i] < ids[j] })
		var b bytes.Buffer
		for _, id := range ids {
			fmt.Fprintf(&b, "%d=%s,", id, mm[id])
		}
		return b.String()
	}
	rm := make([]uint64, 0, len(m.Removed))
	for id := range m.Removed {
		rm = append(rm, id)
	}
	sort.Slice(rm, func(i, j int) bool { return rm[i] < rm[j] })
	return fmt.Sprintf("ccid=%d V{%s} N{%s} W{%s} R%v", m.ConfigChangeId, f(m.Addresses), f(m.NonVotings), f(m.Witnesses), rm)
}
