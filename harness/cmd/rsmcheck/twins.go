package main

import (
	"fmt"
	"math/rand"
	"sync"
	"time"

	dragonboat "github.com/lni/dragonboat/v4"
	"github.com/lni/dragonboat/v4/client"
	"github.com/lni/dragonboat/v4/config"
	"github.com/lni/dragonboat/v4/internal/logdb"
	"github.com/lni/dragonboat/v4/internal/logdb/kv/pebble"
	"github.com/lni/dragonboat/v4/internal/rsm"
	"github.com/lni/dragonboat/v4/internal/transport"
	"github.com/lni/dragonboat/v4/raftio"
	pb "github.com/lni/dragonboat/v4/raftpb"
	sm "github.com/lni/dragonboat/v4/statemachine"
	"github.com/lni/dragonboat/v4/verifh/common"
	gvfs "github.com/lni/vfs"
)

// ---------------------------------------------------------------------------
// environment: one in-memory file system with a real log store on it

const (
	twShard      = 7
	deploymentID = 11
)

type tenv struct {
	fs  gvfs.FS
	ldb raftio.ILogDB
}

func nhConfig(fs gvfs.FS) config.NodeHostConfig {
	c := config.NodeHostConfig{
		NodeHostDir:    "/data",
		RTTMillisecond: 10,
		RaftAddress:    "localhost:1",
		DeploymentID:   deploymentID,
	}
	c.Expert.FS = fs
	c.Expert.LogDB = config.GetTinyMemLogDBConfig()
	c.Expert.LogDB.Shards = 1
	c.Expert.Engine.ExecShards = 1
	return c
}

func openLogDB(fs gvfs.FS) (raftio.ILogDB, error) {
	if err := fs.MkdirAll("/data/logdb", 0o755); err != nil {
		return nil, err
	}
	return logdb.NewLogDB(nhConfig(fs), nil, []string{"/data/logdb"}, []string{"/data/logdb"}, false, true, pebble.NewKVStore)
}

func newTEnv(fs gvfs.FS) (*tenv, error) {
	ldb, err := openLogDB(fs)
	if err != nil {
		return nil, err
	}
	return &tenv{fs: fs, ldb: ldb}, nil
}

func (e *tenv) reopen() error {
	if err := e.ldb.Close(); err != nil {
		return err
	}
	ldb, err := openLogDB(e.fs)
	if err != nil {
		return err
	}
	e.ldb = ldb
	return nil
}

func snapDir(shard, replica uint64) string {
	return fmt.Sprintf("/data/snapshot/s%d-r%d", shard, replica)
}

func mkSnapDir(fs gvfs.FS, shard, replica uint64) error {
	if err := fs.MkdirAll(snapDir(shard, replica), 0o755); err != nil {
		return err
	}
	for _, d := range []string{"/", "/data", "/data/snapshot", snapDir(shard, replica)} {
		f, err := fs.OpenDir(d)
		if err != nil {
			return err
		}
		if err := f.Sync(); err != nil {
			return err
		}
		if err := f.Close(); err != nil {
			return err
		}
	}
	return nil
}

// ---------------------------------------------------------------------------
// a replica: real state machine + real snapshotter + real log reader, glued
// the way node.go glues them

type replica struct {
	env  *tenv
	kind string
	cfg  config.Config
	m    *machine
	snap *dragonboat.VerifSnapshotter
	lr   *logdb.LogReader
	reg  *regSM
	con  *conSM
	dsk  *diskSM
}

func newReplica(env *tenv, kind string, cfg config.Config, d *disk, pad []byte) (*replica, error) {
	if err := mkSnapDir(env.fs, cfg.ShardID, cfg.ReplicaID); err != nil {
		return nil, err
	}
	p := &replica{env: env, kind: kind, cfg: cfg}
	p.lr = logdb.NewLogReader(cfg.ShardID, cfg.ReplicaID, env.ldb)
	p.snap = dragonboat.NewVerifSnapshotter(cfg.ShardID, cfg.ReplicaID, snapDir, env.ldb, p.lr, env.fs)
	p.lr.SetCompactor(p.snap)
	node := newRecNode(cfg.ShardID, cfg.ReplicaID)
	var inner rsm.IStateMachine
	switch kind {
	case "regular":
		p.reg = newRegSM()
		p.reg.st.Pad = append([]byte(nil), pad...)
		inner = rsm.NewInMemStateMachine(p.reg)
	case "concurrent":
		p.con = newConSM()
		p.con.st.Pad = append([]byte(nil), pad...)
		inner = rsm.NewConcurrentStateMachine(p.con)
	case "ondisk":
		p.dsk = newDiskSM(d, 0)
		inner = rsm.NewOnDiskStateMachine(p.dsk)
	default:
		panic("unknown kind")
	}
	managed := rsm.NewNativeSM(cfg, inner, node.stopc)
	p.m = &machine{sm: rsm.NewStateMachine(managed, p.snap, cfg, node, env.fs), node: node,
		batch: make([]rsm.Task, 0, 8), apply: make([]sm.Entry, 0, 8)}
	return p, nil
}

// start does what NodeHost.startShard + node.replayLog + the initial recover
// task do, and returns the index the replica starts from.
func (p *replica) start() (uint64, error) {
	if err := p.snap.ProcessOrphans(); err != nil {
		return 0, fmt.Errorf("processOrphans: %w", err)
	}
	rec, err := p.snap.GetSnapshotFromLogDB()
	if err != nil && !p.snap.IsNoSnapshotError(err) {
		return 0, err
	}
	if !pb.IsEmptySnapshot(rec) {
		if err := p.lr.ApplySnapshot(rec); err != nil {
			return 0, err
		}
	}
	if p.kind == "ondisk" {
		if _, err := p.m.sm.OpenOnDiskStateMachine(); err != nil {
			return 0, err
		}
	}
	return p.recover(rsm.Task{Recover: true, Initial: true})
}

// recover is node.recover without the event plumbing.
func (p *replica) recover(t rsm.Task) (uint64, error) {
	ss, err := p.m.sm.Recover(t)
	if err != nil {
		return 0, err
	}
	if !pb.IsEmptySnapshot(ss) {
		if p.kind == "ondisk" {
			if err := p.m.sm.Sync(); err != nil {
				return 0, err
			}
			if err := p.snap.Shrink(ss.Index); err != nil {
				return 0, fmt.Errorf("shrink: %w", err)
			}
		}
		if err := ss.Unref(); err != nil {
			return 0, err
		}
	}
	return ss.Index, nil
}

// save is node.doSave: Save, Commit, Validate, LogReader.CreateSnapshot (which
// releases and thereby compacts the previous snapshot).
func (p *replica) save() (pb.Snapshot, error) {
	ss, _, err := p.m.sm.Save(rsm.SSRequest{})
	if err != nil {
		return pb.Snapshot{}, fmt.Errorf("save: %w", err)
	}
	if err := p.snap.Commit(ss, rsm.SSRequest{}); err != nil {
		return pb.Snapshot{}, fmt.Errorf("commit: %w", err)
	}
	if !ss.Validate(p.env.fs) {
		return pb.Snapshot{}, fmt.Errorf("generated snapshot %d does not validate", ss.Index)
	}
	if err := p.lr.CreateSnapshot(ss); err != nil {
		return pb.Snapshot{}, fmt.Errorf("create snapshot: %w", err)
	}
	return ss, nil
}

func (p *replica) user() *kvState {
	switch p.kind {
	case "regular":
		return p.reg.st
	case "concurrent":
		return p.con.st
	}
	return p.dsk.st
}

// tstate is everything the statement lists: user data, sessions, membership,
// applied index and term.
type tstate struct {
	User       string `json:"user"`
	SMHash     uint64 `json:"sm_hash"`
	Sessions   uint64 `json:"session_hash"`
	Membership string `json:"membership"`
	Index      uint64 `json:"index"`
	Term       uint64 `json:"term"`
	VIndex     uint64 `json:"visible_index"`
	VTerm      uint64 `json:"visible_term"`
}

func (p *replica) state() tstate {
	h, _ := p.m.sm.GetHash()
	i, t, vi, vt := p.m.sm.VerifApplied()
	return tstate{User: p.user().digest(), SMHash: h, Sessions: p.m.sm.GetSessionHash(),
		Membership: membershipString(p.m.sm.GetMembership()), Index: i, Term: t, VIndex: vi, VTerm: vt}
}

// ---------------------------------------------------------------------------
// streams

func mergeStreams(rng *rand.Rand, boot int, a, b []pb.Entry) []pb.Entry {
	_ = boot
	var out []pb.Entry
	term := uint64(1)
	key := uint64(100)
	add := func(e pb.Entry) {
		key++
		if len(out) >= boot && rng.Intn(9) == 0 {
			term++
		}
		e.Index, e.Term, e.Key = uint64(len(out)+1), term, key
		out = append(out, e)
	}
	for len(a) > 0 || len(b) > 0 {
		if len(b) == 0 || (len(a) > 0 && rng.Intn(len(a)+len(b)) < len(a)) {
			add(a[0])
			a = a[1:]
		} else {
			add(b[0])
			b = b[1:]
		}
	}
	return out
}

// genTwins draws a stream of user proposals (with sessions where the state
// machine kind supports them), config changes and no-ops.
func genTwins(rng *rand.Rand, n int, kind string, cap int) []pb.Entry {
	mem := genMembership(rng, n/3+3, false)
	boot := 0
	for boot < len(mem) && mem[boot].IsConfigChange() {
		var cc pb.ConfigChange
		pb.MustUnmarshal(&cc, mem[boot].Cmd)
		if !cc.Initialize {
			break
		}
		boot++
	}
	var ccs []pb.Entry
	for _, e := range mem[boot:] {
		if e.IsConfigChange() {
			ccs = append(ccs, e)
		}
	}
	var normal []pb.Entry
	if kind == "ondisk" {
		for i := 0; len(normal) < n-len(ccs)-boot; i++ {
			if rng.Intn(8) == 0 {
				normal = append(normal, pb.Entry{})
			} else {
				normal = append(normal, pb.Entry{ClientID: uint64(5000 + rng.Intn(3)), SeriesID: client.NoOPSeriesID,
					Cmd: []byte(fmt.Sprintf("d/u%d/%d", i, rng.Intn(100)))})
			}
		}
	} else {
		for _, e := range genSessions(rng, n-len(ccs), cap) {
			if !e.IsConfigChange() {
				normal = append(normal, e)
			}
		}
	}
	rest := mergeStreams(rng, 0, ccs, normal)
	out := append([]pb.Entry(nil), mem[:boot]...)
	for _, e := range rest {
		e.Index += uint64(boot)
		out = append(out, e)
	}
	return out
}

func makePad(rng *rand.Rand, size int) []byte {
	if size == 0 {
		return nil
	}
	pad := make([]byte, size)
	word := make([]byte, 8+rng.Intn(40))
	rng.Read(word)
	for i := 0; i < size; {
		if rng.Intn(3) == 0 {
			rng.Read(word[:4])
		}
		i += copy(pad[i:], word)
	}
	return pad
}

// ---------------------------------------------------------------------------
// the check

type twinWitness struct {
	Case        int    `json:"case"`
	Kind        string `json:"sm_kind"`
	Compression string `json:"compression"`
	Cap         int    `json:"lru_max_session_count"`
	Pad         int    `json:"pad_bytes"`
	Variant     string `json:"variant"`
	Cut         uint64 `json:"cut"`
	Extra       int    `json:"entries_applied_during_save,omitempty"`
	Want        tstate `json:"uninterrupted"`
	Got         tstate `json:"restored"`
	Note        string `json:"note,omitempty"`
	Entries     []went `json:"entries"`
}

func runTwins(r *common.Run) {
	r.SetRule("a case is one PRNG stream of 30-50 entries (bootstrap, config changes, session register/propose/retry/unregister for regular and concurrent " +
		"state machines, no-op session proposals only for on-disk ones, empty entries) x state machine kind (regular|concurrent|ondisk) x compression (none|snappy); " +
		"non-trivial = >=10 cuts compared and the stream has >=1 accepted config change after bootstrap and >=5 applied proposals; distinct by hash of stream+kind+compression")
	r.Assume("on-disk state machines are driven with no-op sessions only (NodeHost refuses registered sessions for them)")
	r.Assume("the follower twin receives B's snapshot through the real chunk splitter / stream writer and the real transport.Chunk receiver, without a network")
	total := r.Pick(420, 8000)
	orig := rsm.LRUMaxSessionCount
	defer func() { rsm.LRUMaxSessionCount = orig }()
	for _, c := range r.MyCases(total) {
		if !wanted(c) {
			continue
		}
		func() {
			defer func() {
				if p := recover(); p != nil {
					r.Violation("twins:panic:"+normPanic(p), fmt.Sprintf("case %d: panic %v", c, p),
						map[string]interface{}{"case": c, "panic": fmt.Sprintf("%v", p)})
				}
			}()
			twinsCase(r, c)
		}()
		if c%50 == 0 {
			r.Flush()
		}
	}
}

type twinCtx struct {
	r     *common.Run
	c     int
	rng   *rand.Rand
	kind  string
	ct    config.CompressionType
	cap   int
	pad   []byte
	ents  []pb.Entry
	env   *tenv
	ref   []tstate // ref[i] = state of A after i entries
	final tstate
}

func (x *twinCtx) cfg(replica uint64) config.Config {
	return config.Config{ShardID: twShard, ReplicaID: replica, SnapshotCompressionType: x.ct}
}

func (x *twinCtx) wit(variant string, cut uint64, extra int, want, got tstate, note string) twinWitness {
	return twinWitness{Case: x.c, Kind: x.kind, Compression: fmt.Sprint(x.ct), Cap: x.cap, Pad: len(x.pad), Variant: variant, Cut: cut,
		Extra: extra, Want: want, Got: got, Note: note, Entries: describe(x.ents, nil)}
}

func (x *twinCtx) fail(key, variant string, cut uint64, extra int, want, got tstate, note string) {
	x.r.Violation("twins:"+x.kind+":"+variant+":"+key, fmt.Sprintf("case %d %s/%v %s cut %d: %s", x.c, x.kind, x.ct, variant, cut, note),
		x.wit(variant, cut, extra, want, got, note))
}

func twinsCase(r *common.Run, c int) {
	rng := r.Rand("twins", c)
	x := &twinCtx{r: r, c: c, rng: rng}
	x.kind = []string{"regular", "concurrent", "ondisk"}[rng.Intn(3)]
	x.ct = []config.CompressionType{config.NoCompression, config.Snappy}[rng.Intn(2)]
	x.cap = 4 + rng.Intn(5)
	rsm.LRUMaxSessionCount = uint64(x.cap)
	n := 30 + rng.Intn(21)
	switch p := rng.Intn(100); {
	case p < 55:
	case p < 95:
		x.pad = makePad(rng, 2000+rng.Intn(100000))
	default:
		x.pad = makePad(rng, 2*1024*1024+rng.Intn(300000))
		n = 12 + rng.Intn(6)
	}
	x.ents = genTwins(rng, n, x.kind, x.cap)
	n = len(x.ents)
	var err error
	if x.env, err = newTEnv(gvfs.NewMem()); err != nil {
		r.Inconclusive(fmt.Sprintf("case %d: cannot open log store: %v", c, err))
		return
	}
	defer func() { _ = x.env.ldb.Close() }()

	// A: uninterrupted, replica id 1000 (never snapshots)
	adisk := newDisk()
	adisk.st.Pad = append([]byte(nil), x.pad...)
	a, err := newReplica(x.env, x.kind, x.cfg(1000), adisk, x.pad)
	if err != nil {
		r.Inconclusive(fmt.Sprintf("case %d: %v", c, err))
		return
	}
	if _, err := a.start(); err != nil {
		x.fail("start-error", "uninterrupted", 0, 0, tstate{}, tstate{}, err.Error())
		return
	}
	x.ref = make([]tstate, n+1)
	all := copyEntries(x.ents)
	for i := 0; i < n; i++ {
		if err := a.m.feed(all[i:i+1], nil); err != nil {
			x.fail("apply-error", "uninterrupted", uint64(i+1), 0, tstate{}, tstate{}, err.Error())
			return
		}
		x.ref[i+1] = a.state()
	}
	x.final = x.ref[n]
	acceptedCC, proposals := 0, int(a.user().Count)
	for _, o := range a.m.node.ccOuts {
		if !o.Rejected {
			acceptedCC++
		}
	}
	// a second uninterrupted run with random batching must agree with the first
	a2disk := newDisk()
	a2disk.st.Pad = append([]byte(nil), x.pad...)
	a2, err := newReplica(x.env, x.kind, x.cfg(1001), a2disk, x.pad)
	if err == nil {
		_, err = a2.start()
	}
	if err == nil {
		err = a2.m.feed(copyEntries(x.ents), randSizes(rng))
	}
	if err != nil {
		x.fail("apply-error", "uninterrupted-batched", 0, 0, tstate{}, tstate{}, err.Error())
		return
	}
	if s := a2.state(); s != x.final {
		x.fail("state-differs", "uninterrupted-batched", 0, 0, x.final, s, "batched application differs from entry-by-entry application")
		return
	}

	before := r.Counter("cuts_compared_" + x.kind)
	ok := x.passEveryCut()
	if ok {
		ok = x.passConcurrent()
	}
	cuts := r.Counter("cuts_compared_"+x.kind) - before
	var hparts []interface{}
	for _, e := range x.ents {
		hparts = append(hparts, e.Index, e.Term, uint64(e.Type), e.ClientID, e.SeriesID, e.RespondedTo, e.Cmd)
	}
	hparts = append(hparts, x.kind, fmt.Sprint(x.ct), len(x.pad))
	r.Case(ok && cuts >= 10 && acceptedCC-countBoot(x.ents) >= 1 && proposals >= 5, common.Hash(hparts...))
	r.Count("streams_"+x.kind+"_"+fmt.Sprint(x.ct), 1)
	if len(x.pad) > 2*1024*1024 {
		r.Count("streams_multi_block_snapshot", 1)
	}
	if ok && r.WantSample() && c%7 == 0 {
		r.Sample(x.wit("sample", 0, 0, x.final, x.final, ""))
	}
}

func countBoot(ents []pb.Entry) int {
	k := 0
	for _, e := range ents {
		if !e.IsConfigChange() {
			break
		}
		var cc pb.ConfigChange
		pb.MustUnmarshal(&cc, e.Cmd)
		if !cc.Initialize {
			break
		}
		k++
	}
	return k
}

// newB creates the snapshotting replica (id 1) on a fresh directory.
func (x *twinCtx) newB(replica uint64) (*replica, *disk, error) {
	d := newDisk()
	d.st.Pad = append([]byte(nil), x.pad...)
	b, err := newReplica(x.env, x.kind, x.cfg(replica), d, x.pad)
	if err != nil {
		return nil, nil, err
	}
	if _, err := b.start(); err != nil {
		return nil, nil, err
	}
	return b, d, nil
}

// passEveryCut: B applies entry by entry and snapshots after every index; at
// every cut a restarted replica C recovers from the snapshot on the same file
// system and applies the suffix; at some cuts a follower D receives the
// snapshot as chunks and does the same.
func (x *twinCtx) passEveryCut() bool {
	r, n := x.r, len(x.ents)
	b, bdisk, err := x.newB(1)
	if err != nil {
		x.fail("start-error", "snapshotting", 0, 0, tstate{}, tstate{}, err.Error())
		return false
	}
	all := copyEntries(x.ents)
	var prev pb.Snapshot
	reopenAt := 1 + x.rng.Intn(n)
	for i := 0; i < n; i++ {
		if err := b.m.feed(all[i:i+1], nil); err != nil {
			x.fail("apply-error", "snapshotting", uint64(i+1), 0, tstate{}, tstate{}, err.Error())
			return false
		}
		cut := uint64(i + 1)
		if s := b.state(); s != x.ref[cut] {
			x.fail("state-differs", "snapshotting", cut, 0, x.ref[cut], s, "the replica that takes snapshots differs from the uninterrupted one")
			return false
		}
		if len(x.pad) > 2*1024*1024 && i%3 != 0 && i != n-1 {
			continue
		}
		ss, err := b.save()
		if err != nil {
			x.fail("save-error", "snapshotting", cut, 0, tstate{}, tstate{}, err.Error())
			return false
		}
		r.Count("snapshots_saved_"+x.kind, 1)
		if ss.Index != cut || ss.Term != x.ref[cut].Term || membershipString(ss.Membership) != x.ref[cut].Membership {
			x.fail("snapshot-meta", "snapshotting", cut, 0, x.ref[cut], tstate{Index: ss.Index, Term: ss.Term, Membership: membershipString(ss.Membership)}, "snapshot metadata differs from the applied state")
			return false
		}
		if (x.kind == "ondisk") != ss.Dummy {
			x.fail("snapshot-dummy-flag", "snapshotting", cut, 0, tstate{}, tstate{}, fmt.Sprintf("dummy=%t", ss.Dummy))
			return false
		}
		if !x.compactionSafe(b, ss, prev, cut) {
			return false
		}
		prev = ss
		if int(cut) == reopenAt {
			// the record must survive closing and reopening the log store
			if err := x.env.reopen(); err != nil {
				r.Inconclusive(fmt.Sprintf("case %d: reopen log store: %v", x.c, err))
				return false
			}
			r.Count("log_store_reopened", 1)
			// B keeps using the old handle through its snapshotter: rebuild it
			nb, err := x.restart(1, bdisk, "snapshotting-restarted", cut)
			if nb == nil {
				if err != nil {
					x.fail("start-error", "snapshotting-restarted", cut, 0, tstate{}, tstate{}, err.Error())
				}
				return false
			}
			b = nb
			if x.kind == "ondisk" {
				bdisk = b.dsk.d
			}
		}
		// C: restart on the same file system
		var cdisk *disk
		if x.kind == "ondisk" {
			cdisk = bdisk.clone()
		}
		cr, err := x.restart(1, cdisk, "restart", cut)
		if cr == nil {
			if err != nil {
				x.fail("start-error", "restart", cut, 0, tstate{}, tstate{}, err.Error())
			}
			return false
		}
		if !x.suffix(cr, "restart", cut, 0) {
			return false
		}
		// D: follower installs the snapshot sent by B
		if x.rng.Intn(4) == 0 || len(x.pad) > 2*1024*1024 {
			if !x.follower(b, ss, cut) {
				return false
			}
		}
	}
	return true
}

// restart builds a fresh replica object for an existing replica id, starts it
// and checks that it comes back exactly at the cut.
func (x *twinCtx) restart(id uint64, d *disk, variant string, cut uint64) (*replica, error) {
	p, err := newReplica(x.env, x.kind, x.cfg(id), d, nil)
	if err != nil {
		return nil, err
	}
	idx, err := p.start()
	if err != nil {
		return nil, err
	}
	if idx != cut {
		x.fail("restart-index", variant, cut, 0, x.ref[cut], p.state(), fmt.Sprintf("restarted from snapshot index %d, the snapshot was taken at %d", idx, cut))
		return nil, nil
	}
	want := x.ref[cut]
	got := p.state()
	if x.kind == "ondisk" {
		// the on-disk data may legitimately be ahead of the snapshot
		want.User, want.SMHash, got.User, got.SMHash = "", 0, "", 0
	}
	if got != want {
		x.fail("state-at-cut-differs", variant, cut, 0, x.ref[cut], p.state(), "state right after recovering the snapshot differs from the uninterrupted replica at that index")
		return nil, nil
	}
	if len(p.m.node.restored) != 1 || membershipString(p.m.node.restored[0].Membership) != x.ref[cut].Membership {
		x.fail("restore-remotes", variant, cut, 0, x.ref[cut], got, fmt.Sprintf("RestoreRemotes called %d times", len(p.m.node.restored)))
		return nil, nil
	}
	return p, nil
}

// suffix feeds the entries after the cut and compares with the uninterrupted replica.
func (x *twinCtx) suffix(p *replica, variant string, cut uint64, extra int) bool {
	// like a real restart, hand over entries from the snapshot index on; a
	// prefix that overlaps what is already applied must be skipped
	from := int(cut)
	if from > 0 && x.rng.Intn(3) == 0 {
		from -= 1 + x.rng.Intn(min(3, from))
	}
	if err := p.m.feed(copyEntries(x.ents[from:]), randSizes(x.rng)); err != nil {
		x.fail("apply-error", variant, cut, extra, tstate{}, tstate{}, err.Error())
		return false
	}
	if got := p.state(); got != x.final {
		x.fail("final-state-differs", variant, cut, extra, x.final, got, "snapshot + suffix differs from full replay")
		return false
	}
	if p.kind == "ondisk" && p.dsk.reapplied != 0 {
		x.fail("ondisk-entry-reapplied", variant, cut, extra, x.final, p.state(), fmt.Sprintf("%d updates at or below the index the on-disk state machine reported from Open", p.dsk.reapplied))
		return false
	}
	x.r.Count("cuts_compared_"+x.kind, 1)
	x.r.Count("cuts_compared_"+variant, 1)
	return true
}

// compactionSafe checks that after Commit the snapshot recorded in the log
// store is on disk and valid, and that Compact / Shrink cannot remove it.
func (x *twinCtx) compactionSafe(b *replica, ss, prev pb.Snapshot, cut uint64) bool {
	rec, err := x.env.ldb.GetSnapshot(b.cfg.ShardID, b.cfg.ReplicaID)
	if err != nil || rec.Index != ss.Index {
		x.fail("record-after-commit", "compaction", cut, 0, tstate{}, tstate{Index: rec.Index}, fmt.Sprintf("log store records snapshot %d (%v) after commit of %d", rec.Index, err, ss.Index))
		return false
	}
	check := func(when string) bool {
		if _, err := x.env.fs.Stat(rec.Filepath); err != nil {
			x.fail("current-snapshot-removed", "compaction", cut, 0, tstate{}, tstate{}, fmt.Sprintf("%s: recorded snapshot file %s: %v", when, rec.Filepath, err))
			return false
		}
		if note := validateSnapshotFile(x.env.fs, rec.Filepath); note != "" {
			x.fail("current-snapshot-invalid", "compaction", cut, 0, tstate{}, tstate{}, when+": "+note)
			return false
		}
		return true
	}
	if !check("after commit") {
		return false
	}
	if !pb.IsEmptySnapshot(prev) {
		// CreateSnapshot released the previous snapshot; compacting it again is legal
		if err := b.snap.Compact(prev.Index); err != nil {
			x.fail("compact-error", "compaction", cut, 0, tstate{}, tstate{}, err.Error())
			return false
		}
		if _, err := x.env.fs.Stat(prev.Filepath); err == nil {
			x.fail("old-snapshot-not-removed", "compaction", cut, 0, tstate{}, tstate{}, prev.Filepath)
			return false
		}
		x.r.Count("compactions_checked", 1)
	}
	// compacting the current snapshot must be refused
	refused := func() (refused bool) {
		defer func() {
			if recover() != nil {
				refused = true
			}
		}()
		return b.snap.Compact(ss.Index) != nil
	}()
	if refused {
		x.r.Count("compact_of_current_refused", 1)
	}
	if !check("after Compact(current)") {
		return false
	}
	// Shrink of the current snapshot (a no-op for dummy snapshots) keeps it loadable
	if x.kind == "ondisk" {
		if err := b.snap.Shrink(ss.Index); err != nil {
			x.fail("shrink-error", "compaction", cut, 0, tstate{}, tstate{}, err.Error())
			return false
		}
		if !check("after Shrink(current)") {
			return false
		}
	}
	return true
}

// validateSnapshotFile runs the receiver's validator over the whole file.
func validateSnapshotFile(fs gvfs.FS, fp string) string {
	f, err := fs.Open(fp)
	if err != nil {
		return fmt.Sprintf("open %s: %v", fp, err)
	}
	defer f.Close()
	st, err := f.Stat()
	if err != nil {
		return err.Error()
	}
	data := make([]byte, st.Size())
	if _, err := f.ReadAt(data, 0); err != nil && int64(len(data)) != st.Size() {
		return err.Error()
	}
	note := ""
	func() {
		defer func() {
			if p := recover(); p != nil {
				note = fmt.Sprintf("validator panicked on %s: %v", fp, p)
			}
		}()
		v := rsm.NewSnapshotValidator()
		cs := int(transport.VerifSnapshotChunkSize)
		id := uint64(0)
		for off := 0; off < len(data) || id == 0; off += cs {
			end := off + cs
			if end > len(data) {
				end = len(data)
			}
			if !v.AddChunk(data[off:end], id) {
				note = fmt.Sprintf("validator refused chunk %d of %s (%d bytes)", id, fp, len(data))
				return
			}
			id++
		}
		if !v.Validate() {
			note = fmt.Sprintf("snapshot file %s (%d bytes) fails validation", fp, len(data))
		}
	}()
	return note
}

// follower: a fresh replica receives the snapshot of B at the cut through the
// real sender-side splitting / streaming and the real chunk receiver.
func (x *twinCtx) follower(b *replica, ss pb.Snapshot, cut uint64) bool {
	id := 2000 + cut
	d := newDisk()
	d.st.Pad = append([]byte(nil), x.pad...)
	f, err := newReplica(x.env, x.kind, x.cfg(id), d, x.pad)
	if err == nil {
		_, err = f.start()
	}
	if err != nil {
		x.fail("start-error", "follower", cut, 0, tstate{}, tstate{}, err.Error())
		return false
	}
	// the follower is a little behind: it has applied a prefix of the log
	behind := x.rng.Intn(int(cut))
	if err := f.m.feed(copyEntries(x.ents[:behind]), randSizes(x.rng)); err != nil {
		x.fail("apply-error", "follower", cut, 0, tstate{}, tstate{}, err.Error())
		return false
	}
	var received []pb.Snapshot
	recv := transport.NewChunk(func(mb pb.MessageBatch) {
		for _, m := range mb.Requests {
			received = append(received, m.Snapshot)
		}
	}, func(uint64, uint64, uint64) {}, snapDir, deploymentID, x.env.fs)
	variant := "follower-file"
	if x.kind == "ondisk" {
		variant = "follower-stream"
		sink := &chunkSink{to: id, recv: recv}
		if err := b.m.sm.Stream(sink); err != nil {
			x.fail("stream-error", variant, cut, 0, tstate{}, tstate{}, err.Error())
			return false
		}
		sink.deliver()
		if sink.refused > 0 {
			x.fail("chunk-refused", variant, cut, 0, tstate{}, tstate{}, fmt.Sprintf("%d streamed chunks refused by the receiver", sink.refused))
			return false
		}
		x.r.Count("snapshots_streamed", 1)
	} else {
		msg := pb.Message{Type: pb.InstallSnapshot, ShardID: twShard, From: 1, To: id, Snapshot: ss}
		chunks, err := transport.VerifSplitSnapshotMessage(msg, x.env.fs)
		if err != nil {
			x.fail("split-error", variant, cut, 0, tstate{}, tstate{}, err.Error())
			return false
		}
		for _, ch := range chunks {
			ch.DeploymentId = deploymentID
			data, err := transport.VerifLoadChunkData(ch, nil, x.env.fs)
			if err != nil {
				x.fail("split-error", variant, cut, 0, tstate{}, tstate{}, err.Error())
				return false
			}
			ch.Data = data
			if !recv.Add(ch) {
				x.fail("chunk-refused", variant, cut, 0, tstate{}, tstate{}, fmt.Sprintf("chunk %d/%d refused by the receiver", ch.ChunkId, ch.ChunkCount))
				return false
			}
		}
		x.r.Count("snapshots_sent_as_file", 1)
	}
	if len(received) != 1 || received[0].Index != cut {
		x.fail("snapshot-not-received", variant, cut, 0, tstate{}, tstate{}, fmt.Sprintf("%d snapshot messages delivered", len(received)))
		return false
	}
	in := received[0]
	// engine: SaveRaftState with the snapshot, remove the flag file, then
	// node.processSnapshot (LogReader.ApplySnapshot) and the recover task
	if err := x.env.ldb.SaveRaftState([]pb.Update{{ShardID: twShard, ReplicaID: id, Snapshot: in}}, 1); err != nil {
		x.fail("record-error", variant, cut, 0, tstate{}, tstate{}, err.Error())
		return false
	}
	if err := f.snap.RemoveFlagFile(in.Index); err != nil {
		x.fail("flag-file", variant, cut, 0, tstate{}, tstate{}, err.Error())
		return false
	}
	if err := f.lr.ApplySnapshot(in); err != nil {
		x.fail("apply-snapshot", variant, cut, 0, tstate{}, tstate{}, err.Error())
		return false
	}
	idx, err := f.recover(rsm.Task{Recover: true, Index: in.Index})
	if err != nil || idx != cut {
		x.fail("recover-error", variant, cut, 0, tstate{}, tstate{}, fmt.Sprintf("recovered index %d: %v", idx, err))
		return false
	}
	want, got := x.ref[cut], f.state()
	if x.kind == "ondisk" {
		// streamed snapshots of on-disk state machines carry no sessions by design
		want.Sessions, got.Sessions = 0, 0
	}
	if got != want {
		x.fail("state-at-cut-differs", variant, cut, 0, x.ref[cut], f.state(), "state right after installing the snapshot differs from the sender's at that index")
		return false
	}
	x.r.Count("snapshots_installed", 1)
	if x.kind == "ondisk" {
		shrunk, err := f.snap.Shrunk(in)
		if err != nil || !shrunk {
			x.fail("not-shrunk", variant, cut, 0, tstate{}, tstate{}, fmt.Sprintf("installed on-disk snapshot not shrunk: %v", err))
			return false
		}
		// restart of the follower from the shrunk snapshot + its disk
		f2, err := x.restart(id, f.dsk.d.clone(), variant+"-restart", cut)
		if f2 == nil {
			if err != nil {
				x.fail("start-error", variant+"-restart", cut, 0, tstate{}, tstate{}, err.Error())
			}
			return false
		}
		if !x.suffix(f2, variant+"-restart", cut, 0) {
			return false
		}
	}
	return x.suffix(f, variant, cut, 0)
}

// chunkSink queues the streamed chunks as handed over (no copy) and delivers
// them to the receiver once the writer is done, as the transport job does
// from its own goroutine: a chunk must not share its buffer with the writer.
type chunkSink struct {
	to      uint64
	recv    *transport.Chunk
	refused int
	queued  []pb.Chunk
}

func (s *chunkSink) Receive(c pb.Chunk) (bool, bool) {
	c.DeploymentId = deploymentID
	s.queued = append(s.queued, c)
	return true, false
}

func (s *chunkSink) deliver() {
	for _, c := range s.queued {
		if !s.recv.Add(c) {
			s.refused++
		}
	}
	s.queued = nil
}

func (s *chunkSink) Close() error        { return nil }
func (s *chunkSink) ShardID() uint64     { return twShard }
func (s *chunkSink) ToReplicaID() uint64 { return s.to }

// passConcurrent: snapshots that overlap with further updates.
//   - concurrent SM: more entries are applied from inside SaveSnapshot, after
//     PrepareSnapshot captured the state;
//   - on-disk SM: the replica keeps applying and syncing after the snapshot,
//     so at restart its disk is ahead of the snapshot;
//   - regular SM: nothing can overlap, the pass is skipped.
func (x *twinCtx) passConcurrent() bool {
	if x.kind == "regular" {
		return true
	}
	n := len(x.ents)
	b, bdisk, err := x.newB(2)
	if err != nil {
		x.fail("start-error", "overlap", 0, 0, tstate{}, tstate{}, err.Error())
		return false
	}
	all := copyEntries(x.ents)
	variant := map[string]string{"concurrent": "save-overlaps-updates", "ondisk": "disk-ahead-of-snapshot"}[x.kind]
	i := 0
	for i < n {
		step := 1 + x.rng.Intn(3)
		if i+step > n {
			step = n - i
		}
		if err := b.m.feed(all[i:i+step], randSizes(x.rng)); err != nil {
			x.fail("apply-error", variant, uint64(i), 0, tstate{}, tstate{}, err.Error())
			return false
		}
		i += step
		cut := uint64(i)
		extra := x.rng.Intn(4)
		if i+extra > n {
			extra = n - i
		}
		applyExtra := func() {
			if extra > 0 {
				if err := b.m.feed(all[i:i+extra], randSizes(x.rng)); err != nil {
					panic(fmt.Sprintf("apply during save: %v", err))
				}
			}
		}
		var queued sync.WaitGroup
		if x.kind == "concurrent" {
			if extra > 0 && x.rng.Intn(2) == 0 {
				// an apply batch is already waiting for the state machine's lock when PrepareSnapshot
				// returns: it runs right after the section that fixes index, sessions and image, before
				// anything else the save does
				b.con.onPrepare = func() {
					queued.Add(1)
					go func() {
						defer queued.Done()
						applyExtra()
					}()
					time.Sleep(2 * time.Millisecond)
				}
				x.r.Count("saves_with_an_apply_batch_queued_behind_PrepareSnapshot", 1)
			} else {
				b.con.onSave = applyExtra
			}
		}
		ss, err := b.save()
		queued.Wait()
		if err != nil {
			x.fail("save-error", variant, cut, extra, tstate{}, tstate{}, err.Error())
			return false
		}
		if x.kind == "concurrent" {
			b.con.onSave, b.con.onPrepare = nil, nil
		}
		if ss.Index != cut || ss.Term != x.ref[cut].Term {
			x.fail("snapshot-meta", variant, cut, extra, x.ref[cut], tstate{Index: ss.Index, Term: ss.Term}, "snapshot metadata differs from the state at PrepareSnapshot")
			return false
		}
		var cdisk *disk
		if x.kind == "ondisk" {
			applyExtra()
			if extra > 0 && x.rng.Intn(4) != 0 {
				// the node's periodic sync task
				b.m.sm.TaskQ().Add(rsm.Task{PeriodicSync: true})
				if _, err := b.m.sm.Handle(b.m.batch, b.m.apply); err != nil {
					x.fail("sync-error", variant, cut, extra, tstate{}, tstate{}, err.Error())
					return false
				}
			}
			cdisk = bdisk.clone()
			if cdisk.st.Last > cut {
				x.r.Count("restarts_with_disk_ahead", 1)
			}
		}
		i += extra
		if s := b.state(); s != x.ref[i] {
			x.fail("state-differs", variant, uint64(i), extra, x.ref[i], s, "the replica that takes snapshots differs from the uninterrupted one")
			return false
		}
		cr, err := x.restart(2, cdisk, variant, cut)
		if cr == nil {
			if err != nil {
				x.fail("start-error", variant, cut, extra, tstate{}, tstate{}, err.Error())
			}
			return false
		}
		if !x.suffix(cr, variant, cut, extra) {
			return false
		}
	}
	return true
}
