package main

import (
	"fmt"
	"math/rand"
	"regexp"
	"strings"

	"github.com/lni/dragonboat/v4/config"
	"github.com/lni/dragonboat/v4/internal/rsm"
	"github.com/lni/dragonboat/v4/internal/transport"
	pb "github.com/lni/dragonboat/v4/raftpb"
	"github.com/lni/dragonboat/v4/verifh/common"
	gvfs "github.com/lni/vfs"
)

// A scenario is one of the snapshot publication sequences of the real code,
// run on a crashFS with the real log store on the same file system.
type scenario struct {
	name string // save-commit | compact | receive | shrink | save-vs-receive
	kind string // state machine kind of the local replica
	ct   config.CompressionType
}

func (s scenario) String() string { return fmt.Sprintf("%s/%s/%v", s.name, s.kind, s.ct) }

// crashPlan is what every run of a scenario shares: the entry stream, the cut
// points and the expected state of an uninterrupted replica at each of them.
type crashPlan struct {
	sc     scenario
	ents   []pb.Entry
	m1     int // index of the snapshot that exists before the operation
	m2     int // applied index when the operation starts (index of the local snapshot being saved)
	x      int // index of the incoming snapshot
	cap    int
	pad    []byte
	ref    []tstate
	chunks []pb.Chunk // incoming snapshot as the sender would transmit it
}

type crashResult struct {
	n          int            // operations counted
	marks      map[string]int // milestone -> operations completed when it was reached
	site       opRec
	crashed    bool
	layout     []string
	violations int
}

type crashWitness struct {
	Scenario   string         `json:"scenario"`
	CrashAt    int            `json:"crash_before_op"`
	Ops        int            `json:"ops_in_sequence"`
	Site       opRec          `json:"crash_site"`
	Marks      map[string]int `json:"milestones_reached_after_op"`
	Before     uint64         `json:"snapshot_index_recorded_before"`
	Recorded   uint64         `json:"snapshot_index_recorded_after_restart"`
	PostCrash  []string       `json:"snapshot_dir_after_crash"`
	AfterStart []string       `json:"snapshot_dir_after_startup"`
	Trace      []opRec        `json:"ops_before_crash,omitempty"`
	Note       string         `json:"note"`
	PlanSeed   string         `json:"plan"`
}

func runSSCrash(r *common.Run) {
	r.SetRule("a case is (scenario, state machine kind, compression, k): the real save+commit / compact / receive+record+flag-removal+install / shrink / save-racing-receive " +
		"sequence is run on a strict in-memory file system with the real Pebble log store on it, and power is lost just before mutating file system operation k " +
		"(k = 1..N+1, N from a counting run; all unsynced data lost); non-trivial = the crash point was reached; distinct by scenario+k+crash site")
	r.Assume("a crash is modelled by StrictMem: from operation k on nothing becomes durable, then ResetToSyncedState; partially persisted unsynced data is not modelled")
	r.Assume("the on-disk state machine's own storage loses what it had not synced at the crash point")
	orig := rsm.LRUMaxSessionCount
	defer func() { rsm.LRUMaxSessionCount = orig }()

	var scs []scenario
	cts := []config.CompressionType{config.NoCompression, config.Snappy}
	for _, name := range []string{"save-commit", "compact", "receive", "save-vs-receive"} {
		for _, kind := range []string{"regular", "ondisk"} {
			for _, ct := range cts {
				scs = append(scs, scenario{name, kind, ct})
			}
		}
	}
	scs = append(scs, scenario{"shrink", "ondisk", config.NoCompression}, scenario{"shrink", "ondisk", config.Snappy},
		scenario{"save-commit", "concurrent", config.NoCompression}, scenario{"receive", "concurrent", config.Snappy})
	plans := r.Pick(24, 100) // different entry streams / cut points per scenario
	exhaustive := true
	layouts := map[string]bool{}
	caseNo := 0
	for pi := 0; pi < plans; pi++ {
		for si, sc := range scs {
			var plan *crashPlan
			var count *crashResult
			func() {
				defer func() {
					if p := recover(); p != nil {
						r.Violation("sscrash:panic-without-crash:"+sc.name+":"+normPanic(p), fmt.Sprintf("%s: panic in the fault free run: %v", sc, p),
							map[string]interface{}{"scenario": sc.String(), "panic": fmt.Sprintf("%v", p)})
					}
				}()
				plan = makePlan(rand.New(rand.NewSource(r.Seed*1000+int64(pi*100+si))), sc)
				count = plan.run(r, 0)
			}()
			if plan == nil || count == nil {
				exhaustive = false
				continue
			}
			r.Max("max_ops_in_sequence", int64(count.n))
			for k := 1; k <= count.n+1; k++ {
				caseNo++
				if caseNo%max(r.NBatch, 1) != r.Batch {
					continue
				}
				if replay.on && (replay.Scenario != sc.String() || replay.CrashAt != k) {
					continue
				}
				var res *crashResult
				func() {
					defer func() {
						if p := recover(); p != nil {
							r.Violation("sscrash:harness-panic:"+sc.name+":"+normPanic(p), fmt.Sprintf("%s k=%d: %v", sc, k, p),
								map[string]interface{}{"scenario": sc.String(), "k": k, "panic": fmt.Sprintf("%v", p)})
						}
					}()
					res = plan.run(r, k)
				}()
				if res == nil {
					exhaustive = false
					continue
				}
				if !res.crashed {
					exhaustive = false
					r.Count("crash_point_not_reached", 1)
				}
				r.Case(res.crashed, common.Hash(sc.String(), pi, k, res.site.Kind, res.site.Class))
				r.Count("crash_runs_"+sc.name, 1)
				if res.crashed {
					r.Count("site_"+res.site.Kind+"@"+res.site.Class, 1)
				}
				// one counter per distinct layout: the merged evidence then has as
				// many layout_* keys as there were distinct post-crash layouts
				lay := strings.Join(res.layout, "|")
				if res.crashed && r.WantSample() && k%5 == 2 {
					r.Sample(map[string]interface{}{"scenario": sc.String(), "crash_at_fs_op": k, "of_ops": count.n,
						"site": res.site.Kind + " @ " + res.site.Class, "layout_after_cleanup": res.layout})
				}
				layouts[lay] = true
				r.Count("layout_"+common.Hash(lay)[:8], 1)
			}
			r.Flush()
		}
	}
	var ls []string
	for l := range layouts {
		ls = append(ls, l)
	}
	sortStrings(ls)
	if len(ls) > 40 {
		ls = ls[:40]
	}
	r.SetExtra("post_crash_layouts_sample", ls)
	r.SetExhaustive(exhaustive)
}

func makePlan(rng *rand.Rand, sc scenario) *crashPlan {
	p := &crashPlan{sc: sc}
	p.cap = 4 + rng.Intn(3)
	rsm.LRUMaxSessionCount = uint64(p.cap)
	p.pad = makePad(rng, 3000+rng.Intn(9000))
	p.ents = genTwins(rng, 34, sc.kind, p.cap)
	boot := countBoot(p.ents)
	p.m1 = boot + 3 + rng.Intn(5)
	p.m2 = p.m1 + 4 + rng.Intn(6)
	p.x = p.m2 + 3 + rng.Intn(6)
	if p.x > len(p.ents) {
		p.x = len(p.ents)
	}
	// uninterrupted reference and the sender's snapshot, on an ordinary memory fs
	env, err := newTEnv(gvfs.NewMem())
	if err != nil {
		panic(err)
	}
	defer env.ldb.Close()
	d := newDisk()
	d.st.Pad = append([]byte(nil), p.pad...)
	a, err := newReplica(env, sc.kind, p.cfg(5), d, p.pad)
	if err != nil {
		panic(err)
	}
	if _, err := a.start(); err != nil {
		panic(err)
	}
	p.ref = make([]tstate, len(p.ents)+1)
	all := copyEntries(p.ents)
	for i := range all {
		if err := a.m.feed(all[i:i+1], nil); err != nil {
			panic(err)
		}
		p.ref[i+1] = a.state()
		if i+1 == p.x {
			if sc.kind == "ondisk" {
				sink := &collectSink{to: 1}
				if err := a.m.sm.Stream(sink); err != nil {
					panic(err)
				}
				p.chunks = sink.chunks
			} else {
				ss, err := a.save()
				if err != nil {
					panic(err)
				}
				msg := pb.Message{Type: pb.InstallSnapshot, ShardID: twShard, From: 5, To: 1, Snapshot: ss}
				chunks, err := transport.VerifSplitSnapshotMessage(msg, env.fs)
				if err != nil {
					panic(err)
				}
				for _, ch := range chunks {
					ch.DeploymentId = deploymentID
					if ch.Data, err = transport.VerifLoadChunkData(ch, nil, env.fs); err != nil {
						panic(err)
					}
					p.chunks = append(p.chunks, ch)
				}
			}
		}
	}
	return p
}

type collectSink struct {
	to     uint64
	chunks []pb.Chunk
}

func (s *collectSink) Receive(c pb.Chunk) (bool, bool) {
	c.DeploymentId = deploymentID
	s.chunks = append(s.chunks, c) // kept as handed over: chunks must not alias the writer's buffers

	return true, false
}
func (s *collectSink) Close() error        { return nil }
func (s *collectSink) ShardID() uint64     { return twShard }
func (s *collectSink) ToReplicaID() uint64 { return s.to }

func (p *crashPlan) cfg(replica uint64) config.Config {
	return config.Config{ShardID: twShard, ReplicaID: replica, SnapshotCompressionType: p.sc.ct}
}

var hexIdx = regexp.MustCompile(`snapshot-([0-9A-F]{16})`)

// layout is the directory tree with snapshot indexes replaced by their role.
func (p *crashPlan) layoutOf(t []string) []string {
	out := make([]string, len(t))
	for i, l := range t {
		out[i] = hexIdx.ReplaceAllStringFunc(l, func(m string) string {
			var v uint64
			fmt.Sscanf(m[len("snapshot-"):], "%X", &v)
			switch int(v) {
			case p.m1:
				return "snapshot-<old>"
			case p.m2:
				return "snapshot-<local>"
			case p.x:
				return "snapshot-<incoming>"
			}
			return "snapshot-<?>"
		})
	}
	return out
}

// run executes the scenario. k == 0: fault free counting run. k >= 1: power is
// lost just before operation k (k = n+1: after the last operation).
func (p *crashPlan) run(r *common.Run, k int) *crashResult {
	rsm.LRUMaxSessionCount = uint64(p.cap)
	sc := p.sc
	res := &crashResult{marks: map[string]int{}}
	cfs := newCrashFS()
	env, err := newTEnv(cfs)
	if err != nil {
		panic(err)
	}
	d := newDisk()
	d.st.Pad = append([]byte(nil), p.pad...)
	crashDisk := (*disk)(nil)
	local, err := newReplica(env, sc.kind, p.cfg(1), d, p.pad)
	if err != nil {
		panic(err)
	}
	if _, err := local.start(); err != nil {
		panic(err)
	}
	all := copyEntries(p.ents)
	must := func(err error) {
		if err != nil {
			panic(fmt.Sprintf("%s: %v", sc, err))
		}
	}
	mark := func(name string) { res.marks[name] = cfs.opCount() }
	must(local.m.feed(all[:p.m1], nil))
	_, err = local.save()
	must(err)
	must(local.m.feed(all[p.m1:p.m2], randSizes(rand.New(rand.NewSource(int64(p.m2))))))
	before := uint64(p.m1)

	recv := func() pb.Snapshot {
		var got []pb.Snapshot
		rc := transport.NewChunk(func(mb pb.MessageBatch) {
			for _, m := range mb.Requests {
				got = append(got, m.Snapshot)
			}
		}, func(uint64, uint64, uint64) {}, snapDir, deploymentID, env.fs)
		for _, ch := range p.chunks {
			if !rc.Add(ch) {
				panic(fmt.Sprintf("%s: chunk %d refused", sc, ch.ChunkId))
			}
		}
		if len(got) != 1 {
			panic(fmt.Sprintf("%s: %d snapshots received", sc, len(got)))
		}
		return got[0]
	}
	record := func(in pb.Snapshot) {
		must(env.ldb.SaveRaftState([]pb.Update{{ShardID: twShard, ReplicaID: 1, Snapshot: in}}, 1))
	}
	arm := func() { cfs.arm(k) }
	cfs.onCrash = func() { crashDisk = d.clone() }
	acked := uint64(0) // index whose record was acknowledged as durable before the crash point
	ackIf := func(markName string, idx int) {
		if k == 0 || res.marks[markName] < k {
			// the milestone was reached before operation k started
			if k != 0 {
				acked = uint64(idx)
			}
		}
	}
	switch sc.name {
	case "save-commit":
		arm()
		ss, _, err := local.m.sm.Save(rsm.SSRequest{})
		must(err)
		mark("saved")
		must(local.snap.Commit(ss, rsm.SSRequest{}))
		mark("committed")
		ackIf("committed", p.m2)
	case "compact":
		ss, _, err := local.m.sm.Save(rsm.SSRequest{})
		must(err)
		must(local.snap.Commit(ss, rsm.SSRequest{}))
		before = uint64(p.m2)
		arm()
		must(local.lr.CreateSnapshot(ss))
		mark("compacted")
	case "receive":
		arm()
		in := recv()
		mark("finalized")
		record(in)
		mark("recorded")
		ackIf("recorded", p.x)
		must(local.snap.RemoveFlagFile(in.Index))
		mark("flag-removed")
		must(local.lr.ApplySnapshot(in))
		mark("old-compacted")
		_, err := local.recover(rsm.Task{Recover: true, Index: in.Index})
		must(err)
		mark("installed")
	case "shrink":
		in := recv()
		record(in)
		must(local.snap.RemoveFlagFile(in.Index))
		must(local.lr.ApplySnapshot(in))
		ss, err := local.m.sm.Recover(rsm.Task{Recover: true, Index: in.Index})
		must(err)
		must(local.m.sm.Sync())
		before = uint64(p.x)
		arm()
		must(local.snap.Shrink(ss.Index))
		mark("shrunk")
		must(ss.Unref())
	case "save-vs-receive":
		// a snapshot from the leader arrives while a local save is in progress
		arm()
		ss, _, err := local.m.sm.Save(rsm.SSRequest{})
		must(err)
		mark("saved")
		in := recv()
		mark("finalized")
		record(in)
		mark("recorded")
		ackIf("recorded", p.x)
		must(local.snap.RemoveFlagFile(in.Index))
		mark("flag-removed")
		if err := local.snap.Commit(ss, rsm.SSRequest{}); err != nil {
			panic(fmt.Sprintf("%s: commit: %v", sc, err))
		}
		mark("committed")
		if err := local.lr.CreateSnapshot(ss); err != nil {
			panic(fmt.Sprintf("%s: create: %v", sc, err))
		}
		must(local.lr.ApplySnapshot(in))
	default:
		panic("unknown scenario " + sc.name)
	}
	res.n = cfs.opCount()
	if k == 0 {
		cfs.disarm()
		_ = env.ldb.Close()
		return res
	}
	if k > res.n {
		cfs.powerOff()
	}
	res.crashed = cfs.crashed
	res.site = cfs.site
	trace := append([]opRec(nil), cfs.ops...)
	if k-1 < len(trace) {
		trace = trace[:k-1]
	}
	if len(trace) > 25 {
		trace = trace[len(trace)-25:]
	}
	_ = env.ldb.Close()
	if crashDisk == nil {
		crashDisk = d.clone()
	}
	cfs.reboot()

	// ---- restart ----
	postCrash := tree(cfs, snapDir(twShard, 1))
	res.layout = p.layoutOf(postCrash)
	w := crashWitness{Scenario: sc.String(), CrashAt: k, Ops: res.n, Site: res.site, Marks: res.marks, Before: before, PostCrash: postCrash, Trace: trace,
		PlanSeed: fmt.Sprintf("m1=%d m2=%d x=%d pad=%d cap=%d entries=%d", p.m1, p.m2, p.x, len(p.pad), p.cap, len(p.ents))}
	fail := func(key, note string) {
		res.violations++
		w.Note = note
		w.AfterStart = tree(cfs, snapDir(twShard, 1))
		r.Violation("sscrash:"+sc.name+":"+key+":crash-before-"+res.site.Kind+"@"+res.site.Class, fmt.Sprintf("%s crash before op %d/%d (%s %s): %s", sc, k, res.n, res.site.Kind, res.site.Class, note), w)
	}
	env2, err := newTEnv(cfs)
	if err != nil {
		fail("log-store-does-not-reopen", err.Error())
		return res
	}
	defer env2.ldb.Close()
	var np *replica
	var startIdx uint64
	func() {
		defer func() {
			if pv := recover(); pv != nil {
				np = nil
				fail("restart-panics", fmt.Sprintf("start-up panicked: %v", pv))
			}
		}()
		np, err = newReplica(env2, sc.kind, p.cfg(1), crashDisk, nil)
		if err == nil {
			startIdx, err = np.start()
		}
		if err != nil {
			np = nil
			fail("restart-fails", fmt.Sprintf("start-up failed: %v", err))
		}
	}()
	if np == nil {
		return res
	}
	rec, err := env2.ldb.GetSnapshot(twShard, 1)
	if err != nil {
		fail("record-unreadable", err.Error())
		return res
	}
	w.Recorded = rec.Index
	if rec.Index < before {
		fail("recorded-snapshot-older-than-before", fmt.Sprintf("log store records snapshot %d, before the operation it recorded %d", rec.Index, before))
		return res
	}
	if rec.Index < acked {
		fail("acknowledged-record-lost", fmt.Sprintf("log store records snapshot %d, but the record of %d had been acknowledged before the crash point", rec.Index, acked))
		return res
	}
	if int(rec.Index) != p.m1 && int(rec.Index) != p.m2 && int(rec.Index) != p.x {
		fail("unknown-recorded-index", fmt.Sprintf("recorded index %d", rec.Index))
		return res
	}
	// directory contents after the start-up cleanup
	after := tree(cfs, snapDir(twShard, 1))
	w.AfterStart = after
	names, _ := cfs.List(snapDir(twShard, 1))
	wantDir := fmt.Sprintf("snapshot-%016X", rec.Index)
	seen := false
	for _, nme := range names {
		switch {
		case nme == wantDir:
			seen = true
		case strings.HasSuffix(nme, ".generating") || strings.HasSuffix(nme, ".receiving"):
			fail("temp-dir-left", "temporary directory "+nme+" survives the start-up cleanup")
			return res
		default:
			fail("unrecorded-dir-left", "directory entry "+nme+" survives the start-up cleanup; the log store records "+wantDir)
			return res
		}
	}
	if !seen {
		fail("recorded-snapshot-dir-missing", "the log store records "+wantDir+" but the directory does not exist")
		return res
	}
	files, _ := cfs.List(cfs.PathJoin(snapDir(twShard, 1), wantDir))
	hasFile := false
	for _, f := range files {
		switch {
		case f == fmt.Sprintf("snapshot-%016X.gbsnap", rec.Index):
			hasFile = true
		case f == "dragonboat.snapshot.message":
			fail("flag-file-left", "flag file survives the start-up cleanup in "+wantDir)
			return res
		case strings.HasSuffix(f, ".shrunk"):
			fail("shrunk-temp-file-left", "shrink-in-progress file "+f+" survives the start-up")
			return res
		}
	}
	if !hasFile {
		fail("recorded-snapshot-file-missing", "no snapshot file in "+wantDir)
		return res
	}
	if note := validateSnapshotFile(cfs, rec.Filepath); note != "" {
		fail("recorded-snapshot-invalid", note)
		return res
	}
	// the replica is back at the recorded snapshot with the state of that index
	if startIdx != rec.Index {
		fail("restart-index", fmt.Sprintf("replica restarted at %d, log store records %d", startIdx, rec.Index))
		return res
	}
	want, got := p.ref[rec.Index], np.state()
	if sc.kind == "ondisk" {
		// data lives in the state machine's own storage, possibly ahead of the snapshot
		if crashDisk.st.Last < rec.OnDiskIndex {
			fail("ondisk-data-behind-snapshot", fmt.Sprintf("on-disk state machine is at %d, recorded snapshot needs %d", crashDisk.st.Last, rec.OnDiskIndex))
			return res
		}
		want.User, want.SMHash, got.User, got.SMHash = "", 0, "", 0
		want.Sessions, got.Sessions = 0, 0
	}
	if got != want {
		fail("state-after-restart-differs", fmt.Sprintf("state after restart %+v, uninterrupted replica at %d had %+v", got, rec.Index, want))
		return res
	}
	// and it can go on: the suffix leads to the same final state
	if err := np.m.feed(copyEntries(p.ents[rec.Index:]), nil); err != nil {
		fail("suffix-apply-error", err.Error())
		return res
	}
	if got := np.state(); got != p.ref[len(p.ents)] {
		if !(sc.kind == "ondisk" && rec.Index == uint64(p.x) && stateEqualButSessions(got, p.ref[len(p.ents)])) {
			fail("final-state-differs", fmt.Sprintf("after the suffix: %+v, uninterrupted %+v", got, p.ref[len(p.ents)]))
			return res
		}
	}
	r.Count(fmt.Sprintf("recovered_%s_at_%s", sc.name, map[int]string{p.m1: "old", p.m2: "local", p.x: "incoming"}[int(rec.Index)]), 1)
	r.Count("recoveries_checked", 1)
	return res
}

func stateEqualButSessions(a, b tstate) bool {
	a.Sessions, b.Sessions = 0, 0
	return a == b
}
