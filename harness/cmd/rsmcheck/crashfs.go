package main

import (
	"fmt"
	"io"
	"os"
	"regexp"
	"strings"
	"sync"

	gvfs "github.com/lni/vfs"
)

// crashFS wraps a strict in-memory file system. While armed it numbers every
// mutating operation (1, 2, ...). When operation number crashAt is about to
// run, syncs are switched off on the underlying StrictMem: from that moment
// nothing becomes durable any more, which is what a power loss just before
// that operation means once ResetToSyncedState is called. The code under test
// keeps running on volatile state until it returns; then crash() discards
// everything unsynced.
type crashFS struct {
	*gvfs.MemFS
	mu            sync.Mutex
	armed         bool
	n             int
	crashAt       int
	crashed       bool
	ops           []opRec
	site          opRec
	namesRepaired int
	onCrash       func() // called at the crash instant (other storage loses its unsynced state too)
}

type opRec struct {
	Kind  string `json:"op"`
	Class string `json:"path_class"`
	Path  string `json:"path,omitempty"`
}

func newCrashFS() *crashFS {
	return &crashFS{MemFS: gvfs.NewStrictMem()}
}

var (
	reGen   = regexp.MustCompile(`/snapshot-[0-9A-F]+-[0-9]+\.generating(/(.*))?$`)
	reRecv  = regexp.MustCompile(`/snapshot-[0-9A-F]+-[0-9]+\.receiving(/(.*))?$`)
	reFinal = regexp.MustCompile(`/snapshot-[0-9A-F]+(/(.*))?$`)
)

func fileClass(name string) string {
	switch {
	case name == "":
		return "dir"
	case strings.HasSuffix(name, ".gbsnap"):
		return "snapshot-file"
	case strings.HasSuffix(name, ".shrunk"):
		return "shrunk-file"
	case name == "dragonboat.snapshot.message":
		return "flag-file"
	case name == "snapshot.metadata":
		return "metadata-file"
	}
	return "other-file"
}

func pathClass(p string) string {
	switch {
	case strings.HasPrefix(p, "/data/logdb"):
		base := p[strings.LastIndex(p, "/")+1:]
		switch {
		case p == "/data/logdb" || !strings.Contains(base, "."):
			if strings.HasPrefix(base, "MANIFEST") || strings.HasPrefix(base, "CURRENT") || strings.HasPrefix(base, "OPTIONS") {
				return "logstore:meta"
			}
			return "logstore:dir"
		case strings.HasSuffix(base, ".log"):
			return "logstore:wal"
		case strings.HasSuffix(base, ".sst"):
			return "logstore:sst"
		}
		return "logstore:meta"
	case reGen.MatchString(p):
		return "generating:" + fileClass(reGen.FindStringSubmatch(p)[2])
	case reRecv.MatchString(p):
		return "receiving:" + fileClass(reRecv.FindStringSubmatch(p)[2])
	case strings.HasPrefix(p, "/data/snapshot/") && reFinal.MatchString(p):
		return "final:" + fileClass(reFinal.FindStringSubmatch(p)[2])
	case strings.HasPrefix(p, "/data/snapshot"):
		return "snapshot-root"
	}
	return "other"
}

func (c *crashFS) arm(crashAt int) {
	c.mu.Lock()
	c.armed, c.n, c.crashAt, c.crashed, c.ops = true, 0, crashAt, false, nil
	c.mu.Unlock()
}

func (c *crashFS) disarm() int {
	c.mu.Lock()
	defer c.mu.Unlock()
	c.armed = false
	return c.n
}

// opCount returns the number of operations seen since arm.
func (c *crashFS) opCount() int {
	c.mu.Lock()
	defer c.mu.Unlock()
	return c.n
}

func (c *crashFS) op(kind, path string) {
	c.mu.Lock()
	defer c.mu.Unlock()
	if !c.armed {
		return
	}
	c.n++
	rec := opRec{Kind: kind, Class: pathClass(path), Path: path}
	c.ops = append(c.ops, rec)
	if c.n == c.crashAt && !c.crashed {
		c.crashed = true
		c.site = rec
		c.MemFS.SetIgnoreSyncs(true)
		if c.onCrash != nil {
			c.onCrash()
		}
	}
}

// powerOff makes everything from now on volatile (a crash after the last
// operation of the sequence).
func (c *crashFS) powerOff() {
	c.mu.Lock()
	defer c.mu.Unlock()
	if !c.crashed {
		c.crashed = true
		c.site = opRec{Kind: "end-of-sequence", Class: "none"}
		c.MemFS.SetIgnoreSyncs(true)
		if c.onCrash != nil {
			c.onCrash()
		}
	}
}

// reboot discards everything that was not synced and makes the file system
// usable again.
func (c *crashFS) reboot() {
	c.mu.Lock()
	c.armed = false
	c.mu.Unlock()
	c.MemFS.ResetToSyncedState()
	c.MemFS.SetIgnoreSyncs(false)
	c.repairNames("/")
}

// repairNames fixes an artefact of StrictMem: a node keeps the name given by
// its last Rename even when ResetToSyncedState puts it back under its old
// directory entry, so Stat(path).Name() may differ from the entry's name. On a
// real file system the name is the directory entry. Renaming an entry to
// itself makes the two agree again without changing the tree.
func (c *crashFS) repairNames(dir string) {
	names, err := c.MemFS.List(dir)
	if err != nil {
		return
	}
	for _, n := range names {
		p := c.MemFS.PathJoin(dir, n)
		st, err := c.MemFS.Stat(p)
		if err != nil {
			continue
		}
		if st.Name() != n {
			_ = c.MemFS.Rename(p, p)
			c.namesRepaired++
		}
		if st.IsDir() {
			c.repairNames(p)
		}
	}
}

func (c *crashFS) Create(name string) (gvfs.File, error) {
	c.op("create", name)
	f, err := c.MemFS.Create(name)
	if err != nil {
		return nil, err
	}
	return &crashFile{File: f, fs: c, path: name}, nil
}

func (c *crashFS) Link(oldname, newname string) error {
	c.op("link", newname)
	return c.MemFS.Link(oldname, newname)
}

func (c *crashFS) Open(name string, opts ...gvfs.OpenOption) (gvfs.File, error) {
	f, err := c.MemFS.Open(name, opts...)
	if err != nil {
		return nil, err
	}
	return &crashFile{File: f, fs: c, path: name}, nil
}

func (c *crashFS) OpenDir(name string) (gvfs.File, error) {
	f, err := c.MemFS.OpenDir(name)
	if err != nil {
		return nil, err
	}
	return &crashFile{File: f, fs: c, path: name, dir: true}, nil
}

func (c *crashFS) OpenForAppend(name string) (gvfs.File, error) {
	f, err := c.MemFS.OpenForAppend(name)
	if err != nil {
		return nil, err
	}
	return &crashFile{File: f, fs: c, path: name}, nil
}

func (c *crashFS) Remove(name string) error {
	c.op("remove", name)
	return c.MemFS.Remove(name)
}

func (c *crashFS) RemoveAll(name string) error {
	c.op("removeall", name)
	return c.MemFS.RemoveAll(name)
}

func (c *crashFS) Rename(oldname, newname string) error {
	c.op("rename", newname)
	return c.MemFS.Rename(oldname, newname)
}

func (c *crashFS) ReuseForWrite(oldname, newname string) (gvfs.File, error) {
	c.op("reuse", newname)
	f, err := c.MemFS.ReuseForWrite(oldname, newname)
	if err != nil {
		return nil, err
	}
	return &crashFile{File: f, fs: c, path: newname}, nil
}

func (c *crashFS) MkdirAll(dir string, perm os.FileMode) error {
	c.op("mkdir", dir)
	return c.MemFS.MkdirAll(dir, perm)
}

func (c *crashFS) Lock(name string) (io.Closer, error) {
	return c.MemFS.Lock(name)
}

type crashFile struct {
	gvfs.File
	fs   *crashFS
	path string
	dir  bool
}

func (f *crashFile) Write(p []byte) (int, error) {
	f.fs.op("write", f.path)
	return f.File.Write(p)
}

func (f *crashFile) WriteAt(p []byte, off int64) (int, error) {
	f.fs.op("writeat", f.path)
	return f.File.WriteAt(p, off)
}

func (f *crashFile) Sync() error {
	if f.dir {
		f.fs.op("syncdir", f.path)
	} else {
		f.fs.op("sync", f.path)
	}
	return f.File.Sync()
}

// tree lists everything below dir, one line per entry, for layouts and witnesses.
func tree(fs gvfs.FS, dir string) []string {
	var out []string
	var walk func(d, indent string)
	walk = func(d, indent string) {
		names, err := fs.List(d)
		if err != nil {
			out = append(out, fmt.Sprintf("%s<%v>", indent, err))
			return
		}
		sortStrings(names)
		for _, n := range names {
			p := fs.PathJoin(d, n)
			st, err := fs.Stat(p)
			if err != nil {
				out = append(out, fmt.Sprintf("%s%s <%v>", indent, n, err))
				continue
			}
			if st.IsDir() {
				out = append(out, indent+n+"/")
				walk(p, indent+"  ")
			} else {
				out = append(out, fmt.Sprintf("%s%s", indent, n))
			}
		}
	}
	walk(dir, "")
	return out
}

func sortStrings(s []string) {
	for i := 1; i < len(s); i++ {
		for j := i; j > 0 && s[j] < s[j-1]; j-- {
			s[j], s[j-1] = s[j-1], s[j]
		}
	}
}
