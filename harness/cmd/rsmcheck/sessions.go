package main

import (
	"fmt"
	"math/rand"

	"github.com/lni/dragonboat/v4/client"
	"github.com/lni/dragonboat/v4/config"
	"github.com/lni/dragonboat/v4/internal/rsm"
	pb "github.com/lni/dragonboat/v4/raftpb"
	sm "github.com/lni/dragonboat/v4/statemachine"
	"github.com/lni/dragonboat/v4/verifh/common"
)

// ---------------------------------------------------------------------------
// entry streams

// went is the written-out form of an entry for witnesses and samples.
type went struct {
	I      uint64 `json:"i"`
	T      uint64 `json:"t"`
	Kind   string `json:"kind"`
	Client uint64 `json:"client,omitempty"`
	Series uint64 `json:"series,omitempty"`
	Resp   uint64 `json:"resp,omitempty"`
	Key    uint64 `json:"key,omitempty"`
	Cmd    string `json:"cmd,omitempty"`
	CC     string `json:"cc,omitempty"`
	Class  string `json:"class,omitempty"`
}

func describe(ents []pb.Entry, classes []string) []went {
	o := make([]went, len(ents))
	for i, e := range ents {
		w := went{I: e.Index, T: e.Term, Client: e.ClientID, Series: e.SeriesID, Resp: e.RespondedTo, Key: e.Key}
		switch {
		case e.IsConfigChange():
			var cc pb.ConfigChange
			pb.MustUnmarshal(&cc, e.Cmd)
			w.Kind, w.CC = "cc", ccString(cc)
			w.Client, w.Series, w.Resp = 0, 0, 0
		case e.IsNewSessionRequest():
			w.Kind, w.Series = "register", 0
		case e.IsEndOfSessionRequest():
			w.Kind, w.Series = "unregister", 0
		case !e.IsSessionManaged():
			w.Kind = "empty"
		case e.IsNoOPSession():
			w.Kind, w.Cmd = "noop-session", string(e.Cmd)
		default:
			w.Kind, w.Cmd = "propose", string(e.Cmd)
		}
		if classes != nil {
			w.Class = classes[i]
		}
		o[i] = w
	}
	return o
}

func bootEntry(index uint64, id uint64, addr string) pb.Entry {
	cc := pb.ConfigChange{Type: pb.AddNode, ReplicaID: id, Initialize: true, Address: addr}
	return pb.Entry{Type: pb.ConfigChangeEntry, Term: 1, Index: index, Cmd: pb.MustMarshal(&cc)}
}

type gclient struct {
	id        uint64
	series    uint64
	responded uint64
	pending   *pb.Entry
	issued    []pb.Entry
	reg       pb.Entry
	gone      bool
}

// genSessions draws a stream of register / propose / retry / acknowledge /
// unregister operations of more clients than the session limit.
func genSessions(rng *rand.Rand, n int, cap int) []pb.Entry {
	var ents []pb.Entry
	term := uint64(1)
	nextKey := uint64(1000)
	emit := func(e pb.Entry) {
		if rng.Intn(12) == 0 {
			term++
		}
		e.Index = uint64(len(ents) + 1)
		e.Term = term
		nextKey++
		e.Key = nextKey
		ents = append(ents, e)
	}
	boot := 1 + rng.Intn(3)
	for i := 0; i < boot; i++ {
		ents = append(ents, bootEntry(uint64(i+1), uint64(i+1), fmt.Sprintf("h%d:1", i+1)))
	}
	maxClients := cap + 2 + rng.Intn(5)
	var clients []*gclient
	var all []pb.Entry // every proposal ever issued (emitted or held back)
	uniq := 0
	register := func() {
		c := &gclient{id: uint64(100 + len(clients)*7 + rng.Intn(5)), series: client.SeriesIDFirstProposal}
		c.reg = pb.Entry{ClientID: c.id, SeriesID: client.SeriesIDForRegister}
		clients = append(clients, c)
		emit(c.reg)
	}
	for len(ents) < n {
		if len(clients) < 2 {
			register()
			continue
		}
		c := clients[rng.Intn(len(clients))]
		// recently created clients are picked more often so that old ones age out
		if rng.Intn(3) == 0 {
			c = clients[len(clients)-1-rng.Intn(min(3, len(clients)))]
		}
		switch p := rng.Intn(100); {
		case p < 12:
			if len(clients) < maxClients {
				register()
			}
		case p < 50: // next proposal (acknowledging the previous one first)
			if c.pending != nil {
				c.responded = c.series
				c.series++
				c.pending = nil
			}
			uniq++
			e := pb.Entry{ClientID: c.id, SeriesID: c.series, RespondedTo: c.responded,
				Cmd: []byte(fmt.Sprintf("c%d/s%d/u%d", c.id, c.series, uniq))}
			c.pending = &e
			c.issued = append(c.issued, e)
			all = append(all, e)
			if rng.Intn(100) < 85 {
				emit(e)
			}
		case p < 66: // retry of the proposal in flight
			if c.pending != nil {
				emit(*c.pending)
			}
		case p < 80: // a copy of any earlier proposal arrives late
			if len(all) > 0 {
				emit(all[rng.Intn(len(all))])
			}
		case p < 84:
			if !c.gone {
				c.gone = true
				emit(pb.Entry{ClientID: c.id, SeriesID: client.SeriesIDForUnregister})
			}
		case p < 86: // the registration itself is retried
			emit(c.reg)
		case p < 91:
			uniq++
			emit(pb.Entry{ClientID: uint64(5000 + rng.Intn(3)), SeriesID: client.NoOPSeriesID,
				Cmd: []byte(fmt.Sprintf("noop/u%d", uniq))})
		case p < 94:
			emit(pb.Entry{}) // leader's empty entry
		case p < 97: // a client that never registered
			uniq++
			emit(pb.Entry{ClientID: uint64(9000 + rng.Intn(2)), SeriesID: uint64(1 + rng.Intn(3)),
				Cmd: []byte(fmt.Sprintf("ghost/u%d", uniq))})
		default: // duplicate of an unregister
			if c.gone {
				emit(pb.Entry{ClientID: c.id, SeriesID: client.SeriesIDForUnregister})
			}
		}
	}
	return ents
}

// ---------------------------------------------------------------------------
// reference model of the session table

type msess struct {
	hist      map[uint64]sm.Result
	responded uint64
}

type smodel struct {
	cap       int
	order     []uint64 // least recently used first
	sess      map[uint64]*msess
	evicted   map[uint64]bool
	known     map[uint64]bool
	regs      map[uint64]int
	kv        *kvState
	applied   []call
	evictions int
}

func newSModel(cap int) *smodel {
	return &smodel{cap: cap, sess: map[uint64]*msess{}, evicted: map[uint64]bool{}, known: map[uint64]bool{},
		regs: map[uint64]int{}, kv: newKV()}
}

func (m *smodel) touch(id uint64) {
	for i, v := range m.order {
		if v == id {
			m.order = append(append(m.order[:i:i], m.order[i+1:]...), id)
			return
		}
	}
}

func (m *smodel) drop(id uint64) {
	for i, v := range m.order {
		if v == id {
			m.order = append(m.order[:i:i], m.order[i+1:]...)
		}
	}
	delete(m.sess, id)
}

// step predicts what the state machine does with one non config change entry.
func (m *smodel) step(e pb.Entry) (out, string) {
	o := out{Called: true, Key: e.Key, Calls: 1}
	apply := func() sm.Result {
		m.applied = append(m.applied, call{e.Index, string(e.Cmd)})
		return m.kv.apply(e.Index, e.Cmd)
	}
	switch {
	case !e.IsSessionManaged():
		o.Ignored = true
		return o, "empty"
	case e.IsNewSessionRequest():
		if _, ok := m.sess[e.ClientID]; ok {
			m.touch(e.ClientID)
			o.Rejected = true
			return o, "register-existing"
		}
		m.sess[e.ClientID] = &msess{hist: map[uint64]sm.Result{}}
		m.order = append(m.order, e.ClientID)
		m.known[e.ClientID] = true
		m.regs[e.ClientID]++
		delete(m.evicted, e.ClientID)
		for len(m.order) > m.cap {
			v := m.order[0]
			m.drop(v)
			m.evicted[v] = true
			m.evictions++
		}
		o.Value = e.ClientID
		return o, "register"
	case e.IsEndOfSessionRequest():
		if _, ok := m.sess[e.ClientID]; !ok {
			o.Rejected = true
			return o, "unregister-missing"
		}
		m.drop(e.ClientID)
		o.Value = e.ClientID
		return o, "unregister"
	case e.IsNoOPSession():
		r := apply()
		o.Value, o.Data = r.Value, string(r.Data)
		return o, "noop-session"
	}
	s, ok := m.sess[e.ClientID]
	if !ok {
		o.Rejected = true
		if m.evicted[e.ClientID] {
			return o, "evicted-session"
		}
		return o, "unregistered"
	}
	m.touch(e.ClientID)
	if e.RespondedTo > s.responded {
		s.responded = e.RespondedTo
		for k := range s.hist {
			if k <= s.responded {
				delete(s.hist, k)
			}
		}
	}
	if e.SeriesID <= s.responded {
		return out{}, "duplicate-after-ack"
	}
	if r, ok := s.hist[e.SeriesID]; ok {
		o.Value, o.Data = r.Value, string(r.Data)
		return o, "duplicate-before-ack"
	}
	r := apply()
	s.hist[e.SeriesID] = r
	o.Value, o.Data = r.Value, string(r.Data)
	return o, "fresh"
}

// ---------------------------------------------------------------------------
// the check

type sessWitness struct {
	Case    int    `json:"case"`
	Cap     int    `json:"lru_max_session_count"`
	Index   uint64 `json:"index,omitempty"`
	Cut     uint64 `json:"cut,omitempty"`
	Class   string `json:"class,omitempty"`
	Want    string `json:"want,omitempty"`
	Got     string `json:"got,omitempty"`
	Entries []went `json:"entries"`
}

func sessCfg() config.Config {
	return config.Config{ShardID: 1, ReplicaID: 1}
}

func randSizes(rng *rand.Rand) []int {
	k := 1 + rng.Intn(6)
	s := make([]int, k)
	for i := range s {
		s[i] = 1 + rng.Intn(5)
		if rng.Intn(4) == 0 {
			s[i] = -s[i]
		}
	}
	return s
}

func runSessions(r *common.Run) {
	r.SetRule("a case is one PRNG stream of 50-80 entries (bootstrap config changes, register / propose / retry / late copy / " +
		"acknowledge through RespondedTo / unregister of cap+2..cap+6 clients, cap=LRUMaxSessionCount in 4..8, no-op session and " +
		"empty entries); non-trivial = the model saw >=1 duplicate-before-ack, >=1 duplicate-after-ack and >=1 eviction; distinct by hash of the entry stream")
	r.Assume("client ids are reused only by a retried registration entry; series ids follow client.Session (RespondedTo = SeriesID-1)")
	r.Assume("the least-recently-used order of the model mirrors goutils/cache (Get and Add touch, save walks LRU first)")
	total := r.Pick(10000, 200000)
	orig := rsm.LRUMaxSessionCount
	defer func() { rsm.LRUMaxSessionCount = orig }()
	for _, c := range r.MyCases(total) {
		if !wanted(c) {
			continue
		}
		func() {
			defer func() {
				if p := recover(); p != nil {
					r.Violation("sessions:panic:"+normPanic(p), fmt.Sprintf("case %d: panic %v", c, p),
						map[string]interface{}{"case": c, "panic": fmt.Sprintf("%v", p)})
				}
			}()
			sessionsCase(r, c)
		}()
		if c%500 == 0 {
			r.Flush()
		}
	}
}

func sessionsCase(r *common.Run, c int) {
	rng := r.Rand("sessions", c)
	cap := 4 + rng.Intn(5)
	rsm.LRUMaxSessionCount = uint64(cap)
	n := 50 + rng.Intn(31)
	ents := genSessions(rng, n, cap)
	n = len(ents)

	// model
	m := newSModel(cap)
	want := make([]out, n)
	classes := make([]string, n)
	nboot := 0
	for i, e := range ents {
		if e.IsConfigChange() {
			classes[i] = "bootstrap"
			nboot++
			continue
		}
		want[i], classes[i] = m.step(e)
	}
	counts := map[string]int{}
	for _, cl := range classes {
		counts[cl]++
	}
	nontrivial := counts["duplicate-before-ack"] > 0 && counts["duplicate-after-ack"] > 0 && m.evictions > 0
	var hparts []interface{}
	for _, e := range ents {
		hparts = append(hparts, e.Index, e.Term, e.ClientID, e.SeriesID, e.RespondedTo, e.Cmd)
	}
	hparts = append(hparts, cap)
	r.Case(nontrivial, common.Hash(hparts...))
	for cl, k := range counts {
		r.Count("entries_"+cl, int64(k))
	}
	r.Count("evictions", int64(m.evictions))
	wit := func(idx uint64, cut uint64, class, w, g string) sessWitness {
		return sessWitness{Case: c, Cap: cap, Index: idx, Cut: cut, Class: class, Want: w, Got: g, Entries: describe(ents, classes)}
	}
	if r.WantSample() && nontrivial {
		r.Sample(wit(0, 0, "", "", ""))
	}

	// A: the whole stream, random batching
	ua := newRegSM()
	a := newRegMachine(sessCfg(), ua, newMemSnapshotter())
	if err := a.feed(copyEntries(ents), randSizes(rng)); err != nil {
		r.Violation("sessions:apply-error", fmt.Sprintf("case %d: %v", c, err), wit(0, 0, "", "", err.Error()))
		return
	}
	bad := false
	for i, e := range ents {
		if e.IsConfigChange() {
			continue
		}
		got := a.node.outs[e.Index]
		if got != want[i] {
			bad = true
			r.Violation("sessions:output-differs-from-model:"+classes[i],
				fmt.Sprintf("case %d index %d (%s): want %v got %v", c, e.Index, classes[i], want[i], got),
				wit(e.Index, 0, classes[i], want[i].String(), got.String()))
		}
	}
	if len(a.node.ccOuts) != nboot {
		bad = true
		r.Violation("sessions:bootstrap-config-change-count", fmt.Sprintf("case %d: %d bootstrap entries, %d outcomes", c, nboot, len(a.node.ccOuts)), wit(0, 0, "", "", ""))
	}
	// the user state machine's call stream
	if d := diffCalls(m.applied, ua.calls); d != "" {
		bad = true
		key := "sessions:update-calls-differ-from-model"
		r.Violation(key, fmt.Sprintf("case %d: %s", c, d), wit(0, 0, "", fmt.Sprint(m.applied), fmt.Sprint(ua.calls)))
	}
	// model free: a command of a client registered once is applied at most once
	for cmd, k := range ua.st.Applied {
		if k > 1 {
			var id uint64
			if _, err := fmt.Sscanf(cmd, "c%d/", &id); err == nil && m.regs[id] <= 1 {
				bad = true
				r.Violation("sessions:applied-more-than-once", fmt.Sprintf("case %d: %q applied %d times", c, cmd, k), wit(0, 0, "", "1", fmt.Sprint(k)))
			}
		}
	}
	r.Count("entries_compared_with_model", int64(n-nboot))
	r.Count("update_calls_seen", int64(len(ua.calls)))
	if bad {
		return
	}
	finalSess := a.sm.GetSessionHash()
	finalMem := a.sm.GetMembershipHash()
	finalHash, _ := a.sm.GetHash()
	finalDigest := ua.st.digest()

	// C: the same stream through a concurrent state machine, whose updates may take the batched
	// apply path (several entries handed to Update at once, bypassing the session table when all of
	// them are NoOP-session entries): outputs and the user state machine's call stream must be the
	// model's whatever the task boundaries are
	for pass := 0; pass < 2; pass++ {
		uc := newConSM()
		cm := newConMachine(sessCfg(), uc, newMemSnapshotter())
		sizes := randSizes(rng)
		if pass == 1 {
			sizes = []int{2 + rng.Intn(3), 1 + rng.Intn(2), -2, 3}
		}
		if err := cm.feed(copyEntries(ents), sizes); err != nil {
			r.Violation("sessions:apply-error", fmt.Sprintf("case %d concurrent SM: %v", c, err), wit(0, 0, "", "", err.Error()))
			return
		}
		for i, e := range ents {
			if e.IsConfigChange() {
				continue
			}
			if got := cm.node.outs[e.Index]; got != want[i] {
				r.Violation("sessions:concurrent-sm:output-differs-from-model:"+classes[i],
					fmt.Sprintf("case %d index %d (%s), task sizes %v: want %v got %v", c, e.Index, classes[i], sizes, want[i], got),
					wit(e.Index, 0, classes[i], want[i].String(), got.String()))
				return
			}
		}
		if d := diffCalls(m.applied, uc.calls); d != "" {
			r.Violation("sessions:concurrent-sm:update-calls-differ-from-model", fmt.Sprintf("case %d task sizes %v: %s", c, sizes, d), wit(0, 0, "", fmt.Sprint(m.applied), fmt.Sprint(uc.calls)))
			return
		}
		if cm.sm.GetSessionHash() != finalSess {
			r.Violation("sessions:concurrent-sm:session-hash-differs", fmt.Sprintf("case %d task sizes %v: session hash %x, the plain state machine run has %x", c, sizes, cm.sm.GetSessionHash(), finalSess), wit(0, 0, "", "", ""))
			return
		}
		r.Count("concurrent_sm_passes", 1)
	}

	// B: one entry at a time, a snapshot after every index; twins from each
	ub := newRegSM()
	ssb := newMemSnapshotter()
	b := newRegMachine(sessCfg(), ub, ssb)
	all := copyEntries(ents)
	for i := 0; i < n; i++ {
		if err := b.feed(all[i:i+1], nil); err != nil {
			r.Violation("sessions:apply-error", fmt.Sprintf("case %d: %v", c, err), wit(ents[i].Index, 0, "", "", err.Error()))
			return
		}
		idx := ents[i].Index
		if !ents[i].IsConfigChange() && b.node.outs[idx] != a.node.outs[idx] {
			r.Violation("sessions:snapshotting-replica-output-differs", fmt.Sprintf("case %d index %d: %v vs %v", c, idx, a.node.outs[idx], b.node.outs[idx]),
				wit(idx, 0, classes[i], a.node.outs[idx].String(), b.node.outs[idx].String()))
			return
		}
		sessAtCut := b.sm.GetSessionHash()
		ss, _, err := b.sm.Save(rsm.SSRequest{})
		if err != nil {
			r.Violation("sessions:save-error", fmt.Sprintf("case %d cut %d: %v", c, idx, err), wit(0, idx, "", "", err.Error()))
			return
		}
		if ss.Index != idx {
			r.Violation("sessions:snapshot-index", fmt.Sprintf("case %d cut %d: snapshot index %d", c, idx, ss.Index), wit(0, idx, "", fmt.Sprint(idx), fmt.Sprint(ss.Index)))
			return
		}
		// twin: half of them restart from the snapshot (empty replica), the others are live
		// replicas that lag behind - they applied a prefix of the log, hold its sessions, and are
		// caught up by installing the snapshot (sessions closed or evicted in between must go)
		ut := newRegSM()
		sst := newMemSnapshotter()
		sst.cur, sst.data[ss.Index] = ss, ssb.data[ss.Index]
		t := newRegMachine(sessCfg(), ut, sst)
		task := rsm.Task{Recover: true, Index: idx}
		if rng.Intn(2) == 0 {
			task = rsm.Task{Recover: true, Initial: true}
		} else if i > 0 {
			behind := rng.Intn(i + 1)
			if err := t.feed(copyEntries(ents[:behind]), randSizes(rng)); err != nil {
				r.Violation("sessions:apply-error", fmt.Sprintf("case %d lagging twin of cut %d: %v", c, idx, err), wit(0, idx, "", "", err.Error()))
				return
			}
			r.Count("lagging_live_twins", 1)
		}
		rs, err := t.sm.Recover(task)
		if err != nil || rs.Index != idx {
			r.Violation("sessions:recover-error", fmt.Sprintf("case %d cut %d: %v (index %d)", c, idx, err, rs.Index), wit(0, idx, "", "", fmt.Sprint(err)))
			return
		}
		if h := t.sm.GetSessionHash(); h != sessAtCut {
			r.Violation("sessions:twin-session-hash-at-cut", fmt.Sprintf("case %d cut %d: session hash %x after restore, %x before", c, idx, h, sessAtCut),
				wit(0, idx, "", fmt.Sprintf("%x", sessAtCut), fmt.Sprintf("%x", h)))
			return
		}
		if t.sm.GetLastApplied() != idx {
			r.Violation("sessions:twin-applied-index", fmt.Sprintf("case %d cut %d: applied %d", c, idx, t.sm.GetLastApplied()), wit(0, idx, "", "", ""))
			return
		}
		if err := t.feed(copyEntries(ents[i+1:]), randSizes(rng)); err != nil {
			r.Violation("sessions:apply-error", fmt.Sprintf("case %d twin of cut %d: %v", c, idx, err), wit(0, idx, "", "", err.Error()))
			return
		}
		ok := true
		for j := i + 1; j < n; j++ {
			jx := ents[j].Index
			if ents[j].IsConfigChange() {
				continue
			}
			if t.node.outs[jx] != a.node.outs[jx] {
				ok = false
				r.Violation("sessions:twin-output-differs:"+classes[j], fmt.Sprintf("case %d cut %d index %d (%s): original %v twin %v", c, idx, jx, classes[j], a.node.outs[jx], t.node.outs[jx]),
					wit(jx, idx, classes[j], a.node.outs[jx].String(), t.node.outs[jx].String()))
				break
			}
		}
		if !ok {
			return
		}
		th, _ := t.sm.GetHash()
		if hs := t.sm.GetSessionHash(); hs != finalSess || t.sm.GetMembershipHash() != finalMem || th != finalHash || ut.st.digest() != finalDigest {
			r.Violation("sessions:twin-final-state-differs", fmt.Sprintf("case %d cut %d: session hash %x/%x membership %x/%x sm hash %x/%x digest %s/%s", c, idx,
				finalSess, hs, finalMem, t.sm.GetMembershipHash(), finalHash, th, finalDigest, ut.st.digest()), wit(0, idx, "", "", ""))
			return
		}
		r.Count("cuts_compared", 1)
		r.Count("twin_entries_compared", int64(n-i-1))
	}
	if b.sm.GetSessionHash() != finalSess {
		r.Violation("sessions:snapshotting-replica-session-hash", fmt.Sprintf("case %d: %x vs %x", c, finalSess, b.sm.GetSessionHash()), wit(0, 0, "", "", ""))
	}
}

func diffCalls(want, got []call) string {
	for i := 0; i < len(want) || i < len(got); i++ {
		switch {
		case i >= len(want):
			return fmt.Sprintf("unexpected Update call #%d: index %d cmd %q", i, got[i].Index, got[i].Cmd)
		case i >= len(got):
			return fmt.Sprintf("missing Update call #%d: index %d cmd %q", i, want[i].Index, want[i].Cmd)
		case want[i] != got[i]:
			return fmt.Sprintf("Update call #%d: want index %d cmd %q, got index %d cmd %q", i, want[i].Index, want[i].Cmd, got[i].Index, got[i].Cmd)
		}
	}
	return ""
}
