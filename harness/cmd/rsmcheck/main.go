// rsmcheck drives the real rsm.StateMachine (and, for the twins and sscrash
// modes, the real snapshotter and log store on in-memory file systems) with
// synthetic entry streams and compares it with small reference models and
// with twin replicas restored from snapshots.
//
//	-mode sessions    C05  client session table vs reference model, twins at every cut
//	-mode membership  C07  config change rules vs reference model, twins at every cut
//	-mode twins       C08  snapshot + suffix == full replay (real snapshotter, three SM kinds)
//	-mode sscrash     C16  crash at every file system operation of the snapshot sequences
package main

import (
	"encoding/json"
	"fmt"
	"io"
	"log"
	"os"

	"github.com/lni/dragonboat/v4/verifh/common"
)

// replay narrows a run to the case named by a witness file (./check --replay).
var replay struct {
	on       bool
	Case     *int   `json:"case"`
	Scenario string `json:"scenario"`
	CrashAt  int    `json:"crash_before_op"`
}

// wanted tells whether case c is to be run.
func wanted(c int) bool {
	return !replay.on || replay.Case == nil || *replay.Case == c
}

func main() {
	quietLogs()
	log.SetOutput(io.Discard) // pebble's own logger
	r := common.Start("rsmcheck")
	if r.Replay != "" {
		var w struct {
			Witness json.RawMessage `json:"witness"`
		}
		if b, err := os.ReadFile(r.Replay); err == nil && json.Unmarshal(b, &w) == nil && json.Unmarshal(w.Witness, &replay) == nil {
			replay.on = true
		} else {
			fmt.Fprintf(os.Stderr, "rsmcheck: cannot read witness %s\n", r.Replay)
			os.Exit(2)
		}
	}
	switch r.Mode {
	case "sessions":
		runSessions(r)
	case "membership":
		runMembership(r)
	case "twins":
		runTwins(r)
	case "payload":
		runPayload(r)
	case "sscrash":
		runSSCrash(r)
	default:
		fmt.Fprintf(os.Stderr, "rsmcheck: unknown mode %q\n", r.Mode)
		os.Exit(2)
	}
	r.Finish()
}
