package main

import (
	"errors"
	"fmt"
	"math/rand"
	"strings"

	"github.com/lni/dragonboat/v4/config"
	"github.com/lni/dragonboat/v4/internal/raft"
	pb "github.com/lni/dragonboat/v4/raftpb"
	"github.com/lni/dragonboat/v4/verifh/common"
)

// Peer mode: a real raft.Peer (replica 1 of a three voter shard, launched as
// node.startRaft does) is kept a follower by the harness, which plays the
// leaders (replica 2 / 3, increasing terms) and the node around the peer.
// Everything is observed at the Peer boundary: GetUpdate (EntriesToSave,
// CommittedEntries, Snapshot, Messages, LogQueryResult), VerifView/VerifTerm.

type queryExp struct {
	a, b, max uint64
	first     uint64
	lastPlus  uint64
	compacted bool
	ents      []pb.Entry
}

type psim struct {
	*sim
	p        raft.Peer
	lt       uint64 // term of the current (simulated) leader
	leader   uint64
	wantMsgs []pb.Message
	query    *queryExp
	msgCmt   uint64
	lastIdx  uint64
	ssWait   *pb.Snapshot // installed snapshot the state machine has not recovered yet
}

func membership(ccid uint64) pb.Membership {
	return pb.Membership{ConfigChangeId: ccid, Addresses: map[uint64]string{1: "a1", 2: "a2", 3: "a3"}}
}

func newPeerSim(rng *rand.Rand) *psim {
	s := newBareSim(rng)
	ps := &psim{sim: s, lt: 2, leader: 2}
	cfg := config.Config{ShardID: 1, ReplicaID: 1, HeartbeatRTT: 1, ElectionRTT: 100000}
	if rng.Intn(2) == 0 {
		cfg.MaxInMemLogSize = 1 << uint(10+rng.Intn(12))
	}
	s.op("launch ratelimit=%d capmax=%v", cfg.MaxInMemLogSize, s.db.capMax)
	addrs := []raft.PeerAddress{{ReplicaID: 1, Address: "a1"}, {ReplicaID: 2, Address: "a2"}, {ReplicaID: 3, Address: "a3"}}
	s.real("Launch", func() { ps.p = raft.Launch(cfg, s.lr, nil, addrs, true, true) })
	// what bootstrap must have put into the log
	s.curTerm = 1
	for i := uint64(1); i <= 3; i++ {
		cc := pb.ConfigChange{Type: pb.AddNode, ReplicaID: i, Initialize: true, Address: fmt.Sprintf("a%d", i)}
		s.log = append(s.log, pb.Entry{Type: pb.ConfigChangeEntry, Term: 1, Index: i, Cmd: pb.MustMarshal(&cc)})
		s.used[[2]uint64{i, 1}] = true
	}
	s.committed = 3
	s.hTryAppend = ps.sendReplicate
	s.hCommit = ps.sendHeartbeat
	s.hRestore = ps.sendSnapshot
	s.hResize = ps.tick
	return ps
}

func (ps *psim) handle(m pb.Message) {
	m.To, m.ShardID, m.From, m.Term = 1, 1, ps.leader, ps.lt
	ps.real("Peer.Handle("+m.Type.String()+")", func() {
		if err := ps.p.Handle(m); err != nil {
			ps.failf("peer.handle:error", nil, "Peer.Handle(%s) returned %v", m.Type, err)
		}
	})
}

func (ps *psim) newLeaderMaybe(force bool) {
	if force || ps.rng.Intn(5) == 0 {
		ps.lt++
		ps.leader = 2 + uint64(ps.rng.Intn(2))
	}
	if ps.lt < ps.curTerm {
		ps.lt = ps.curTerm
	}
}

func (ps *psim) sendReplicate(prev uint64, ents []pb.Entry, wantAppended bool, what string) {
	ps.newLeaderMaybe(false)
	if ps.lt < ps.curTerm { // entry terms never exceed the sender's term
		ps.lt = ps.curTerm
	}
	lastIdx := prev + uint64(len(ents))
	ps.msgCmt = uint64(ps.rng.Intn(int(lastIdx) + 3))
	ps.lastIdx = lastIdx
	ps.op("  as Replicate term=%d commit=%d", ps.lt, ps.msgCmt)
	ps.handle(pb.Message{Type: pb.Replicate, LogIndex: prev, LogTerm: ps.mustTerm(prev), Entries: ents, Commit: ps.msgCmt})
	ps.wantMsgs = append(ps.wantMsgs, pb.Message{Type: pb.ReplicateResp, LogIndex: lastIdx})
}

func (ps *psim) sendHeartbeat(i uint64) {
	ps.newLeaderMaybe(false)
	ps.op("  as Heartbeat term=%d", ps.lt)
	ps.handle(pb.Message{Type: pb.Heartbeat, Commit: i})
	ps.wantMsgs = append(ps.wantMsgs, pb.Message{Type: pb.HeartbeatResp})
}

func (ps *psim) sendSnapshot(idx, term uint64) {
	ps.newLeaderMaybe(true)
	ss := pb.Snapshot{Index: idx, Term: term, Membership: membership(idx)}
	ps.op("  as InstallSnapshot term=%d", ps.lt)
	ps.handle(pb.Message{Type: pb.InstallSnapshot, Snapshot: ss})
	ps.wantMsgs = append(ps.wantMsgs, pb.Message{Type: pb.ReplicateResp, LogIndex: idx})
	ps.ssWait = &ss
}

func (ps *psim) tick(try bool) {
	n := 1 + ps.rng.Intn(120)
	ps.op("  as %d ticks (quiesced tick first=%v)", n, !try)
	ps.real("Peer.Tick", func() {
		if !try {
			// hook semantics: try=false is inmem.resize, which raft does on the
			// first quiesced tick
			if err := ps.p.QuiescedTick(); err != nil {
				ps.failf("peer.tick:error", nil, "QuiescedTick returned %v", err)
			}
		}
		for i := 0; i < n; i++ {
			if err := ps.p.Tick(); err != nil {
				ps.failf("peer.tick:error", nil, "Tick returned %v", err)
			}
		}
	})
}

// messages that must leave the log untouched
func (ps *psim) opNoEffect() bool {
	s := ps.sim
	switch ps.rng.Intn(4) {
	case 0: // Replicate below the commit index
		if s.committed == 0 || s.committed <= s.off {
			return false
		}
		prev := s.off + uint64(ps.rng.Intn(int(s.committed-s.off)))
		ents := []pb.Entry{s.mkEntry(prev+1, ps.lt+1)}
		delete(s.used, [2]uint64{prev + 1, ps.lt + 1})
		s.op("replicate-stale prev=%d committed=%d", prev, s.committed)
		s.count("op_replicate_below_committed", 1)
		t, _ := s.termAt(prev)
		ps.handle(pb.Message{Type: pb.Replicate, LogIndex: prev, LogTerm: t, Entries: ents, Commit: s.last()})
		ps.wantMsgs = append(ps.wantMsgs, pb.Message{Type: pb.ReplicateResp, LogIndex: s.committed})
	case 1: // Replicate whose previous entry does not match
		prev := s.committed + uint64(ps.rng.Intn(int(s.last()-s.committed)+4))
		var lt uint64
		if t, ok := s.termAt(prev); ok {
			lt = t + 1 + uint64(ps.rng.Intn(2))
		} else {
			lt = 1 + uint64(ps.rng.Intn(int(ps.lt)))
		}
		s.op("replicate-rejected prev=%d@%d", prev, lt)
		s.count("op_replicate_rejected", 1)
		ps.handle(pb.Message{Type: pb.Replicate, LogIndex: prev, LogTerm: lt,
			Entries: []pb.Entry{{Index: prev + 1, Term: lt}}, Commit: prev})
		ps.wantMsgs = append(ps.wantMsgs, pb.Message{Type: pb.ReplicateResp, Reject: true, LogIndex: prev, Hint: s.last()})
	case 2: // InstallSnapshot at or below the commit index
		if s.committed == 0 {
			return false
		}
		idx := 1 + uint64(ps.rng.Intn(int(s.committed)))
		s.op("snapshot-ignored %d committed=%d", idx, s.committed)
		s.count("op_snapshot_ignored", 1)
		ps.handle(pb.Message{Type: pb.InstallSnapshot, Snapshot: pb.Snapshot{Index: idx, Term: 1, Membership: membership(idx)}})
		ps.wantMsgs = append(ps.wantMsgs, pb.Message{Type: pb.ReplicateResp, LogIndex: s.committed})
	default: // InstallSnapshot the log already holds: only the commit index moves
		if s.last() <= s.committed {
			return false
		}
		idx := s.committed + 1 + uint64(ps.rng.Intn(int(s.last()-s.committed)))
		s.op("snapshot-fast-forward %d@%d", idx, s.mustTerm(idx))
		s.count("op_snapshot_fast_forward", 1)
		ps.handle(pb.Message{Type: pb.InstallSnapshot, Snapshot: pb.Snapshot{Index: idx, Term: s.mustTerm(idx), Membership: membership(idx)}})
		s.committed = idx
		ps.wantMsgs = append(ps.wantMsgs, pb.Message{Type: pb.ReplicateResp, LogIndex: s.committed})
	}
	return true
}

func (ps *psim) opQuery() bool {
	s := ps.sim
	if ps.query != nil {
		return false
	}
	first := s.first()
	a := first + uint64(ps.rng.Intn(int(s.last()+1-first)+1))
	if first > 1 && ps.rng.Intn(5) == 0 {
		a = first - 1
	}
	if ps.rng.Intn(3) == 0 && s.committed >= first {
		a = first + uint64(ps.rng.Intn(int(s.committed+1-first)))
	}
	b := a + 1 + uint64(ps.rng.Intn(12))
	max := s.randSize()
	q := &queryExp{a: a, b: b, max: max, first: first, lastPlus: s.committed + 1}
	if a < first || a > s.committed {
		q.compacted = true
	} else {
		q.ents = cloneEntries(limitModel(s.slice(a, minu(b, s.committed+1)), max))
	}
	s.op("query-raft-log [%d,%d) max=%d", a, b, max)
	s.count("op_log_query", 1)
	ps.real("QueryRaftLog", func() {
		if err := ps.p.QueryRaftLog(a, b, max); err != nil {
			ps.failf("peer.queryRaftLog:error", nil, "QueryRaftLog(%d,%d,%d) returned %v", a, b, max, err)
		}
	})
	ps.query = q
	return true
}

func (ps *psim) check(full bool, where string) {
	if ps.fail != nil {
		return
	}
	ps.real("check@"+where, func() { ps.checkInner(full, where) })
}

func (ps *psim) checkInner(full bool, where string) {
	s := ps.sim
	first, last := s.first(), s.last()
	v := ps.p.VerifView()
	cmp := int64(4)
	defer func() { s.count("comparisons", cmp) }()
	if v.FirstIndex != first {
		s.failf("peer.firstIndex:mismatch", nil, "%s: firstIndex %d, model %d", where, v.FirstIndex, first)
		return
	}
	if v.LastIndex != last {
		s.failf("peer.lastIndex:mismatch", nil, "%s: lastIndex %d, model %d", where, v.LastIndex, last)
		return
	}
	if v.Committed != s.committed {
		s.failf("peer.committed:mismatch", nil, "%s: committed %d, model %d", where, v.Committed, s.committed)
		return
	}
	if lt := s.mustTerm(last); v.LastTerm != lt {
		s.failf("peer.lastTerm:mismatch", nil, "%s: term of last index %d is %d, model %d", where, last, v.LastTerm, lt)
		return
	}
	if v.Role != "Follower" {
		panic("harness: the peer left the follower role: " + v.Role)
	}
	if full {
		cmp++
		if v.Processed != s.processed {
			s.failf("peer.processed:mismatch", nil, "%s: processed %d, model %d", where, v.Processed, s.processed)
			return
		}
	}
	lo := uint64(0)
	if first > 2 {
		lo = first - 2
	}
	hi := last + 2
	var pts []uint64
	if hi-lo <= 128 {
		for i := lo; i <= hi; i++ {
			pts = append(pts, i)
		}
	} else {
		for d := uint64(0); d < 5; d++ {
			pts = append(pts, lo+d, hi-d, s.committed+d)
		}
		for n := 0; n < 64; n++ {
			pts = append(pts, lo+uint64(ps.rng.Intn(int(hi-lo+1))))
		}
	}
	for _, i := range pts {
		if i < lo || i > hi {
			continue
		}
		cmp++
		t := ps.p.VerifTerm(i)
		switch {
		case i > last:
			if t != 0 {
				s.failf("peer.term:nonzero-beyond-last", nil, "%s: term(%d) = %d beyond last %d", where, i, t, last)
				return
			}
		case i+1 < first:
			if mt, ok := s.termAt(i); t != 0 && (!ok || mt != t) {
				s.failf("peer.term:wrong-term-for-compacted-index", nil, "%s: term(%d) = %d, first %d", where, i, t, first)
				return
			}
		default:
			if mt := s.mustTerm(i); t != mt {
				s.failf("peer.term:mismatch", nil, "%s: term(%d) = %d, model %d (first %d last %d)", where, i, t, mt, first, last)
				return
			}
		}
	}
	if !s.checkLR(where, &cmp) {
		return
	}
}

func msgBrief(ms []pb.Message) string {
	var sb strings.Builder
	for _, m := range ms {
		fmt.Fprintf(&sb, "{%s idx=%d reject=%v hint=%d}", m.Type, m.LogIndex, m.Reject, m.Hint)
	}
	return sb.String()
}

// cycle is engine.processSteps for this one replica.
func (ps *psim) cycle() bool {
	s := ps.sim
	lastApplied := s.smApplied
	more := ps.rng.Intn(8) != 0
	s.op("update-cycle lastApplied=%d moreToApply=%v", lastApplied, more)
	s.count("op_update_cycle", 1)
	if lastApplied < s.processed {
		s.count("update_cycles_with_lagging_last_applied", 1)
		s.lagc++
	}
	var ud pb.Update
	s.real("Peer.GetUpdate", func() {
		ps.p.NotifyRaftLastApplied(lastApplied)
		var err error
		if ud, err = ps.p.GetUpdate(more, lastApplied); err != nil {
			s.failf("peer.getUpdate:error", nil, "GetUpdate returned %v", err)
		}
	})
	if s.fail != nil {
		return true
	}
	want := s.slice(s.savedTo+1, s.last()+1)
	s.count("comparisons", 4)
	if !entsEq(ud.EntriesToSave, want) {
		s.failf("peer.update.entriesToSave:mismatch", nil, "Update.EntriesToSave %s, logical log not yet persisted %s",
			brief(ud.EntriesToSave), brief(want))
		return true
	}
	if more {
		want := s.slice(maxu(s.processed+1, s.first()), s.committed+1)
		if !entsEq(ud.CommittedEntries, want) {
			s.failf("peer.update.committedEntries:mismatch", nil, "Update.CommittedEntries %s, model (processed %d, committed %d] %s",
				brief(ud.CommittedEntries), s.processed, s.committed, brief(want))
			return true
		}
	} else if len(ud.CommittedEntries) > 0 {
		s.failf("peer.update.committedEntries:unasked", nil, "CommittedEntries %s although moreToApply=false", brief(ud.CommittedEntries))
		return true
	}
	if s.pend != !pb.IsEmptySnapshot(ud.Snapshot) || (s.pend && (ud.Snapshot.Index != s.pendIdx || ud.Snapshot.Term != s.pendTerm)) {
		s.failf("peer.update.snapshot:mismatch", nil, "Update.Snapshot %d@%d, model pending restore %v %d@%d",
			ud.Snapshot.Index, ud.Snapshot.Term, s.pend, s.pendIdx, s.pendTerm)
		return true
	}
	saveIdx := map[uint64]bool{}
	for _, e := range ud.EntriesToSave {
		saveIdx[e.Index] = true
		if e.Index <= s.maxHanded {
			s.count("resaves_after_truncation", 1)
		}
	}
	if n := len(ud.EntriesToSave); n > 0 && ud.EntriesToSave[n-1].Index > s.maxHanded {
		s.maxHanded = ud.EntriesToSave[n-1].Index
	}
	for _, e := range ud.CommittedEntries {
		s.count("apply_order_checks", 1)
		de, ok := s.db.ents[e.Index]
		if e.Index > s.committed || !(saveIdx[e.Index] || (ok && entEq(de, e))) {
			s.failf("peer.apply-order:not-committed-or-not-handed-out-for-saving", nil,
				"entry %d@%d handed out for apply; committed %d, EntriesToSave %s", e.Index, e.Term, s.committed, brief(ud.EntriesToSave))
			return true
		}
	}
	// responses and log query
	var got []pb.Message
	for _, m := range ud.Messages {
		if m.Type == pb.ReplicateResp || m.Type == pb.HeartbeatResp {
			got = append(got, m)
		}
	}
	okMsgs := len(got) == len(ps.wantMsgs)
	for i := 0; okMsgs && i < len(got); i++ {
		w := ps.wantMsgs[i]
		okMsgs = got[i].Type == w.Type && got[i].LogIndex == w.LogIndex && got[i].Reject == w.Reject && got[i].Hint == w.Hint
	}
	s.count("response_messages_checked", int64(len(got)))
	if !okMsgs {
		s.failf("peer.responses:mismatch", nil, "responses %s, expected %s", msgBrief(got), msgBrief(ps.wantMsgs))
		return true
	}
	ps.wantMsgs = nil
	if q := ps.query; q != nil {
		ps.query = nil
		r := ud.LogQueryResult
		s.count("log_query_results_checked", 1)
		bad := r.FirstIndex != q.first || r.LastIndex != q.lastPlus
		if q.compacted {
			bad = bad || !errors.Is(r.Error, raft.ErrCompacted) || len(r.Entries) != 0
			s.count("log_query_out_of_range", 1)
		} else {
			bad = bad || r.Error != nil || !entsEq(r.Entries, q.ents)
		}
		if bad {
			s.failf("peer.logQuery:mismatch", nil, "QueryRaftLog(%d,%d,%d): range [%d,%d) err %v entries %s; model range [%d,%d) compacted=%v entries %s",
				q.a, q.b, q.max, r.FirstIndex, r.LastIndex, r.Error, brief(r.Entries), q.first, q.lastPlus, q.compacted, brief(q.ents))
			return true
		}
	} else if !ud.LogQueryResult.IsEmpty() {
		s.failf("peer.logQuery:unasked", nil, "LogQueryResult without a query: %+v", ud.LogQueryResult)
		return true
	}
	uc := ud.UpdateCommit
	apply := func() {
		if s.pend {
			var err error
			s.real("ApplySnapshot", func() { err = s.lr.ApplySnapshot(ud.Snapshot) })
			if err != nil {
				s.failf("logreader.ApplySnapshot:unexpected-error", nil, "ApplySnapshot(%d) returned %v", s.pendIdx, err)
				return
			}
			s.lrMarker, s.lrMarkerTerm, s.lrLast = s.pendIdx, s.pendTerm, s.pendIdx
			s.lrSnapIdx, s.lrSnapTerm = s.pendIdx, s.pendTerm
			s.gaps = append(s.gaps, [2]uint64{s.pushed, s.pendIdx})
			s.pushed, s.nodeSS = s.pendIdx, s.pendIdx
			s.appliedTerms[s.pendIdx] = s.pendTerm
		}
		for _, e := range ud.CommittedEntries {
			s.appliedTerms[e.Index] = e.Term
			s.pushed = e.Index
		}
	}
	if ud.FastApply {
		s.count("update_cycles_fast_apply", 1)
		apply()
		s.bg()
	}
	s.db.saveEntries(ud.EntriesToSave)
	if !pb.IsEmptyState(ud.State) {
		s.lr.SetState(ud.State)
	}
	s.bg()
	if !ud.FastApply {
		apply()
		s.bg()
	}
	if s.fail != nil {
		return true
	}
	if n := len(ud.EntriesToSave); n > 0 {
		var err error
		s.real("LogReader.Append", func() { err = s.lr.Append(ud.EntriesToSave) })
		if err != nil {
			s.failf("logreader.Append:error", nil, "Append(%s) returned %v", brief(ud.EntriesToSave), err)
			return true
		}
		s.lrLast = ud.EntriesToSave[n-1].Index
	}
	if c := s.pendingCompact; c > 0 && s.fail == nil {
		s.pendingCompact = 0
		var err error
		s.real("LogReader.Compact", func() { err = s.lr.Compact(c) })
		switch {
		case s.fail != nil:
		case c < s.lrMarker:
			s.count("compactions_already_compacted", 1)
			if !errors.Is(err, raft.ErrCompacted) {
				s.failf("logreader.Compact:below-marker-not-rejected", nil, "Compact(%d) with marker %d returned %v", c, s.lrMarker, err)
			}
		case c > s.lrLast:
			panic(fmt.Sprintf("harness: compaction index %d beyond persisted range %d", c, s.lrLast))
		default:
			if err != nil {
				s.failf("logreader.Compact:error", nil, "Compact(%d) inside [%d,%d] returned %v", c, s.lrMarker, s.lrLast, err)
				break
			}
			if c > s.lrMarker {
				s.count("compactions_effective", 1)
				s.comp++
			}
			s.lrMarker, s.lrMarkerTerm = c, s.mustTerm(c)
		}
		s.op("  compact %d", c)
		_ = s.db.RemoveEntriesTo(1, 1, c)
	}
	ps.check(false, "mid-update-cycle")
	s.bg()
	if s.fail != nil {
		return true
	}
	s.real("Peer.Commit", func() { ps.p.Commit(ud) })
	s.op("  commit %+v", uc)
	if uc.StableLogTo > 0 {
		s.savedTo = uc.StableLogTo
	}
	if uc.Processed > 0 {
		s.processed = uc.Processed
	}
	if uc.StableSnapshotTo > 0 && s.pend && s.pendIdx == uc.StableSnapshotTo {
		s.pend = false
	}
	return true
}

func runPeerSequence(rng *rand.Rand) (res seqResult) {
	var ps *psim
	defer func() {
		if v := recover(); v != nil {
			res.harnessErr = fmt.Sprint(v)
			if ps != nil {
				res.ops, res.cnt = ps.ops, ps.cnt
			}
		}
	}()
	ps = newPeerSim(rng)
	s := ps.sim
	ps.check(true, "after-launch")
	nops := 60 + rng.Intn(61)
	for n := 0; n < nops && s.fail == nil; {
		done := false
		before := len(s.ops)
		switch x := rng.Intn(100); {
		case x < 34:
			done = s.opFollower(false)
			if done { // the Replicate message carried a commit index
				if c := minu(ps.lastIdx, ps.msgCmt); c > s.committed {
					s.committed = c
				}
			}
		case x < 44:
			done = s.opCommit()
		case x < 52:
			done = ps.opNoEffect()
		case x < 58:
			done = ps.opQuery()
		case x < 82:
			done = ps.cycle()
		case x < 86:
			done = s.opRestore()
		case x < 90:
			done = s.opResize(rng.Intn(2) == 0)
		case x < 96:
			if s.pushed > s.smApplied {
				s.smProgress()
				done = len(s.ops) > before
			}
		default:
			s.takeSnapshot()
			done = len(s.ops) > before
		}
		if !done {
			continue
		}
		// the apply worker tells raft about a recovered snapshot's membership
		if ps.ssWait != nil && s.smApplied >= ps.ssWait.Index && s.fail == nil {
			ss := *ps.ssWait
			ps.ssWait = nil
			s.real("RestoreRemotes", func() {
				if err := ps.p.RestoreRemotes(ss); err != nil {
					s.failf("peer.restoreRemotes:error", nil, "RestoreRemotes returned %v", err)
				}
			})
		}
		n++
		what := "after-op"
		if len(s.ops) > before {
			what = "after-" + strings.SplitN(strings.TrimSpace(s.ops[before]), " ", 2)[0]
		}
		ps.check(true, what)
	}
	res.ops, res.cnt, res.fail = s.ops, s.cnt, s.fail
	res.nontrivial = s.trunc >= 1 && s.lagc >= 1 && (s.rest >= 1 || s.comp >= 1)
	return res
}

func runPeer(r *common.Run) {
	r.SetRule("PRNG message sequences (60-120 ops) to a real raft.Peer kept a follower of a three voter shard: Replicate (matching / conflicting above " +
		"committed / extending / below committed / rejected), Heartbeat commit, InstallSnapshot (restoring / ignored / fast-forward), ticks, QueryRaftLog, " +
		"node.go update cycles with lagging LastApplied, CreateSnapshot + scheduled LogReader.Compact; non-trivial = >=1 conflict truncation AND >=1 update " +
		"cycle with lagging LastApplied AND >=1 snapshot restore or effective compaction; distinct by hash of the executed op list")
	r.Assume("peer mode: follower role only (the harness plays the leaders; fewer ticks than an election timeout), single step worker order " +
		"GetUpdate -> save -> LogReader.Append -> removeLog -> Commit; entries of a range are observed through Update and LogQueryResult only")
	total := r.Pick(12000, 100000)
	cases := r.MyCases(total)
	if r.Replay != "" {
		c, ok := replayCase(r.Replay)
		if !ok {
			r.Inconclusive("replay file has no case number")
			return
		}
		cases = []int{c}
	}
	agg := map[string]int64{}
	for n, c := range cases {
		res := runPeerSequence(r.Rand("pseq", c))
		for k, v := range res.cnt {
			agg[k] += v
		}
		agg["ops_executed"] += int64(len(res.ops))
		if res.harnessErr != "" {
			r.Inconclusive(fmt.Sprintf("harness error in case %d: %s", c, res.harnessErr))
			continue
		}
		r.Case(res.nontrivial, common.Hash(strings.Join(res.ops, ";")))
		if res.nontrivial && r.WantSample() {
			r.Sample(map[string]interface{}{"case": c, "ops": res.ops})
		}
		if f := res.fail; f != nil {
			r.Violation(f.key, f.what, map[string]interface{}{
				"case": c, "mode": r.Mode, "failing_op": len(res.ops), "ops": res.ops, "detail": f.detail,
			})
		}
		if n%2000 == 1999 {
			flushCounters(r, agg)
			r.Flush()
		}
	}
	flushCounters(r, agg)
}
