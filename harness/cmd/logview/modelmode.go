package main

import (
	"bytes"
	"errors"
	"fmt"
	"math"
	"math/rand"
	"strings"

	"github.com/lni/dragonboat/v4/internal/logdb"
	"github.com/lni/dragonboat/v4/internal/raft"
	pb "github.com/lni/dragonboat/v4/raftpb"
	"github.com/lni/dragonboat/v4/verifh/common"
)

// ---------------------------------------------------------------------------
// the simulated replica: real entryLog + real LogReader + harness ILogDB on one
// side, the reference model on the other, and the part of node.go / engine.go
// that sits between them (update cycle, apply queue, snapshot worker).
// ---------------------------------------------------------------------------

type failure struct {
	key    string
	what   string
	detail map[string]interface{}
}

type sim struct {
	rng    *rand.Rand
	apiack bool
	db     *memDB
	lr     *logdb.LogReader
	vl     *raft.VerifLog

	// reference model of the logical log: entries (off, off+len(log)], the
	// term at off is offTerm (snapshot restore base or 0).
	off, offTerm uint64
	log          []pb.Entry
	committed    uint64
	processed    uint64
	savedTo      uint64 // saved marker (exact in engine-real interleavings)
	pend         bool   // restored snapshot not yet acknowledged as stable
	pendIdx      uint64
	pendTerm     uint64
	// reference model of what was made known to the LogReader
	lrMarker, lrMarkerTerm, lrLast uint64
	lrSnapIdx, lrSnapTerm          uint64

	// generator state: raft terms and the (index,term) pairs ever used, so
	// that histories respect Log Matching (same index+term => same entry and
	// same prefix).
	curTerm uint64
	used    map[[2]uint64]bool
	salt    uint64

	// node.go side
	smApplied      uint64 // rsm.StateMachine.GetLastApplied()
	pushed         uint64 // last index put on the apply queue
	nodeSS         uint64 // n.ss.getIndex()
	pendingCompact uint64 // n.ss.compactLogTo
	gaps           [][2]uint64
	appliedTerms   map[uint64]uint64
	maxHanded      uint64

	// how the raft-side operations reach the system under test: directly on
	// the entryLog (model / apiack) or as messages to a Peer (peer mode)
	hTryAppend func(prev uint64, ents []pb.Entry, wantAppended bool, what string)
	hCommit    func(i uint64)
	hRestore   func(idx, term uint64)
	hResize    func(try bool)

	ops   []string
	cnt   map[string]int64
	fail  *failure
	trunc int
	lagc  int
	rest  int
	comp  int
}

func (s *sim) count(k string, n int64) { s.cnt[k] += n }

func (s *sim) failf(key string, detail map[string]interface{}, format string, a ...interface{}) {
	if s.fail != nil {
		return
	}
	s.fail = &failure{key: key, what: fmt.Sprintf(format, a...), detail: detail}
}

// real runs a piece of the system under test; a panic there on a legal
// operation is a violation.
func (s *sim) real(where string, f func()) {
	if s.fail != nil {
		return
	}
	defer func() {
		if v := recover(); v != nil {
			s.failf(normPanic(v), map[string]interface{}{"in": where},
				"the real code panicked in %s on a legal operation: %v", where, v)
		}
	}()
	f()
}

func (s *sim) op(format string, a ...interface{}) {
	s.ops = append(s.ops, fmt.Sprintf(format, a...))
}

// --- model helpers -----------------------------------------------------------

// first available index: above the latest compaction of the store, or above
// the restored snapshot while that snapshot is not acknowledged yet. In the
// second case the entries above the snapshot are all still held in memory, so
// a (rare, but real) compaction beyond the snapshot index that the snapshot
// worker gets done inside the same update cycle shows only after the
// acknowledgement; every answer stays servable, which is all the property asks.
func (s *sim) first() uint64 {
	if s.pend {
		return s.pendIdx + 1
	}
	return s.lrMarker + 1
}

func (s *sim) last() uint64 { return s.off + uint64(len(s.log)) }

func (s *sim) termAt(i uint64) (uint64, bool) {
	if i == s.off {
		return s.offTerm, true
	}
	if i > s.off && i <= s.last() {
		return s.log[i-s.off-1].Term, true
	}
	return 0, false
}

func (s *sim) mustTerm(i uint64) uint64 {
	t, ok := s.termAt(i)
	if !ok {
		panic(fmt.Sprintf("harness: model term of %d unknown (off %d last %d)", i, s.off, s.last()))
	}
	return t
}

// slice returns model entries [lo, hi).
func (s *sim) slice(lo, hi uint64) []pb.Entry {
	if lo >= hi {
		return nil
	}
	if lo <= s.off || hi > s.last()+1 {
		panic(fmt.Sprintf("harness: slice [%d,%d) outside model (%d,%d]", lo, hi, s.off, s.last()))
	}
	return s.log[lo-s.off-1 : hi-s.off-1]
}

func cloneEntries(in []pb.Entry) []pb.Entry {
	out := make([]pb.Entry, len(in))
	for i := range in {
		out[i] = cloneEntry(in[i])
	}
	return out
}

// payload is a function of (index, term): equal index and term means equal entry.
func (s *sim) mkEntry(idx, term uint64) pb.Entry {
	h := (idx*0x9E3779B97F4A7C15 ^ term*0xC2B2AE3D27D4EB4F ^ s.salt) * 0xD6E8FEB86659FD93
	n := int((h >> 7) % 41)
	var cmd []byte
	if n > 0 {
		cmd = make([]byte, n)
		x := h
		for i := range cmd {
			x = x*6364136223846793005 + 1442695040888963407
			cmd[i] = byte(x >> 33)
		}
	}
	s.used[[2]uint64{idx, term}] = true
	return pb.Entry{Index: idx, Term: term, Type: pb.ApplicationEntry, Key: idx<<20 | term, Cmd: cmd}
}

func entEq(a, b pb.Entry) bool {
	return a.Index == b.Index && a.Term == b.Term && a.Type == b.Type && a.Key == b.Key &&
		bytes.Equal(a.Cmd, b.Cmd)
}

func entsEq(a, b []pb.Entry) bool {
	if len(a) != len(b) {
		return false
	}
	for i := range a {
		if !entEq(a[i], b[i]) {
			return false
		}
	}
	return true
}

func brief(e []pb.Entry) string {
	if len(e) == 0 {
		return "[]"
	}
	var sb strings.Builder
	sb.WriteByte('[')
	for i, x := range e {
		if i > 0 {
			sb.WriteByte(' ')
		}
		if i >= 12 {
			fmt.Fprintf(&sb, "... +%d", len(e)-i)
			break
		}
		fmt.Fprintf(&sb, "%d@%d", x.Index, x.Term)
	}
	sb.WriteByte(']')
	return sb.String()
}

// limitModel is the size rule of the property: the longest prefix whose
// SizeUpperLimit sum is <= max, but never less than one entry.
func limitModel(ents []pb.Entry, max uint64) []pb.Entry {
	if len(ents) == 0 {
		return ents
	}
	total := uint64(ents[0].SizeUpperLimit())
	n := 1
	for n < len(ents) {
		total += uint64(ents[n].SizeUpperLimit())
		if total > max {
			break
		}
		n++
	}
	return ents[:n]
}

func (s *sim) freshTerm(idx, lb uint64) uint64 {
	t := lb
	for s.used[[2]uint64{idx, t}] {
		t++
	}
	return t
}

// --- construction ----------------------------------------------------------------

func newBareSim(rng *rand.Rand) *sim {
	s := &sim{rng: rng, used: map[[2]uint64]bool{}, cnt: map[string]int64{},
		appliedTerms: map[uint64]uint64{}, salt: rng.Uint64()}
	s.db = newMemDB(rng.Intn(2) == 0)
	s.lr = logdb.NewLogReader(1, 1, s.db)
	s.lr.SetCompactor(nopCompactor{})
	return s
}

func (s *sim) directHooks() {
	s.hTryAppend = func(prev uint64, ents []pb.Entry, want bool, what string) {
		s.real("tryAppend", func() {
			ok, err := s.vl.TryAppend(prev, ents)
			if err != nil || ok != want {
				s.failf("tryAppend:"+what, nil, "tryAppend(%d,%s) returned (%v,%v), expected (%v,nil): %s",
					prev, brief(ents), ok, err, want, what)
			}
		})
	}
	s.hCommit = func(i uint64) { s.real("commitTo", func() { s.vl.CommitTo(i) }) }
	s.hRestore = func(idx, term uint64) {
		s.real("restore", func() { s.vl.Restore(pb.Snapshot{Index: idx, Term: term}) })
	}
	s.hResize = func(try bool) {
		if try {
			s.real("tryResize", func() { s.vl.InMemTryResize() })
		} else {
			s.real("resize", func() { s.vl.InMemResize() })
		}
	}
}

func newSim(rng *rand.Rand, apiack bool) *sim {
	s := newBareSim(rng)
	s.apiack = apiack
	s.directHooks()
	s.curTerm = 1 + uint64(rng.Intn(3))
	restart := rng.Intn(3) == 0
	rateLimited := rng.Intn(2) == 0
	s.op("init restart=%v ratelimit=%v capmax=%v", restart, rateLimited, s.db.capMax)
	var n, s0 uint64
	if restart {
		// the image a restarted replica finds: snapshot s0, entries (s0, n] in
		// the store, as node.replayLog hands them to the LogReader.
		n = 3 + uint64(rng.Intn(28))
		if rng.Intn(3) != 0 {
			s0 = uint64(rng.Intn(int(n) + 1))
		}
		t := uint64(1)
		var all []pb.Entry
		for i := uint64(1); i <= n; i++ {
			if rng.Intn(5) == 0 {
				t++
			}
			all = append(all, s.mkEntry(i, t))
		}
		if t > s.curTerm {
			s.curTerm = t
		}
		s.off = s0
		if s0 > 0 {
			s.offTerm = all[s0-1].Term
		}
		s.log = cloneEntries(all[s0:])
		s.db.saveEntries(s.log)
		s.op("image snapshot=%d@%d entries=%s", s0, s.offTerm, brief(s.log))
	}
	s.real("init", func() {
		if s0 > 0 {
			if err := s.lr.ApplySnapshot(pb.Snapshot{Index: s0, Term: s.offTerm}); err != nil {
				s.failf("logreader.ApplySnapshot:unexpected-error", nil, "ApplySnapshot(%d) at start: %v", s0, err)
			}
			s.lrSnapIdx, s.lrSnapTerm = s0, s.offTerm
			s.appliedTerms[s0] = s.offTerm
		}
		s.lr.SetRange(s0+1, n-s0)
		if rateLimited {
			s.vl = raft.NewVerifLogRateLimited(s.lr, 1<<uint(10+rng.Intn(12)))
		} else {
			s.vl = raft.NewVerifLog(s.lr)
		}
	})
	s.lrMarker, s.lrMarkerTerm, s.lrLast = s0, s.offTerm, n
	s.committed, s.processed, s.savedTo = s0, s0, n
	s.smApplied, s.pushed, s.nodeSS, s.maxHanded = s0, s0, s0, n
	if restart && n > s0 {
		c := s0 + uint64(rng.Intn(int(n-s0)+1))
		if c > s0 {
			s.op("loadState commit=%d", c)
			s.real("commitTo", func() { s.vl.CommitTo(c) })
			s.committed = c
		}
	}
	return s
}

// --- raft-side operations (what raft.Handle does to the log) -------------------------

func (s *sim) opAppend(big bool) bool {
	k := 1 + s.rng.Intn(5)
	if big {
		k = 30 + s.rng.Intn(120)
	}
	if s.rng.Intn(6) == 0 {
		s.curTerm++ // became leader in a new term
	}
	lt := s.mustTerm(s.last())
	if s.curTerm < lt {
		s.curTerm = lt
	}
	for i := 0; i < k; i++ { // Log Matching: never reuse an (index, term) pair
		if t := s.freshTerm(s.last()+1+uint64(i), s.curTerm); t != s.curTerm {
			s.curTerm = t
			i = -1
		}
	}
	ents := make([]pb.Entry, 0, k)
	for i := 0; i < k; i++ {
		ents = append(ents, s.mkEntry(s.last()+1+uint64(i), s.curTerm))
	}
	s.op("append %s", brief(ents))
	s.count("op_leader_append", 1)
	if big {
		s.count("op_leader_append_big", 1)
	}
	in := cloneEntries(ents)
	s.real("append", func() { s.vl.Append(in) })
	s.log = append(s.log, ents...)
	return true
}

func (s *sim) newTail(from uint64, k int, lb uint64) []pb.Entry {
	out := make([]pb.Entry, 0, k)
	t := lb
	if t == 0 {
		t = 1 // entry terms start at 1
	}
	for j := 0; j < k; j++ {
		idx := from + uint64(j)
		if j == 0 || s.rng.Intn(3) == 0 {
			if s.curTerm > t {
				t += uint64(s.rng.Intn(int(s.curTerm-t) + 1))
			}
		}
		t = s.freshTerm(idx, t)
		if t > s.curTerm {
			s.curTerm = t
		}
		out = append(out, s.mkEntry(idx, t))
	}
	return out
}

func (s *sim) opFollower(noConflict bool) bool {
	last := s.last()
	prev := s.committed + uint64(s.rng.Intn(int(last-s.committed)+1))
	if _, ok := s.termAt(prev); !ok {
		return false
	}
	kind := s.rng.Intn(10)
	if noConflict && kind >= 2 && kind < 7 {
		kind = 9
	}
	switch {
	case kind < 2: // everything matches: nothing may change, the tail stays
		n := uint64(s.rng.Intn(int(last-prev) + 1))
		ents := cloneEntries(s.slice(prev+1, prev+1+n))
		s.op("replicate-match prev=%d ents=%s", prev, brief(ents))
		s.count("op_follower_match_noop", 1)
		s.hTryAppend(prev, ents, false, "matching-entries-changed-log")
	case kind < 7 && last > prev: // conflict at t in (prev, last], t > committed
		t := prev + 1 + uint64(s.rng.Intn(int(last-prev)))
		s.curTerm++ // the sender is a leader of a newer term
		k := 1 + s.rng.Intn(5)
		tail := s.newTail(t, k, s.mustTerm(t-1))
		ents := append(cloneEntries(s.slice(prev+1, t)), cloneEntries(tail)...)
		s.op("replicate-conflict prev=%d conflict=%d old=%s ents=%s", prev, t, brief(s.slice(t, last+1)), brief(ents))
		s.count("op_follower_conflict", 1)
		s.count("truncations", 1)
		if t+uint64(k)-1 < last {
			s.count("truncations_shortening", 1)
		}
		if t <= s.savedTo {
			s.count("truncations_below_saved_marker", 1)
		}
		s.trunc++
		s.hTryAppend(prev, ents, true, "conflict-not-appended")
		s.log = append(s.log[:t-s.off-1:t-s.off-1], tail...)
		if s.savedTo > t-1 {
			s.savedTo = t - 1
		}
	default: // matching prefix up to last, then new entries
		if s.rng.Intn(3) == 0 {
			s.curTerm++
		}
		k := 1 + s.rng.Intn(4)
		lt := s.mustTerm(last)
		if s.curTerm < lt {
			s.curTerm = lt
		}
		tail := s.newTail(last+1, k, s.curTerm)
		ents := append(cloneEntries(s.slice(prev+1, last+1)), cloneEntries(tail)...)
		s.op("replicate-extend prev=%d ents=%s", prev, brief(ents))
		s.count("op_follower_extend", 1)
		s.hTryAppend(prev, ents, true, "new-entries-not-appended")
		s.log = append(s.log, tail...)
	}
	return true
}

func (s *sim) opCommit() bool {
	if s.last() <= s.committed {
		return false
	}
	i := s.committed + 1 + uint64(s.rng.Intn(int(s.last()-s.committed)))
	if s.rng.Intn(3) == 0 {
		i = s.last()
	}
	s.op("commitTo %d", i)
	s.count("op_commit", 1)
	s.hCommit(i)
	s.committed = i
	return true
}

// opRestore is the follower InstallSnapshot path: raft.restore calls
// entryLog.restore only when ss.Index > committed and the log does not hold
// (ss.Index, ss.Term).
func (s *sim) opRestore() bool {
	idx := s.committed + 1 + uint64(s.rng.Intn(int(s.last()-s.committed)+6))
	s.curTerm++
	var lb uint64
	if idx <= s.last() {
		lb = s.mustTerm(s.committed)
	} else {
		lb = s.mustTerm(s.last())
	}
	if lb == 0 {
		lb = 1
	}
	t := lb + uint64(s.rng.Intn(int(s.curTerm-lb)+1))
	t = s.freshTerm(idx, t)
	if t > s.curTerm {
		s.curTerm = t
	}
	s.used[[2]uint64{idx, t}] = true
	s.op("restore snapshot=%d@%d (last was %d)", idx, t, s.last())
	s.count("op_snapshot_restore", 1)
	if idx <= s.last() {
		s.count("op_snapshot_restore_inside_log", 1)
	}
	s.rest++
	s.hRestore(idx, t)
	s.off, s.offTerm, s.log = idx, t, nil
	s.committed, s.processed, s.savedTo = idx, idx, idx
	s.pend, s.pendIdx, s.pendTerm = true, idx, t
	return true
}

func (s *sim) opResize(try bool) bool {
	if try {
		s.op("inmem.tryResize")
		s.count("op_inmem_tryresize", 1)
	} else {
		s.op("inmem.resize")
		s.count("op_inmem_resize", 1)
	}
	s.hResize(try)
	return true
}

// --- background goroutines of the node: apply worker and snapshot worker ---------

func (s *sim) smProgress() {
	if s.pushed <= s.smApplied {
		return
	}
	v := s.smApplied + 1 + uint64(s.rng.Intn(int(s.pushed-s.smApplied)))
	if s.rng.Intn(3) == 0 {
		v = s.pushed
	}
	for _, g := range s.gaps { // a recovered snapshot jumps over (g0, g1)
		if v > g[0] && v < g[1] {
			if s.rng.Intn(2) == 0 || g[0] < s.smApplied {
				v = g[1]
			} else {
				v = g[0]
			}
		}
	}
	if v <= s.smApplied {
		return
	}
	s.op("sm-applied %d", v)
	s.count("bg_sm_progress", 1)
	s.smApplied = v
}

func (s *sim) takeSnapshot() {
	idx := s.smApplied
	if idx == 0 || idx <= s.nodeSS {
		return
	}
	term, ok := s.appliedTerms[idx]
	if !ok {
		panic(fmt.Sprintf("harness: term of applied index %d unknown", idx))
	}
	s.op("sm-snapshot %d@%d", idx, term)
	var err error
	s.real("CreateSnapshot", func() { err = s.lr.CreateSnapshot(pb.Snapshot{Index: idx, Term: term}) })
	if s.fail != nil {
		return
	}
	if s.lrSnapIdx >= idx {
		s.count("bg_snapshot_out_of_date", 1)
		if !errors.Is(err, raft.ErrSnapshotOutOfDate) {
			s.failf("logreader.CreateSnapshot:stale-snapshot-accepted", nil,
				"CreateSnapshot(%d) with snapshot %d already known returned %v", idx, s.lrSnapIdx, err)
		}
		return
	}
	if err != nil {
		s.failf("logreader.CreateSnapshot:unexpected-error", nil, "CreateSnapshot(%d) (known %d) returned %v", idx, s.lrSnapIdx, err)
		return
	}
	s.count("bg_snapshot_created", 1)
	s.lrSnapIdx, s.lrSnapTerm = idx, term
	s.nodeSS = idx
	c := idx
	if s.rng.Intn(2) == 0 {
		c = idx - uint64(s.rng.Intn(int(idx)))
	}
	s.op("schedule-compaction %d", c)
	s.pendingCompact = c
}

func (s *sim) bg() {
	for n := s.rng.Intn(3); n > 0 && s.fail == nil; n-- {
		if s.rng.Intn(3) < 2 {
			s.smProgress()
		} else {
			s.takeSnapshot()
		}
	}
}

// --- the update cycle of engine.processSteps -----------------------------------------

func fastApply(ud pb.Update) bool {
	if !pb.IsEmptySnapshot(ud.Snapshot) {
		return false
	}
	if len(ud.CommittedEntries) > 0 && len(ud.EntriesToSave) > 0 {
		la := ud.CommittedEntries[len(ud.CommittedEntries)-1].Index
		ls := ud.EntriesToSave[len(ud.EntriesToSave)-1].Index
		fs := ud.EntriesToSave[0].Index
		if la >= fs && la <= ls {
			return false
		}
	}
	return true
}

func (s *sim) cycle() bool {
	lastApplied := s.smApplied // node.updateAppliedIndex at the start of the step
	more := s.rng.Intn(8) != 0 // toApplyQ.MoreEntryToApply()
	s.op("update-cycle lastApplied=%d moreToApply=%v", lastApplied, more)
	s.count("op_update_cycle", 1)
	if lastApplied < s.processed {
		s.count("update_cycles_with_lagging_last_applied", 1)
		s.lagc++
	}
	var ud pb.Update
	var uc pb.UpdateCommit
	s.real("getUpdate", func() {
		ud.EntriesToSave = s.vl.EntriesToSave()
		if more {
			ents, err := s.vl.EntriesToApply()
			if err != nil {
				s.failf("entriesToApply:error", nil, "entriesToApply returned %v (model: processed %d committed %d first %d)",
					err, s.processed, s.committed, s.first())
				return
			}
			ud.CommittedEntries = ents
		}
		if ss, ok := s.vl.InMemSnapshot(); ok {
			ud.Snapshot = ss
		}
		ud.LastApplied = lastApplied
		uc = raft.VerifGetUpdateCommit(ud)
	})
	if s.fail != nil {
		return true
	}
	// what the Update must contain
	if !s.apiack {
		want := s.slice(s.savedTo+1, s.last()+1)
		s.count("comparisons", 1)
		if !entsEq(ud.EntriesToSave, want) {
			s.failf("update.entriesToSave:mismatch", nil, "Update.EntriesToSave %s, logical log not yet persisted %s",
				brief(ud.EntriesToSave), brief(want))
			return true
		}
	}
	s.checkSaveTruth(ud.EntriesToSave, "update")
	if more {
		lo := s.processed + 1
		if f := s.first(); f > lo {
			lo = f
		}
		want := s.slice(lo, s.committed+1)
		s.count("comparisons", 1)
		if !entsEq(ud.CommittedEntries, want) {
			s.failf("update.committedEntries:mismatch", nil, "Update.CommittedEntries %s, model (processed %d, committed %d] %s",
				brief(ud.CommittedEntries), s.processed, s.committed, brief(want))
			return true
		}
	}
	s.count("comparisons", 1)
	if s.pend != !pb.IsEmptySnapshot(ud.Snapshot) || (s.pend && (ud.Snapshot.Index != s.pendIdx || ud.Snapshot.Term != s.pendTerm)) {
		s.failf("update.snapshot:mismatch", nil, "Update.Snapshot %d@%d, model pending restore %v %d@%d",
			ud.Snapshot.Index, ud.Snapshot.Term, s.pend, s.pendIdx, s.pendTerm)
		return true
	}
	// ordering invariant: apply only what is committed and handed out for saving
	saveIdx := map[uint64]pb.Entry{}
	for _, e := range ud.EntriesToSave {
		saveIdx[e.Index] = e
	}
	for _, e := range ud.CommittedEntries {
		s.count("apply_order_checks", 1)
		if e.Index > s.committed {
			s.failf("apply-order:not-committed", nil, "entry %d@%d handed out for apply, committed is %d", e.Index, e.Term, s.committed)
			return true
		}
		if se, ok := saveIdx[e.Index]; ok && entEq(se, e) {
			s.count("apply_in_same_update_as_save", 1)
			continue
		}
		if de, ok := s.db.ents[e.Index]; ok && entEq(de, e) {
			continue
		}
		s.failf("apply-order:not-handed-out-for-saving", nil,
			"entry %d@%d handed out for apply but neither persisted earlier nor in this update's EntriesToSave %s",
			e.Index, e.Term, brief(ud.EntriesToSave))
		return true
	}
	if len(ud.CommittedEntries) > 0 && len(ud.EntriesToSave) > 0 &&
		ud.CommittedEntries[len(ud.CommittedEntries)-1].Index > ud.EntriesToSave[len(ud.EntriesToSave)-1].Index {
		s.failf("apply-order:apply-ahead-of-save", nil, "last to apply %d > last to save %d",
			ud.CommittedEntries[len(ud.CommittedEntries)-1].Index, ud.EntriesToSave[len(ud.EntriesToSave)-1].Index)
		return true
	}
	// the acknowledgement the node will hand back
	var wuc pb.UpdateCommit
	wuc.LastApplied = lastApplied
	if n := len(ud.CommittedEntries); n > 0 {
		wuc.Processed = ud.CommittedEntries[n-1].Index
	}
	if n := len(ud.EntriesToSave); n > 0 {
		wuc.StableLogTo, wuc.StableLogTerm = ud.EntriesToSave[n-1].Index, ud.EntriesToSave[n-1].Term
	}
	if s.pend {
		wuc.StableSnapshotTo = s.pendIdx
		if wuc.Processed < s.pendIdx {
			wuc.Processed = s.pendIdx
		}
	}
	if uc.LastApplied != wuc.LastApplied || uc.Processed != wuc.Processed || uc.StableLogTo != wuc.StableLogTo ||
		uc.StableLogTerm != wuc.StableLogTerm || uc.StableSnapshotTo != wuc.StableSnapshotTo {
		s.failf("updateCommit:mismatch", nil, "getUpdateCommit %+v, expected %+v", uc, wuc)
		return true
	}
	for _, e := range ud.EntriesToSave {
		if e.Index <= s.maxHanded {
			s.count("resaves_after_truncation", 1)
		}
	}
	if n := len(ud.EntriesToSave); n > 0 && ud.EntriesToSave[n-1].Index > s.maxHanded {
		s.maxHanded = ud.EntriesToSave[n-1].Index
	}
	if len(ud.EntriesToSave) > 0 {
		s.count("update_cycles_saving", 1)
	}
	if len(ud.CommittedEntries) > 0 {
		s.count("update_cycles_applying", 1)
	}
	fast := fastApply(ud)
	apply := func() { // node.processSnapshot + node.applyRaftUpdates
		if s.pend {
			var err error
			s.real("ApplySnapshot", func() { err = s.lr.ApplySnapshot(ud.Snapshot) })
			if err != nil {
				s.failf("logreader.ApplySnapshot:unexpected-error", nil,
					"ApplySnapshot(%d) with snapshot %d known returned %v", s.pendIdx, s.lrSnapIdx, err)
				return
			}
			s.lrMarker, s.lrMarkerTerm, s.lrLast = s.pendIdx, s.pendTerm, s.pendIdx
			s.lrSnapIdx, s.lrSnapTerm = s.pendIdx, s.pendTerm
			s.gaps = append(s.gaps, [2]uint64{s.pushed, s.pendIdx})
			s.pushed, s.nodeSS = s.pendIdx, s.pendIdx
			s.appliedTerms[s.pendIdx] = s.pendTerm
		}
		for _, e := range ud.CommittedEntries {
			s.appliedTerms[e.Index] = e.Term
			s.pushed = e.Index
		}
	}
	if fast {
		s.count("update_cycles_fast_apply", 1)
		apply()
		s.bg()
	}
	s.db.saveEntries(ud.EntriesToSave) // logdb.SaveRaftState
	s.bg()
	if !fast {
		apply()
		s.bg()
	}
	if s.fail != nil {
		return true
	}
	// node.processRaftUpdate: LogReader.Append, then removeLog
	if n := len(ud.EntriesToSave); n > 0 {
		var err error
		s.real("LogReader.Append", func() { err = s.lr.Append(ud.EntriesToSave) })
		if err != nil {
			s.failf("logreader.Append:error", nil, "Append(%s) returned %v", brief(ud.EntriesToSave), err)
			return true
		}
		s.lrLast = ud.EntriesToSave[n-1].Index
	}
	if c := s.pendingCompact; c > 0 && s.fail == nil {
		s.pendingCompact = 0
		var err error
		s.real("LogReader.Compact", func() { err = s.lr.Compact(c) })
		switch {
		case s.fail != nil:
		case c < s.lrMarker:
			s.count("compactions_already_compacted", 1)
			if !errors.Is(err, raft.ErrCompacted) {
				s.failf("logreader.Compact:below-marker-not-rejected", nil, "Compact(%d) with marker %d returned %v", c, s.lrMarker, err)
			}
		case c > s.lrLast:
			panic(fmt.Sprintf("harness: compaction index %d beyond persisted range %d", c, s.lrLast))
		default:
			if err != nil {
				s.failf("logreader.Compact:error", nil, "Compact(%d) inside [%d,%d] returned %v (the node treats it as fatal)",
					c, s.lrMarker, s.lrLast, err)
				break
			}
			if c > s.lrMarker {
				s.count("compactions_effective", 1)
				s.comp++
			}
			s.lrMarker, s.lrMarkerTerm = c, s.mustTerm(c)
		}
		s.op("  compact %d", c)
		_ = s.db.RemoveEntriesTo(1, 1, c)
	}
	s.check(false, "mid-update-cycle")
	s.bg()
	if s.fail != nil {
		return true
	}
	if s.apiack {
		// the acknowledgement is late: raft went on meanwhile
		for n := 1 + s.rng.Intn(3); n > 0 && s.fail == nil; n-- {
			s.count("late_ack_interleaved_ops", 1)
			switch x := s.rng.Intn(10); {
			case x < 3:
				s.opAppend(false)
			case x < 8:
				// A conflict below StableLogTo makes the acknowledgement stale: it
				// is dropped and the saved marker stays where it was. That is
				// only within the contract if nothing above the saved marker has
				// been applied yet (the engine guarantees applied <= saved by
				// never interleaving); otherwise only non-conflicting appends.
				s.opFollower(uc.LastApplied > s.savedTo)
			default:
				s.opCommit()
			}
		}
	} else if s.rng.Intn(10) == 0 {
		// ApplyConfigChange of a RemoveNode on a leader runs under raftMu between
		// GetUpdate and Commit and may advance the commit index.
		if s.opCommit() {
			s.count("commit_between_getupdate_and_commit", 1)
		}
	}
	if s.fail != nil {
		return true
	}
	s.real("commitUpdate", func() { s.vl.CommitUpdate(uc) })
	s.op("  commit %+v", uc)
	if uc.StableLogTo > 0 {
		if !s.apiack {
			s.savedTo = uc.StableLogTo
		} else if t, ok := s.termAt(uc.StableLogTo); ok && uc.StableLogTo > s.off && t == uc.StableLogTerm {
			s.savedTo = uc.StableLogTo
			s.count("late_ack_still_valid", 1)
		} else {
			s.count("late_ack_stale", 1)
		}
	}
	if uc.Processed > 0 {
		s.processed = uc.Processed
	}
	if uc.StableSnapshotTo > 0 && s.pend && s.pendIdx == uc.StableSnapshotTo {
		s.pend = false
	}
	return true
}

// checkSaveTruth: whatever the log does not hand out for saving must already
// be in the store, identical; what it hands out must be the tail of the
// logical log.
func (s *sim) checkSaveTruth(toSave []pb.Entry, where string) {
	if s.fail != nil {
		return
	}
	s.count("comparisons", 1)
	next := s.last() + 1
	if len(toSave) > 0 {
		next = toSave[0].Index
		if next <= s.off || toSave[len(toSave)-1].Index != s.last() || !entsEq(toSave, s.slice(next, s.last()+1)) {
			s.failf(where+".entriesToSave:not-the-log-tail", nil, "entriesToSave %s is not a tail of the logical log (last %d): %s",
				brief(toSave), s.last(), brief(s.slice(maxu(next, s.off+1), s.last()+1)))
			return
		}
	}
	lo := maxu(s.first(), s.lrMarker+1)
	if lo <= s.off {
		lo = s.off + 1
	}
	for i := lo; i < next; i++ {
		me := s.log[i-s.off-1]
		if de, ok := s.db.ents[i]; !ok || !entEq(de, me) {
			s.failf(where+".entriesToSave:unpersisted-entry-considered-saved", nil,
				"entry %d@%d is not handed out for saving (%s) but the store holds %v %d@%d",
				me.Index, me.Term, brief(toSave), ok, de.Index, de.Term)
			return
		}
	}
}

func maxu(a, b uint64) uint64 {
	if a > b {
		return a
	}
	return b
}

// --- the comparison after each operation ------------------------------------------------

var sizeChoices = []uint64{0, 1, 127, 128, 129, 168, 300}

func (s *sim) randSize() uint64 {
	switch x := s.rng.Intn(10); {
	case x < 4:
		return math.MaxUint64
	case x < 6:
		return sizeChoices[s.rng.Intn(len(sizeChoices))]
	default:
		return uint64(s.rng.Intn(2500))
	}
}

func isLogErr(err error) bool {
	return errors.Is(err, raft.ErrCompacted) || errors.Is(err, raft.ErrUnavailable)
}

func (s *sim) check(full bool, where string) {
	if s.fail != nil {
		return
	}
	s.real("check@"+where, func() { s.checkInner(full, where) })
}

func (s *sim) checkInner(full bool, where string) {
	first, last := s.first(), s.last()
	cmp := int64(0)
	defer func() { s.count("comparisons", cmp) }()
	cmp++
	if got := s.vl.FirstIndex(); got != first {
		s.failf("firstIndex:mismatch", nil, "%s: firstIndex %d, model %d", where, got, first)
		return
	}
	cmp++
	if got := s.vl.LastIndex(); got != last {
		s.failf("lastIndex:mismatch", nil, "%s: lastIndex %d, model %d", where, got, last)
		return
	}
	cmp++
	if got := s.vl.Committed(); got != s.committed {
		s.failf("committed:mismatch", nil, "%s: committed %d, model %d", where, got, s.committed)
		return
	}
	marker, _, inmemLen, _ := s.vl.InMemState()
	if int64(inmemLen) > s.cnt["max_inmem_len"] {
		s.cnt["max_inmem_len"] = int64(inmemLen)
	}
	if marker > first {
		s.count("states_with_reader_part_below_inmem", 1)
	}
	// term(i) around [first-2, last+2]
	lo := uint64(0)
	if first > 2 {
		lo = first - 2
	}
	hi := last + 2
	checkTerm := func(i uint64) bool {
		cmp++
		t, err := s.vl.Term(i)
		switch {
		case i > last:
			if t != 0 {
				s.failf("term:nonzero-beyond-last", nil, "%s: term(%d) = %d beyond lastIndex %d", where, i, t, last)
				return false
			}
		case i+1 < first:
			s.count("term_checks_compacted", 1)
			if err == nil && t != 0 {
				if mt, ok := s.termAt(i); !ok || mt != t {
					s.failf("term:wrong-term-for-compacted-index", nil, "%s: term(%d) = %d for a compacted index (first %d), true term known %v %d",
						where, i, t, first, ok, mt)
					return false
				}
			}
		default:
			mt := s.mustTerm(i)
			if i < marker {
				s.count("term_checks_answered_below_inmem", 1)
			}
			if err != nil || t != mt {
				key := "term:mismatch"
				if err != nil {
					key = "term:error-inside-log"
				}
				s.failf(key, nil, "%s: term(%d) = (%d,%v), model %d (first %d last %d inmem marker %d reader [%d,%d])",
					where, i, t, err, mt, first, last, marker, s.lrMarker+1, s.lrLast)
				return false
			}
		}
		return true
	}
	if hi-lo <= 96 {
		for i := lo; i <= hi; i++ {
			if !checkTerm(i) {
				return
			}
		}
	} else {
		pts := []uint64{lo, lo + 1, lo + 2, lo + 3, hi, hi - 1, hi - 2, hi - 3, s.committed, s.committed + 1}
		for d := uint64(0); d < 3; d++ {
			pts = append(pts, marker+d)
			if marker > d {
				pts = append(pts, marker-d-1)
			}
		}
		for n := 0; n < 48; n++ {
			pts = append(pts, lo+uint64(s.rng.Intn(int(hi-lo+1))))
		}
		for _, i := range pts {
			if i < lo || i > hi {
				continue
			}
			if !checkTerm(i) {
				return
			}
		}
	}
	// getEntries(low, high, maxSize)
	for n := 0; n < 4; n++ {
		var a, b uint64
		compacted := false
		switch x := s.rng.Intn(8); {
		case x == 0 && first > 1: // starts below the first available index
			a = first - 1 - uint64(s.rng.Intn(int(minu(first-1, 3))))
			b = a + uint64(s.rng.Intn(int(last+1-a)+1))
			compacted = true
		case x <= 3 && marker > first && marker <= last: // straddles reader part and in-memory part
			a = first + uint64(s.rng.Intn(int(marker-first)))
			b = marker + 1 + uint64(s.rng.Intn(int(last+1-marker)))
			s.count("getentries_spanning_reader_and_inmem", 1)
		default:
			a = first + uint64(s.rng.Intn(int(last+1-first)+1))
			b = a + uint64(s.rng.Intn(int(last+1-a)+1))
		}
		max := s.randSize()
		cmp++
		got, err := s.vl.GetEntries(a, b, max)
		if !s.cmpRange("getEntries", where, a, b, max, compacted, got, err) {
			return
		}
	}
	{ // entries(start, maxSize)
		a := first + uint64(s.rng.Intn(int(last+1-first)+2))
		max := s.randSize()
		cmp++
		got, err := s.vl.Entries(a, max)
		if a > last {
			if err != nil || len(got) != 0 {
				s.failf("entries:beyond-last", nil, "%s: entries(%d) beyond last %d returned %s,%v", where, a, last, brief(got), err)
				return
			}
		} else if !s.cmpRange("entries", where, a, last+1, max, false, got, err) {
			return
		}
	}
	{ // getCommittedEntries: what QueryRaftLog answers
		a := first + uint64(s.rng.Intn(int(last+1-first)+1))
		if first > 1 && s.rng.Intn(6) == 0 {
			a = first - 1
		}
		b := a + 1 + uint64(s.rng.Intn(8))
		max := s.randSize()
		cmp++
		got, err := s.vl.GetCommittedEntries(a, b, max)
		if a < first || a > s.committed {
			if !errors.Is(err, raft.ErrCompacted) {
				s.failf("getCommittedEntries:out-of-range-served", nil, "%s: getCommittedEntries(%d,%d) with first %d committed %d returned %s,%v",
					where, a, b, first, s.committed, brief(got), err)
				return
			}
		} else if !s.cmpRange("getCommittedEntries", where, a, minu(b, s.committed+1), max, false, got, err) {
			return
		}
	}
	if !s.checkLR(where, &cmp) {
		return
	}
	if !full {
		return
	}
	cmp++
	if got := s.vl.Processed(); got != s.processed {
		s.failf("processed:mismatch", nil, "%s: processed %d, model %d", where, got, s.processed)
		return
	}
	// entriesToSave
	toSave := s.vl.EntriesToSave()
	if !s.apiack {
		want := s.slice(s.savedTo+1, last+1)
		cmp++
		if !entsEq(toSave, want) {
			s.failf("entriesToSave:mismatch", nil, "%s: entriesToSave %s, logical log after the saved marker %d: %s",
				where, brief(toSave), s.savedTo, brief(want))
			return
		}
	}
	s.checkSaveTruth(toSave, "log")
	if s.fail != nil {
		return
	}
	// entriesToApply
	wantApply := s.slice(maxu(s.processed+1, first), s.committed+1)
	cmp++
	if got := s.vl.HasEntriesToApply(); got != (len(wantApply) > 0) {
		s.failf("hasEntriesToApply:mismatch", nil, "%s: hasEntriesToApply %v, model (processed %d, committed %d]", where, got, s.processed, s.committed)
		return
	}
	cmp++
	ap := s.committed - uint64(s.rng.Intn(int(s.committed-s.off)+1))
	if got := s.vl.HasMoreEntriesToApply(ap); got != (s.committed > ap) {
		s.failf("hasMoreEntriesToApply:mismatch", nil, "%s: hasMoreEntriesToApply(%d) %v, committed %d", where, ap, got, s.committed)
		return
	}
	cmp++
	got, err := s.vl.EntriesToApply()
	if err != nil || !entsEq(got, wantApply) {
		s.failf("entriesToApply:mismatch", nil, "%s: entriesToApply %s,%v, model (processed %d, committed %d] %s",
			where, brief(got), err, s.processed, s.committed, brief(wantApply))
		return
	}
	limit := s.randSize()
	cmp++
	got, err = s.vl.GetEntriesToApply(limit)
	if want := limitModel(wantApply, limit); err != nil || !entsEq(got, want) {
		s.failf("getEntriesToApply:mismatch", nil, "%s: getEntriesToApply(%d) %s,%v, model %s", where, limit, brief(got), err, brief(want))
		return
	}
	if len(got) < len(wantApply) {
		s.count("apply_limited_by_size", 1)
	}
	// snapshot()
	cmp++
	ss := s.vl.Snapshot()
	wi, wt := s.lrSnapIdx, s.lrSnapTerm
	if s.pend {
		wi, wt = s.pendIdx, s.pendTerm
	}
	if ss.Index != wi || ss.Term != wt {
		s.failf("snapshot:mismatch", nil, "%s: snapshot() %d@%d, model %d@%d", where, ss.Index, ss.Term, wi, wt)
		return
	}
}

func minu(a, b uint64) uint64 {
	if a < b {
		return a
	}
	return b
}

// cmpRange compares the answer for [a,b) under maxSize with the model.
func (s *sim) cmpRange(api, where string, a, b, max uint64, compacted bool, got []pb.Entry, err error) bool {
	if compacted {
		s.count("range_checks_compacted", 1)
		if err == nil {
			s.failf(api+":compacted-range-served", nil, "%s: %s(%d,%d,%d) starts below first %d but returned %s",
				where, api, a, b, max, s.first(), brief(got))
			return false
		}
		return true
	}
	if a == b {
		if len(got) != 0 || (err != nil && !errors.Is(err, raft.ErrCompacted)) {
			s.failf(api+":empty-range", nil, "%s: %s(%d,%d) returned %s,%v", where, api, a, b, brief(got), err)
			return false
		}
		return true
	}
	want := limitModel(s.slice(a, b), max)
	if len(want) < int(b-a) {
		s.count("range_checks_limited_by_size", 1)
	}
	if err != nil || !entsEq(got, want) {
		key := api + ":mismatch"
		if err != nil {
			key = api + ":error-inside-log"
		} else if len(got) != len(want) {
			key = api + ":wrong-length"
		}
		m, _, n, _ := s.vl.InMemState()
		s.failf(key, nil, "%s: %s(%d,%d,max %d) = %s,%v; model %s (first %d last %d; inmem marker %d len %d; reader [%d,%d])",
			where, api, a, b, max, brief(got), err, brief(want), s.first(), s.last(), m, n, s.lrMarker+1, s.lrLast)
		return false
	}
	return true
}

// checkLR looks at the LogReader directly: the range it reports is exactly
// what the node made known to it.
func (s *sim) checkLR(where string, cmp *int64) bool {
	*cmp++
	f, l := s.lr.GetRange()
	if f != s.lrMarker+1 || l != s.lrLast {
		s.failf("logreader.range:mismatch", nil, "%s: LogReader.GetRange() = [%d,%d], appended/compacted so far give [%d,%d]",
			where, f, l, s.lrMarker+1, s.lrLast)
		return false
	}
	*cmp++
	if t, err := s.lr.Term(s.lrMarker); err != nil || t != s.lrMarkerTerm {
		s.failf("logreader.term:marker", nil, "%s: LogReader.Term(marker %d) = %d,%v, expected %d", where, s.lrMarker, t, err, s.lrMarkerTerm)
		return false
	}
	*cmp++
	if t, err := s.lr.Term(s.lrLast + 1); err == nil {
		s.failf("logreader.term:beyond-range-served", nil, "%s: LogReader.Term(%d) beyond last %d = %d", where, s.lrLast+1, s.lrLast, t)
		return false
	}
	if s.lrMarker > 0 {
		*cmp++
		if t, err := s.lr.Term(s.lrMarker - 1); err == nil {
			s.failf("logreader.term:below-marker-served", nil, "%s: LogReader.Term(%d) below marker %d = %d", where, s.lrMarker-1, s.lrMarker, t)
			return false
		}
	}
	if s.lrLast > s.lrMarker {
		a := s.lrMarker + 1 + uint64(s.rng.Intn(int(s.lrLast-s.lrMarker)))
		b := a + uint64(s.rng.Intn(int(s.lrLast+1-a)+1))
		max := s.randSize()
		var want []pb.Entry
		for i := a; i < b; i++ {
			e, ok := s.db.ents[i]
			if !ok {
				s.failf("logreader.range:covers-entry-not-in-store", nil, "%s: LogReader range [%d,%d] covers %d which was never persisted / already removed",
					where, s.lrMarker+1, s.lrLast, i)
				return false
			}
			want = append(want, e)
		}
		want = limitModel(want, max)
		*cmp++
		got, err := s.lr.Entries(a, b, max)
		if a == b {
			if err != nil || len(got) != 0 {
				s.failf("logreader.entries:empty-range", nil, "%s: LogReader.Entries(%d,%d) = %s,%v", where, a, b, brief(got), err)
				return false
			}
		} else if err != nil || !entsEq(got, want) {
			s.failf("logreader.entries:mismatch", nil, "%s: LogReader.Entries(%d,%d,%d) = %s,%v, store holds %s (reader [%d,%d])",
				where, a, b, max, brief(got), err, brief(want), s.lrMarker+1, s.lrLast)
			return false
		}
		*cmp++
		if t, err := s.lr.Term(a); err != nil || t != s.db.ents[a].Term {
			s.failf("logreader.term:mismatch", nil, "%s: LogReader.Term(%d) = %d,%v, store holds term %d", where, a, t, err, s.db.ents[a].Term)
			return false
		}
	}
	return true
}

// --- sequence generation --------------------------------------------------------------

type seqResult struct {
	ops        []string
	cnt        map[string]int64
	fail       *failure
	nontrivial bool
	harnessErr string
}

func runSequence(rng *rand.Rand, apiack bool) (res seqResult) {
	var s *sim
	defer func() {
		if v := recover(); v != nil {
			res.harnessErr = fmt.Sprint(v)
			if s != nil {
				res.ops, res.cnt = s.ops, s.cnt
			}
		}
	}()
	s = newSim(rng, apiack)
	s.check(true, "after-init")
	nops := 60 + rng.Intn(61)
	bigSeq := rng.Intn(10) == 0
	for n := 0; n < nops && s.fail == nil; {
		done := false
		before := len(s.ops)
		switch x := rng.Intn(100); {
		case x < 20:
			done = s.opAppend(false)
		case x < 23:
			if bigSeq {
				done = s.opAppend(true)
			}
		case x < 45:
			done = s.opFollower(false)
		case x < 61:
			done = s.opCommit()
		case x < 84:
			done = s.cycle()
		case x < 87:
			done = s.opRestore()
		case x < 89:
			done = s.opResize(false)
		case x < 91:
			done = s.opResize(true)
		case x < 96:
			if s.pushed > s.smApplied {
				s.smProgress()
				done = len(s.ops) > before
			}
		default:
			s.takeSnapshot()
			done = len(s.ops) > before
		}
		if !done {
			continue
		}
		n++
		what := "after-op"
		if len(s.ops) > before {
			what = "after-" + strings.SplitN(strings.TrimSpace(s.ops[before]), " ", 2)[0]
		}
		s.check(true, what)
	}
	res.ops, res.cnt, res.fail = s.ops, s.cnt, s.fail
	res.nontrivial = s.trunc >= 1 && s.lagc >= 1 && (s.rest >= 1 || s.comp >= 1)
	return res
}

func runModel(r *common.Run, apiack bool) {
	if !apiack {
		r.SetRule("PRNG op sequences (60-120 ops: leader append, follower tryAppend with full match / conflict above committed / extension, commitTo, " +
			"node.go update cycle with save+LogReader.Append+removeLog+commitUpdate, snapshot restore, sm progress, CreateSnapshot+scheduled Compact, inmem resize) " +
			"on the real entryLog over the real LogReader; non-trivial = >=1 conflict truncation AND >=1 update cycle whose LastApplied lags behind processed " +
			"AND >=1 snapshot restore or effective compaction; distinct by hash of the executed op list")
		r.Assume("model mode generates only interleavings the engine produces: raft.Handle is never run between Peer.GetUpdate and Peer.Commit of one replica " +
			"(engine.processSteps: stepNode -> SaveRaftState -> processRaftUpdate -> commitRaftUpdate on one step worker; raftMu is taken in between only by " +
			"ApplyConfigChange/RestoreRemotes which can at most advance the commit index - generated), so no append / truncation / restore between GetUpdate and " +
			"Commit and hence StableLogTerm is never stale here; LogReader.Compact only inside processRaftUpdate after LogReader.Append; CreateSnapshot and " +
			"state-machine progress at any point (other goroutines)")
		r.Assume("entryLog.restore only for snapshot index > committed whose (index,term) is not in the log (raft.restore fast-forwards otherwise); " +
			"follower appends never conflict at or below committed; compaction index <= applied index of the state machine; no restart in the middle of a sequence " +
			"(one third of the sequences start from a restarted replica's image)")
		r.Assume("histories respect Log Matching: an (index, term) pair names one entry with one prefix (terms are bumped on every truncation)")
	} else {
		r.SetRule("as mode model, plus 1-3 raft log operations (append, follower tryAppend incl. conflicts, commitTo) between LogReader.Append and commitUpdate of " +
			"every update cycle (late persistence acknowledgement); non-trivial as in mode model; distinct by hash of the executed op list")
		r.Assume("apiack mode exercises the entryLog API contract rather than the engine: an UpdateCommit may be acknowledged after the log moved on " +
			"(the engine never does this; inMemory.savedLogTo guards it with the term check). Oracle here is truth based: every entry the log does not hand " +
			"out for saving must be in the store with identical content; snapshot restores are not interleaved (commitUpdate's own precondition)")
	}
	total := r.Pick(30000, 500000)
	if apiack {
		total = r.Pick(15000, 150000)
	}
	cases := r.MyCases(total)
	if r.Replay != "" {
		c, ok := replayCase(r.Replay)
		if !ok {
			r.Inconclusive("replay file has no case number")
			return
		}
		cases = []int{c}
	}
	agg := map[string]int64{}
	for n, c := range cases {
		res := runSequence(r.Rand("seq", c), apiack)
		for k, v := range res.cnt {
			if strings.HasPrefix(k, "max_") {
				if v > agg[k] {
					agg[k] = v
				}
			} else {
				agg[k] += v
			}
		}
		agg["ops_executed"] += int64(len(res.ops))
		if res.harnessErr != "" {
			r.Inconclusive(fmt.Sprintf("harness error in case %d: %s", c, res.harnessErr))
			continue
		}
		r.Case(res.nontrivial, common.Hash(strings.Join(res.ops, ";")))
		if res.nontrivial && r.WantSample() {
			r.Sample(map[string]interface{}{"case": c, "ops": res.ops})
		}
		if f := res.fail; f != nil {
			r.Violation(f.key, f.what, map[string]interface{}{
				"case": c, "mode": r.Mode, "failing_op": len(res.ops), "ops": res.ops, "detail": f.detail,
			})
		}
		if n%2000 == 1999 {
			flushCounters(r, agg)
			r.Flush()
		}
	}
	flushCounters(r, agg)
}

// flushCounters moves the aggregated counters into the run (max_ ones as Max).
func flushCounters(r *common.Run, agg map[string]int64) {
	for k, v := range agg {
		if strings.HasPrefix(k, "max_") {
			r.Max(k, v)
		} else {
			r.Count(k, v)
		}
		delete(agg, k)
	}
}
