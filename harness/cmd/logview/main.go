// logview decides C19 ("the raft core's view of its log always equals the
// logical log").
//
//	-mode model   model-based differential test of the real raft entryLog (via
//	              the verif-tagged raft.VerifLog wrapper) on top of the real
//	              logdb.LogReader over an in-memory raftio.ILogDB, against a
//	              plain slice model; only operation orders the real node/engine
//	              produce.
//	-mode apiack  same system and oracle, plus the one interleaving the
//	              entryLog API contract allows but the engine never produces:
//	              a persistence acknowledgement (UpdateCommit) arriving after
//	              further appends / conflict truncations (stale StableLogTerm).
//	-mode peer    the same questions asked of a real raft.Peer driven as a
//	              follower by Replicate / Heartbeat / InstallSnapshot messages,
//	              observed through GetUpdate, LogQueryResult and VerifView.
package main

import (
	"encoding/json"
	"fmt"
	"os"
	"regexp"
	"strings"

	"github.com/lni/dragonboat/v4/logger"
	"github.com/lni/dragonboat/v4/verifh/common"
)

// quietLogger replaces dragonboat's loggers: nothing is printed, Panicf
// panics with the formatted message exactly like the default logger does.
type quietLogger struct{}

func (quietLogger) SetLevel(logger.LogLevel)          {}
func (quietLogger) Debugf(string, ...interface{})     {}
func (quietLogger) Infof(string, ...interface{})      {}
func (quietLogger) Warningf(string, ...interface{})   {}
func (quietLogger) Errorf(string, ...interface{})     {}
func (quietLogger) Panicf(f string, a ...interface{}) { panic(fmt.Sprintf(f, a...)) }

var numRe = regexp.MustCompile(`[0-9]+`)
var spRe = regexp.MustCompile(`[^A-Za-z0-9_.N-]+`)

// normPanic makes a stable witness key out of a panic value.
func normPanic(v interface{}) string {
	s := fmt.Sprint(v)
	if len(s) > 120 {
		s = s[:120]
	}
	s = numRe.ReplaceAllString(s, "N")
	s = strings.Trim(spRe.ReplaceAllString(s, "-"), "-")
	return "panic:" + s
}

// replayCase extracts the case number of a recorded witness.
func replayCase(path string) (int, bool) {
	b, err := os.ReadFile(path)
	if err != nil {
		return 0, false
	}
	var w struct {
		Witness struct {
			Case *int `json:"case"`
		} `json:"witness"`
	}
	if json.Unmarshal(b, &w) != nil || w.Witness.Case == nil {
		return 0, false
	}
	return *w.Witness.Case, true
}

func main() {
	logger.SetLoggerFactory(func(string) logger.ILogger { return quietLogger{} })
	r := common.Start("logview")
	switch r.Mode {
	case "model", "apiack":
		runModel(r, r.Mode == "apiack")
	case "peer":
		runPeer(r)
	default:
		fmt.Fprintf(os.Stderr, "logview: unknown mode %q\n", r.Mode)
		os.Exit(2)
	}
	r.Finish()
}
