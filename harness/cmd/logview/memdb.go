package main

import (
	"github.com/lni/dragonboat/v4/raftio"
	pb "github.com/lni/dragonboat/v4/raftpb"
)

// memDB is the small in-memory raftio.ILogDB the real logdb.LogReader runs on.
// Only what LogReader and the harness "node" call has real behaviour:
// IterateEntries (same contract as internal/logdb/plain.go: contiguous entries
// from low, sizes accumulated with SizeUpperLimit, the entry that crosses
// maxSize is still included), saving of entries (overwrite by index; entries
// above the last saved index of a conflicting save stay in the store as stale
// garbage exactly like in the real key-value store - LogReader's range must
// hide them), RemoveEntriesTo.
type memDB struct {
	ents map[uint64]pb.Entry
	// capMax mirrors plain.go: iteration never goes beyond the last index of
	// the most recent save. Chosen per sequence by the PRNG.
	capMax   bool
	maxIndex uint64
	iterated int64
}

var _ raftio.ILogDB = (*memDB)(nil)

func newMemDB(capMax bool) *memDB {
	return &memDB{ents: map[uint64]pb.Entry{}, capMax: capMax}
}

func cloneEntry(e pb.Entry) pb.Entry {
	c := e
	if e.Cmd != nil {
		c.Cmd = append([]byte(nil), e.Cmd...)
	}
	return c
}

func (d *memDB) saveEntries(ents []pb.Entry) {
	for _, e := range ents {
		d.ents[e.Index] = cloneEntry(e)
	}
	if len(ents) > 0 {
		d.maxIndex = ents[len(ents)-1].Index
	}
}

func (d *memDB) Name() string                             { return "logview-mem" }
func (d *memDB) Close() error                             { return nil }
func (d *memDB) BinaryFormat() uint32                     { return raftio.PlainLogDBBinVersion }
func (d *memDB) ListNodeInfo() ([]raftio.NodeInfo, error) { return nil, nil }
func (d *memDB) SaveBootstrapInfo(uint64, uint64, pb.Bootstrap) error {
	return nil
}
func (d *memDB) GetBootstrapInfo(uint64, uint64) (pb.Bootstrap, error) {
	return pb.Bootstrap{}, raftio.ErrNoBootstrapInfo
}
func (d *memDB) SaveRaftState(updates []pb.Update, _ uint64) error {
	for _, ud := range updates {
		d.saveEntries(ud.EntriesToSave)
	}
	return nil
}
func (d *memDB) IterateEntries(ents []pb.Entry, size uint64, _ uint64, _ uint64,
	low uint64, high uint64, maxSize uint64) ([]pb.Entry, uint64, error) {
	d.iterated++
	if d.capMax && high > d.maxIndex+1 {
		high = d.maxIndex + 1
	}
	for i := low; i < high; i++ {
		e, ok := d.ents[i]
		if !ok {
			break
		}
		size += uint64(e.SizeUpperLimit())
		ents = append(ents, cloneEntry(e))
		if size > maxSize {
			break
		}
	}
	return ents, size, nil
}
func (d *memDB) ReadRaftState(uint64, uint64, uint64) (raftio.RaftState, error) {
	return raftio.RaftState{}, raftio.ErrNoSavedLog
}
func (d *memDB) RemoveEntriesTo(_ uint64, _ uint64, index uint64) error {
	for i := range d.ents {
		if i <= index {
			delete(d.ents, i)
		}
	}
	return nil
}
func (d *memDB) CompactEntriesTo(uint64, uint64, uint64) (<-chan struct{}, error) {
	c := make(chan struct{})
	close(c)
	return c, nil
}
func (d *memDB) SaveSnapshots([]pb.Update) error { return nil }
func (d *memDB) GetSnapshot(uint64, uint64) (pb.Snapshot, error) {
	return pb.Snapshot{}, nil
}
func (d *memDB) RemoveNodeData(uint64, uint64) error      { return nil }
func (d *memDB) ImportSnapshot(pb.Snapshot, uint64) error { return nil }

// nopCompactor is the pb.ICompactor LogReader needs for snapshot ref counting.
type nopCompactor struct{}

func (nopCompactor) Compact(uint64) error { return nil }
