package main

func init() {
	sim := func(prop string) Stage {
		return Stage{Engine: "raftsim", Mode: "sim", BatchesQ: 16, BatchesT: 32, Par: 16, TimeoutQ: 600, TimeoutT: 5400}
	}
	simAssume := []string{
		"E1: the mini-node around the real raft.Peer/LogReader/rsm.StateMachine follows engine.processSteps/node.go by construction, not by proof; node-level behaviour is never claimed from E1 alone",
	}
	for _, p := range []string{"C02", "C03", "C06", "C07", "C17", "C18"} {
		addStages(p, "exploration", simAssume, sim(p))
	}
	addStages("C01", "exploration", simAssume, sim("C01"))
	// C04 at simulator level: every vote request, vote grant, replication acknowledgement and
	// heartbeat response is checked against the durable store of its sender when it leaves
	addStages("C04", "fault_enumeration", simAssume, sim("C04"))
}
