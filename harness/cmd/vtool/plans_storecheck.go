package main

func init() {
	// C09: log store == logical log (engine E3, reference model)
	c09 := []string{
		"stores are driven directly through raftio.ILogDB on an in-memory strict file system (lni/vfs StrictMem); the sharded Pebble store is built with logdb.NewLogDB(..., pebble.NewKVStore) exactly as the default factory does, with 4 shards and 4 step workers",
		"Tan log-file rollover is reached through the verif-only hook tan.VerifSetMaxLogFileSize (1.5 KB - 300 KB per case instead of 64 MB)",
	}
	for _, f := range []string{"pebble-plain", "pebble-batched", "tan", "tan-multiplexed"} {
		addStages("C09", "exploration", nil,
			Stage{Engine: "storecheck", Mode: "model-" + f, BatchesQ: 16, BatchesT: 64, Par: 16, TimeoutQ: 300, TimeoutT: 3000})
	}
	addStages("C09", "exploration", c09)
}

func init() {
	// C10: crash atomicity and error propagation of the log stores (engine E3)
	c10 := []string{
		"stores are driven directly through raftio.ILogDB on lni/vfs StrictMem wrapped by a harness file system that counts every mutating operation (kind, path) and can drop syncs from, or fail, the k-th one",
		"Tan: a hard-state update that changes only Commit is deliberately not fsynced (internal/tan/db.go stateSyncChange, the etcd MustSync rule); after a power loss an older Commit written since the last sync-requiring update is accepted, provided it is not below the recovered snapshot index",
		"Tan log-file rollover and manifest edits are reached through the verif-only hook tan.VerifSetMaxLogFileSize (1.2 - 9 KB per workload)",
	}
	fl := []string{"pebble-plain", "pebble-batched", "tan", "tan-multiplexed"}
	for _, f := range fl {
		addStages("C10", "fault_enumeration", nil,
			Stage{Engine: "storecheck", Mode: "crash-" + f, BatchesQ: 16, BatchesT: 32, Par: 16, TimeoutQ: 300, TimeoutT: 3000})
	}
	for _, f := range fl {
		addStages("C10", "fault_enumeration", nil,
			Stage{Engine: "storecheck", Mode: "errfs-" + f, BatchesQ: 16, BatchesT: 32, Par: 16, TimeoutQ: 600, TimeoutT: 3000})
	}
	for _, f := range fl[:2] {
		addStages("C10", "fault_enumeration", nil,
			Stage{Engine: "storecheck", Mode: "errkv-" + f, BatchesQ: 16, BatchesT: 32, Par: 16, TimeoutQ: 600, TimeoutT: 3000})
	}
	addStages("C10", "fault_enumeration", c10)
}
