package main

// rsmcheck: the deterministic white-box halves of C05, C07, C08 and C16 (the
// real rsm.StateMachine, snapshotter and log store driven from outside,
// single-threaded, on in-memory file systems).
func init() {
	addStages("C05", "exploration", []string{
		"rsmcheck/sessions drives one rsm.StateMachine per replica directly; leader changes and restarts appear only as duplicate placements and snapshot/restore cuts",
	}, Stage{Engine: "rsmcheck", Mode: "sessions", BatchesQ: 16, BatchesT: 64, Par: 16, TimeoutQ: 600, TimeoutT: 3600})
	addStages("C07", "exploration", []string{
		"rsmcheck/membership checks the apply-time rules on one state machine and its snapshot twins; quorum overlap under concurrent changes is left to the raft level engines",
	}, Stage{Engine: "rsmcheck", Mode: "membership", BatchesQ: 16, BatchesT: 64, Par: 16, TimeoutQ: 600, TimeoutT: 3600})
	addStages("C08", "exploration", []string{
		"rsmcheck/twins covers restart from the own snapshot and installation of a file / streamed snapshot without a network; log compaction by the node and lagging follower repair are left to the cluster engine",
	}, Stage{Engine: "rsmcheck", Mode: "twins", BatchesQ: 16, BatchesT: 64, Par: 16, TimeoutQ: 600, TimeoutT: 3600})
	addStages("C16", "fault_enumeration", []string{
		"rsmcheck/sscrash enumerates crash points of the snapshotter / SSEnv / chunk receiver sequences below the NodeHost; import and NodeHost restart are left to the cluster engine",
	}, Stage{Engine: "rsmcheck", Mode: "sscrash", BatchesQ: 16, BatchesT: 32, Par: 16, TimeoutQ: 600, TimeoutT: 3600})
	addStages("C13", "exploration", []string{
		"rsmcheck/payload: the decode step of the apply path (rsm.StateMachine, per-entry and batched) for plain, encoded and Snappy-encoded entries; the command bytes reaching the user state machine are compared with the proposed payloads",
	}, Stage{Engine: "rsmcheck", Mode: "payload", BatchesQ: 16, BatchesT: 32, Par: 16, TimeoutQ: 600, TimeoutT: 3600})
}

func init() {
	addStages("C11", "exploration", []string{
		"E5 twins stage registered for C11 (delivery clauses below the node: a replica that restarts from its own snapshot, installs a file snapshot or is streamed one must have been delivered - through the snapshot or through Update, never both, never neither - exactly the committed entries; an on-disk state machine is never handed an entry at or below the index it returned from Open)",
	}, Stage{Engine: "rsmcheck", Mode: "twins", BatchesQ: 16, BatchesT: 64, Par: 16, TimeoutQ: 600, TimeoutT: 3600})
}
