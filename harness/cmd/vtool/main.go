// vtool is the driver behind /verif/check: it (re)builds the engines against
// the current working tree of /repo with -tags verif, runs the stages of a
// property's check in child processes, classifies dead children and race
// reports, merges the part files into evidence/<id>.json and sets the exit
// code (0 held, 1 violation, 2 nothing decided).
package main

import (
	"encoding/json"
	"fmt"
	"os"
	"os/exec"
	"path/filepath"
	"regexp"
	"sort"
	"strconv"
	"strings"
	"sync"
	"time"

	"github.com/lni/dragonboat/v4/verifh/common"
)

const (
	verifDir   = "/verif"
	harnessDir = "/verif/harness"
)

// With VERIF_REPO=<dir> the engines are built against that copy of
// lni/dragonboat instead of /repo (used to try seeded changes in scratch
// worktrees without touching /repo); binaries, logs, parts, evidence and
// replays then go under /verif/.build/alt-<name>/ so that nothing registered
// is disturbed.
var (
	altRepo     = os.Getenv("VERIF_REPO")
	buildDir    = "/verif/.build"
	logDir      = "/verif/.build/logs"
	partDir     = "/verif/.build/parts"
	evidenceDir = "/verif/evidence"
	replayDir   = "/verif/replays"
	modFile     = ""
)

func initDirs() {
	if altRepo == "" || altRepo == "/repo" {
		altRepo = ""
		return
	}
	name := strings.Trim(keyRe.ReplaceAllString(altRepo, "_"), "_")
	buildDir = filepath.Join("/verif/.build", "alt-"+name)
	logDir = filepath.Join(buildDir, "logs")
	partDir = filepath.Join(buildDir, "parts")
	evidenceDir = filepath.Join(buildDir, "evidence")
	replayDir = filepath.Join(buildDir, "replays")
	_ = os.MkdirAll(buildDir, 0o755)
	b, err := os.ReadFile(filepath.Join(harnessDir, "go.mod"))
	if err != nil {
		fmt.Fprintln(os.Stderr, err)
		os.Exit(2)
	}
	mod := strings.Replace(string(b), "=> /repo", "=> "+altRepo, 1)
	modFile = filepath.Join(buildDir, "go.mod")
	_ = os.WriteFile(modFile, []byte(mod), 0o644)
	if sb, err := os.ReadFile(filepath.Join(harnessDir, "go.sum")); err == nil {
		_ = os.WriteFile(filepath.Join(buildDir, "go.sum"), sb, 0o644)
	}
}

var keyRe = regexp.MustCompile(`[^A-Za-z0-9]+`)

func env() []string {
	e := os.Environ()
	e = append(e, "GOFLAGS=-mod=mod", "GOPROXY=off", "GOSUMDB=off", "GOTOOLCHAIN=local", "CGO_ENABLED=1")
	return e
}

func binPath(engine string, race bool) string {
	if race {
		return filepath.Join(buildDir, engine+".race")
	}
	return filepath.Join(buildDir, engine)
}

var buildMu sync.Mutex
var built = map[string]bool{}

func build(engine string, race bool) error {
	buildMu.Lock()
	defer buildMu.Unlock()
	out := binPath(engine, race)
	if built[out] {
		return nil
	}
	args := []string{"build", "-tags", "verif"}
	if modFile != "" {
		args = append(args, "-modfile="+modFile)
	}
	if race {
		args = append(args, "-race")
	}
	args = append(args, "-o", out, "./cmd/"+engine)
	cmd := exec.Command("go", args...)
	cmd.Dir = harnessDir
	cmd.Env = env()
	b, err := cmd.CombinedOutput()
	if err != nil {
		return fmt.Errorf("build %s (race=%v) failed: %v\n%s", engine, race, err, b)
	}
	built[out] = true
	return nil
}

func tierPick(tier string, q, t int) int {
	if tier == "thorough" {
		return t
	}
	return q
}

type childResult struct {
	stage    Stage
	batch    int
	part     *common.Part
	exit     int
	timedOut bool
	logPath  string
	raceLogs []string
}

func runStage(prop, tier string, seed int64, st Stage) []childResult {
	nb := tierPick(tier, st.BatchesQ, st.BatchesT)
	if nb <= 0 {
		nb = 1
	}
	par := st.Par
	if par <= 0 {
		par = 4
	}
	if v := os.Getenv("VERIF_PAR"); v != "" {
		if n, err := strconv.Atoi(v); err == nil && n > 0 {
			par = n
		}
	}
	to := time.Duration(tierPick(tier, st.TimeoutQ, st.TimeoutT)) * time.Second
	if to <= 0 {
		to = 20 * time.Minute
	}
	results := make([]childResult, nb)
	sem := make(chan struct{}, par)
	var wg sync.WaitGroup
	for b := 0; b < nb; b++ {
		wg.Add(1)
		sem <- struct{}{}
		go func(b int) {
			defer wg.Done()
			defer func() { <-sem }()
			tag := fmt.Sprintf("%s.%s.%s.%d", prop, st.Engine, st.Mode, b)
			partPath := filepath.Join(partDir, tag+".part.json")
			logPath := filepath.Join(logDir, tag+".log")
			racePrefix := filepath.Join(logDir, tag+".race")
			_ = os.Remove(partPath)
			old, _ := filepath.Glob(racePrefix + ".*")
			for _, o := range old {
				_ = os.Remove(o)
			}
			args := []string{"-prop", prop, "-mode", st.Mode, "-tier", tier,
				"-seed", strconv.FormatInt(seed, 10), "-batch", strconv.Itoa(b), "-nbatch", strconv.Itoa(nb),
				"-out", partPath, "-replays", replayDir,
				"-known", filepath.Join(verifDir, "KNOWN_FINDINGS.txt")}
			args = append(args, st.Args...)
			// timeout -s QUIT so that a hung child leaves a goroutine dump
			targs := append([]string{"-s", "QUIT", "-k", "20", fmt.Sprintf("%d", int(to.Seconds())), binPath(st.Engine, st.Race)}, args...)
			cmd := exec.Command("timeout", targs...)
			cmd.Dir = verifDir
			e := env()
			if st.Race {
				e = append(e, "GORACE=halt_on_error=0 log_path="+racePrefix)
			}
			e = append(e, "GOTRACEBACK=all")
			// children keep their temporary files (dragonboat creates witness snapshot directories
			// with os.MkdirTemp) in a scratch directory of their own, removed when the child is done
			childTmp := filepath.Join(buildDir, "tmp", tag)
			_ = os.RemoveAll(childTmp)
			_ = os.MkdirAll(childTmp, 0o755)
			defer os.RemoveAll(childTmp)
			e = append(e, "TMPDIR="+childTmp)
			// a soft memory limit per child: the collector works harder long before 16 children
			// could exhaust the machine (a harness leak once did)
			e = append(e, "GOMEMLIMIT=3GiB")
			cmd.Env = e
			lf, err := os.Create(logPath)
			if err != nil {
				results[b] = childResult{stage: st, batch: b, exit: 2, logPath: logPath}
				return
			}
			fmt.Fprintf(lf, "# %s %s\n", binPath(st.Engine, st.Race), strings.Join(args, " "))
			cmd.Stdout = lf
			cmd.Stderr = lf
			err = cmd.Run()
			lf.Close()
			cr := childResult{stage: st, batch: b, logPath: logPath}
			if err != nil {
				if ee, ok := err.(*exec.ExitError); ok {
					cr.exit = ee.ExitCode()
				} else {
					cr.exit = 2
				}
			}
			if cr.exit == 124 || cr.exit == 137 || cr.exit == 131 {
				// 124: timeout fired; 131: SIGQUIT core; 137: killed
				if logContains(logPath, "SIGQUIT") || cr.exit == 124 || cr.exit == 137 {
					cr.timedOut = true
				}
			}
			if pb, err := os.ReadFile(partPath); err == nil {
				var p common.Part
				if json.Unmarshal(pb, &p) == nil {
					cr.part = &p
				}
			}
			cr.raceLogs, _ = filepath.Glob(racePrefix + ".*")
			results[b] = cr
		}(b)
	}
	wg.Wait()
	return results
}

func logContains(path, s string) bool {
	b, err := os.ReadFile(path)
	if err != nil {
		return false
	}
	return strings.Contains(string(b), s)
}

var (
	reHex    = regexp.MustCompile(`0x[0-9a-fA-F]+`)
	reNum    = regexp.MustCompile(`[0-9]+`)
	reGorout = regexp.MustCompile(`goroutine [0-9]+`)
)

// crashKey extracts a normalised panic / fatal error line from a child log.
func crashKey(logPath string) (string, string) {
	b, err := os.ReadFile(logPath)
	if err != nil {
		return "crash:unreadable-log", ""
	}
	lines := strings.Split(string(b), "\n")
	for i, ln := range lines {
		if strings.HasPrefix(ln, "panic: ") || strings.HasPrefix(ln, "fatal error: ") {
			msg := ln
			if len(msg) > 200 {
				msg = msg[:200]
			}
			norm := reNum.ReplaceAllString(reHex.ReplaceAllString(msg, "X"), "N")
			norm = strings.Join(strings.Fields(norm), "_")
			if len(norm) > 120 {
				norm = norm[:120]
			}
			end := i + 40
			if end > len(lines) {
				end = len(lines)
			}
			return "crash:" + norm, strings.Join(lines[i:end], "\n")
		}
	}
	return "crash:no-panic-line", ""
}

type raceReport struct {
	key    string
	frames []string
	text   string
}

var reFrame = regexp.MustCompile(`^\s+([A-Za-z0-9_./\-]+(?:\.\([^)]+\))?[A-Za-z0-9_.\-]*)\(.*\)$`)

// parseRace splits race logs into reports and keys each by the function
// names of both stacks with line numbers stripped.
func parseRace(paths []string) []raceReport {
	var out []raceReport
	seen := map[string]bool{}
	for _, p := range paths {
		b, err := os.ReadFile(p)
		if err != nil {
			continue
		}
		blocks := strings.Split(string(b), "WARNING: DATA RACE")
		for _, blk := range blocks[1:] {
			if i := strings.Index(blk, "=================="); i >= 0 {
				blk = blk[:i]
			}
			var frames []string
			for _, ln := range strings.Split(blk, "\n") {
				if strings.HasPrefix(ln, "  ") && !strings.HasPrefix(ln, "      ") && strings.Contains(ln, "(") && !strings.Contains(ln, " by ") {
					f := strings.TrimSpace(ln)
					if i := strings.LastIndex(f, "("); i > 0 {
						f = f[:i]
					}
					frames = append(frames, f)
				}
			}
			top := frames
			if len(top) > 8 {
				top = top[:8]
			}
			key := "race:" + common.Hash(strings.Join(frames, "|"))
			if seen[key] {
				continue
			}
			seen[key] = true
			if len(blk) > 6000 {
				blk = blk[:6000]
			}
			out = append(out, raceReport{key: key, frames: frames, text: blk})
		}
	}
	return out
}

func attributed(rr raceReport, pats []string) string {
	for _, f := range rr.frames {
		for _, p := range pats {
			if strings.Contains(f, p) {
				return p
			}
		}
	}
	return ""
}

func check(prop, tier string) int {
	plan, ok := plans[prop]
	if !ok {
		fmt.Fprintf(os.Stderr, "no check registered for %s\n", prop)
		return 2
	}
	seed := int64(1)
	if v := os.Getenv("VERIF_SEED"); v != "" {
		if n, err := strconv.ParseInt(v, 10, 64); err == nil {
			seed = n
		}
	}
	start := time.Now()
	for _, d := range []string{buildDir, logDir, partDir, evidenceDir, replayDir} {
		_ = os.MkdirAll(d, 0o755)
	}
	for _, st := range plan.Stages {
		if err := build(st.Engine, st.Race); err != nil {
			fmt.Fprintln(os.Stderr, err)
			fmt.Println("INCONCLUSIVE: build failed")
			return 2
		}
	}
	findings := common.LoadFindings(filepath.Join(verifDir, "KNOWN_FINDINGS.txt"))
	isKnown := func(p, k string) (bool, string) {
		for _, f := range findings {
			if f.Status == "known" && f.Property == p && f.Key == k {
				return true, f.What
			}
		}
		return false, ""
	}

	type stageAgg struct {
		Evaluations  int64                  `json:"evaluations"`
		Distinct     int                    `json:"distinct_nontrivial"`
		Rule         string                 `json:"rule"`
		Counters     map[string]int64       `json:"counters"`
		Extra        map[string]interface{} `json:"extra,omitempty"`
		Batches      int                    `json:"batches"`
		BatchesDone  int                    `json:"batches_finished"`
		TimedOut     int                    `json:"batches_timed_out"`
		Crashed      int                    `json:"batches_crashed"`
		RaceReports  int                    `json:"race_reports_distinct,omitempty"`
		RaceAttr     int                    `json:"race_reports_attributed,omitempty"`
		RaceUnattr   []string               `json:"race_unattributed_top_frames,omitempty"`
		Inconclusive []string               `json:"inconclusive,omitempty"`
	}
	var (
		totalEvals    int64
		totalDistinct int
		rules         []string
		samples       []interface{}
		byStage       = map[string]*stageAgg{}
		assumptions   = map[string]bool{}
		nViol         int
		nKnown        int
		anyIncon      bool
		allExh        = true
		knownPrinted  = map[string]bool{}
	)
	reportViolation := func(p, key, what, replay string) {
		if k, w := isKnown(p, key); k {
			nKnown++
			if !knownPrinted[p+key] {
				knownPrinted[p+key] = true
				fmt.Printf("KNOWN-FINDING: property=%s %s [%s]\n", p, w, key)
			}
			return
		}
		nViol++
		fmt.Printf("VIOLATION property=%s replay=%s\n", p, replay)
		fmt.Printf("  key=%s what=%s\n", key, what)
	}

	// stages run one after another; batches of a stage run in parallel
	for _, st := range plan.Stages {
		name := st.Engine + "/" + st.Mode
		// development aid (trials of seeded changes on scratch copies only): run one stage
		if only := os.Getenv("VERIF_ONLY_STAGE"); only != "" && altRepo != "" && !strings.Contains(name, only) {
			continue
		}
		res := runStage(prop, tier, seed, st)
		ag := &stageAgg{Counters: map[string]int64{}, Extra: map[string]interface{}{}, Batches: len(res)}
		byStage[name] = ag
		distinct := map[string]bool{}
		var stageSamples []interface{}
		for _, cr := range res {
			if cr.part != nil {
				p := cr.part
				ag.Evaluations += p.Evaluations
				for _, h := range p.Distinct {
					distinct[h] = true
				}
				if p.Rule != "" {
					ag.Rule = p.Rule
				}
				for k, v := range p.Counters {
					if strings.HasPrefix(k, "max_") {
						if v > ag.Counters[k] {
							ag.Counters[k] = v
						}
					} else {
						ag.Counters[k] += v
					}
				}
				for k, v := range p.Extra {
					if _, ok := ag.Extra[k]; !ok {
						ag.Extra[k] = v
					}
				}
				if len(stageSamples) < 2 {
					for _, s := range p.Samples {
						if len(stageSamples) < 2 {
							stageSamples = append(stageSamples, map[string]interface{}{"stage": name, "case": s})
						}
					}
				}
				for _, a := range p.Assumptions {
					assumptions[a] = true
				}
				for _, v := range p.Violations {
					reportViolation(v.Property, v.Key, v.What, v.Replay)
				}
				ag.Inconclusive = append(ag.Inconclusive, p.Inconclusive...)
				if p.Exhaustive == nil || !*p.Exhaustive {
					allExh = false
				}
				if p.Finished {
					ag.BatchesDone++
				}
			} else {
				allExh = false
			}
			finished := cr.part != nil && cr.part.Finished
			if !finished {
				if cr.timedOut {
					ag.TimedOut++
					anyIncon = true
					ag.Inconclusive = append(ag.Inconclusive, fmt.Sprintf("batch %d: watchdog fired (log %s)", cr.batch, cr.logPath))
					fmt.Printf("INCONCLUSIVE: %s batch %d watchdog fired, log %s\n", name, cr.batch, cr.logPath)
				} else {
					ag.Crashed++
					key, txt := crashKey(cr.logPath)
					if strings.Contains(txt, "verifh/") && strings.Contains(key, "harness") {
						anyIncon = true
					}
					rp := filepath.Join(replayDir, fmt.Sprintf("%s-%s-crash-s%d-b%d.log", prop, st.Engine, seed, cr.batch))
					if b, err := os.ReadFile(cr.logPath); err == nil {
						if len(b) > 400000 {
							b = append(b[:200000], b[len(b)-200000:]...)
						}
						_ = os.WriteFile(rp, b, 0o644)
					}
					if key == "crash:no-panic-line" && cr.exit == 2 {
						anyIncon = true
						fmt.Printf("INCONCLUSIVE: %s batch %d exited 2 (log %s)\n", name, cr.batch, cr.logPath)
					} else {
						reportViolation(prop, key, "child process died: "+key, rp)
					}
				}
			} else if cr.exit == 2 {
				anyIncon = true
			}
			if st.Race {
				rrs := parseRace(cr.raceLogs)
				for _, rr := range rrs {
					ag.RaceReports++
					pat := attributed(rr, st.RaceAttr)
					if pat == "" {
						top := rr.frames
						if len(top) > 3 {
							top = top[:3]
						}
						if len(ag.RaceUnattr) < 20 {
							ag.RaceUnattr = append(ag.RaceUnattr, strings.Join(top, " <- "))
						}
						continue
					}
					ag.RaceAttr++
					key := "race:" + raceKeyFrames(rr.frames, st.RaceAttr)
					rp := filepath.Join(replayDir, fmt.Sprintf("%s-%s-%s-s%d-b%d.txt", prop, st.Engine, strings.ReplaceAll(rr.key, ":", "_"), seed, cr.batch))
					_ = os.WriteFile(rp, []byte("WARNING: DATA RACE"+rr.text), 0o644)
					reportViolation(prop, key, "data race attributed to "+pat, rp)
				}
			}
		}
		ag.Distinct = len(distinct)
		totalEvals += ag.Evaluations
		totalDistinct += ag.Distinct
		if ag.Rule != "" {
			rules = append(rules, name+": "+ag.Rule)
		}
		samples = append(samples, stageSamples...)
		if len(ag.Inconclusive) > 0 {
			// engine-level inconclusives are reported, they do not fail the run
			if len(ag.Inconclusive) > 20 {
				ag.Inconclusive = ag.Inconclusive[:20]
			}
		}
	}

	var as []string
	for a := range assumptions {
		as = append(as, a)
	}
	sort.Strings(as)
	as = append(as, plan.Assumptions...)
	cov := map[string]interface{}{
		"evaluations":         totalEvals,
		"distinct_nontrivial": totalDistinct,
		"rule":                strings.Join(rules, " || "),
		"samples":             samples,
		"by_stage":            byStage,
		"known_findings_hit":  nKnown,
	}
	if allExh && len(plan.Stages) > 0 {
		cov["exhaustive"] = true
	}
	ev := map[string]interface{}{
		"property_id": prop,
		"tier":        tier,
		"seed":        seed,
		"level":       plan.Level,
		"coverage":    cov,
		"assumptions": as,
		"wall_s":      time.Since(start).Seconds(),
		"violations":  nViol,
	}
	eb, _ := json.MarshalIndent(ev, "", " ")
	evPath := filepath.Join(evidenceDir, prop+".json")
	if err := os.WriteFile(evPath, eb, 0o644); err != nil {
		fmt.Fprintln(os.Stderr, "cannot write evidence:", err)
		return 2
	}
	fmt.Printf("%s %s seed=%d evaluations=%d distinct_nontrivial=%d violations=%d known=%d wall=%.0fs evidence=%s\n",
		prop, tier, seed, totalEvals, totalDistinct, nViol, nKnown, time.Since(start).Seconds(), evPath)
	if nViol > 0 {
		return 1
	}
	if totalEvals == 0 || totalDistinct < 2 {
		fmt.Println("INCONCLUSIVE: too little observed")
		return 2
	}
	if anyIncon {
		// something could not be decided but the rest held: report, do not alarm
		fmt.Println("NOTE: some batches were inconclusive (see evidence)")
	}
	return 0
}

// raceKeyFrames builds a stable key from the first frame of each stack that
// matches an attribution pattern.
func raceKeyFrames(frames, pats []string) string {
	var ks []string
	seen := map[string]bool{}
	for _, f := range frames {
		for _, p := range pats {
			if strings.Contains(f, p) && !seen[f] {
				seen[f] = true
				ks = append(ks, f)
			}
		}
	}
	sort.Strings(ks)
	if len(ks) > 4 {
		ks = ks[:4]
	}
	return strings.Join(ks, "+")
}

func setup() int {
	_ = os.MkdirAll(buildDir, 0o755)
	type be struct {
		e string
		r bool
	}
	seen := map[be]bool{}
	var list []be
	for _, p := range plans {
		for _, st := range p.Stages {
			k := be{st.Engine, st.Race}
			if !seen[k] {
				seen[k] = true
				list = append(list, k)
			}
		}
	}
	sort.Slice(list, func(i, j int) bool {
		if list[i].r != list[j].r {
			return !list[i].r
		}
		return list[i].e < list[j].e
	})
	for _, k := range list {
		t := time.Now()
		if err := build(k.e, k.r); err != nil {
			fmt.Fprintln(os.Stderr, err)
			return 1
		}
		fmt.Printf("built %s race=%v in %.0fs\n", k.e, k.r, time.Since(t).Seconds())
	}
	return 0
}

func replay(path string) int {
	b, err := os.ReadFile(path)
	if err != nil {
		fmt.Fprintln(os.Stderr, err)
		return 2
	}
	var w struct {
		Property string `json:"property"`
		Engine   string `json:"engine"`
		Mode     string `json:"mode"`
		Tier     string `json:"tier"`
		Seed     int64  `json:"seed"`
		Batch    int    `json:"batch"`
		NBatch   int    `json:"nbatch"`
	}
	if err := json.Unmarshal(b, &w); err != nil || w.Engine == "" {
		fmt.Printf("%s is not a structured replay file (crash log or race report): read it as text\n", path)
		return 2
	}
	race := false
	if pl, ok := plans[w.Property]; ok {
		for _, st := range pl.Stages {
			if st.Engine == w.Engine && st.Mode == w.Mode {
				race = st.Race
			}
		}
	}
	if err := build(w.Engine, race); err != nil {
		fmt.Fprintln(os.Stderr, err)
		return 2
	}
	if w.NBatch == 0 {
		w.NBatch = 1
	}
	cmd := exec.Command(binPath(w.Engine, race), "-prop", w.Property, "-mode", w.Mode, "-tier", w.Tier,
		"-seed", strconv.FormatInt(w.Seed, 10), "-batch", strconv.Itoa(w.Batch), "-nbatch", strconv.Itoa(w.NBatch),
		"-replay", path, "-replays", filepath.Join(buildDir, "replay-out"))
	cmd.Env = env()
	cmd.Stdout = os.Stdout
	cmd.Stderr = os.Stderr
	cmd.Dir = verifDir
	if err := cmd.Run(); err != nil {
		if ee, ok := err.(*exec.ExitError); ok {
			return ee.ExitCode()
		}
		return 2
	}
	return 0
}

func main() {
	initDirs()
	if len(os.Args) < 2 {
		fmt.Fprintln(os.Stderr, "usage: vtool check <Cxx> <quick|thorough> | setup | replay <file> | list")
		os.Exit(2)
	}
	switch os.Args[1] {
	case "setup":
		os.Exit(setup())
	case "list":
		var ids []string
		for id := range plans {
			ids = append(ids, id)
		}
		sort.Strings(ids)
		for _, id := range ids {
			line := id + " [" + plans[id].Level + "]"
			for _, st := range plans[id].Stages {
				line += " " + st.Engine + "/" + st.Mode
				if st.Race {
					line += "(race)"
				}
			}
			fmt.Println(line)
		}
	case "replay":
		if len(os.Args) < 3 {
			os.Exit(2)
		}
		os.Exit(replay(os.Args[2]))
	case "check":
		if len(os.Args) < 4 {
			os.Exit(2)
		}
		tier := os.Args[3]
		if tier != "quick" && tier != "thorough" {
			fmt.Fprintln(os.Stderr, "tier must be quick or thorough")
			os.Exit(2)
		}
		os.Exit(check(os.Args[2], tier))
	default:
		os.Exit(2)
	}
}
