package main

func init() {
	e2 := []string{
		"E2: real NodeHosts in one process, each on its own strict in-memory file system, connected by a fault injecting in-process transport; goroutine schedules are sampled, not enumerated; a crash drops exactly the unsynced data after the host's traffic was cut",
	}
	chaos := func() Stage {
		return Stage{Engine: "clusterrun", Mode: "chaos", Race: true, BatchesQ: 8, BatchesT: 16, Par: 8, TimeoutQ: 900, TimeoutT: 5400}
	}
	addStages("C01", "exploration", e2, chaos())
	addStages("C04", "fault_enumeration", e2, chaos())
	// node level of C02: the apply records of every state machine incarnation of a chaos lifetime
	// (index -> entry, first applier fixes it), final lists equal on all replicas, every replica
	// equal to the replay of the committed log
	addStages("C02", "exploration", e2, chaos())
	addStages("C02", "exploration", e2,
		Stage{Engine: "clusterrun", Mode: "learner", BatchesQ: 6, BatchesT: 12, Par: 6, TimeoutQ: 900, TimeoutT: 3600})
	// the same stage decides the clause of C01 about operations that end without a result on a
	// shard with a single voter and a non-voting replica (reads through non-voting replicas)
	addStages("C01", "exploration", e2,
		Stage{Engine: "clusterrun", Mode: "learner", BatchesQ: 6, BatchesT: 12, Par: 6, TimeoutQ: 900, TimeoutT: 3600})
	addStages("C11", "exploration", e2,
		Stage{Engine: "clusterrun", Mode: "contract", Race: true, BatchesQ: 12, BatchesT: 16, Par: 12, TimeoutQ: 900, TimeoutT: 5400,
			RaceAttr: []string{"cluster.(*SMInst)", "cluster.(*regularSM)", "cluster.(*concurrentSM)", "cluster.(*onDiskSM)"}})
	addStages("C12", "exploration", e2,
		Stage{Engine: "clusterrun", Mode: "requests", Race: true, BatchesQ: 12, BatchesT: 16, Par: 12, TimeoutQ: 900, TimeoutT: 5400,
			RaceAttr: []string{"(*RequestState)", "(*pendingProposal)", "(*proposalShard)", "(*pendingReadIndex)", "(*pendingConfigChange)", "(*pendingSnapshot)", "(*pendingRaftLogQuery)"}})
}

func init() {
	addStages("C20", "exploration", []string{
		"E2: real NodeHosts on strict in-memory file systems; the exported directory is copied file by file to the hosts that import it",
	}, Stage{Engine: "clusterrun", Mode: "importer", BatchesQ: 12, BatchesT: 16, Par: 12, TimeoutQ: 900, TimeoutT: 3600})
}

func init() {
	// C04, store half: "SaveRaftState returned => term, vote and entries are durable", for the
	// default Pebble store and for Tan, at every file-system operation of deterministic workloads
	// (the node half - nothing leaves the replica before SaveRaftState returned - is the chaos
	// stage's send monitor)
	for _, f := range []string{"tan", "pebble-plain"} {
		addStages("C04", "fault_enumeration", []string{
			"E3 crash stages: power loss (all unsynced data dropped) at every mutating file-system operation of the log store workloads; every acknowledged SaveRaftState (hard state incl. vote, entries, snapshot record) must be readable after reopen",
		}, Stage{Engine: "storecheck", Mode: "crash-" + f, BatchesQ: 16, BatchesT: 32, Par: 16, TimeoutQ: 300, TimeoutT: 3000})
	}
}

func init() {
	addStages("C05", "exploration", []string{
		"E2 sessions stage: clients with registered sessions retry a timed out proposal with the same series id, through any host, across leader changes, snapshots, crashes and restarts; unique payload ids make a second application visible in the final lists",
	}, Stage{Engine: "clusterrun", Mode: "sessions", Race: true, BatchesQ: 8, BatchesT: 16, Par: 8, TimeoutQ: 900, TimeoutT: 5400})
}

func init() {
	addStages("C18", "exploration", []string{
		"E2 roles stage: 2 voters + 1 witness + 1 non-voting replica on real NodeHosts; messages to the witness are inspected at the send hook, the witness's state machine must stay untouched and its API must refuse client requests",
	}, Stage{Engine: "clusterrun", Mode: "roles", Race: true, BatchesQ: 4, BatchesT: 12, Par: 6, TimeoutQ: 900, TimeoutT: 3600})
}

func init() {
	addStages("C08", "exploration", []string{
		"E2 replay stage: real NodeHosts with frequent snapshots and short logs; every replica's final state is compared with the replay of the whole committed log",
	}, Stage{Engine: "clusterrun", Mode: "replay", Race: true, BatchesQ: 8, BatchesT: 16, Par: 8, TimeoutQ: 900, TimeoutT: 5400})
}

func init() {
	addStages("C17", "exploration", []string{
		"E2 progress stage: fault prefix on real NodeHosts, then a fault-free period; verdicts on logical time only (ticks processed per replica via the NodeTick hook, tick based request deadlines); wall clocks are watchdogs whose firing is inconclusive",
	}, Stage{Engine: "clusterrun", Mode: "progress", BatchesQ: 8, BatchesT: 16, Par: 8, TimeoutQ: 900, TimeoutT: 5400})
}

func init() {
	addStages("C16", "fault_enumeration", []string{
		"E2 importer stage (node level, 'imported' and 'shrunk' clauses): after an import the repaired hosts lose power at their first SaveRaftState, right after the first start, and after a second restart; they must restart and still hold the exported state (an on-disk state machine's imported snapshot is shrunk once recovered: its data must have been synced first)",
	}, Stage{Engine: "clusterrun", Mode: "importer", BatchesQ: 12, BatchesT: 16, Par: 12, TimeoutQ: 900, TimeoutT: 3600})
}

func init() {
	storm := Stage{Engine: "clusterrun", Mode: "readstorm", Race: true, BatchesQ: 8, BatchesT: 16, Par: 8, TimeoutQ: 900, TimeoutT: 3600}
	note := []string{
		"E2 readstorm stage: the node-level half of the ReadIndex path (request.go, node.go: batching of read requests, contexts, release when the local applied index reaches the read index) on real NodeHosts with one slowly applying follower under a storm of reads; decided by the exact history oracle",
	}
	addStages("C06", "exploration", note, storm)
	addStages("C01", "exploration", note, storm)
}

func init() {
	wire := Stage{Engine: "clusterrun", Mode: "wire", Race: true, BatchesQ: 6, BatchesT: 16, Par: 6, TimeoutQ: 900, TimeoutT: 5400}
	note := []string{
		"E2 wire stage: real NodeHosts on the real file system over dragonboat's own TCP transport on loopback; byte-level proxies flip bits and cut connections inside frames, snapshot chunk streams lose / repeat chunks and get payload bytes changed before framing; snapshot images carry a ballast of several blocks and external files derived from the data, commands carry derived padding - all verified inside the user state machine (altered data must never reach it); plus the history oracle and the comparison of every replica with the replay of the committed log. Hosts stop gracefully in this stage (no power loss on the real file system)",
	}
	for _, p := range []string{"C13", "C14", "C15", "C08", "C01"} {
		addStages(p, "exploration", note, wire)
	}
}

func init() {
	addStages("C16", "fault_enumeration", []string{
		"E2 replay stage registered for C16 (node level, crash instants sampled): hosts of a cluster that snapshots every 8-25 entries, streams / sends snapshots to lagging replicas, compacts and shrinks, lose power at step-worker points and arbitrary moments; when a host comes back the real start-up cleanup runs on the reopened log store and the property's directory oracle is applied (only the recorded snapshot remains, complete and loadable; no temporary, flagged or unrecorded directory), then the replica must start and converge to the replay of the committed log",
	}, Stage{Engine: "clusterrun", Mode: "replay", Race: true, BatchesQ: 8, BatchesT: 16, Par: 8, TimeoutQ: 900, TimeoutT: 5400})
}

func init() {
	members := Stage{Engine: "clusterrun", Mode: "members", Race: true, BatchesQ: 8, BatchesT: 16, Par: 8, TimeoutQ: 900, TimeoutT: 5400}
	addStages("C07", "exploration", []string{
		"E2 members stage (node level): concurrent valid and invalid membership requests through several hosts of real NodeHosts while leaders are isolated / transferred; the committed log is read back through QueryRaftLog and its config change entries are judged by a reference of the stated rules; the membership every running replica reports and every definite request outcome must agree; entries the statement does not decide adopt the requester's outcome",
	}, members)
	addStages("C03", "exploration", []string{
		"E2 members stage registered for C03: LeaderUpdated events of all hosts during membership changes, leader isolation and transfer ((shard, term) -> single leader)",
	}, members)
}

func init() {
	addStages("C08", "exploration", []string{
		"E4 chunks stage registered for C08 (a snapshot sent to a lagging follower must be durably recoverable once it is handed to the node): power loss after each receiver script, see C16",
	}, Stage{Engine: "snapcheck", Mode: "chunks", BatchesQ: 16, BatchesT: 32, Par: 16, TimeoutQ: 600, TimeoutT: 3600})
	addStages("C16", "fault_enumeration", []string{
		"E4 chunks stage registered for C16 ('received' clause): the real receiver (transport.Chunk) runs on a strict in-memory file system; after each script the power is lost: every snapshot that had been finalized and announced to the node must still be there byte for byte (directory, flag file, main and external files)",
	}, Stage{Engine: "snapcheck", Mode: "chunks", BatchesQ: 16, BatchesT: 32, Par: 16, TimeoutQ: 600, TimeoutT: 3600})
}

func init() {
	addStages("C04", "fault_enumeration", []string{
		"E2 replay stage registered for C04 (crash recovery on the snapshot path): power loss of a replica while it is being caught up by a file or streamed snapshot - at the exit of RecoverFromSnapshot, at the entry of the Sync that follows it (on-disk state machines), while it saves a snapshot of its own, a few milliseconds into the repair; it must restart and still hold everything it acknowledged (recovered-store comparison, restart without panic, equality with the replay of the committed log)",
	}, Stage{Engine: "clusterrun", Mode: "replay", Race: true, BatchesQ: 8, BatchesT: 16, Par: 8, TimeoutQ: 900, TimeoutT: 5400})
}
