package main

func init() {
	e2 := []string{
		"E2: real NodeHosts in one process, each on its own strict in-memory file system, connected by a fault injecting in-process transport; goroutine schedules are sampled, not enumerated; a crash drops exactly the unsynced data after the host's traffic was cut",
	}
	chaos := func() Stage {
		return Stage{Engine: "clusterrun", Mode: "chaos", Race: true, BatchesQ: 8, BatchesT: 16, Par: 8, TimeoutQ: 900, TimeoutT: 5400}
	}
	addStages("C01", "exploration", e2, chaos())
	addStages("C04", "fault_enumeration", e2, chaos())
	addStages("C02", "exploration", e2,
		Stage{Engine: "clusterrun", Mode: "learner", BatchesQ: 6, BatchesT: 12, Par: 6, TimeoutQ: 900, TimeoutT: 3600})
	addStages("C11", "exploration", e2,
		Stage{Engine: "clusterrun", Mode: "contract", Race: true, BatchesQ: 6, BatchesT: 12, Par: 6, TimeoutQ: 900, TimeoutT: 5400,
			RaceAttr: []string{"cluster.(*SMInst)", "cluster.(*regularSM)", "cluster.(*concurrentSM)", "cluster.(*onDiskSM)"}})
	addStages("C12", "exploration", e2,
		Stage{Engine: "clusterrun", Mode: "requests", Race: true, BatchesQ: 6, BatchesT: 12, Par: 6, TimeoutQ: 900, TimeoutT: 5400,
			RaceAttr: []string{"(*RequestState)", "(*pendingProposal)", "(*proposalShard)", "(*pendingReadIndex)", "(*pendingConfigChange)", "(*pendingSnapshot)", "(*pendingRaftLogQuery)"}})
}

func init() {
	addStages("C20", "exploration", []string{
		"E2: real NodeHosts on strict in-memory file systems; the exported directory is copied file by file to the hosts that import it",
	}, Stage{Engine: "clusterrun", Mode: "importer", BatchesQ: 6, BatchesT: 16, Par: 6, TimeoutQ: 900, TimeoutT: 3600})
}
