package main

func init() {
	addStages("C17", "exploration", []string{
		"compcheck/msgqueue: the real server.MessageQueue (the only path on which received messages, snapshot stream results and unreachable reports reach the step worker) against a reference model: accepted = delivered exactly once, delayed SnapshotStatus messages neither early nor lost whatever the order of their delays; sequential PRNG op sequences plus concurrent producers under the race detector",
	}, Stage{Engine: "compcheck", Mode: "msgqueue", Race: true, BatchesQ: 8, BatchesT: 16, Par: 8, TimeoutQ: 300, TimeoutT: 1800})
}
