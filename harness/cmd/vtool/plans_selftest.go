package main

func init() {
	// not a property: exercises the driver (./check CSELF quick)
	addStages("CSELFOK", "exploration", nil, Stage{Engine: "selftest", Mode: "ok", BatchesQ: 2, BatchesT: 4, Par: 2, TimeoutQ: 30, TimeoutT: 60})
	addStages("CSELFFAIL", "exploration", nil, Stage{Engine: "selftest", Mode: "fail", BatchesQ: 2, BatchesT: 4, Par: 2, TimeoutQ: 30, TimeoutT: 60})
	addStages("CSELFPANIC", "exploration", nil, Stage{Engine: "selftest", Mode: "panic", BatchesQ: 2, BatchesT: 2, Par: 2, TimeoutQ: 30, TimeoutT: 60})
	addStages("CSELFHANG", "exploration", nil, Stage{Engine: "selftest", Mode: "hang", BatchesQ: 1, BatchesT: 1, Par: 2, TimeoutQ: 3, TimeoutT: 3})
}
