package main

func init() {
	// C19: the raft core's view of its log always equals the logical log.
	addStages("C19", "exploration", []string{
		"C19 is decided on the real entryLog/inMemory + real LogReader over an in-memory raftio.ILogDB written in the harness (IterateEntries with the contract of internal/logdb/plain.go); the persistent stores themselves are C09/C10's business",
		"stage model generates only operation orders the engine produces (no raft.Handle between GetUpdate and Commit of one replica); stage apiack adds late persistence acknowledgements, which only the entryLog API contract allows, under the precondition that nothing above the saved marker has been applied; stage peer asks the same questions of a raft.Peer in the follower role",
	},
		Stage{Engine: "logview", Mode: "model", BatchesQ: 16, BatchesT: 32, Par: 16, TimeoutQ: 300, TimeoutT: 3600},
		Stage{Engine: "logview", Mode: "apiack", BatchesQ: 8, BatchesT: 16, Par: 16, TimeoutQ: 300, TimeoutT: 3600},
		Stage{Engine: "logview", Mode: "peer", BatchesQ: 8, BatchesT: 16, Par: 16, TimeoutQ: 300, TimeoutT: 3600})
}
