package main

// Stage is one engine invocation (split into batches run as child processes).
type Stage struct {
	Engine   string   // directory under harness/cmd
	Mode     string   // passed as -mode
	Race     bool     // build and run with the race detector
	BatchesQ int      // child processes, quick
	BatchesT int      // child processes, thorough
	Par      int      // children run in parallel
	TimeoutQ int      // watchdog per child (seconds), quick
	TimeoutT int      // watchdog per child (seconds), thorough
	Args     []string // extra arguments
	RaceAttr []string // frame substrings that attribute a race report to this property
}

// Plan is the check of one property.
type Plan struct {
	Level       string // MANIFEST level category
	Stages      []Stage
	Assumptions []string
}

var plans = map[string]Plan{}

// addStages registers stages of a property's check; several engines may add
// stages to one property (each from its own plans_<engine>.go).
func addStages(prop, level string, assumptions []string, stages ...Stage) {
	p := plans[prop]
	if p.Level == "" {
		p.Level = level
	}
	p.Stages = append(p.Stages, stages...)
	p.Assumptions = append(p.Assumptions, assumptions...)
	plans[prop] = p
}
