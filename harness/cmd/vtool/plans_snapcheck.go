package main

func init() {
	// C14: snapshot files read back intact; corruption detected, not loaded
	addStages("C14", "exploration",
		[]string{
			"snapcheck drives rsm.NewSnapshotWriter/NewSnapshotReader/SnapshotValidator/ShrinkSnapshot and the dio compressor exactly as snapshotter.Save/Load/Stream wire them, over in-memory file systems",
			"v1 files come from a harness writer that follows rwv.go's v1 writer (compared with internal/rsm/testdata/v1snapshot.gbsnap)",
			"header bits behind an all-zero header CRC slot (every file written by SnapshotWriter) are not integrity protected by the format (validateHeader's zero escape); altered loads caused by such flips are counted, not judged",
		},
		Stage{Engine: "snapcheck", Mode: "rw", BatchesQ: 16, BatchesT: 32, Par: 16, TimeoutQ: 900, TimeoutT: 3600},
		Stage{Engine: "snapcheck", Mode: "flip", BatchesQ: 16, BatchesT: 32, Par: 16, TimeoutQ: 900, TimeoutT: 3600},
		Stage{Engine: "snapcheck", Mode: "validator", BatchesQ: 16, BatchesT: 32, Par: 16, TimeoutQ: 900, TimeoutT: 3600},
		// the receiver side of the same clause: corrupted / truncated chunk streams (with and without
		// external files) fed to the real transport.Chunk must not be finalized
		Stage{Engine: "snapcheck", Mode: "chunks", BatchesQ: 16, BatchesT: 32, Par: 16, TimeoutQ: 900, TimeoutT: 3600})
	// C15: chunk transfer reassembles exactly or rejects
	addStages("C15", "exploration",
		[]string{
			"snapcheck feeds chunks produced by the real sender code (transport.splitSnapshotMessage/loadChunkData, rsm.ChunkWriter, witness chunk) to the real transport.Chunk receiver (Add/Tick) on an in-memory file system; the wire (TCP framing, its CRC) is not part of this check",
			"corrupted bytes are judged where the stream validator covers them; header bytes behind an all-zero CRC slot and external-file bytes are counted by outcome only",
		},
		Stage{Engine: "snapcheck", Mode: "chunks", BatchesQ: 16, BatchesT: 32, Par: 16, TimeoutQ: 900, TimeoutT: 3600})
}
