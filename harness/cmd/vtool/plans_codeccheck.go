package main

func init() {
	// C13: codecs round-trip, size bounds, transport frame checks (engine E4 codeccheck)
	addStages("C13", "exploration",
		[]string{
			"C13 is decided over generated values (boundary set of the statement plus random), not over all values; byte slices up to a per-tier maximum",
			"frames: only damage that the magic compare / CRC32 provably detect is injected (1-2 bit flips, bursts <= 32 bits, truncations); bytes lost in the middle of a stream are detected by CRC32 with probability 1-2^-32 per check",
		},
		Stage{Engine: "codeccheck", Mode: "roundtrip", BatchesQ: 16, BatchesT: 16, Par: 16, TimeoutQ: 600, TimeoutT: 3600},
		Stage{Engine: "codeccheck", Mode: "frames", BatchesQ: 16, BatchesT: 16, Par: 16, TimeoutQ: 600, TimeoutT: 3600})
}
