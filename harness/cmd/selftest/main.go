// selftest is a template engine and a test of the driver: it is not part of
// any registered check.  -mode ok | fail | known | panic | hang
package main

import (
	"fmt"
	"time"

	"github.com/lni/dragonboat/v4/verifh/common"
)

func main() {
	r := common.Start("selftest")
	r.SetRule("cases are integers drawn from the PRNG; non-trivial = odd; distinct by value")
	r.Assume("template only")
	n := r.Pick(100, 1000)
	for _, c := range r.MyCases(n) {
		rng := r.Rand("case", c)
		v := rng.Intn(50)
		r.Case(v%2 == 1, common.Hash(v))
		r.Count("values_seen", 1)
		if r.WantSample() {
			r.Sample(map[string]int{"case": c, "value": v})
		}
		if r.Mode == "fail" && v == 7 {
			r.Violation("selftest:value-7", fmt.Sprintf("case %d drew 7", c), map[string]int{"case": c})
		}
	}
	switch r.Mode {
	case "panic":
		panic("selftest panic")
	case "hang":
		time.Sleep(time.Hour)
	}
	r.Finish()
}
