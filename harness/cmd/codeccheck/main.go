// codeccheck decides property C13: every persisted / wire value round-trips,
// the advertised sizes bound the encodings, the entry payload codec returns
// the payload, and corrupted or truncated transport frames are rejected.
//
//	-mode roundtrip   structure-aware generators over every raftpb codec,
//	                  client.Session, the Tan Update record and
//	                  rsm.GetEncoded/GetPayload
//	-mode frames      frames written by the real TCP sender, corrupted and
//	                  truncated, read back by the real TCP receiver
package main

import (
	"encoding/json"
	"fmt"
	"os"
	"runtime/debug"

	"github.com/lni/dragonboat/v4/logger"
	"github.com/lni/dragonboat/v4/verifh/common"
)

const valuesPerBlock = 50

type rtType struct {
	name   string
	weight int
	run    func(c *rtCtx, g *gen)
}

func rtTypes(maxPayload int) []rtType {
	return []rtType{
		{"Entry", 16, func(c *rtCtx, g *gen) { checkCodec(c, g, specEntry) }},
		{"EntryBatch", 8, func(c *rtCtx, g *gen) { checkCodec(c, g, specEntryBatch) }},
		{"Message", 10, func(c *rtCtx, g *gen) { checkCodec(c, g, specMessage) }},
		{"MessageBatch", 6, func(c *rtCtx, g *gen) { checkCodec(c, g, specMessageBatch) }},
		{"Update", 10, checkUpdate},
		{"State", 5, func(c *rtCtx, g *gen) { checkCodec(c, g, specState) }},
		{"Snapshot", 6, func(c *rtCtx, g *gen) { checkCodec(c, g, specSnapshot) }},
		{"SnapshotHeader", 4, func(c *rtCtx, g *gen) { checkCodec(c, g, specSnapshotHeader) }},
		{"SnapshotFile", 4, func(c *rtCtx, g *gen) { checkCodec(c, g, specSnapshotFile) }},
		{"Membership", 5, func(c *rtCtx, g *gen) { checkCodec(c, g, specMembership) }},
		{"ConfigChange", 4, func(c *rtCtx, g *gen) { checkCodec(c, g, specConfigChange) }},
		{"Chunk", 5, func(c *rtCtx, g *gen) { checkCodec(c, g, specChunk) }},
		{"Bootstrap", 4, func(c *rtCtx, g *gen) { checkCodec(c, g, specBootstrap) }},
		{"RaftDataStatus", 4, func(c *rtCtx, g *gen) { checkCodec(c, g, specRaftDataStatus) }},
		{"client.Session", 4, func(c *rtCtx, g *gen) { checkCodec(c, g, specSession) }},
		{"EncodedPayload", 5, func(c *rtCtx, g *gen) { checkPayload(c, g, maxPayload) }},
	}
}

// replayTarget extracts the block / frame number from a replay file.
func replayTarget(path, field string) (int, bool) {
	b, err := os.ReadFile(path)
	if err != nil {
		return 0, false
	}
	var w struct {
		Witness map[string]interface{} `json:"witness"`
	}
	if json.Unmarshal(b, &w) != nil || w.Witness == nil {
		return 0, false
	}
	f, ok := w.Witness[field].(float64)
	return int(f), ok
}

func runRoundtrip(r *common.Run) {
	r.SetRule("roundtrip: a case is one generated value of one codec type (Entry, EntryBatch, Message, MessageBatch, Update, State, Snapshot, " +
		"SnapshotHeader, SnapshotFile, Membership, ConfigChange, Chunk, Bootstrap, RaftDataStatus, client.Session, EncodedPayload); " +
		"non-trivial = the value has at least one integer field drawn from the boundary set with value >= 127 (or an undeclared enum value) " +
		"or at least one non-empty nested slice / map / byte payload; distinct by hash of the encoded bytes " +
		"(values holding a map with >= 2 entries, whose encoding order is not fixed, and payload cases: hash of the generated field values); " +
		"thorough tier keeps 1 in 16 of the hashes (counter distinct_nontrivial_values_in_batch has the unsampled per-batch count)")
	r.Assume("byte slices and payloads are generated up to a per-tier maximum (quick 2 MiB+1, thorough 32 MiB+1), not up to the 3.68 GB snappy block limit; the arithmetic at that limit is checked without allocating")
	r.Assume("Size() is required to be >= the encoded length for every type and exactly the encoded length for types whose Size() is written as a length prefix by their parents (Entry, Message, Snapshot, SnapshotFile, Membership); SizeUpperLimit() is required to be >= the encoded length")
	r.SetExtra("accepted_normalisations", acceptedNormalisations)
	r.SetExtra("boundary_set_u64", func() []string {
		var s []string
		for _, b := range u64Boundaries {
			s = append(s, b.name)
		}
		return s
	}())
	r.SetExhaustive(false)

	maxPayload := r.Pick(2<<20+1, 32<<20+1)
	types := rtTypes(maxPayload)
	totalW := 0
	for _, t := range types {
		totalW += t.weight
	}
	st := stats{}
	c := &rtCtx{r: r, st: st, seen: map[uint64]struct{}{}, distinctSample: uint64(r.Pick(1, 16))}
	blocks := r.MyCases(r.Pick(20000, 640000))
	if r.Replay != "" {
		if b, ok := replayTarget(r.Replay, "block"); ok {
			blocks = []int{b}
		}
	}
	if r.Batch == 0 {
		checkPayloadLimits(c)
	}
	for bi, b := range blocks {
		rng := r.Rand("rtblock", b)
		g := newGen(rng, st)
		c.block = b
		for i := 0; i < valuesPerBlock; i++ {
			c.idx = i
			// byte budget of the value: mostly moderate, now and then large
			budget, maxLong := 64<<10, 16<<10
			switch p := rng.Intn(1000); {
			case p < 10:
				budget, maxLong = 1<<20, 512<<10
			case p < 12 && r.Thorough():
				budget, maxLong = 8<<20, 4<<20
			}
			g.reset(budget, maxLong)
			w := rng.Intn(totalW)
			for ti := range types {
				if w < types[ti].weight {
					g.hu(uint64(ti))
					types[ti].run(c, g)
					break
				}
				w -= types[ti].weight
			}
		}
		if bi%5000 == 4999 {
			flushStats(r, st)
			r.Flush()
		}
	}
	flushStats(r, st)
}

func flushStats(r *common.Run, st stats) {
	for k, v := range st {
		if v != 0 {
			r.Count(k, v)
			st[k] = 0
		}
	}
}

func main() {
	r := common.Start("codeccheck")
	// allocation heavy and short lived: trade memory for fewer GC cycles
	debug.SetGCPercent(400)
	logger.GetLogger("transport").SetLevel(logger.CRITICAL)
	logger.GetLogger("raftpb").SetLevel(logger.CRITICAL)
	logger.GetLogger("rsm").SetLevel(logger.CRITICAL)
	switch r.Mode {
	case "roundtrip":
		runRoundtrip(r)
	case "frames":
		runFrames(r)
	default:
		fmt.Fprintf(os.Stderr, "codeccheck: unknown mode %q\n", r.Mode)
		os.Exit(2)
	}
	r.Finish()
}
