package main

import (
	"bytes"
	"fmt"

	"github.com/golang/snappy"

	"github.com/lni/dragonboat/v4/internal/rsm"
	"github.com/lni/dragonboat/v4/internal/utils/dio"
	pb "github.com/lni/dragonboat/v4/raftpb"
)

// entry payload codec: rsm.GetEncoded / rsm.GetPayload

var payloadSmallBnd = []int{1, 2, 127, 128, 129, 16383, 16384, 16385}
var payloadBlockBnd = []int{65535, 65536, 65537, 131072, 131073}
var payloadBigBnd = []int{1<<20 - 1, 1 << 20, 1<<21 - 1, 1 << 21, 1<<21 + 1}

type payloadCase struct {
	Compression string `json:"compression"`
	Len         int    `json:"len"`
	Fill        string `json:"fill"`
	Dst         string `json:"dst"`
}

func checkPayload(c *rtCtx, g *gen, maxPayload int) {
	const typ = "EncodedPayload"
	ct := dio.NoCompression
	pc := payloadCase{Compression: "NoCompression"}
	if g.rng.Intn(2) == 1 {
		ct = dio.Snappy
		pc.Compression = "Snappy"
	}
	g.hu(uint64(ct))
	n := 0
	cls := ""
	switch p := g.rng.Intn(10000); {
	case p < 200:
		n, cls = 0, "0"
	case p < 3000:
		n = payloadSmallBnd[g.rng.Intn(len(payloadSmallBnd))]
		cls = fmt.Sprintf("bnd-%d", n)
		g.bnd++
	case p < 7000:
		n, cls = 1+g.rng.Intn(4096), "1..4096"
	case p < 9400:
		n, cls = 4097+g.rng.Intn(60000), "4097..64096"
	case p < 9850:
		n = payloadBlockBnd[g.rng.Intn(len(payloadBlockBnd))]
		cls = fmt.Sprintf("bnd-%d", n)
		g.bnd++
	case p < 9995:
		n = payloadBigBnd[g.rng.Intn(len(payloadBigBnd))]
		cls = fmt.Sprintf("bnd-%d", n)
		g.bnd++
	default:
		n, cls = maxPayload-g.rng.Intn(3), "max-of-tier"
		g.bnd++
	}
	if n > maxPayload {
		n = maxPayload
	}
	pc.Len = n
	c.st["len_payload:"+cls]++
	c.st["payload_compression:"+pc.Compression]++
	c.r.Max("max_payload_len", int64(n))
	payload := make([]byte, n)
	g.fill(payload)
	g.hb(payload)
	if n > 0 {
		g.nested++
	}
	stage := "GetEncoded"
	defer func() {
		if rec := recover(); rec != nil {
			c.violate(typ, "panic-in-"+stage+":"+normPanic(rec),
				fmt.Sprintf("%s panicked on a legal payload: %v", stage, rec), pc, nil, nil)
		}
	}()
	if n == 0 {
		// GetEncoded requires a non-empty payload (proposals with an empty cmd
		// are sent as ApplicationEntry with no encoding): the guard must fire
		// and the plain entry must give the empty payload back.
		c.account(typ, g, nil)
		fired := func() (f bool) {
			defer func() {
				if rec := recover(); rec != nil {
					f = true
				}
			}()
			_ = rsm.GetEncoded(ct, payload, nil)
			return false
		}()
		if fired {
			c.st["payload_empty:guard-panic(by contract)"]++
		} else {
			c.st["payload_empty:encoded"]++
		}
		got, err := rsm.GetPayload(pb.Entry{Type: pb.ApplicationEntry, Cmd: payload})
		if err != nil || len(got) != 0 {
			c.violate(typ, "empty-payload-not-returned", "GetPayload of a plain entry with empty Cmd returned data or an error", pc, nil, nil)
		}
		return
	}
	// destination buffer variants
	var dst []byte
	switch g.rng.Intn(4) {
	case 0:
		pc.Dst = "nil"
	case 1:
		pc.Dst = "too-small"
		dst = make([]byte, g.rng.Intn(n+1))
	case 2:
		pc.Dst = "len+1"
		dst = make([]byte, n+1)
	default:
		pc.Dst = "large"
		dst = make([]byte, snappy.MaxEncodedLen(n)+1+g.rng.Intn(64))
	}
	g.hu(uint64(len(dst)))
	c.st["payload_dst:"+pc.Dst]++
	keep := append([]byte(nil), payload...)
	enc := rsm.GetEncoded(ct, payload, dst)
	c.account(typ, g, nil)
	if !bytes.Equal(payload, keep) {
		c.violate(typ, "GetEncoded-modifies-input", "GetEncoded changed the caller's payload", pc, enc, nil)
		return
	}
	// advertised sizes
	switch ct {
	case dio.NoCompression:
		if len(enc) != n+1 {
			c.violate(typ, "encoded-length", fmt.Sprintf("NoCompression: encoded length %d, want payload+1 = %d", len(enc), n+1), pc, nil, nil)
			return
		}
	case dio.Snappy:
		ml, ok := dio.MaxEncodedLen(dio.Snappy, uint64(n))
		if !ok || uint64(len(enc)) > ml+1 {
			c.violate(typ, "encoded-exceeds-MaxEncodedLen", fmt.Sprintf("Snappy: encoded length %d > MaxEncodedLen %d + 1 (ok=%v)", len(enc), ml, ok), pc, nil, nil)
			return
		}
		if len(enc) < n {
			c.st["payload_snappy:compressed-smaller"]++
		}
	}
	stage = "GetPayload"
	e := pb.Entry{Type: pb.EncodedEntry, Index: 1, Term: 1, Cmd: enc}
	got, err := rsm.GetPayload(e)
	if err != nil {
		c.violate(typ, "GetPayload-error", "GetPayload failed on GetEncoded output: "+err.Error(), pc, nil, nil)
		return
	}
	if !bytes.Equal(got, keep) {
		c.violate(typ, "payload-mismatch", fmt.Sprintf("GetPayload(GetEncoded(p)) != p (len %d vs %d)", len(got), len(keep)), pc, nil, nil)
		return
	}
	c.st["payload_roundtrips_equal"]++
	// and through the entry codec, as on the wire / on disk
	stage = "Entry codec around the encoded payload"
	eb, err := e.Marshal()
	if err != nil {
		c.violate(typ, "marshal-error", err.Error(), pc, nil, nil)
		return
	}
	var e2 pb.Entry
	if err := e2.Unmarshal(eb); err != nil {
		c.violate(typ, "unmarshal-error", err.Error(), pc, nil, nil)
		return
	}
	got, err = rsm.GetPayload(e2)
	if err != nil || !bytes.Equal(got, keep) {
		c.violate(typ, "payload-mismatch-after-entry-codec", "payload differs after Entry Marshal/Unmarshal", pc, nil, nil)
		return
	}
	// plain entries hand the Cmd back untouched
	if n <= 4096 {
		for _, t := range []pb.EntryType{pb.ApplicationEntry, pb.ConfigChangeEntry} {
			got, err := rsm.GetPayload(pb.Entry{Type: t, Cmd: keep})
			if err != nil || !bytes.Equal(got, keep) {
				c.violate(typ, "plain-payload-mismatch", "GetPayload of a plain entry differs from Cmd", pc, nil, nil)
				return
			}
		}
	}
}

// checkPayloadLimits checks the arithmetic at the maximum block size without
// allocating it.
func checkPayloadLimits(c *rtCtx) {
	defer func() {
		if rec := recover(); rec != nil {
			c.violate("EncodedPayload", "panic-in-limits:"+normPanic(rec), fmt.Sprintf("%v", rec), nil, nil, nil)
		}
	}()
	mx := rsm.GetMaxBlockSize(dio.Snappy)
	if _, ok := dio.MaxEncodedLen(dio.Snappy, mx); !ok {
		c.violate("EncodedPayload", "max-block-size-not-encodable", fmt.Sprintf("MaxEncodedLen(Snappy, GetMaxBlockSize=%d) not ok", mx), nil, nil, nil)
	}
	if snappy.MaxEncodedLen(int(mx)) < 0 {
		c.violate("EncodedPayload", "max-block-size-not-encodable", fmt.Sprintf("snappy refuses GetMaxBlockSize=%d", mx), nil, nil, nil)
	}
	if _, ok := dio.MaxEncodedLen(dio.Snappy, mx+1); ok {
		c.violate("EncodedPayload", "max-block-size-not-enforced", "MaxEncodedLen accepts GetMaxBlockSize+1", nil, nil, nil)
	}
	c.st["payload_limits_checked"]++
}
