package main

import (
	"bytes"
	"context"
	"encoding/binary"
	"encoding/hex"
	"fmt"
	"hash/crc32"
	"io"
	"math/rand"
	"net"
	"reflect"
	"sort"
	"sync"
	"time"

	"github.com/lni/dragonboat/v4/config"
	"github.com/lni/dragonboat/v4/internal/transport"
	"github.com/lni/dragonboat/v4/raftio"
	pb "github.com/lni/dragonboat/v4/raftpb"
	"github.com/lni/dragonboat/v4/verifh/common"
)

// ---- in-memory connection ----

type patch struct {
	pos int
	xor byte
}

// segment is a run of bytes of the stream: data[:limit] with some bytes
// xor-ed.
type segment struct {
	data    []byte
	limit   int
	patches []patch
}

// memConn is a net.Conn that serves a prepared byte stream and then EOF; what
// is written to it is captured.
type memConn struct {
	segs    []segment
	si, pos int
	capture *bytes.Buffer
}

type memAddr struct{}

func (memAddr) Network() string { return "mem" }
func (memAddr) String() string  { return "mem" }

func (c *memConn) Read(p []byte) (int, error) {
	for c.si < len(c.segs) && c.pos >= c.segs[c.si].limit {
		c.si++
		c.pos = 0
	}
	if c.si >= len(c.segs) {
		return 0, io.EOF
	}
	if len(p) == 0 {
		return 0, nil
	}
	s := &c.segs[c.si]
	n := copy(p, s.data[c.pos:s.limit])
	for _, pt := range s.patches {
		if pt.pos >= c.pos && pt.pos < c.pos+n {
			p[pt.pos-c.pos] ^= pt.xor
		}
	}
	c.pos += n
	return n, nil
}

func (c *memConn) Write(p []byte) (int, error) {
	if c.capture != nil {
		c.capture.Write(p)
	}
	return len(p), nil
}

func (c *memConn) Close() error                       { return nil }
func (c *memConn) LocalAddr() net.Addr                { return memAddr{} }
func (c *memConn) RemoteAddr() net.Addr               { return memAddr{} }
func (c *memConn) SetDeadline(t time.Time) error      { return nil }
func (c *memConn) SetReadDeadline(t time.Time) error  { return nil }
func (c *memConn) SetWriteDeadline(t time.Time) error { return nil }

// bytesOf materialises the stream (for the socket path).
func streamBytes(segs []segment) []byte {
	var out []byte
	for _, s := range segs {
		start := len(out)
		out = append(out, s.data[:s.limit]...)
		for _, pt := range s.patches {
			if pt.pos < s.limit {
				out[start+pt.pos] ^= pt.xor
			}
		}
	}
	return out
}

// ---- frames and what was delivered ----

// item is one message batch or chunk, as sent (original) or as delivered.
type item struct {
	isChunk bool
	mb      pb.MessageBatch
	ck      pb.Chunk
	// byte level
	method  uint16
	payload []byte
}

func sameValue(a, b *item) bool {
	if a.isChunk != b.isChunk {
		return false
	}
	if a.isChunk {
		return reflect.DeepEqual(&a.ck, &b.ck)
	}
	return reflect.DeepEqual(&a.mb, &b.mb)
}

func sameBytes(a, b *item) bool {
	return a.method == b.method && bytes.Equal(a.payload, b.payload)
}

// matchSubsequence reports whether got is an in-order subsequence of sent;
// hit[i] says whether sent[i] was delivered.
func matchSubsequence(sent []*item, got []*item, eq func(a, b *item) bool) (bool, []bool, int) {
	hit := make([]bool, len(sent))
	j := 0
	for gi, g := range got {
		found := false
		for j < len(sent) {
			if eq(sent[j], g) {
				hit[j] = true
				j++
				found = true
				break
			}
			j++
		}
		if !found {
			return false, hit, gi
		}
	}
	return true, hit, -1
}

type recorder struct {
	mu    sync.Mutex
	items []*item
	note  chan struct{}
}

func newRecorder() *recorder { return &recorder{note: make(chan struct{}, 1024)} }

func (rc *recorder) onBatch(mb pb.MessageBatch) {
	rc.mu.Lock()
	rc.items = append(rc.items, &item{mb: mb})
	rc.mu.Unlock()
	select {
	case rc.note <- struct{}{}:
	default:
	}
}

func (rc *recorder) onChunk(ck pb.Chunk) bool {
	rc.mu.Lock()
	rc.items = append(rc.items, &item{isChunk: true, ck: ck})
	rc.mu.Unlock()
	select {
	case rc.note <- struct{}{}:
	default:
	}
	return true
}

func (rc *recorder) take() []*item {
	rc.mu.Lock()
	defer rc.mu.Unlock()
	out := rc.items
	rc.items = nil
	for {
		select {
		case <-rc.note:
			continue
		default:
		}
		break
	}
	for _, it := range out {
		if it.isChunk {
			normChunk(&it.ck)
		} else {
			normMessageBatch(&it.mb)
		}
	}
	return out
}

func (rc *recorder) count() int {
	rc.mu.Lock()
	defer rc.mu.Unlock()
	return len(rc.items)
}

// ---- the frames engine ----

const (
	magicLen  = 2
	headerLen = transport.VerifRequestHeaderSize
	prefixLen = magicLen + headerLen
)

type framesCtx struct {
	r    *common.Run
	st   stats
	recv raftio.ITransport // never started: serveConn driven on memConns
	rec  *recorder
	capC *memConn
	send *transport.TCPConnection
	rbuf []byte
	// real loopback listener
	sock     raftio.ITransport
	sockRec  *recorder
	sockAddr string
	frame    int
	vioCount map[string]int
}

type builtFrame struct {
	class string
	orig  *item  // normalised original
	bytes []byte // what the real sender wrote
	h     uint64 // hash of the generated value
	// an un-normalised copy for the real sender on the socket path
	resend func() (*pb.MessageBatch, *pb.Chunk)
}

// capture runs the real sender over a capturing connection.
func (f *framesCtx) capture(mb *pb.MessageBatch, ck *pb.Chunk) (out []byte, err error) {
	defer func() {
		if rec := recover(); rec != nil {
			err = fmt.Errorf("sender panicked: %v", rec)
		}
	}()
	f.capC.capture.Reset()
	if mb != nil {
		if e := f.send.SendMessageBatch(*mb); e != nil {
			return nil, e
		}
	} else {
		sc := transport.NewTCPSnapshotConnection(f.capC, false)
		if e := sc.SendChunk(*ck); e != nil {
			return nil, e
		}
	}
	return append([]byte(nil), f.capC.capture.Bytes()...), nil
}

func tinyBatch(g *gen) pb.MessageBatch {
	mb := pb.MessageBatch{DeploymentId: g.u64(), SourceAddress: "a:1", BinVer: g.u32()}
	if g.rng.Intn(4) > 0 {
		mb.Requests = []pb.Message{{Type: pb.MessageType(g.rng.Intn(29)), To: g.u64(), From: g.u64(), ShardID: g.u64(), Term: g.u64(), Commit: g.u64()}}
	}
	return mb
}

// padBatchTo appends a message with one entry so that the encoded batch has
// exactly target bytes (if it can be reached).
func padBatchTo(mb *pb.MessageBatch, target int, rng *rand.Rand) {
	base := mb.Size()
	if base+64 >= target {
		return
	}
	l := target - base - 40
	mb.Requests = append(mb.Requests, pb.Message{Type: pb.Replicate, To: 2, From: 1, ShardID: 1, Term: 5,
		Entries: []pb.Entry{{Term: 5, Index: 100, Type: pb.EncodedEntry, Cmd: make([]byte, l)}}})
	e := &mb.Requests[len(mb.Requests)-1].Entries[0]
	rng.Read(e.Cmd)
	for i := 0; i < 6; i++ {
		d := target - mb.Size()
		if d == 0 {
			return
		}
		nl := len(e.Cmd) + d
		if nl < 1 {
			return
		}
		if nl <= len(e.Cmd) {
			e.Cmd = e.Cmd[:nl]
		} else {
			e.Cmd = append(e.Cmd, make([]byte, nl-len(e.Cmd))...)
		}
	}
}

// solveAffine32 finds x with f(x) == target for a function that is affine over
// GF(2) in the 32 bits of x (as CRC32 is in any 4 bytes of its input).
func solveAffine32(f func(uint32) uint32, target uint32) (uint32, bool) {
	base := f(0)
	var col [32]uint32 // col[i] = effect of bit i of x
	for i := 0; i < 32; i++ {
		col[i] = f(1<<uint(i)) ^ base
	}
	// Gaussian elimination: basis[b] = (vector with leading bit b, combination of x bits)
	var bv, bx [32]uint32
	var have [32]bool
	for i := 0; i < 32; i++ {
		v, x := col[i], uint32(1)<<uint(i)
		for b := 31; b >= 0 && v != 0; b-- {
			if v&(1<<uint(b)) == 0 {
				continue
			}
			if !have[b] {
				have[b], bv[b], bx[b] = true, v, x
				v = 0
				break
			}
			v ^= bv[b]
			x ^= bx[b]
		}
	}
	want, x := base^target, uint32(0)
	for b := 31; b >= 0 && want != 0; b-- {
		if want&(1<<uint(b)) == 0 {
			continue
		}
		if !have[b] {
			return 0, false
		}
		want ^= bv[b]
		x ^= bx[b]
	}
	return x, f(x) == target
}

// solveFrameCRC sets the first four bytes of slot (a slice that is part of mb)
// so that the CRC32 of the encoded batch (which == "payload") or the CRC32 of
// the frame header written for it (which == "header") equals target.
func solveFrameCRC(mb *pb.MessageBatch, slot []byte, which string, target uint32) bool {
	enc, err := mb.Marshal()
	if err != nil {
		return false
	}
	off := bytes.LastIndex(enc, slot)
	if off < 0 || len(slot) < 4 {
		return false
	}
	payloadTarget := target
	if which == "header" {
		// header = method(2) size(8) headercrc(4, zero while summing) payloadcrc(4)
		hdr := func(p uint32) uint32 {
			var b [headerLen]byte
			binary.BigEndian.PutUint16(b[:], transport.VerifRaftType)
			binary.BigEndian.PutUint64(b[2:], uint64(len(enc)))
			binary.BigEndian.PutUint32(b[14:], p)
			return crc32.ChecksumIEEE(b[:])
		}
		p, ok := solveAffine32(hdr, target)
		if !ok {
			return false
		}
		payloadTarget = p
	}
	x, ok := solveAffine32(func(x uint32) uint32 {
		binary.LittleEndian.PutUint32(enc[off:], x)
		return crc32.ChecksumIEEE(enc)
	}, payloadTarget)
	if !ok {
		return false
	}
	binary.LittleEndian.PutUint32(slot, x)
	chk, err := mb.Marshal()
	return err == nil && crc32.ChecksumIEEE(chk) == payloadTarget
}

var frameClasses = []string{"tiny-batch", "medium-batch", "crc-boundary-batch", "medium-chunk", "medium-batch", "large-chunk", "medium-batch", "large-batch"}

// build generates the value of a frame class from (label, n) and lets the
// real sender write it.
func (f *framesCtx) build(label string, n int, class string) (*builtFrame, error) {
	recv := int(transport.VerifRecvBufSize)
	mk := func(st stats) (*pb.MessageBatch, *pb.Chunk, uint64) {
		rng := f.r.Rand(label, n)
		g := newGen(rng, st)
		switch class {
		case "tiny-batch":
			g.reset(64, 16)
			mb := tinyBatch(g)
			return &mb, nil, g.h
		case "crc-boundary-batch":
			// a small batch whose payload (or header) CRC32 is a boundary value of
			// the checksum field: 0, 2^32-1, 1, 2^31. Four bytes of an entry's
			// command are solved for it (CRC32 is affine over GF(2)).
			g.reset(64, 16)
			mb := tinyBatch(g)
			cmd := make([]byte, 8+rng.Intn(40))
			rng.Read(cmd)
			mb.Requests = append(mb.Requests, pb.Message{Type: pb.Replicate, To: 2, From: 1, ShardID: 1, Term: 5,
				Entries: []pb.Entry{{Term: 5, Index: 100, Cmd: cmd}}})
			targets := []uint32{0, 0xFFFFFFFF, 0, 1, 0x80000000, 0}
			t := targets[rng.Intn(len(targets))]
			which := "payload"
			if rng.Intn(3) == 0 {
				which = "header"
			}
			if solveFrameCRC(&mb, cmd, which, t) {
				st[fmt.Sprintf("crc_boundary_frames:%s-crc=%#x", which, t)]++
			} else {
				st["crc_boundary_frames:unsolved"]++
			}
			g.hu(uint64(t))
			g.hu(uint64(len(which)))
			return &mb, nil, g.h
		case "medium-batch":
			g.reset(48<<10, 16<<10)
			mb := g.messageBatch()
			if len(mb.Requests) > 12 {
				mb.Requests = mb.Requests[:12]
			}
			return &mb, nil, g.h
		case "large-batch":
			g.reset(16<<10, 4<<10)
			mb := g.messageBatch()
			if len(mb.Requests) > 4 {
				mb.Requests = mb.Requests[:4]
			}
			targets := []int{recv - 1, recv, recv + 1, 2*recv - 1, 2 * recv, 2*recv + 1, 2*recv + recv/2 + 7, recv + 12345}
			t := targets[rng.Intn(len(targets))]
			padBatchTo(&mb, t, rng)
			g.hu(uint64(t))
			return &mb, nil, g.h
		case "medium-chunk":
			g.reset(48<<10, 32<<10)
			ck := g.chunk()
			return nil, &ck, g.h
		default: // large-chunk: Data of the real snapshot chunk size
			g.reset(8<<10, 4<<10)
			ck := g.chunk()
			sz := int(transport.VerifSnapshotChunkSize) - rng.Intn(3)
			if rng.Intn(3) == 0 {
				sz = recv - 200 + rng.Intn(400)
			}
			ck.Data = make([]byte, sz)
			rng.Read(ck.Data)
			g.hu(uint64(sz))
			return nil, &ck, g.h
		}
	}
	mb, ck, h := mk(f.st)
	raw, err := f.capture(mb, ck)
	if err != nil {
		return nil, err
	}
	bf := &builtFrame{class: class, bytes: raw, h: h}
	// the oracle copy: generated again from the same PRNG stream, normalised
	omb, ock, _ := mk(stats{})
	it := &item{}
	if omb != nil {
		normMessageBatch(omb)
		it.mb = *omb
		it.method = transport.VerifRaftType
	} else {
		normChunk(ock)
		it.isChunk = true
		it.ck = *ock
		it.method = transport.VerifSnapshotType
	}
	if len(raw) >= prefixLen {
		it.payload = raw[prefixLen:]
	}
	bf.orig = it
	bf.resend = func() (*pb.MessageBatch, *pb.Chunk) {
		a, b, _ := mk(stats{})
		return a, b
	}
	return bf, nil
}

// variant is one way of damaging the frame under test.
type variant struct {
	kind    string // intact | bitflip | 2-bitflip | burst | truncation
	region  string
	patches []patch
	limit   int // bytes of the frame that are sent
	layout  int // bit 0: an intact frame before, bit 1: an intact frame after
	desc    string
}

func regionOf(pos int) string {
	switch {
	case pos < magicLen:
		return "magic"
	case pos < magicLen+2:
		return "header.method"
	case pos < magicLen+10:
		return "header.size"
	case pos < magicLen+14:
		return "header.headercrc"
	case pos < prefixLen:
		return "header.payloadcrc"
	default:
		return "payload"
	}
}

func (f *framesCtx) variants(rng *rand.Rand, frame []byte) []variant {
	n := len(frame)
	var vs []variant
	lay := func() int { return rng.Intn(4) }
	vs = append(vs, variant{kind: "intact", region: "none", limit: n, layout: 0, desc: "intact"},
		variant{kind: "intact", region: "none", limit: n, layout: 3, desc: "intact"})
	// every single-bit flip of magic + header
	for pos := 0; pos < prefixLen && pos < n; pos++ {
		for bit := 0; bit < 8; bit++ {
			vs = append(vs, variant{kind: "bitflip", region: regionOf(pos), limit: n, layout: lay(),
				patches: []patch{{pos, 1 << uint(bit)}}, desc: fmt.Sprintf("flip bit %d of byte %d", bit, pos)})
		}
	}
	pl := n - prefixLen
	if pl > 0 {
		// sampled single-bit flips of the payload (first and last byte always)
		pos := []int{prefixLen, n - 1}
		for i := 0; i < 46; i++ {
			pos = append(pos, prefixLen+rng.Intn(pl))
		}
		for _, p := range pos {
			vs = append(vs, variant{kind: "bitflip", region: "payload", limit: n, layout: lay(),
				patches: []patch{{p, 1 << uint(rng.Intn(8))}}, desc: fmt.Sprintf("flip one bit of byte %d", p)})
		}
		// two single-bit flips anywhere in the frame
		for i := 0; i < 16; i++ {
			a, b := rng.Intn(n), rng.Intn(n)
			ba, bb := rng.Intn(8), rng.Intn(8)
			if a == b && ba == bb {
				bb = (bb + 1) % 8
			}
			ps := []patch{{a, 1 << uint(ba)}}
			if a == b {
				ps[0].xor |= 1 << uint(bb)
			} else {
				ps = append(ps, patch{b, 1 << uint(bb)})
			}
			reg := regionOf(a)
			if regionOf(b) != reg {
				reg = "mixed"
			}
			vs = append(vs, variant{kind: "2-bitflip", region: reg, limit: n, layout: lay(), patches: ps,
				desc: fmt.Sprintf("flip bit %d of byte %d and bit %d of byte %d", ba, a, bb, b)})
		}
		// short bursts: 2..32 consecutive bits of the payload, first and last
		// flipped, the ones between at random
		for i := 0; i < 32; i++ {
			blen := 2 + rng.Intn(31)
			if blen > pl*8 {
				blen = pl * 8
			}
			start := rng.Intn(pl*8 - blen + 1)
			m := map[int]byte{}
			for k := 0; k < blen; k++ {
				if k == 0 || k == blen-1 || rng.Intn(2) == 1 {
					bitpos := start + k
					m[prefixLen+bitpos/8] |= 1 << uint(bitpos%8)
				}
			}
			var ps []patch
			for p, x := range m {
				ps = append(ps, patch{p, x})
			}
			sort.Slice(ps, func(i, j int) bool { return ps[i].pos < ps[j].pos })
			vs = append(vs, variant{kind: "burst", region: "payload", limit: n, layout: lay(), patches: ps,
				desc: fmt.Sprintf("burst of %d bits starting at payload bit %d", blen, start)})
		}
	}
	// truncations: every length for small frames, length classes otherwise
	lens := map[int]bool{}
	if n <= 320 {
		for l := 0; l < n; l++ {
			lens[l] = true
		}
	} else {
		for l := 0; l <= prefixLen+2; l++ {
			lens[l] = true
		}
		for i := 0; i < 40; i++ {
			lens[prefixLen+rng.Intn(pl)] = true
		}
		lens[n-1], lens[n-2] = true, true
		recv := int(transport.VerifRecvBufSize)
		for k := 1; prefixLen+k*recv-1 < n; k++ {
			for d := -1; d <= 1; d++ {
				if l := prefixLen + k*recv + d; l < n {
					lens[l] = true
				}
			}
		}
	}
	var ll []int
	for l := range lens {
		ll = append(ll, l)
	}
	sort.Ints(ll)
	for _, l := range ll {
		reg := "payload"
		if l < prefixLen {
			reg = regionOf(l)
		}
		// a truncated frame ends the stream, or (layout bit 1) the bytes are
		// lost in the middle of a stream
		vs = append(vs, variant{kind: "truncation", region: reg, limit: l, layout: lay(), desc: fmt.Sprintf("cut to %d of %d bytes", l, n)})
	}
	return vs
}

func (f *framesCtx) violate(key, what string, bf *builtFrame, v *variant, more map[string]interface{}) {
	f.st["violations_seen"]++
	if f.vioCount == nil {
		f.vioCount = map[string]int{}
	}
	f.vioCount[key]++
	if f.vioCount[key] > 3 {
		f.r.Violation(key, what, nil)
		return
	}
	w := map[string]interface{}{
		"frame": f.frame, "frame_class": bf.class, "frame_len": len(bf.bytes),
	}
	if v != nil {
		w["variant"] = v.desc
		w["kind"] = v.kind
		w["region"] = v.region
		w["layout"] = v.layout
	}
	if len(bf.bytes) <= 2048 {
		w["frame_hex"] = hex.EncodeToString(bf.bytes)
	} else {
		w["frame_hex_prefix"] = hex.EncodeToString(bf.bytes[:256])
	}
	for k, x := range more {
		w[k] = x
	}
	f.r.Violation(key, what, w)
}

// runVariant feeds one damaged stream to both readers.
func (f *framesCtx) runVariant(bf, pre, post *builtFrame, v *variant) (ok bool, segs []segment, sent []*item) {
	if v.layout&1 != 0 {
		segs = append(segs, segment{data: pre.bytes, limit: len(pre.bytes)})
		sent = append(sent, pre.orig)
	}
	segs = append(segs, segment{data: bf.bytes, limit: v.limit, patches: v.patches})
	sent = append(sent, bf.orig)
	target := len(sent) - 1
	if v.layout&2 != 0 {
		segs = append(segs, segment{data: post.bytes, limit: len(post.bytes)})
		sent = append(sent, post.orig)
	}
	damaged := v.kind != "intact"

	verdict := func(reader string, got []*item, eq func(a, b *item) bool) bool {
		okm, hit, bad := matchSubsequence(sent, got, eq)
		if !okm {
			more := map[string]interface{}{"reader": reader, "delivered_no": bad, "delivered_count": len(got)}
			if g := got[bad]; g.payload != nil {
				more["delivered_payload_len"] = len(g.payload)
			} else if g.isChunk {
				more["delivered"] = trunc(fmt.Sprintf("%+v", &g.ck), 3000)
			} else {
				more["delivered"] = trunc(fmt.Sprintf("%+v", &g.mb), 3000)
			}
			f.violate("frame:"+v.kind+":"+v.region+":delivered-different-from-sent",
				fmt.Sprintf("%s delivered something that was not sent after %s (%s in %s)", reader, v.desc, v.kind, v.region), bf, v, more)
			return false
		}
		if !damaged {
			for i := range hit {
				if !hit[i] {
					f.violate("frame:intact-not-delivered",
						fmt.Sprintf("%s did not deliver frame %d of %d of an undamaged stream", reader, i, len(sent)), bf, v,
						map[string]interface{}{"reader": reader})
					return false
				}
			}
			f.st["intact_delivered:"+reader]++
		} else if hit[target] {
			f.st["damaged_delivered_intact:"+reader]++
		} else {
			f.st["damaged_rejected:"+reader]++
		}
		return true
	}

	// (1) readMagicNumber + readMessage, byte level
	var got []*item
	perr := func() (p interface{}) {
		defer func() { p = recover() }()
		c := &memConn{segs: segs}
		for {
			m, payload, err := transport.VerifReadFrame(c, f.rbuf, false)
			if err != nil {
				return nil
			}
			got = append(got, &item{method: m, payload: append([]byte(nil), payload...)})
			if len(got) > len(sent)+2 {
				return nil
			}
		}
	}()
	if perr != nil {
		f.violate("frame:"+v.kind+":"+v.region+":panic-in-readMessage:"+normPanic(perr),
			fmt.Sprintf("frame reader panicked after %s: %v", v.desc, perr), bf, v, nil)
		return false, segs, sent
	}
	if !verdict("readMessage", got, sameBytes) {
		return false, segs, sent
	}
	// (2) the whole receive loop of the TCP transport: serveConn
	f.rec.take()
	perr = func() (p interface{}) {
		defer func() { p = recover() }()
		transport.VerifServeConn(f.recv, &memConn{segs: segs})
		return nil
	}()
	if perr != nil {
		f.violate("frame:"+v.kind+":"+v.region+":panic-in-serveConn:"+normPanic(perr),
			fmt.Sprintf("receive loop panicked after %s: %v", v.desc, perr), bf, v, nil)
		return false, segs, sent
	}
	if !verdict("serveConn", f.rec.take(), sameValue) {
		return false, segs, sent
	}
	return true, segs, sent
}

// ---- real loopback listener ----

func (f *framesCtx) startSocket() {
	f.sockRec = newRecorder()
	for try := 0; try < 8; try++ {
		l, err := net.Listen("tcp", "127.0.0.1:0")
		if err != nil {
			continue
		}
		addr := l.Addr().String()
		l.Close()
		cfg := config.NodeHostConfig{RaftAddress: addr}
		t := transport.NewTCPTransport(cfg, f.sockRec.onBatch, f.sockRec.onChunk)
		if err := t.Start(); err != nil {
			continue
		}
		f.sock, f.sockAddr = t, addr
		return
	}
	f.r.Inconclusive("frames: could not start a TCP transport listener on a loopback port; socket path skipped")
}

const sockWait = 20 * time.Second

// sockStream sends raw bytes over a real connection and waits until the
// listener side has closed it; then everything it delivered is known.
func (f *framesCtx) sockStream(data []byte) ([]*item, bool) {
	f.sockRec.take()
	conn, err := net.DialTimeout("tcp", f.sockAddr, 5*time.Second)
	if err != nil {
		return nil, false
	}
	defer conn.Close()
	_ = conn.SetDeadline(time.Now().Add(sockWait))
	_, _ = conn.Write(data) // the listener may hang up early: not an error
	if tc, ok := conn.(*net.TCPConn); ok {
		_ = tc.CloseWrite()
	}
	var one [64]byte
	for {
		_, err := conn.Read(one[:])
		if err != nil {
			if ne, ok := err.(net.Error); ok && ne.Timeout() {
				return nil, false
			}
			break
		}
	}
	return f.sockRec.take(), true
}

// sockIntact sends the value with the real sender side of the transport.
func (f *framesCtx) sockIntact(bf *builtFrame) ([]*item, bool) {
	f.sockRec.take()
	mb, ck := bf.resend()
	ctx, cancel := context.WithTimeout(context.Background(), 5*time.Second)
	defer cancel()
	if mb != nil {
		c, err := f.sock.GetConnection(ctx, f.sockAddr)
		if err != nil {
			return nil, false
		}
		defer c.Close()
		if err := c.SendMessageBatch(*mb); err != nil {
			return nil, false
		}
		// the sender closes with SO_LINGER 0: wait for the delivery first
		select {
		case <-f.sockRec.note:
		case <-time.After(sockWait):
			return nil, false
		}
	} else {
		c, err := f.sock.GetSnapshotConnection(ctx, f.sockAddr)
		if err != nil {
			return nil, false
		}
		if err := c.SendChunk(*ck); err != nil {
			c.Close()
			return nil, false
		}
		select {
		case <-f.sockRec.note:
		case <-time.After(sockWait):
			c.Close()
			return nil, false
		}
		c.Close() // poison + ack
	}
	return f.sockRec.take(), true
}

func runFrames(r *common.Run) {
	r.SetRule("frames: a case is one stream fed to the real frame reader (readMagicNumber+readMessage) and to the real receive loop (TCP.serveConn): " +
		"a frame written by the real sender (TCPConnection.SendMessageBatch / TCPSnapshotConnection.SendChunk) for a generated MessageBatch or Chunk, " +
		"undamaged or with one damage (every single-bit flip of magic+header, sampled single-bit flips, double flips and 2..32-bit bursts of the payload, truncations), " +
		"alone or with an undamaged frame before and/or after it; non-trivial = the stream differs from what the sender wrote; distinct by hash of (generated value, damage, layout)")
	r.Assume("plain TCP (MutualTLS off): the payload CRC32 is only written and checked on unencrypted connections")
	r.Assume("what the checks cover: the 2 magic bytes are compared exactly; the header CRC32 (IEEE) covers method, size and the payload CRC field; the payload CRC32 covers every payload byte. " +
		"Only damage that CRC32 provably detects is injected: 1 and 2 flipped bits per checksummed block and bursts of at most 32 bits")
	r.Assume("oracle: whatever a reader delivers must be an in-order subsequence of the batches/chunks that were sent (semantic equality as in mode roundtrip, byte equality for readMessage); undamaged streams must be delivered completely; " +
		"socket path: time-outs are inconclusive, never a violation")
	r.SetExtra("accepted_normalisations", acceptedNormalisations)
	r.SetExhaustive(false)

	st := stats{}
	f := &framesCtx{r: r, st: st, rec: newRecorder()}
	f.recv = transport.NewTCPTransport(config.NodeHostConfig{RaftAddress: "127.0.0.1:1"}, f.rec.onBatch, f.rec.onChunk)
	f.capC = &memConn{capture: &bytes.Buffer{}}
	f.send = transport.NewTCPConnection(f.capC, false)
	f.rbuf = make([]byte, int(transport.VerifSnapshotChunkSize)+128*1024)
	f.startSocket()
	if f.sock != nil {
		defer f.sock.Close()
	}

	frames := r.MyCases(r.Pick(256, 4096))
	if r.Replay != "" {
		if n, ok := replayTarget(r.Replay, "frame"); ok {
			frames = []int{n}
		}
	}
	nb := r.NBatch
	if nb <= 0 {
		nb = 1
	}
	for fi, c := range frames {
		f.frame = c
		class := frameClasses[(c/nb+c%nb)%len(frameClasses)]
		st["frame_class:"+class]++
		bf, err := f.build("frame", c, class)
		if err != nil {
			f.violate("frame:sender-failed:"+normPanic(err.Error()), "the real sender failed on a legal value: "+err.Error(),
				&builtFrame{class: class}, nil, nil)
			continue
		}
		pre, err1 := f.build("frame-pre", c, "tiny-batch")
		post, err2 := f.build("frame-post", c, "tiny-batch")
		if err1 != nil || err2 != nil {
			f.violate("frame:sender-failed", "the real sender failed on a tiny batch", &builtFrame{class: "tiny-batch"}, nil, nil)
			continue
		}
		r.Max("max_frame_len", int64(len(bf.bytes)))
		// what the harness believes about the layout of a frame
		fb := bf.bytes
		if len(fb) < prefixLen+1 || !bytes.Equal(fb[:magicLen], transport.VerifMagicNumber[:]) ||
			binary.BigEndian.Uint64(fb[magicLen+2:]) != uint64(len(fb)-prefixLen) {
			f.violate("frame:unexpected-layout", "the sender's bytes are not magic(2) + header(18, size at offset 2) + payload", bf, nil, nil)
			continue
		}
		rng := r.Rand("frame-variants", c)
		vs := f.variants(rng, fb)
		// the socket sample: the intact stream and some of the damaged ones
		sockPick := map[int]bool{}
		if f.sock != nil {
			for i := 0; i < 14; i++ {
				sockPick[rng.Intn(len(vs))] = true
			}
			sockPick[1] = true
		}
		frameOK := true
		for vi := range vs {
			v := &vs[vi]
			damaged := v.kind != "intact"
			ok, segs, sent := f.runVariant(bf, pre, post, v)
			hh := bf.h
			for _, p := range v.patches {
				hh = (hh ^ uint64(p.pos)<<8 ^ uint64(p.xor)) * fnvPrime
			}
			hh = (hh ^ uint64(v.limit)<<3 ^ uint64(v.layout)) * fnvPrime
			r.Case(damaged, fmt.Sprintf("%016x", hh))
			if damaged {
				st["frames_damaged:"+v.kind+":"+v.region]++
				st["frames_damaged_total"]++
			} else {
				st["frames_intact_total"]++
			}
			st[fmt.Sprintf("stream_layout:%d", v.layout)]++
			if !ok {
				frameOK = false
				break // one witness per frame is enough
			}
			if sockPick[vi] && f.sock != nil {
				got, done := f.sockStream(streamBytes(segs))
				if !done {
					st["socket_inconclusive"]++
					if st["socket_inconclusive"] <= 3 {
						r.Inconclusive(fmt.Sprintf("frames: socket stream for frame %d (%s) timed out", c, v.desc))
					}
					continue
				}
				okm, hit, _ := matchSubsequence(sent, got, sameValue)
				if !okm {
					f.violate("frame:"+v.kind+":"+v.region+":delivered-different-from-sent",
						fmt.Sprintf("the TCP listener delivered something that was not sent after %s", v.desc), bf, v, map[string]interface{}{"reader": "loopback listener"})
					frameOK = false
					break
				}
				all := true
				for _, h := range hit {
					all = all && h
				}
				switch {
				case !damaged && !all:
					f.violate("frame:intact-not-delivered", "the TCP listener did not deliver an undamaged stream completely", bf, v, map[string]interface{}{"reader": "loopback listener"})
					frameOK = false
				case !damaged:
					st["intact_delivered:loopback-listener"]++
				case all:
					st["damaged_delivered_intact:loopback-listener"]++
				default:
					st["damaged_rejected:loopback-listener"]++
				}
				if !frameOK {
					break
				}
			}
		}
		if frameOK && f.sock != nil {
			// real sender to real listener
			got, done := f.sockIntact(bf)
			if !done {
				st["socket_inconclusive"]++
				if st["socket_inconclusive"] <= 3 {
					r.Inconclusive(fmt.Sprintf("frames: real sender to loopback listener for frame %d timed out", c))
				}
			} else if len(got) != 1 || !sameValue(bf.orig, got[0]) {
				f.violate("frame:sender-to-listener-mismatch", "what the loopback listener delivered differs from what the real sender was given", bf, nil,
					map[string]interface{}{"delivered_count": len(got)})
			} else {
				st["sender_to_listener_equal"]++
			}
		}
		if r.WantSample() && fi == 0 {
			r.Sample(map[string]interface{}{"frame": c, "class": class, "frame_len": len(fb), "variants": len(vs),
				"prefix_hex": hex.EncodeToString(fb[:prefixLen])})
		}
		if fi%64 == 63 {
			flushStats(r, st)
			r.Flush()
		}
	}
	flushStats(r, st)
}
