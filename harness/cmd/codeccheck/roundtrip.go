package main

import (
	"bytes"
	"encoding/hex"
	"encoding/json"
	"fmt"
	"reflect"
	"regexp"
	"strings"

	"github.com/lni/dragonboat/v4/client"
	pb "github.com/lni/dragonboat/v4/raftpb"
	"github.com/lni/dragonboat/v4/verifh/common"
)

// ---- accepted normalisations (applied to both sides before comparing) ----

var acceptedNormalisations = []string{
	"zero-length []byte == nil []byte (Entry.Cmd of length 0 is not encoded and decodes as nil; the other []byte fields are encoded when non-nil and decode as non-nil empty, which is not demanded)",
	"zero-length slice of Entry / Message / *SnapshotFile == nil slice (repeated fields with no element are not encoded)",
	"empty map == nil map (map fields with no entry are not encoded)",
	"Update (Tan record): only ShardID, ReplicaID, State, EntriesToSave and Snapshot are part of the record; an all-zero State is encoded as absent; a Snapshot with Index == 0 is an empty record by IsEmptySnapshot and decodes as the zero Snapshot; all other Update fields decode as zero",
	"Snapshot.refCount / Snapshot.compactor are in-memory only (nil in every generated value)",
	"encodings of values with maps of >= 2 entries are compared after decoding (map iteration order is not fixed), their length must still be identical",
}

func normBytes(b *[]byte) {
	if len(*b) == 0 {
		*b = nil
	}
}

func normEntry(e *pb.Entry) { normBytes(&e.Cmd) }

func normEntries(s *[]pb.Entry) {
	if len(*s) == 0 {
		*s = nil
		return
	}
	for i := range *s {
		normEntry(&(*s)[i])
	}
}

func normStrMap(m *map[uint64]string) {
	if len(*m) == 0 {
		*m = nil
	}
}

func normMembership(m *pb.Membership) {
	normStrMap(&m.Addresses)
	normStrMap(&m.NonVotings)
	normStrMap(&m.Witnesses)
	if len(m.Removed) == 0 {
		m.Removed = nil
	}
}

func normSnapshotFile(f *pb.SnapshotFile) { normBytes(&f.Metadata) }

func normSnapshot(s *pb.Snapshot) {
	normMembership(&s.Membership)
	if len(s.Files) == 0 {
		s.Files = nil
	}
	for _, f := range s.Files {
		normSnapshotFile(f)
	}
	normBytes(&s.Checksum)
}

func normSnapshotHeader(h *pb.SnapshotHeader) {
	normBytes(&h.HeaderChecksum)
	normBytes(&h.PayloadChecksum)
}

func normMessage(m *pb.Message) {
	normEntries(&m.Entries)
	normSnapshot(&m.Snapshot)
}

func normMessageBatch(mb *pb.MessageBatch) {
	if len(mb.Requests) == 0 {
		mb.Requests = nil
	}
	for i := range mb.Requests {
		normMessage(&mb.Requests[i])
	}
}

func normEntryBatch(eb *pb.EntryBatch) { normEntries(&eb.Entries) }

func normChunk(c *pb.Chunk) {
	normBytes(&c.Data)
	normMembership(&c.Membership)
	normSnapshotFile(&c.FileInfo)
}

func normBootstrap(b *pb.Bootstrap) { normStrMap(&b.Addresses) }

// projectUpdate returns what the Tan record of u is defined to carry.
func projectUpdate(u *pb.Update) pb.Update {
	out := pb.Update{
		ShardID:       u.ShardID,
		ReplicaID:     u.ReplicaID,
		State:         u.State,
		EntriesToSave: u.EntriesToSave,
	}
	normEntries(&out.EntriesToSave)
	if !pb.IsEmptySnapshot(u.Snapshot) {
		out.Snapshot = u.Snapshot
		normSnapshot(&out.Snapshot)
	}
	return out
}

// ---- canary buffer ----

const canaryPad = 64

type canaryBuf struct {
	region []byte
	n      int
}

func canaryByte(i int) byte { return byte(i*131+89) | 1 }

// get returns a buffer of exactly n bytes placed inside a larger region whose
// bytes before and after are set to a position dependent pattern. The
// capacity of the returned slice extends into the canary region on purpose.
func (c *canaryBuf) get(n int) []byte {
	need := n + 2*canaryPad
	if cap(c.region) < need {
		c.region = make([]byte, need+need/2)
	}
	reg := c.region[:need]
	for i := 0; i < canaryPad; i++ {
		reg[i] = canaryByte(i)
		reg[canaryPad+n+i] = canaryByte(canaryPad + n + i)
	}
	c.n = n
	return reg[canaryPad : canaryPad+n]
}

func (c *canaryBuf) intact() (bool, string) {
	reg := c.region[:c.n+2*canaryPad]
	for i := 0; i < canaryPad; i++ {
		if reg[i] != canaryByte(i) {
			return false, fmt.Sprintf("byte %d before the buffer overwritten", canaryPad-i)
		}
		if reg[canaryPad+c.n+i] != canaryByte(canaryPad+c.n+i) {
			return false, fmt.Sprintf("byte %d past the end of the buffer overwritten", i)
		}
	}
	return true, ""
}

// ---- check context ----

type rtCtx struct {
	r     *common.Run
	st    stats
	cb    canaryBuf
	block int
	idx   int
	// thorough tier: only 1 in distinctSample hashes is kept for the
	// distinct count (the part files would otherwise be enormous)
	distinctSample uint64
	seen           map[uint64]struct{}
	vioCount       map[string]int
	big            []byte
}

var reDigits = regexp.MustCompile(`[0-9]+`)

func normPanic(rec interface{}) string {
	s := fmt.Sprintf("%v", rec)
	if len(s) > 100 {
		s = s[:100]
	}
	s = reDigits.ReplaceAllString(s, "N")
	return strings.Join(strings.Fields(s), "_")
}

func trunc(s string, n int) string {
	if len(s) > n {
		return s[:n] + fmt.Sprintf("...(%d more)", len(s)-n)
	}
	return s
}

func (c *rtCtx) witness(typ string, v interface{}, enc []byte, more map[string]interface{}) map[string]interface{} {
	w := map[string]interface{}{
		"type": typ, "block": c.block, "index_in_block": c.idx,
		"value": trunc(fmt.Sprintf("%+v", v), 6000),
	}
	if jb, err := json.Marshal(v); err == nil && len(jb) <= 32768 {
		w["value_json"] = json.RawMessage(jb)
	}
	if enc != nil {
		w["encoded_len"] = len(enc)
		if len(enc) <= 4096 {
			w["encoded_hex"] = hex.EncodeToString(enc)
		} else {
			w["encoded_hex_prefix"] = hex.EncodeToString(enc[:4096])
		}
	}
	for k, x := range more {
		w[k] = x
	}
	return w
}

func (c *rtCtx) violate(typ, what, detail string, v interface{}, enc []byte, more map[string]interface{}) {
	c.st["violations_seen"]++
	key := typ + ":" + what
	if c.vioCount == nil {
		c.vioCount = map[string]int{}
	}
	c.vioCount[key]++
	if c.vioCount[key] > 3 {
		// the run keeps the first witnesses of a key only: do not format more
		c.r.Violation(key, typ+": "+detail, nil)
		return
	}
	c.r.Violation(key, typ+": "+detail, c.witness(typ, v, enc, more))
}

func fnvBytes(name string, b []byte) uint64 {
	h := uint64(fnvOffset)
	for i := 0; i < len(name); i++ {
		h ^= uint64(name[i])
		h *= fnvPrime
	}
	for _, x := range b {
		h ^= uint64(x)
		h *= fnvPrime
	}
	h ^= uint64(len(b))
	h *= fnvPrime
	return h
}

// account registers one executed value with the run.
func (c *rtCtx) account(typ string, g *gen, enc []byte) {
	c.st["values:"+typ]++
	nt := g.nontrivial()
	var h uint64
	if g.multiMap || enc == nil {
		h = fnvBytes(typ, nil) ^ g.h
		c.st["hash_of:field-values(map-order-independent)"]++
	} else {
		h = fnvBytes(typ, enc)
		c.st["hash_of:encoded-bytes"]++
	}
	if !nt {
		c.st["trivial_values"]++
		c.r.Case(false, "")
		return
	}
	c.st["nontrivial:"+typ]++
	if _, ok := c.seen[h]; !ok {
		c.seen[h] = struct{}{}
		c.st["distinct_nontrivial_values_in_batch"]++
	}
	if c.distinctSample > 1 && h%c.distinctSample != 0 {
		c.r.Case(false, "")
		return
	}
	c.r.Case(true, fmt.Sprintf("%016x", h))
}

// ---- generic codec check ----

type pbMsg[T any] interface {
	*T
	Marshal() ([]byte, error)
	MarshalTo([]byte) (int, error)
	Unmarshal([]byte) error
	Size() int
}

type codecSpec[T any] struct {
	name string
	gen  func(g *gen) T
	norm func(v *T)
	// sul is the type's SizeUpperLimit (nil if it has none)
	sul func(v *T) int
	// nested: Size() of the type is used as the length prefix of the value
	// inside its parents, so it has to be the exact encoded length
	nested bool
	// extra promises
	extra func(c *rtCtx, v *T, enc []byte) bool
}

func checkCodec[T any, P pbMsg[T]](c *rtCtx, g *gen, s *codecSpec[T]) {
	v := s.gen(g)
	p := P(&v)
	stage := "Size"
	var enc []byte
	defer func() {
		if rec := recover(); rec != nil {
			c.violate(s.name, "panic-in-"+stage+":"+normPanic(rec),
				fmt.Sprintf("%s panicked on a legal value: %v", stage, rec), &v, enc, nil)
		}
	}()
	size := p.Size()
	stage = "Marshal"
	b, err := p.Marshal()
	if err != nil {
		c.violate(s.name, "marshal-error", "Marshal failed: "+err.Error(), &v, nil, nil)
		return
	}
	enc = b
	c.account(s.name, g, enc)
	c.r.Max("max_encoded_len", int64(len(b)))
	if len(b) > size {
		c.violate(s.name, "encoding-exceeds-Size", fmt.Sprintf("encoded length %d > Size() %d", len(b), size),
			&v, enc, map[string]interface{}{"size": size})
		return
	}
	if len(b) == size {
		c.st["size_exact:"+s.name]++
	} else {
		c.st["size_overestimate:"+s.name]++
		if s.nested {
			c.violate(s.name, "Size-differs-from-encoded-length",
				fmt.Sprintf("Size() %d is written as the length prefix of this value inside its parent messages but the encoding has %d bytes", size, len(b)),
				&v, enc, map[string]interface{}{"size": size})
			return
		}
	}
	// MarshalTo into exactly Size() bytes inside a canary region
	stage = "MarshalTo(buffer of Size() bytes)"
	buf := c.cb.get(size)
	n, err := p.MarshalTo(buf)
	if err != nil {
		c.violate(s.name, "marshalto-error", "MarshalTo failed: "+err.Error(), &v, enc, nil)
		return
	}
	if ok, what := c.cb.intact(); !ok {
		c.violate(s.name, "MarshalTo-overruns-Size-buffer", what, &v, enc, map[string]interface{}{"size": size})
		return
	}
	if n > size || n != len(b) {
		c.violate(s.name, "MarshalTo-length", fmt.Sprintf("MarshalTo returned %d, Marshal produced %d bytes, Size() %d", n, len(b), size), &v, enc, nil)
		return
	}
	c.st["marshalto_size_buffer_ok"]++
	if len(b) <= 160 && g.nontrivial() && c.r.WantSample() {
		sm := map[string]interface{}{"type": s.name, "block": c.block, "index_in_block": c.idx,
			"value": trunc(fmt.Sprintf("%+v", &v), 600), "encoded_hex": hex.EncodeToString(b), "size": size}
		if s.sul != nil {
			sm["size_upper_limit"] = s.sul(&v)
		}
		c.r.Sample(sm)
	}
	var alt [][]byte
	if !bytes.Equal(buf[:n], b) {
		if !g.multiMap {
			c.violate(s.name, "MarshalTo-differs-from-Marshal", "MarshalTo and Marshal produced different bytes for a value without multi-entry maps", &v, enc,
				map[string]interface{}{"marshalto_hex": trunc(hex.EncodeToString(buf[:n]), 8192)})
			return
		}
		alt = append(alt, append([]byte(nil), buf[:n]...))
	}
	// SizeUpperLimit
	if s.sul != nil {
		stage = "SizeUpperLimit"
		ul := s.sul(&v)
		c.st["sizeupperlimit_checked:"+s.name]++
		c.r.Max("max_sizeupperlimit_slack_bytes", int64(ul-len(b)))
		if ul > 0 {
			c.r.Max("max_permille_of_sizeupperlimit_used:"+s.name, int64(len(b))*1000/int64(ul))
		}
		if len(b) > ul {
			c.violate(s.name, "encoding-exceeds-SizeUpperLimit",
				fmt.Sprintf("encoded length %d > SizeUpperLimit() %d: a buffer preallocated from SizeUpperLimit is overrun", len(b), ul),
				&v, enc, map[string]interface{}{"size_upper_limit": ul})
			return
		}
		stage = "MarshalTo(buffer of SizeUpperLimit() bytes)"
		buf = c.cb.get(ul)
		n, err = p.MarshalTo(buf)
		if err != nil {
			c.violate(s.name, "marshalto-error", "MarshalTo failed: "+err.Error(), &v, enc, nil)
			return
		}
		if ok, what := c.cb.intact(); !ok {
			c.violate(s.name, "MarshalTo-overruns-SizeUpperLimit-buffer", what, &v, enc, map[string]interface{}{"size_upper_limit": ul})
			return
		}
		if n > ul || n != len(b) {
			c.violate(s.name, "MarshalTo-length", fmt.Sprintf("MarshalTo returned %d, Marshal produced %d bytes, SizeUpperLimit() %d", n, len(b), ul), &v, enc, nil)
			return
		}
		if !bytes.Equal(buf[:n], b) {
			if !g.multiMap {
				c.violate(s.name, "MarshalTo-differs-from-Marshal", "MarshalTo and Marshal produced different bytes", &v, enc, nil)
				return
			}
			alt = append(alt, append([]byte(nil), buf[:n]...))
		}
		c.st["marshalto_sizeupperlimit_buffer_ok"]++
	}
	if s.extra != nil {
		stage = "extra"
		if !s.extra(c, &v, enc) {
			return
		}
	}
	// decode and compare
	stage = "Unmarshal"
	if s.norm != nil {
		s.norm(&v)
	}
	for i, e := range append([][]byte{b}, alt...) {
		var d T
		if err := P(&d).Unmarshal(e); err != nil {
			c.violate(s.name, "unmarshal-error", "Unmarshal of the value's own encoding failed: "+err.Error(), &v, e, nil)
			return
		}
		if s.norm != nil {
			s.norm(&d)
		}
		if !reflect.DeepEqual(&v, &d) {
			c.violate(s.name, "roundtrip-mismatch", "Unmarshal(Marshal(v)) != v", &v, e,
				map[string]interface{}{"decoded": trunc(fmt.Sprintf("%+v", &d), 6000), "encoding_no": i})
			return
		}
		c.st["roundtrips_equal"]++
	}
}

// entrySliceBound checks GetEntrySliceSize: the helper used to preallocate
// buffers and to limit batches must not be below the encoded size.
func entrySliceBound(c *rtCtx, typ string, ents []pb.Entry, v interface{}, enc []byte) bool {
	adv := pb.GetEntrySliceSize(ents)
	var act, ul uint64
	for i := range ents {
		act += uint64(ents[i].Size())
		ul += uint64(ents[i].SizeUpperLimit())
	}
	c.st["entry_slice_size_checked"]++
	if adv < act || adv != ul {
		c.violate(typ, "GetEntrySliceSize-below-encoded-size",
			fmt.Sprintf("GetEntrySliceSize %d, sum of entry encodings %d, sum of SizeUpperLimit %d", adv, act, ul), v, enc, nil)
		return false
	}
	return true
}

var (
	specEntry = &codecSpec[pb.Entry]{name: "Entry", nested: true,
		gen:  func(g *gen) pb.Entry { return g.entry() },
		norm: normEntry,
		sul:  func(v *pb.Entry) int { return v.SizeUpperLimit() },
	}
	specEntryBatch = &codecSpec[pb.EntryBatch]{name: "EntryBatch",
		gen:  func(g *gen) pb.EntryBatch { return pb.EntryBatch{Entries: g.entries(true)} },
		norm: normEntryBatch,
		sul:  func(v *pb.EntryBatch) int { return v.SizeUpperLimit() },
		extra: func(c *rtCtx, v *pb.EntryBatch, enc []byte) bool {
			return entrySliceBound(c, "EntryBatch", v.Entries, v, enc)
		},
	}
	specMessage = &codecSpec[pb.Message]{name: "Message", nested: true,
		gen:  func(g *gen) pb.Message { return g.message(true) },
		norm: normMessage,
		sul:  func(v *pb.Message) int { return v.SizeUpperLimit() },
		extra: func(c *rtCtx, v *pb.Message, enc []byte) bool {
			return entrySliceBound(c, "Message", v.Entries, v, enc)
		},
	}
	specMessageBatch = &codecSpec[pb.MessageBatch]{name: "MessageBatch",
		gen:  func(g *gen) pb.MessageBatch { return g.messageBatch() },
		norm: normMessageBatch,
		sul:  func(v *pb.MessageBatch) int { return v.SizeUpperLimit() },
	}
	specState = &codecSpec[pb.State]{name: "State",
		gen: func(g *gen) pb.State { return g.state() },
		sul: func(v *pb.State) int { return v.SizeUpperLimit() },
	}
	specSnapshot = &codecSpec[pb.Snapshot]{name: "Snapshot", nested: true,
		gen:  func(g *gen) pb.Snapshot { return g.snapshot() },
		norm: normSnapshot,
	}
	specSnapshotHeader = &codecSpec[pb.SnapshotHeader]{name: "SnapshotHeader",
		gen:  func(g *gen) pb.SnapshotHeader { return g.snapshotHeader() },
		norm: normSnapshotHeader,
	}
	specSnapshotFile = &codecSpec[pb.SnapshotFile]{name: "SnapshotFile", nested: true,
		gen:  func(g *gen) pb.SnapshotFile { return g.snapshotFile() },
		norm: normSnapshotFile,
	}
	specMembership = &codecSpec[pb.Membership]{name: "Membership", nested: true,
		gen:  func(g *gen) pb.Membership { return g.membership() },
		norm: normMembership,
	}
	specConfigChange = &codecSpec[pb.ConfigChange]{name: "ConfigChange",
		gen: func(g *gen) pb.ConfigChange { return g.configChange() },
	}
	specChunk = &codecSpec[pb.Chunk]{name: "Chunk",
		gen:  func(g *gen) pb.Chunk { return g.chunk() },
		norm: normChunk,
	}
	specBootstrap = &codecSpec[pb.Bootstrap]{name: "Bootstrap",
		gen:  func(g *gen) pb.Bootstrap { return g.bootstrap() },
		norm: normBootstrap,
	}
	specRaftDataStatus = &codecSpec[pb.RaftDataStatus]{name: "RaftDataStatus",
		gen: func(g *gen) pb.RaftDataStatus { return g.raftDataStatus() },
	}
	specSession = &codecSpec[client.Session]{name: "client.Session",
		gen: func(g *gen) client.Session { return g.session() },
	}
)

// checkUpdate checks the Tan record: Update has MarshalTo, Unmarshal and
// SizeUpperLimit only.
func checkUpdate(c *rtCtx, g *gen) {
	const typ = "Update"
	u := g.update()
	stage := "SizeUpperLimit"
	var enc []byte
	defer func() {
		if rec := recover(); rec != nil {
			c.violate(typ, "panic-in-"+stage+":"+normPanic(rec),
				fmt.Sprintf("%s panicked on a legal value: %v", stage, rec), &u, enc, nil)
		}
	}()
	ul := u.SizeUpperLimit()
	// the true length, from a generously sized buffer
	stage = "MarshalTo(large buffer)"
	if need := ul*2 + 4096; len(c.big) < need {
		c.big = make([]byte, need+need/2)
	}
	big := c.big
	n0, err := u.MarshalTo(big)
	if err != nil {
		c.violate(typ, "marshalto-error", "MarshalTo failed: "+err.Error(), &u, nil, nil)
		return
	}
	enc = big[:n0]
	c.account(typ, g, enc)
	c.r.Max("max_encoded_len", int64(n0))
	c.st["sizeupperlimit_checked:"+typ]++
	c.r.Max("max_sizeupperlimit_slack_bytes", int64(ul-n0))
	if ul > 0 {
		c.r.Max("max_permille_of_sizeupperlimit_used:"+typ, int64(n0)*1000/int64(ul))
	}
	if n0 > ul {
		c.violate(typ, "encoding-exceeds-SizeUpperLimit",
			fmt.Sprintf("encoded length %d > SizeUpperLimit() %d: the buffer Tan allocates from SizeUpperLimit is overrun", n0, ul),
			&u, enc, map[string]interface{}{"size_upper_limit": ul})
		return
	}
	stage = "MarshalTo(buffer of SizeUpperLimit() bytes)"
	buf := c.cb.get(ul)
	n, err := u.MarshalTo(buf)
	if err != nil {
		c.violate(typ, "marshalto-error", "MarshalTo failed: "+err.Error(), &u, enc, nil)
		return
	}
	if ok, what := c.cb.intact(); !ok {
		c.violate(typ, "MarshalTo-overruns-SizeUpperLimit-buffer", what, &u, enc, nil)
		return
	}
	if n != n0 {
		c.violate(typ, "MarshalTo-length", fmt.Sprintf("MarshalTo returned %d then %d for the same value", n0, n), &u, enc, nil)
		return
	}
	c.st["marshalto_sizeupperlimit_buffer_ok"]++
	encs := [][]byte{enc}
	if !bytes.Equal(buf[:n], enc) {
		if !g.multiMap {
			c.violate(typ, "MarshalTo-not-deterministic", "two encodings of a value without multi-entry maps differ", &u, enc, nil)
			return
		}
		encs = append(encs, append([]byte(nil), buf[:n]...))
	}
	stage = "extra"
	if !entrySliceBound(c, typ, u.EntriesToSave, &u, enc) {
		return
	}
	stage = "Unmarshal"
	want := projectUpdate(&u)
	for i, e := range encs {
		var d pb.Update
		if err := d.Unmarshal(e); err != nil {
			c.violate(typ, "unmarshal-error", "Unmarshal of the value's own encoding failed: "+err.Error(), &u, e, nil)
			return
		}
		normEntries(&d.EntriesToSave)
		normSnapshot(&d.Snapshot)
		if !reflect.DeepEqual(&want, &d) {
			c.violate(typ, "roundtrip-mismatch", "Unmarshal(MarshalTo(u)) differs from the persisted fields of u", &want, e,
				map[string]interface{}{"decoded": trunc(fmt.Sprintf("%+v", &d), 6000), "encoding_no": i})
			return
		}
		c.st["roundtrips_equal"]++
	}
}
