package main

import (
	"fmt"
	"math"
	"math/rand"

	"github.com/lni/dragonboat/v4/client"
	pb "github.com/lni/dragonboat/v4/raftpb"
)

// Structure-aware generators for the persisted / wire types of dragonboat.
//
// Every integer comes from u64/u32/enum below, every byte slice from bytes,
// every string from str, every slice length from sliceLen and every map size
// from mapLen, so that the boundary classes hit are counted in one place.

type namedU64 struct {
	name string
	v    uint64
}

// the boundary set of the property statement (first 12) plus the further
// boundaries of the base-128 varint forms used by the codecs
var u64Boundaries = []namedU64{
	{"0", 0}, {"1", 1}, {"127", 127}, {"128", 128},
	{"2^14-1", 1<<14 - 1}, {"2^14", 1 << 14}, {"2^14+1", 1<<14 + 1},
	{"2^49-1", 1<<49 - 1}, {"2^49", 1 << 49}, {"2^49+1", 1<<49 + 1},
	{"2^63", 1 << 63}, {"2^64-1", math.MaxUint64},
	// extras
	{"2^21-1", 1<<21 - 1}, {"2^21", 1 << 21}, {"2^28", 1 << 28},
	{"2^32-1", 1<<32 - 1}, {"2^32", 1 << 32}, {"2^35", 1 << 35}, {"2^42", 1 << 42},
	{"2^48", 1 << 48}, {"2^56-1", 1<<56 - 1}, {"2^56", 1 << 56}, {"2^63-1", 1<<63 - 1},
	{"2^64-2", math.MaxUint64 - 1},
}

var u32Boundaries = []namedU64{
	{"0", 0}, {"1", 1}, {"127", 127}, {"128", 128},
	{"2^14-1", 1<<14 - 1}, {"2^14", 1 << 14}, {"2^14+1", 1<<14 + 1},
	{"2^21", 1 << 21}, {"2^28", 1 << 28},
	{"2^31-1", 1<<31 - 1}, {"2^31", 1 << 31}, {"2^32-1", 1<<32 - 1},
}

var i32OutOfRange = []int32{-1, -127, -128, -129, math.MinInt32, math.MaxInt32, 127, 128, 16383, 16384, 1 << 21, 1 << 28}

var lenBoundaries = []int{1, 2, 127, 128, 129, 16383, 16384, 16385}

type stats map[string]int64

type gen struct {
	rng *rand.Rand
	st  stats
	// per value
	bnd      int    // integer fields drawn from the boundary set with value >= 127
	nested   int    // non-empty nested slices / maps / byte payloads
	multiMap bool   // some map has >= 2 entries (encoding order not fixed)
	h        uint64 // FNV-1a over the generated field values
	budget   int    // bytes still available for byte slices / strings
	maxLong  int    // upper limit of a "long" byte slice
}

func newGen(rng *rand.Rand, st stats) *gen {
	return &gen{rng: rng, st: st}
}

const (
	fnvOffset = 14695981039346656037
	fnvPrime  = 1099511628211
)

func (g *gen) reset(budget, maxLong int) {
	g.bnd, g.nested, g.multiMap = 0, 0, false
	g.h = fnvOffset
	g.budget = budget
	g.maxLong = maxLong
}

func (g *gen) hu(v uint64) {
	h := g.h
	for i := 0; i < 8; i++ {
		h ^= v & 0xff
		h *= fnvPrime
		v >>= 8
	}
	g.h = h
}

func (g *gen) hb(b []byte) {
	h := g.h
	for _, c := range b {
		h ^= uint64(c)
		h *= fnvPrime
	}
	g.h = h
	g.hu(uint64(len(b)))
}

func (g *gen) nontrivial() bool { return g.bnd > 0 || g.nested > 0 }

func (g *gen) u64() uint64 {
	p := g.rng.Intn(100)
	var v uint64
	switch {
	case p < 50:
		b := u64Boundaries[g.rng.Intn(len(u64Boundaries))]
		v = b.v
		g.st["bnd_u64:"+b.name]++
		if v >= 127 {
			g.bnd++
		}
	case p < 65:
		v = uint64(g.rng.Intn(1000))
		g.st["u64:small-random"]++
	default:
		n := uint(1 + g.rng.Intn(64))
		v = g.rng.Uint64() >> (64 - n)
		g.st["u64:random-bitlen"]++
	}
	g.hu(v)
	return v
}

// big64 returns a value that needs the fixed 8 byte form of the Entry codec.
func (g *gen) big64() uint64 {
	c := []uint64{1 << 49, 1<<49 + 1, 1 << 56, 1 << 63, math.MaxUint64, math.MaxUint64 - 1}
	v := c[g.rng.Intn(len(c))]
	g.st["bnd_u64:forced>=2^49"]++
	g.bnd++
	g.hu(v)
	return v
}

func (g *gen) u32() uint32 {
	p := g.rng.Intn(100)
	var v uint32
	switch {
	case p < 50:
		b := u32Boundaries[g.rng.Intn(len(u32Boundaries))]
		v = uint32(b.v)
		g.st["bnd_u32:"+b.name]++
		if v >= 127 {
			g.bnd++
		}
	case p < 65:
		v = uint32(g.rng.Intn(1000))
		g.st["u32:small-random"]++
	default:
		n := uint(1 + g.rng.Intn(32))
		v = g.rng.Uint32() >> (32 - n)
		g.st["u32:random-bitlen"]++
	}
	g.hu(uint64(v))
	return v
}

// enum returns an int32 enum value: mostly one of the declared values
// 0..max, sometimes an undeclared int32 (the Go type admits it and the codecs
// have sign handling for it).
func (g *gen) enum(max int32) int32 {
	var v int32
	if g.rng.Intn(100) < 85 {
		v = int32(g.rng.Intn(int(max) + 1))
		g.st["enum:declared"]++
	} else {
		v = i32OutOfRange[g.rng.Intn(len(i32OutOfRange))]
		g.st["enum:undeclared-int32"]++
		if v < 0 {
			g.st["enum:negative"]++
		}
		g.bnd++
	}
	g.hu(uint64(uint32(v)))
	return v
}

func (g *gen) boolean() bool {
	v := g.rng.Intn(2) == 1
	if v {
		g.hu(1)
	} else {
		g.hu(0)
	}
	return v
}

func (g *gen) fill(b []byte) {
	switch p := g.rng.Intn(100); {
	case p < 60:
		g.rng.Read(b)
	case p < 70:
		// zeros
	case p < 80:
		for i := range b {
			b[i] = 0xff
		}
	case p < 90:
		// bytes that are meaningful to the codecs: terminator, continuation
		c := []byte{0x7f, 0x80, 0x00, 0x0a, 0x87, 0xff, 0x01}
		for i := range b {
			b[i] = c[g.rng.Intn(len(c))]
		}
	default:
		// compressible text
		w := []byte("dragonboat-raft-")
		for i := range b {
			b[i] = w[i%len(w)]
		}
	}
}

// byteLen draws the length of a byte slice; -1 stands for nil.
func (g *gen) byteLen(class string) int {
	p := g.rng.Intn(100)
	n := 0
	name := ""
	switch {
	case p < 12:
		n, name = -1, "nil"
	case p < 22:
		n, name = 0, "empty"
	case p < 50:
		n, name = 1+g.rng.Intn(16), "1..16"
	case p < 72:
		n = lenBoundaries[g.rng.Intn(len(lenBoundaries))]
		name = fmt.Sprintf("bnd-%d", n)
	case p < 95:
		n, name = 17+g.rng.Intn(2000), "17..2016"
	default:
		lim := g.maxLong
		if lim < 4096 {
			lim = 4096
		}
		n, name = 2017+g.rng.Intn(lim-2016), "long"
	}
	if n > 0 && n > g.budget {
		if g.budget >= 16 {
			n = 1 + g.rng.Intn(16)
		} else {
			n = 1
		}
		name = "budget-capped"
	}
	if n > 0 {
		g.budget -= n
	}
	g.st["len_"+class+":"+name]++
	return n
}

func (g *gen) bytes() []byte {
	n := g.byteLen("bytes")
	if n < 0 {
		g.hu(0xfffffffe)
		return nil
	}
	b := make([]byte, n)
	if n > 0 {
		g.fill(b)
		g.nested++
	}
	g.hb(b)
	return b
}

func (g *gen) str() string {
	p := g.rng.Intn(100)
	var s string
	switch {
	case p < 20:
		s = ""
		g.st["len_string:empty"]++
	case p < 60:
		s = fmt.Sprintf("host-%d.example.com:%d", g.rng.Intn(1000), 1024+g.rng.Intn(60000))
		g.st["len_string:address"]++
	case p < 75:
		n := lenBoundaries[g.rng.Intn(len(lenBoundaries))]
		if n > g.budget {
			n = 3
		}
		g.budget -= n
		b := make([]byte, n)
		for i := range b {
			b[i] = byte('a' + g.rng.Intn(26))
		}
		s = string(b)
		g.st[fmt.Sprintf("len_string:bnd-%d", n)]++
	default:
		n := g.rng.Intn(64)
		b := make([]byte, n)
		g.rng.Read(b) // arbitrary bytes, not necessarily UTF-8
		s = string(b)
		g.st["len_string:random-bytes"]++
	}
	g.hb([]byte(s))
	return s
}

// sliceLen draws the length of a slice of structs; -1 stands for nil.
func (g *gen) sliceLen(class string, top bool) int {
	p := g.rng.Intn(100)
	n := 0
	name := ""
	switch {
	case p < 18:
		n, name = -1, "nil"
	case p < 28:
		n, name = 0, "empty"
	case p < 53:
		n, name = 1, "1"
	case p < 85:
		n, name = 2+g.rng.Intn(4), "2..5"
	case p < 97 || !top:
		if top {
			n, name = 6+g.rng.Intn(35), "6..40"
		} else {
			n, name = 6+g.rng.Intn(5), "6..10"
		}
	default:
		n, name = 100+g.rng.Intn(200), "100..299"
	}
	g.st["len_"+class+":"+name]++
	if n > 0 {
		g.nested++
	}
	g.hu(uint64(int64(n)))
	return n
}

func (g *gen) mapLen(class string) int {
	p := g.rng.Intn(100)
	n := 0
	name := ""
	switch {
	case p < 25:
		n, name = -1, "nil"
	case p < 37:
		n, name = 0, "empty"
	case p < 60:
		n, name = 1, "1"
	case p < 90:
		n, name = 2+g.rng.Intn(4), "2..5"
	default:
		n, name = 6+g.rng.Intn(20), "6..25"
	}
	g.st["len_"+class+":"+name]++
	return n
}

func (g *gen) strMap() map[uint64]string {
	n := g.mapLen("map")
	if n < 0 {
		g.hu(0xfffffffd)
		return nil
	}
	m := make(map[uint64]string)
	// keys are drawn first and de-duplicated so that the hash of the field
	// stream is a function of the map value
	for i := 0; i < n; i++ {
		k := g.u64()
		if _, ok := m[k]; ok {
			continue
		}
		m[k] = g.str()
	}
	if len(m) > 0 {
		g.nested++
	}
	if len(m) > 1 {
		g.multiMap = true
	}
	g.hu(uint64(len(m)))
	return m
}

func (g *gen) boolMap() map[uint64]bool {
	n := g.mapLen("map")
	if n < 0 {
		g.hu(0xfffffffd)
		return nil
	}
	m := make(map[uint64]bool)
	for i := 0; i < n; i++ {
		k := g.u64()
		if _, ok := m[k]; ok {
			continue
		}
		m[k] = g.boolean()
	}
	if len(m) > 0 {
		g.nested++
	}
	if len(m) > 1 {
		g.multiMap = true
	}
	g.hu(uint64(len(m)))
	return m
}

// ---- types ----

func (g *gen) entry() pb.Entry {
	p := g.rng.Intn(100)
	switch {
	case p < 2:
		g.st["shape_entry:zero"]++
		g.hu(0xe0)
		return pb.Entry{}
	case p < 5:
		// every field in its longest form: the worst case for SizeUpperLimit
		g.st["shape_entry:all-fields-max"]++
		e := pb.Entry{
			Term: g.big64(), Index: g.big64(), Key: g.big64(),
			ClientID: g.big64(), SeriesID: g.big64(), RespondedTo: g.big64(),
			Type: pb.EntryType(math.MinInt32),
		}
		g.hu(uint64(uint32(1 << 31)))
		g.bnd++
		n := []int{128, 200, 16384, 20000}[g.rng.Intn(4)]
		if n > g.budget {
			n = 128
		}
		g.budget -= n
		e.Cmd = make([]byte, n)
		g.fill(e.Cmd)
		g.hb(e.Cmd)
		g.nested++
		return e
	}
	return pb.Entry{
		Term:        g.u64(),
		Index:       g.u64(),
		Type:        pb.EntryType(g.enum(3)),
		Key:         g.u64(),
		ClientID:    g.u64(),
		SeriesID:    g.u64(),
		RespondedTo: g.u64(),
		Cmd:         g.bytes(),
	}
}

func (g *gen) entries(top bool) []pb.Entry {
	n := g.sliceLen("entries", top)
	if n < 0 {
		return nil
	}
	out := make([]pb.Entry, n)
	for i := range out {
		out[i] = g.entry()
	}
	return out
}

func (g *gen) state() pb.State {
	if g.rng.Intn(100) < 10 {
		g.st["shape_state:empty"]++
		g.hu(0xe1)
		return pb.State{}
	}
	return pb.State{Term: g.u64(), Vote: g.u64(), Commit: g.u64()}
}

func (g *gen) membership() pb.Membership {
	if g.rng.Intn(100) < 15 {
		g.st["shape_membership:zero"]++
		g.hu(0xe2)
		return pb.Membership{}
	}
	return pb.Membership{
		ConfigChangeId: g.u64(),
		Addresses:      g.strMap(),
		Removed:        g.boolMap(),
		NonVotings:     g.strMap(),
		Witnesses:      g.strMap(),
	}
}

func (g *gen) snapshotFile() pb.SnapshotFile {
	return pb.SnapshotFile{
		Filepath: g.str(),
		FileSize: g.u64(),
		FileId:   g.u64(),
		Metadata: g.bytes(),
	}
}

func (g *gen) snapshot() pb.Snapshot {
	s := pb.Snapshot{
		Filepath:   g.str(),
		FileSize:   g.u64(),
		Index:      g.u64(),
		Term:       g.u64(),
		Membership: g.membership(),
	}
	n := g.sliceLen("files", false)
	if n >= 0 {
		s.Files = make([]*pb.SnapshotFile, n)
		for i := range s.Files {
			f := g.snapshotFile()
			s.Files[i] = &f
		}
	}
	s.Checksum = g.bytes()
	s.Dummy = g.boolean()
	s.ShardID = g.u64()
	s.Type = pb.StateMachineType(g.enum(3))
	s.Imported = g.boolean()
	s.OnDiskIndex = g.u64()
	s.Witness = g.boolean()
	return s
}

func (g *gen) snapshotHeader() pb.SnapshotHeader {
	return pb.SnapshotHeader{
		SessionSize:     g.u64(),
		DataStoreSize:   g.u64(),
		UnreliableTime:  g.u64(),
		GitVersion:      g.str(),
		HeaderChecksum:  g.bytes(),
		PayloadChecksum: g.bytes(),
		ChecksumType:    pb.ChecksumType(g.enum(1)),
		Version:         g.u64(),
		CompressionType: pb.CompressionType(g.enum(1)),
	}
}

func (g *gen) message(top bool) pb.Message {
	m := pb.Message{
		Type:     pb.MessageType(g.enum(28)),
		To:       g.u64(),
		From:     g.u64(),
		ShardID:  g.u64(),
		Term:     g.u64(),
		LogTerm:  g.u64(),
		LogIndex: g.u64(),
		Commit:   g.u64(),
		Reject:   g.boolean(),
		Hint:     g.u64(),
		Entries:  g.entries(top),
		HintHigh: g.u64(),
	}
	if g.rng.Intn(100) < 35 {
		g.st["shape_message:with-snapshot"]++
		m.Snapshot = g.snapshot()
	} else {
		g.hu(0xe3)
	}
	return m
}

func (g *gen) messageBatch() pb.MessageBatch {
	mb := pb.MessageBatch{}
	n := g.sliceLen("messages", true)
	if n > 60 {
		n = 60
	}
	if n >= 0 {
		mb.Requests = make([]pb.Message, n)
		for i := range mb.Requests {
			mb.Requests[i] = g.message(false)
		}
	}
	mb.DeploymentId = g.u64()
	mb.SourceAddress = g.str()
	mb.BinVer = g.u32()
	return mb
}

func (g *gen) configChange() pb.ConfigChange {
	return pb.ConfigChange{
		ConfigChangeId: g.u64(),
		Type:           pb.ConfigChangeType(g.enum(3)),
		ReplicaID:      g.u64(),
		Address:        g.str(),
		Initialize:     g.boolean(),
	}
}

func (g *gen) chunk() pb.Chunk {
	return pb.Chunk{
		ShardID:        g.u64(),
		ReplicaID:      g.u64(),
		From:           g.u64(),
		ChunkId:        g.u64(),
		ChunkSize:      g.u64(),
		ChunkCount:     g.u64(),
		Data:           g.bytes(),
		Index:          g.u64(),
		Term:           g.u64(),
		Membership:     g.membership(),
		Filepath:       g.str(),
		FileSize:       g.u64(),
		DeploymentId:   g.u64(),
		FileChunkId:    g.u64(),
		FileChunkCount: g.u64(),
		HasFileInfo:    g.boolean(),
		FileInfo:       g.snapshotFile(),
		BinVer:         g.u32(),
		OnDiskIndex:    g.u64(),
		Witness:        g.boolean(),
	}
}

func (g *gen) bootstrap() pb.Bootstrap {
	return pb.Bootstrap{
		Addresses: g.strMap(),
		Join:      g.boolean(),
		Type:      pb.StateMachineType(g.enum(3)),
	}
}

func (g *gen) raftDataStatus() pb.RaftDataStatus {
	return pb.RaftDataStatus{
		Address:             g.str(),
		BinVer:              g.u32(),
		HardHash:            g.u64(),
		LogdbType:           g.str(),
		Hostname:            g.str(),
		DeploymentId:        g.u64(),
		StepWorkerCount:     g.u64(),
		LogdbShardCount:     g.u64(),
		MaxSessionCount:     g.u64(),
		EntryBatchSize:      g.u64(),
		AddressByNodeHostId: g.boolean(),
	}
}

func (g *gen) session() client.Session {
	return client.Session{
		ShardID:     g.u64(),
		ClientID:    g.u64(),
		SeriesID:    g.u64(),
		RespondedTo: g.u64(),
	}
}

// update generates an Update: the persisted fields (ShardID, ReplicaID, State,
// EntriesToSave, Snapshot) and, now and then, the fields that are not part of
// the Tan record (they must not influence the encoding).
func (g *gen) update() pb.Update {
	u := pb.Update{
		ShardID:       g.u64(),
		ReplicaID:     g.u64(),
		State:         g.state(),
		EntriesToSave: g.entries(true),
	}
	switch p := g.rng.Intn(100); {
	case p < 45:
		g.st["shape_update:no-snapshot"]++
		g.hu(0xe4)
	case p < 55:
		// Index == 0: an "empty dummy record" by IsEmptySnapshot
		g.st["shape_update:snapshot-index-0"]++
		u.Snapshot = g.snapshot()
		u.Snapshot.Index = 0
		g.hu(0xe5)
	default:
		g.st["shape_update:with-snapshot"]++
		u.Snapshot = g.snapshot()
		if u.Snapshot.Index == 0 {
			u.Snapshot.Index = 1
			g.hu(0xe6)
		}
	}
	if g.rng.Intn(100) < 25 {
		g.st["shape_update:volatile-fields-set"]++
		u.FastApply = true
		u.MoreCommittedEntries = true
		u.LastApplied = g.u64()
		u.CommittedEntries = []pb.Entry{g.entry()}
		u.Messages = []pb.Message{{Type: pb.Heartbeat, To: 2, From: 1}}
		u.ReadyToReads = []pb.ReadyToRead{{Index: 5}}
		u.DroppedEntries = []pb.Entry{{Index: 9}}
		u.UpdateCommit = pb.UpdateCommit{Processed: 3, LastApplied: 2}
		u.LeaderUpdate = pb.LeaderUpdate{LeaderID: 1, Term: 2}
	}
	return u
}
