package main

import (
	"bytes"
	"fmt"
	"math/rand"
	"path"
	"reflect"
	"sort"
	"strings"
	"sync"

	"github.com/lni/vfs"

	"github.com/lni/dragonboat/v4/internal/fileutil"
	"github.com/lni/dragonboat/v4/internal/server"
	"github.com/lni/dragonboat/v4/internal/settings"
	"github.com/lni/dragonboat/v4/internal/transport"
	"github.com/lni/dragonboat/v4/raftio"
	pb "github.com/lni/dragonboat/v4/raftpb"
	"github.com/lni/dragonboat/v4/verifh/common"
)

// ---- script ----

type streamDef struct {
	Src       *source `json:"-"`
	SrcID     int     `json:"source"`
	SrcKind   string  `json:"source_kind"`
	NChunks   int     `json:"chunks"`
	MainLen   int     `json:"main_file_len"`
	ExtLens   []int   `json:"external_file_lens,omitempty"`
	Index     uint64  `json:"index"`
	Shard     uint64  `json:"shard"`
	Replica   uint64  `json:"replica"`
	From      uint64  `json:"from"`
	MainPath  string  `json:"main_path_override,omitempty"`
	ExtPrefix string  `json:"ext_path_prefix,omitempty"`
}

type nodeID struct{ shard, replica uint64 }
type keyID struct {
	shard, replica, index uint64
}

func (s *streamDef) key() keyID   { return keyID{s.Shard, s.Replica, s.Src.Index} }
func (s *streamDef) node() nodeID { return nodeID{s.Shard, s.Replica} }

const (
	mutDID        = "wrong-deployment-id"
	mutBinVer     = "wrong-binver"
	mutCorrupt    = "corrupt-main-protected"     // judged: bytes the validator covers
	mutCorruptHdr = "corrupt-header-unprotected" // not judged: header behind a zero CRC slot / header padding
	mutCorruptExt = "corrupt-external-file"      // not judged: external files carry no checksum
)

type ev struct {
	K   string `json:"k"` // add | tick | remove
	S   int    `json:"s,omitempty"`
	P   int    `json:"p,omitempty"`
	Mut string `json:"mut,omitempty"`
	At  []int  `json:"at,omitempty"` // corrupted offsets inside the chunk data
	X   []byte `json:"xor,omitempty"`
	N   int    `json:"n,omitempty"`
}

type script struct {
	Case    int         `json:"case"`
	Streams []streamDef `json:"streams"`
	Events  []ev        `json:"events"`
	Par     bool        `json:"parallel_feed,omitempty"`
	Perts   []string    `json:"perturbations"`
}

func rootDir(shard, replica uint64) string {
	return fmt.Sprintf("/recv/shard-%d/replica-%d", shard, replica)
}

func pickSource(rng *rand.Rand, pool []*source, ok func(*source) bool) *source {
	// small sources are picked most of the time (pool is ordered small first)
	for try := 0; try < 200; try++ {
		var s *source
		if rng.Intn(8) != 0 {
			s = pool[rng.Intn(poolSmall(pool))]
		} else {
			s = pool[rng.Intn(len(pool))]
		}
		if ok == nil || ok(s) {
			return s
		}
	}
	for _, s := range pool {
		if ok == nil || ok(s) {
			return s
		}
	}
	return nil
}

func poolSmall(pool []*source) int {
	n := 0
	for _, s := range pool {
		if len(s.Main) < 64*1024 && len(s.Chunks) <= 6 {
			n++
		}
	}
	if n == 0 {
		return len(pool)
	}
	return n
}

func newStream(src *source, shard, replica, from uint64) streamDef {
	sd := streamDef{Src: src, SrcID: src.ID, SrcKind: src.Kind, NChunks: len(src.Chunks), MainLen: len(src.Main),
		Index: src.Index, Shard: shard, Replica: replica, From: from}
	for _, e := range src.Ext {
		sd.ExtLens = append(sd.ExtLens, len(e.Data))
	}
	return sd
}

func genScript(rng *rand.Rand, pool []*source, c int) script {
	sc := script{Case: c}
	ns := 1
	switch k := rng.Intn(10); {
	case k >= 9:
		ns = 3
	case k >= 5:
		ns = 2
	}
	s0 := newStream(pickSource(rng, pool, nil), uint64(1+rng.Intn(3)), uint64(2+rng.Intn(3)), uint64(10+rng.Intn(3)))
	sc.Streams = append(sc.Streams, s0)
	sameKey := false
	for j := 1; j < ns; j++ {
		var sd streamDef
		switch rng.Intn(3) {
		case 0: // another shard
			sd = newStream(pickSource(rng, pool, nil), s0.Shard+uint64(10*j), uint64(2+rng.Intn(3)), uint64(10+rng.Intn(3)))
			sc.Perts = append(sc.Perts, "interleave-other-shard")
		case 1: // same replica, another index
			used := map[uint64]bool{}
			for _, o := range sc.Streams {
				if o.node() == s0.node() {
					used[o.Src.Index] = true
				}
			}
			src := pickSource(rng, pool, func(s *source) bool { return !used[s.Index] })
			if src == nil {
				continue
			}
			sd = newStream(src, s0.Shard, s0.Replica, uint64(10+rng.Intn(3)))
			sc.Perts = append(sc.Perts, "interleave-other-index")
		default: // same key, another sender
			usedFrom := map[uint64]bool{}
			for _, o := range sc.Streams {
				if o.key() == s0.key() {
					usedFrom[o.From] = true
				}
			}
			src := s0.Src
			if rng.Intn(2) == 0 {
				src = pickSource(rng, pool, func(s *source) bool { return s.Index == s0.Src.Index })
			}
			from := uint64(10)
			for usedFrom[from] {
				from++
			}
			sd = newStream(src, s0.Shard, s0.Replica, from)
			sameKey = true
			sc.Perts = append(sc.Perts, "interleave-other-sender-same-key")
		}
		sc.Streams = append(sc.Streams, sd)
	}
	// base order: each stream in order, streams merged at random
	type cursor struct{ s, p int }
	var cur []cursor
	for i := range sc.Streams {
		cur = append(cur, cursor{i, 0})
	}
	var evs []ev
	for len(cur) > 0 {
		i := rng.Intn(len(cur))
		if rng.Intn(3) == 0 {
			i = 0 // runs of one stream
		}
		evs = append(evs, ev{K: "add", S: cur[i].s, P: cur[i].p})
		cur[i].p++
		if cur[i].p >= sc.Streams[cur[i].s].NChunks {
			cur = append(cur[:i], cur[i+1:]...)
		}
	}
	// parallel feeding of pristine streams with distinct keys
	if ns >= 2 && !sameKey && rng.Intn(6) == 0 {
		sc.Par = true
		sc.Perts = append(sc.Perts, "parallel-feed")
		sc.Events = evs
		return sc
	}
	np := 0
	switch k := rng.Intn(20); {
	case k < 3:
		np = 0
	case k < 10:
		np = 1
	case k < 16:
		np = 2
	default:
		np = 3
	}
	addIdx := func() []int {
		var out []int
		for i, e := range evs {
			if e.K == "add" {
				out = append(out, i)
			}
		}
		return out
	}
	insert := func(at int, e ...ev) {
		evs = append(evs[:at], append(append([]ev{}, e...), evs[at:]...)...)
	}
	smallTicks := 0
	for k := 0; k < np; k++ {
		ai := addIdx()
		if len(ai) == 0 {
			break
		}
		switch op := rng.Intn(15); op {
		case 0: // drop
			i := ai[rng.Intn(len(ai))]
			evs = append(evs[:i], evs[i+1:]...)
			sc.Perts = append(sc.Perts, "drop")
		case 1: // swap two consecutive chunks of one stream
			i := ai[rng.Intn(len(ai))]
			for j := i + 1; j < len(evs); j++ {
				if evs[j].K == "add" && evs[j].S == evs[i].S {
					evs[i], evs[j] = evs[j], evs[i]
					break
				}
			}
			sc.Perts = append(sc.Perts, "swap")
		case 2: // duplicate
			i := ai[rng.Intn(len(ai))]
			at := i + 1
			if rng.Intn(2) == 0 {
				at = i + 1 + rng.Intn(len(evs)-i)
			}
			insert(at, evs[i])
			sc.Perts = append(sc.Perts, "duplicate")
		case 3, 4, 5: // corrupt bytes
			i := ai[rng.Intn(len(ai))]
			if evs[i].Mut != "" {
				continue
			}
			sd := &sc.Streams[evs[i].S]
			mut, at := pickCorruption(rng, sd.Src, evs[i].P)
			if mut == "" {
				continue
			}
			evs[i].Mut, evs[i].At = mut, at
			evs[i].X = make([]byte, len(at))
			for x := range evs[i].X {
				evs[i].X[x] = byte(1 + rng.Intn(255))
			}
			if mut == mutCorrupt && evs[i].P == 0 {
				// a corruption that leaves the CRC slot reading zero is the escape
				if d := makeChunk(sd, evs[i]).Data; zeroSlot(d) && !zeroSlot(sd.Src.Chunks[0].Data) {
					mut = mutCorruptHdr
				}
			}
			evs[i].Mut = mut
			sc.Perts = append(sc.Perts, mut)
		case 6: // restart from chunk 0
			s := rng.Intn(len(sc.Streams))
			upto := rng.Intn(sc.Streams[s].NChunks) + 1
			if rng.Intn(3) == 0 {
				upto = sc.Streams[s].NChunks
			}
			var again []ev
			for p := 0; p < upto; p++ {
				again = append(again, ev{K: "add", S: s, P: p})
			}
			insert(rng.Intn(len(evs)+1), again...)
			sc.Perts = append(sc.Perts, "restart-from-chunk-0")
		case 7:
			i := ai[rng.Intn(len(ai))]
			if evs[i].Mut == "" {
				evs[i].Mut = mutDID
				sc.Perts = append(sc.Perts, mutDID)
			}
		case 8:
			i := ai[rng.Intn(len(ai))]
			if evs[i].Mut == "" {
				evs[i].Mut = mutBinVer
				sc.Perts = append(sc.Perts, mutBinVer)
			}
		case 9: // the replica gets removed (marker file in its snapshot root)
			s := rng.Intn(len(sc.Streams))
			insert(rng.Intn(len(evs)+1), ev{K: "remove", S: s})
			sc.Perts = append(sc.Perts, "replica-removed")
		case 10: // path tricks in Filepath
			s := rng.Intn(len(sc.Streams))
			sd := &sc.Streams[s]
			base := sd.Src.MainName
			if rng.Intn(4) == 0 {
				base = "evil.bin"
			}
			sd.MainPath = []string{"../../" + base, "/" + base, "/etc/cron.d/" + base, "a/../../../../" + base, "../" + base, "/recv/../../" + base, "./" + base}[rng.Intn(7)]
			if rng.Intn(2) == 0 {
				sd.ExtPrefix = []string{"../../", "/", "/tmp/x/../../", "../"}[rng.Intn(4)]
			}
			sc.Perts = append(sc.Perts, "path-escape-attempt")
		case 11, 12: // a few ticks
			n := 1 + rng.Intn(250)
			if rng.Intn(3) == 0 {
				n = []int{1, 29, 30, 31, 60}[rng.Intn(5)]
			}
			if smallTicks+n <= 800 {
				smallTicks += n
				insert(rng.Intn(len(evs)+1), ev{K: "tick", N: n})
				sc.Perts = append(sc.Perts, "ticks")
			}
		case 13: // long silence: every stream in progress times out
			insert(rng.Intn(len(evs)+1), ev{K: "tick", N: tickDead + rng.Intn(60)})
			sc.Perts = append(sc.Perts, "timeout-burst")
		case 14: // the sender gives up in the middle (streaming: sink failure)
			s := rng.Intn(len(sc.Streams))
			cut := rng.Intn(sc.Streams[s].NChunks)
			var out []ev
			for _, e := range evs {
				if e.K == "add" && e.S == s && e.P >= cut {
					continue
				}
				out = append(out, e)
			}
			evs = out
			sc.Perts = append(sc.Perts, "sender-aborts")
		}
	}
	sc.Events = evs
	return sc
}

// chunkFileOffset is the offset in the main file of the first data byte of
// main-file chunk p.
func chunkFileOffset(src *source, p int) int {
	off0 := 0
	for i := 0; i < p; i++ {
		if !src.Chunks[i].HasFileInfo {
			off0 += len(src.Chunks[i].Data)
		}
	}
	return off0
}

// corruptionClass names where in the main file a judged corruption sits: the
// header, a block that is followed by at least two more blocks' worth of data
// (block size + CRC each, the tail included), or the last two blocks / tail.
func corruptionClass(src *source, p int, at []int) string {
	off0 := chunkFileOffset(src, p)
	x := bs + crcSize
	body := len(src.Main) - hdrSize
	early := body/x - 1 // number of leading blocks with >= 2 blocks' worth of data behind their start
	cls := ""
	for _, a := range at {
		fo := off0 + a
		c := "corruption-in-last-two-blocks-or-tail"
		if fo < hdrSize {
			c = "corruption-in-checksummed-header"
		} else if (fo-hdrSize)/x < early {
			c = "corruption-followed-by-two-or-more-blocks"
		}
		if cls == "" || c < cls {
			cls = c
		}
	}
	return cls
}

// pickCorruption chooses byte offsets inside the data of chunk p.
func pickCorruption(rng *rand.Rand, src *source, p int) (string, []int) {
	c := src.Chunks[p]
	L := len(c.Data)
	if L == 0 {
		return "", nil
	}
	n := 1 + rng.Intn(3)
	if c.HasFileInfo {
		var at []int
		for i := 0; i < n; i++ {
			if o := rng.Intn(L); !containsInt(at, o) {
				at = append(at, o)
			}
		}
		return mutCorruptExt, at
	}
	off0 := chunkFileOffset(src, p)
	// the length field is left alone: changing it moves the CRC slot, usually
	// onto zero padding (all-zero escape)
	protected := func(fo int) bool {
		if fo >= hdrSize {
			return true
		}
		return src.SlotFilled && fo >= 8 && fo < 12+src.HdrLen
	}
	wantProtected := rng.Intn(5) != 0
	var at []int
	for try := 0; try < 200 && len(at) < n; try++ {
		o := rng.Intn(L)
		if off0 == 0 && rng.Intn(3) == 0 {
			o = rng.Intn(min(L, hdrSize+8)) // header and first payload bytes
		}
		if rng.Intn(6) == 0 {
			o = L - 1 - rng.Intn(min(L, 20)) // CRC / tail at the end
		}
		if protected(off0+o) == wantProtected && !containsInt(at, o) {
			at = append(at, o)
		}
	}
	if len(at) == 0 {
		return "", nil
	}
	if wantProtected {
		return mutCorrupt, at
	}
	return mutCorruptHdr, at
}

// ---- reference predictor (from the property statement) ----

var (
	tickTimeout = int(settings.Soft.SnapshotChunkTimeoutTick)
	tickGC      = int(settings.Soft.SnapshotGCTick)
	// after this many ticks without an accepted chunk a stream is certainly
	// collected; below tickTimeout it certainly is not
	tickDead = tickTimeout + tickGC
)

type completion struct {
	stream   int
	valid    bool
	unjudged bool
	badClass string
}

type keyPred struct {
	active    bool
	stream    int
	from      uint64
	next      int
	valid     bool
	unjudged  bool
	idle      int
	ambiguous bool
	badClass  string
	done      []completion
}

type prediction struct {
	keys     map[keyID]*keyPred
	accepted int
	ignored  int
}

func predict(sc *script) prediction {
	pr := prediction{keys: map[keyID]*keyPred{}}
	removed := map[nodeID]bool{}
	for _, e := range sc.Events {
		switch e.K {
		case "tick":
			for _, k := range pr.keys {
				if k.active {
					k.idle += e.N
					if k.idle >= tickDead {
						k.active = false // collected
					} else if k.idle >= tickTimeout {
						k.ambiguous = true
					}
				}
			}
		case "remove":
			removed[sc.Streams[e.S].node()] = true
		case "add":
			sd := &sc.Streams[e.S]
			if e.Mut == mutDID || e.Mut == mutBinVer || removed[sd.node()] {
				pr.ignored++
				continue
			}
			k := pr.keys[sd.key()]
			if k == nil {
				k = &keyPred{}
				pr.keys[sd.key()] = k
			}
			c := sd.Src.Chunks[e.P]
			last := e.P == sd.NChunks-1
			ok := false
			if c.ChunkId == 0 {
				// chunk 0 (re)starts the stream of this key
				*k = keyPred{active: true, stream: e.S, from: sd.From, next: 1, valid: true, done: k.done, ambiguous: k.ambiguous}
				ok = true
			} else if k.active && k.from == sd.From && k.stream == e.S && int(c.ChunkId) == k.next {
				k.next++
				ok = true
			}
			if !ok {
				pr.ignored++
				continue
			}
			pr.accepted++
			k.idle = 0
			switch e.Mut {
			case mutCorrupt:
				k.valid = false
				if k.badClass == "" {
					k.badClass = corruptionClass(sd.Src, e.P, e.At)
				}
			case mutCorruptHdr, mutCorruptExt:
				k.unjudged = true
			}
			if last {
				k.done = append(k.done, completion{stream: e.S, valid: k.valid, unjudged: k.unjudged, badClass: k.badClass})
				k.active = false
			}
		}
	}
	return pr
}

// ---- execution against the real receiver ----

type recvLog struct {
	mu       sync.Mutex
	msgs     []pb.MessageBatch
	confirms [][3]uint64
}

func makeChunk(sd *streamDef, e ev) pb.Chunk {
	c := sd.Src.Chunks[e.P]
	c.ShardID, c.ReplicaID, c.From = sd.Shard, sd.Replica, sd.From
	if !c.HasFileInfo && sd.MainPath != "" {
		c.Filepath = sd.MainPath
	}
	if c.HasFileInfo && sd.ExtPrefix != "" {
		c.Filepath = sd.ExtPrefix + path.Base(c.Filepath)
	}
	switch e.Mut {
	case mutDID:
		c.DeploymentId++
	case mutBinVer:
		c.BinVer ^= 1
	case mutCorrupt, mutCorruptHdr, mutCorruptExt:
		d := append([]byte(nil), c.Data...)
		for i, o := range e.At {
			d[o] ^= e.X[i]
		}
		c.Data = d
	}
	return c
}

type fsEntry struct {
	path  string
	isDir bool
	size  int64
}

func walkFS(fs vfs.FS, dir string, out *[]fsEntry) error {
	names, err := fs.List(dir)
	if err != nil {
		return err
	}
	sort.Strings(names)
	for _, n := range names {
		p := path.Join(dir, n)
		st, err := fs.Stat(p)
		if err != nil {
			return err
		}
		*out = append(*out, fsEntry{p, st.IsDir(), st.Size()})
		if st.IsDir() {
			if err := walkFS(fs, p, out); err != nil {
				return err
			}
		}
	}
	return nil
}

type chunkWitness struct {
	Script  script   `json:"script"`
	Detail  string   `json:"detail"`
	FS      []string `json:"receiver_fs,omitempty"`
	Sources []string `json:"source_hashes"`
	Note    string   `json:"replay"`
}

func runChunks(r *common.Run) {
	r.SetRule("case = a script over 1-3 snapshot streams (sources: SnapshotWriter file + 0-3 external files cut by transport.splitSnapshotMessage/loadChunkData, rsm.ChunkWriter streams, witness snapshots; file sizes small or around 1x/2x/3-5x the 2 MB chunk size) related as other-shard / same replica other index / same key other sender, chunks merged at random, then 0-3 perturbations " +
		"(drop, swap, duplicate, corrupt bytes, restart from chunk 0, wrong deployment id, wrong BinVer, replica-removed marker, ../ and absolute Filepath, ticks, timeout burst, sender abort) or fed from parallel goroutines; fed to the real transport.Chunk via Add/Tick on a MemFS; " +
		"non-trivial = at least two chunks delivered and (at least one perturbation or at least two streams); distinct by hash of (source contents, stream parameters, event list)")
	r.Assume("reference predictor (from the statement): a chunk is accepted iff deployment id and BinVer match, the replica is not marked removed, and it is chunk 0 (which (re)starts the stream of its (shard,replica,index) key for its sender) or the next expected chunk of the key's stream from the sender that started it and the stream has not been idle for the timeout; a key finalizes iff some accepted run is the complete pristine chunk sequence of one sender")
	r.Assume(fmt.Sprintf("timeout collector: %d idle ticks, collected at multiples of %d ticks (settings.Soft); scripts keep streams either below %d idle ticks or at least %d, so the predictor never depends on the collection phase; every script ends with %d ticks after which no .receiving directory may exist", tickTimeout, tickGC, tickTimeout, tickDead, tickDead+tickGC))
	r.Assume("when several complete valid sequences arrive for one key the first wins; the statement does not say whether a later one is notified again, so 1..n notifications are accepted and the first must describe the first sequence")
	r.Assume("corrupted bytes are judged only where the stream validator covers them (everything from byte 1024 of the main file on, and the header record + CRC slot of streamed snapshots whose slot is filled). NOT judged, only counted by outcome: header bytes of a main file whose header CRC slot is zero (regular SnapshotWriter files; all-zero header CRC escape, see C14) and bytes of external files (the chunk protocol carries no checksum for them; integrity is left to the transport framing)")
	r.Assume("a chunk Filepath whose base name is '..' or '.' is not generated (the statement does not say what happens then); overridden paths keep a regular base name")
	nCases := r.Pick(192000, 1200000)
	cases := myCases(r, nCases)
	// the pool of sources of this batch
	prng := r.Rand("pool", 0)
	var pool []*source
	add := func(kind string, class int) {
		s, err := buildSource(prng, len(pool), kind, class)
		if err != nil {
			r.Violation("chunks:sender-failed", "the sender side could not produce a snapshot: "+err.Error(), map[string]interface{}{"kind": kind, "class": class})
			return
		}
		pool = append(pool, s)
		r.Count("sources_"+kind, 1)
		r.Max("max_chunks_in_source", int64(len(s.Chunks)))
		r.Max("max_main_file_len", int64(len(s.Main)))
	}
	for i := 0; i < 9; i++ {
		add(srcSplit, 0)
	}
	add(srcStream, 0)
	add(srcStream, 0)
	add(srcStream, 0)
	add(srcWitness, 0)
	add(srcSplit, 1)
	add(srcSplit, 1)
	add(srcSplit, 2)
	add(srcStream, 1)
	add(srcSplit, 3)
	add(srcStream, 3) // a stream of more than two blocks: chunks are queued while later blocks are written
	if r.Thorough() {
		add(srcStream, 2)
		add(srcSplit, 3)
		add(srcSplit, 2)
		add(srcStream, 3)
	}
	if len(pool) < 6 {
		return
	}
	for _, c := range cases {
		rng := r.Rand("chunks", c)
		sc := genScript(rng, pool, c)
		runScript(r, &sc)
		if c%20000 < r.NBatch {
			r.Flush()
		}
	}
}

var singleCase = -1

func runScript(r *common.Run, sc *script) {
	nAdds := 0
	hparts := []interface{}{sc.Par}
	for _, sd := range sc.Streams {
		hparts = append(hparts, sd.Src.Hash, sd.Shard, sd.Replica, sd.From, sd.MainPath, sd.ExtPrefix)
	}
	for _, e := range sc.Events {
		if e.K == "add" {
			nAdds++
		}
		hparts = append(hparts, fmt.Sprint(e))
	}
	r.Case(nAdds >= 2 && (len(sc.Perts) > 0 || len(sc.Streams) >= 2), common.Hash(hparts...))
	for _, p := range sc.Perts {
		r.Count("pert_"+p, 1)
	}
	if len(sc.Perts) == 0 {
		r.Count("pert_none_in_order", 1)
	}
	r.Count("streams", int64(len(sc.Streams)))
	r.Count("chunks_fed", int64(nAdds))

	pr := predict(sc)
	r.Count("predicted_accepted_chunks", int64(pr.accepted))
	r.Count("predicted_ignored_chunks", int64(pr.ignored))

	// strict: what was not synced is lost in the power loss at the end of the script
	fs := vfs.NewStrictMem()
	nodes := map[nodeID]bool{}
	for _, sd := range sc.Streams {
		nodes[sd.node()] = true
		_ = fs.MkdirAll(rootDir(sd.Shard, sd.Replica), 0o755)
	}
	// the replicas' snapshot directories exist durably before anything is received (a NodeHost
	// creates and syncs them when the replica is started)
	syncTree(fs, "/")
	lg := &recvLog{}
	onReceive := func(mb pb.MessageBatch) {
		lg.mu.Lock()
		lg.msgs = append(lg.msgs, mb)
		lg.mu.Unlock()
	}
	confirm := func(shard, replica, from uint64) {
		lg.mu.Lock()
		lg.confirms = append(lg.confirms, [3]uint64{shard, replica, from})
		lg.mu.Unlock()
	}
	ck := transport.NewChunk(onReceive, confirm, rootDir, testDID, fs)

	hasUnjudged := false
	for _, e := range sc.Events {
		if e.Mut == mutCorruptHdr || e.Mut == mutCorruptExt {
			hasUnjudged = true
		}
	}
	witness := func(detail string) chunkWitness {
		w := chunkWitness{Script: *sc, Detail: detail,
			Note: fmt.Sprintf("snapcheck -prop C15 -mode chunks -tier %s -seed %d -batch %d -nbatch %d -case %d", r.Tier, r.Seed, r.Batch, r.NBatch, sc.Case)}
		var ents []fsEntry
		_ = walkFS(fs, "/", &ents)
		for _, e := range ents {
			if e.isDir {
				w.FS = append(w.FS, e.path+"/")
			} else {
				w.FS = append(w.FS, fmt.Sprintf("%s (%d bytes)", e.path, e.size))
			}
		}
		for _, sd := range sc.Streams {
			w.Sources = append(w.Sources, sd.Src.Hash)
		}
		return w
	}
	viol := func(key, detail string) {
		if (r.Prop == "C16" || r.Prop == "C08") && !strings.HasPrefix(key, "received-snapshot-not-durable") {
			// registered for C16 only for its "received" clause (the power loss at the end)
			r.Count("alarms_of_other_properties_C15", 1)
			return
		}
		if r.Prop == "C14" && !strings.HasPrefix(key, "finalized-with-corrupt-chunk") {
			// registered for C14 only for its clause "a received chunk stream that is corrupted or
			// cut short anywhere is rejected": everything else this mode sees belongs to C15
			r.Count("alarms_of_other_properties_C15", 1)
			return
		}
		r.Violation("chunks:"+key, detail, witness(detail))
	}

	feed := func(e ev) (panicked bool) {
		p, pv := try(func() {
			switch e.K {
			case "add":
				sd := &sc.Streams[e.S]
				if ck.Add(makeChunk(sd, e)) {
					r.Count("add_returned_true", 1)
				} else {
					r.Count("add_returned_false", 1)
				}
			case "tick":
				for i := 0; i < e.N; i++ {
					ck.Tick()
				}
			case "remove":
				sd := &sc.Streams[e.S]
				if err := fileutil.MarkDirAsDeleted(rootDir(sd.Shard, sd.Replica), &pb.Snapshot{}, fs); err != nil {
					panic("harness: MarkDirAsDeleted: " + err.Error())
				}
			}
		})
		if p {
			np := normPanic(pv)
			if strings.HasPrefix(np, "harness:") {
				r.Inconclusive(np)
			} else if hasUnjudged {
				r.Count("panic_in_script_with_unjudged_corruption", 1)
			} else {
				cls := ""
				if e.K == "add" && invalidChunk0Before(sc, e) {
					cls = "after-rejected-chunk-0-of-same-key:"
				}
				viol("panic:"+cls+np, fmt.Sprintf("transport.Chunk panicked while handling %+v: %v", e, firstLine(pv)))
			}
		}
		return p
	}
	dead := false
	if sc.Par {
		var wg sync.WaitGroup
		var pmu sync.Mutex
		for s := range sc.Streams {
			wg.Add(1)
			go func(s int) {
				defer wg.Done()
				for _, e := range sc.Events {
					if e.K == "add" && e.S == s {
						if feed(e) {
							pmu.Lock()
							dead = true
							pmu.Unlock()
							return
						}
					}
				}
			}(s)
		}
		wg.Add(1)
		go func() {
			defer wg.Done()
			for i := 0; i < 90; i++ {
				ck.Tick()
			}
		}()
		wg.Wait()
	} else {
		for _, e := range sc.Events {
			if feed(e) {
				dead = true
				break
			}
		}
	}
	if dead {
		return
	}

	// (a) nothing outside the snapshot directories, at any time we look
	checkContainment := func(stage string, afterFlush bool) bool {
		var ents []fsEntry
		if err := walkFS(fs, "/", &ents); err != nil {
			r.Inconclusive("walk: " + err.Error())
			return false
		}
		okAll := true
		for _, e := range ents {
			where := ""
			for n := range nodes {
				root := rootDir(n.shard, n.replica)
				if e.path == root || strings.HasPrefix(root, e.path+"/") {
					where = "ancestor"
				} else if strings.HasPrefix(e.path, root+"/") {
					where = strings.TrimPrefix(e.path, root+"/")
				}
			}
			if where == "ancestor" {
				continue
			}
			if where == "" {
				viol("file-outside-snapshot-dir", fmt.Sprintf("%s: %s exists outside every snapshot root directory", stage, e.path))
				okAll = false
				continue
			}
			top := strings.SplitN(where, "/", 2)[0]
			switch {
			case server.SnapshotDirNameRe.MatchString(top):
			case server.RecvSnapshotDirNameRe.MatchString(top):
				if afterFlush {
					viol("temp-dir-survives-timeout", fmt.Sprintf("%s still exists %d ticks after the last chunk", e.path, tickDead+tickGC))
					okAll = false
				}
			case where == "DELETED.dragonboat":
			default:
				viol("unexpected-entry-in-snapshot-root", fmt.Sprintf("%s: unexpected %s", stage, e.path))
				okAll = false
			}
			if !okAll {
				break
			}
		}
		return okAll
	}
	if !checkContainment("after the script", false) {
		return
	}
	// (b) the timeout collector
	for i := 0; i < tickDead+tickGC; i++ {
		ck.Tick()
	}
	if !checkContainment("after the final ticks", true) {
		return
	}
	r.Count("scripts_no_temp_dir_left", 1)

	type handed struct {
		k    keyID
		dir  string
		main string
		want map[string][]byte
	}
	var handedOver []handed
	// (c) per key: finalized iff predicted, content, notification
	lg.mu.Lock()
	msgs := append([]pb.MessageBatch(nil), lg.msgs...)
	confirms := append([][3]uint64(nil), lg.confirms...)
	lg.mu.Unlock()
	// confirm(shard, replica, from) exactly once per notification (as multisets:
	// with parallel feeding the two logs interleave differently)
	{
		var want [][3]uint64
		for _, mb := range msgs {
			for _, m := range mb.Requests {
				want = append(want, [3]uint64{m.ShardID, m.To, m.From})
			}
		}
		less := func(a [][3]uint64) func(i, j int) bool {
			return func(i, j int) bool { return fmt.Sprint(a[i]) < fmt.Sprint(a[j]) }
		}
		got := append([][3]uint64(nil), confirms...)
		sort.Slice(want, less(want))
		sort.Slice(got, less(got))
		if !reflect.DeepEqual(want, got) && (len(want) > 0 || len(got) > 0) {
			viol("confirm-calls-do-not-match-notifications", fmt.Sprintf("notifications for %v but confirm calls %v", want, got))
		}
	}
	// every stream's key is examined, also those the predictor never saw
	keys := map[keyID]bool{}
	for i := range sc.Streams {
		keys[sc.Streams[i].key()] = true
	}
	msgsOf := func(k keyID) (out []pb.Message, idx []int) {
		for i, mb := range msgs {
			for _, m := range mb.Requests {
				if m.ShardID == k.shard && m.To == k.replica && m.Snapshot.Index == k.index {
					out = append(out, m)
					idx = append(idx, i)
				}
			}
		}
		return
	}
	for _, mb := range msgs {
		if len(mb.Requests) != 1 || mb.Requests[0].Type != pb.InstallSnapshot || mb.DeploymentId != testDID || mb.BinVer != raftio.TransportBinVersion {
			viol("malformed-notification", fmt.Sprintf("notification with %d requests, did %d, binver %d", len(mb.Requests), mb.DeploymentId, mb.BinVer))
		}
	}
	for k := range keys {
		func() {
			kp := pr.keys[k]
			finalDir := path.Join(rootDir(k.shard, k.replica), server.GetSnapshotDirName(k.index))
			_, serr := fs.Stat(finalDir)
			exists := serr == nil
			got, _ := msgsOf(k)
			var nValid int
			var first *completion
			unjudged, ambiguous := false, false
			if kp != nil {
				ambiguous = kp.ambiguous
				for i := range kp.done {
					d := &kp.done[i]
					if d.unjudged {
						unjudged = true
					}
					if d.valid && !d.unjudged {
						nValid++
						if first == nil {
							first = d
						}
					}
				}
			}
			if ambiguous {
				r.Count("keys_ambiguous_timeout_not_judged", 1)
				return
			}
			if unjudged {
				r.Count("keys_with_unjudged_corruption", 1)
				if exists {
					r.Count("unjudged_corruption_finalized", 1)
				} else {
					r.Count("unjudged_corruption_not_finalized", 1)
				}
				return
			}
			if first == nil {
				r.Count("keys_predicted_not_finalized", 1)
				if exists || len(got) > 0 {
					why := "no accepted run of chunks is a complete sequence"
					key := "finalized-incomplete-sequence:" + strings.Join(uniqSorted(sc.Perts), "+")
					if kp != nil {
						// name the completed run the notification came from
						var pick *completion
						for i := range kp.done {
							d := &kp.done[i]
							if d.valid {
								continue
							}
							if pick == nil {
								pick = d
							}
							if len(got) > 0 && sc.Streams[d.stream].From == got[0].From {
								pick = d
								break
							}
						}
						if pick != nil {
							why = "the completed run of accepted chunks from sender " + fmt.Sprint(sc.Streams[pick.stream].From) + " contains a corrupted chunk (" + pick.badClass + ")"
							key = "finalized-with-corrupt-chunk:" + pick.badClass
						}
					}
					viol(key, fmt.Sprintf("key %d:%d:%d: final dir exists=%v, %d notifications, but %s", k.shard, k.replica, k.index, exists, len(got), why))
				}
				return
			}
			r.Count("keys_predicted_finalized", 1)
			sd := &sc.Streams[first.stream]
			// a completed run with a corrupted chunk before the first valid one: if
			// the receiver (wrongly) finalized that one, everything below differs as
			// a consequence; report it under the corrupt-chunk key only
			var preInvalid *completion
			for i := range kp.done {
				if &kp.done[i] == first {
					break
				}
				if !kp.done[i].valid {
					if preInvalid == nil {
						preInvalid = &kp.done[i]
					}
					if len(got) > 0 && sc.Streams[kp.done[i].stream].From == got[0].From {
						preInvalid = &kp.done[i]
						break
					}
				}
			}
			if preInvalid != nil {
				type pend struct{ key, detail string }
				var pending []pend
				realViol := viol
				viol = func(key, detail string) { pending = append(pending, pend{key, detail}) }
				defer func() {
					viol = realViol
					if len(pending) > 0 {
						realViol("finalized-with-corrupt-chunk:"+preInvalid.badClass, fmt.Sprintf("key %d:%d:%d: an earlier completed run containing a corrupted chunk (%s) left its mark: %s", k.shard, k.replica, k.index, preInvalid.badClass, pending[0].detail))
					}
				}()
			}
			if !exists || len(got) == 0 {
				viol("complete-valid-sequence-not-finalized", fmt.Sprintf("key %d:%d:%d: the complete sequence from sender %d was accepted in order, final dir exists=%v, %d notifications", k.shard, k.replica, k.index, sd.From, exists, len(got)))
				return
			}
			if len(got) > nValid {
				viol("too-many-notifications", fmt.Sprintf("key %d:%d:%d: %d notifications for %d complete valid sequences", k.shard, k.replica, k.index, len(got), nValid))
			}
			// directory content
			mainName := sd.Src.MainName
			if sd.MainPath != "" {
				mainName = path.Base(sd.MainPath)
			}
			want := map[string][]byte{mainName: sd.Src.Main}
			for _, e := range sd.Src.Ext {
				want[e.Name] = e.Data
			}
			names, _ := fs.List(finalDir)
			seen := map[string]bool{}
			contentOK := true
			for _, n := range names {
				seen[n] = true
				if n == fileutil.SnapshotFlagFilename {
					continue
				}
				w, ok := want[n]
				if !ok {
					viol("unexpected-file-in-final-dir", fmt.Sprintf("%s/%s is not part of the source snapshot", finalDir, n))
					contentOK = false
					continue
				}
				g, err := readAllFS(fs, path.Join(finalDir, n))
				if err != nil || !bytes.Equal(g, w) {
					kind := "main-file"
					if n != mainName {
						kind = "external-file"
					}
					viol("finalized-"+kind+"-differs", fmt.Sprintf("%s/%s: %d bytes, source has %d, first difference at %d (err=%v)", finalDir, n, len(g), len(w), firstDiff(g, w), err))
					contentOK = false
				}
			}
			for n := range want {
				if !seen[n] {
					viol("file-missing-in-final-dir", fmt.Sprintf("%s/%s missing", finalDir, n))
					contentOK = false
				}
			}
			if !seen[fileutil.SnapshotFlagFilename] {
				viol("flag-file-missing", finalDir+" has no "+fileutil.SnapshotFlagFilename)
			}
			if contentOK {
				r.Count("finalized_dirs_byte_identical", 1)
				r.Count("finalized_files_compared", int64(len(want)))
				handedOver = append(handedOver, handed{k, finalDir, mainName, want})
			}
			// the notification
			m := got[0]
			var bad []string
			chk := func(name string, g, w interface{}) {
				if !reflect.DeepEqual(g, w) {
					bad = append(bad, fmt.Sprintf("%s=%v want %v", name, g, w))
				}
			}
			chk("From", m.From, sd.From)
			chk("Index", m.Snapshot.Index, sd.Src.Index)
			chk("Term", m.Snapshot.Term, sd.Src.Term)
			chk("OnDiskIndex", m.Snapshot.OnDiskIndex, sd.Src.OnDisk)
			chk("Witness", m.Snapshot.Witness, sd.Src.Kind == srcWitness)
			chk("Filepath", m.Snapshot.Filepath, path.Join(finalDir, mainName))
			if sd.Src.Kind != srcStream { // the streaming sender announces no size
				chk("FileSize", m.Snapshot.FileSize, uint64(len(sd.Src.Main)))
			}
			if !membershipEqual(m.Snapshot.Membership, sd.Src.Membership) {
				bad = append(bad, "Membership differs")
			}
			chk("len(Files)", len(m.Snapshot.Files), len(sd.Src.Ext))
			if len(m.Snapshot.Files) == len(sd.Src.Ext) {
				for i, f := range m.Snapshot.Files {
					e := sd.Src.Ext[i]
					chk(fmt.Sprintf("Files[%d].FileId", i), f.FileId, e.ID)
					chk(fmt.Sprintf("Files[%d].FileSize", i), f.FileSize, uint64(len(e.Data)))
					chk(fmt.Sprintf("Files[%d].Filepath", i), f.Filepath, path.Join(finalDir, e.Name))
					if !bytes.Equal(f.Metadata, e.Meta) {
						bad = append(bad, fmt.Sprintf("Files[%d].Metadata differs", i))
					}
				}
			}
			if len(bad) > 0 {
				viol("notification-does-not-describe-snapshot", fmt.Sprintf("key %d:%d:%d: %s", k.shard, k.replica, k.index, strings.Join(bad, "; ")))
			} else {
				r.Count("notifications_checked", 1)
			}
		}()
	}
	// power loss after the script. A snapshot that was finalized and announced to the node
	// (InstallSnapshot notification: the node records it in its log store and acknowledges it) must
	// by then be durable as a whole: directory, flag file, every file byte for byte.
	if len(handedOver) > 0 {
		fs.SetIgnoreSyncs(true)
		fs.ResetToSyncedState()
		fs.SetIgnoreSyncs(false)
		repairNames(fs, "/")
		for _, h := range handedOver {
			r.Count("handed_over_snapshots_checked_after_power_loss", 1)
			names, err := fs.List(h.dir)
			if err != nil {
				viol("received-snapshot-not-durable:directory-lost", fmt.Sprintf("key %d:%d:%d: %s was finalized and announced to the node; after a power loss the directory is gone (%v)", h.k.shard, h.k.replica, h.k.index, h.dir, err))
				continue
			}
			seen := map[string]bool{}
			for _, n := range names {
				seen[n] = true
			}
			if !seen[fileutil.SnapshotFlagFilename] {
				viol("received-snapshot-not-durable:flag-file-lost", fmt.Sprintf("key %d:%d:%d: %s lost its flag file in the power loss: the start-up cleanup can no longer tell that the directory holds a received snapshot that may be unrecorded", h.k.shard, h.k.replica, h.k.index, h.dir))
			}
			for n, w := range h.want {
				g, err := readAllFS(fs, path.Join(h.dir, n))
				if err != nil || !bytes.Equal(g, w) {
					kind := "main-file"
					if n != h.main {
						kind = "external-file"
					}
					viol("received-snapshot-not-durable:"+kind, fmt.Sprintf("key %d:%d:%d: %s/%s was complete when the snapshot was announced to the node; after a power loss it has %d of %d bytes, first difference at %d (err=%v)", h.k.shard, h.k.replica, h.k.index, h.dir, n, len(g), len(w), firstDiff(g, w), err))
				} else {
					r.Count("handed_over_files_identical_after_power_loss", 1)
				}
			}
		}
	}
	// notifications for keys no stream of the script has
	for _, mb := range msgs {
		for _, m := range mb.Requests {
			if !keys[keyID{m.ShardID, m.To, m.Snapshot.Index}] {
				viol("notification-for-unknown-key", fmt.Sprintf("notification for %d:%d:%d", m.ShardID, m.To, m.Snapshot.Index))
			}
		}
	}
	if r.WantSample() && len(sc.Perts) >= 2 && len(msgs) > 0 && !hasUnjudged {
		w := witness("sample: judged script, no violation")
		r.Sample(w)
	}
}

// invalidChunk0Before: was a chunk 0 with a judged corruption delivered for the
// key of event e earlier in the script?
func invalidChunk0Before(sc *script, e ev) bool {
	k := sc.Streams[e.S].key()
	for i := range sc.Events {
		o := &sc.Events[i]
		if o.K == "add" && o.P == 0 && o.Mut == mutCorrupt && sc.Streams[o.S].key() == k {
			return true
		}
	}
	return false
}

func membershipEqual(a, b pb.Membership) bool {
	eqS := func(x, y map[uint64]string) bool {
		if len(x) != len(y) {
			return false
		}
		for k, v := range x {
			if w, ok := y[k]; !ok || w != v {
				return false
			}
		}
		return true
	}
	if len(a.Removed) != len(b.Removed) {
		return false
	}
	for k, v := range a.Removed {
		if w, ok := b.Removed[k]; !ok || w != v {
			return false
		}
	}
	return a.ConfigChangeId == b.ConfigChangeId && eqS(a.Addresses, b.Addresses) &&
		eqS(a.NonVotings, b.NonVotings) && eqS(a.Witnesses, b.Witnesses)
}

func containsInt(a []int, x int) bool {
	for _, y := range a {
		if x == y {
			return true
		}
	}
	return false
}

func uniqSorted(a []string) []string {
	m := map[string]bool{}
	for _, x := range a {
		m[x] = true
	}
	var out []string
	for x := range m {
		out = append(out, x)
	}
	sort.Strings(out)
	return out
}

func firstLine(v interface{}) string {
	s := fmt.Sprint(v)
	if i := strings.IndexByte(s, '\n'); i >= 0 {
		s = s[:i]
	}
	if len(s) > 300 {
		s = s[:300]
	}
	return s
}

// repairNames: see cluster.repairNames (MemFS keeps file names in the node; after
// ResetToSyncedState an entry renamed without a directory sync carries the new name).
func repairNames(fs *vfs.MemFS, dir string) {
	names, err := fs.List(dir)
	if err != nil {
		return
	}
	for _, n := range names {
		p := fs.PathJoin(dir, n)
		st, err := fs.Stat(p)
		if err != nil {
			continue
		}
		if st.Name() != n {
			_ = fs.Rename(p, p)
		}
		if st.IsDir() {
			repairNames(fs, p)
		}
	}
}

func syncTree(fs *vfs.MemFS, dir string) {
	names, err := fs.List(dir)
	if err != nil {
		return
	}
	for _, n := range names {
		p := fs.PathJoin(dir, n)
		if st, err := fs.Stat(p); err == nil && st.IsDir() {
			syncTree(fs, p)
		}
	}
	if d, err := fs.OpenDir(dir); err == nil {
		_ = d.Sync()
		_ = d.Close()
	}
}
