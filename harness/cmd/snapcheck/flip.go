package main

import (
	"bytes"
	"encoding/binary"
	"encoding/hex"
	"fmt"
	"math/rand"
	"os"

	"github.com/lni/vfs"

	pb "github.com/lni/dragonboat/v4/raftpb"
	"github.com/lni/dragonboat/v4/verifh/common"
)

// layout of a file under test, for attributing a flipped bit to a region
type layout struct {
	v1     bool
	hdrLen int   // length of the marshalled header record
	crcOff []int // offsets of the 4-byte block CRCs (v2)
	size   int
}

func (l layout) region(off int) string {
	switch {
	case off < 8:
		return "hdr-len"
	case off < 8+l.hdrLen:
		return "hdr-record"
	case off < 12+l.hdrLen:
		return "hdr-crcslot"
	case off < hdrSize:
		return "hdr-padding"
	}
	if l.v1 {
		return "payload"
	}
	if off >= l.size-tailSize {
		return "tail"
	}
	for _, c := range l.crcOff {
		if off >= c && off < c+crcSize {
			return "block-crc"
		}
	}
	return "payload"
}

// zeroSlot says whether the header CRC slot, located the way the reader and
// the validator locate it (8 + length field), reads all-zero: in that case
// validateHeader (snapshotio.go) accepts the header record unchecked.
func zeroSlot(file []byte) bool {
	if len(file) < hdrSize {
		return false
	}
	l := binary.LittleEndian.Uint64(file)
	if l > uint64(hdrSize-12) {
		return false
	}
	return bytes.Equal(file[8+l:12+l], []byte{0, 0, 0, 0})
}

type flipSpec struct {
	Kind string
	CT   pb.CompressionType
	Len  int
}

var smallKinds = []flipSpec{
	{kindW2, pb.NoCompression, 0}, {kindW2, pb.Snappy, 0},
	{kindStream, pb.NoCompression, 0}, {kindStream, pb.Snappy, 0},
	{kindV1, pb.NoCompression, 0}, {kindV1Legacy, pb.NoCompression, 0},
	{kindStream, pb.Snappy, 0}, {kindW2, pb.NoCompression, 0}, {kindStream, pb.NoCompression, 0}, {kindV1, pb.Snappy, 0},
}

func makeLayout(bf *builtFile, kind string) (layout, error) {
	l := layout{hdrLen: bf.HeaderLen, size: len(bf.Bytes), v1: kind == kindV1 || kind == kindV1Legacy}
	if !l.v1 {
		_, _, crcOff, err := parseV2(bf.Bytes)
		if err != nil {
			return l, err
		}
		l.crcOff = crcOff
	}
	return l, nil
}

type flipWitness struct {
	Case     int    `json:"case"`
	Kind     string `json:"kind"`
	CT       int    `json:"compression"`
	Len      int    `json:"payload_len"`
	Payload  string `json:"payload_hex,omitempty"`
	PayloadH string `json:"payload_hash"`
	FileHex  string `json:"file_hex,omitempty"`
	Off      int    `json:"flipped_byte_offset"`
	Bit      int    `json:"flipped_bit"`
	Region   string `json:"region"`
	Outcome  string `json:"outcome"`
}

func runFlip(r *common.Run) {
	r.SetRule("case = one snapshot file (kind x compression x payload) from the PRNG plus a set of single-bit flips: small files (payload 0..300 bytes): every bit of the header length field, header record, CRC slot, payload, block CRC and tail, plus EVERY bit of the header padding in one case of ten (all 8192 header bits of that file) and 98 sampled padding bits otherwise; " +
		"multi-block files (payload blockSize+k / 2*blockSize+k): every bit of every block CRC and of the tail, first/last byte of every block, PRNG-sampled payload and header bits; each flip is one full load (header parse, header check, decompress, read all, Close); " +
		"non-trivial = payload of at least one byte and at least one flip evaluated; distinct by hash of (file bytes, flip set)")
	r.Assume("passing outcomes of a flip: the load fails (error or panic, e.g. 'corrupted block', 'corrupted header') or returns exactly the original bytes (bits nothing depends on: header padding, UnreliableTime, the v2 tail which the reader never looks at)")
	r.Assume("all-zero header CRC escape: snapshotio.go validateHeader accepts a header record unchecked when the 4-byte CRC slot behind it reads zero, and SnapshotWriter.saveHeader (regular snapshots) leaves that slot zero (its CRC goes into the HeaderChecksum field which nothing reads); " +
		"so for such files - and for a flip that makes the slot read zero - a header bit flip that alters what is loaded (in practice: CompressionType of a Snappy file cleared, the compressed stream is handed over) is counted in unprotected_header_altered_bytes_loaded and NOT judged; " +
		"headers written by the streaming path (ChunkWriter.getHeader fills the slot) are judged strictly, and payload / block CRC flips are judged strictly for every file")
	nCases := r.Pick(320, 3000)
	for _, c := range myCases(r, nCases) {
		rng := r.Rand("flip", c)
		big := c%5 == 4
		full := c%10 == 0 // every bit of the header padding too (each load of a v2 file costs two 2 MB buffers inside the reader)
		var sp fileSpec
		if big {
			sp.Kind = []string{kindW2, kindStream, kindW2}[rng.Intn(3)]
			if rng.Intn(3) == 0 {
				sp.CT = pb.Snappy
			}
			lens := []int{bs + 1, 2*bs + 1, bs + 1, 2*bs - 1, bs + 77, 2 * bs}
			if !r.Thorough() {
				lens = lens[:3]
			}
			n := lens[rng.Intn(len(lens))]
			sp.Payload = make([]byte, n)
			rng.Read(sp.Payload) // incompressible: the stored stream is multi-block also under Snappy
			sp.WSegs = genSegs(rng, n)
		} else {
			k := smallKinds[rng.Intn(len(smallKinds))]
			sp.Kind, sp.CT = k.Kind, k.CT
			n := rng.Intn(64)
			if rng.Intn(6) == 0 {
				n = rng.Intn(300)
			}
			if rng.Intn(10) == 0 {
				n = 0
			}
			sp.Payload = genPayload(rng, n)
			sp.WSegs = genSegs(rng, n)
		}
		fs := vfs.NewMem()
		_ = fs.MkdirAll("/d", 0o755)
		fp := "/d/snapshot-0000000000000064.gbsnap"
		bf, err := buildFile(fs, fp, sp)
		if err != nil {
			r.Inconclusive("flip: could not build file: " + err.Error())
			continue
		}
		lay, err := makeLayout(bf, sp.Kind)
		if err != nil {
			r.Violation("flip:"+sp.Kind+":layout", "writer output does not follow the v2 layout: "+err.Error(), map[string]interface{}{"case": c})
			continue
		}
		// the untouched file must load (otherwise every flip "passes" vacuously)
		base := loadFile(fs, fp, nil)
		if base.failed() || !bytes.Equal(base.Data, sp.Payload) {
			r.Violation("flip:"+sp.Kind+":intact-file-not-loadable", "intact file: "+base.Err+base.Panic, map[string]interface{}{"case": c, "len": len(sp.Payload)})
			continue
		}
		// flip set
		type bitpos struct{ off, bit int }
		var flips []bitpos
		if !big {
			padStart := 12 + lay.hdrLen
			for o := 0; o < len(bf.Bytes); o++ {
				if !full && o >= padStart && o < hdrSize {
					continue
				}
				for b := 0; b < 8; b++ {
					flips = append(flips, bitpos{o, b})
				}
			}
			if !full {
				for i := 0; i < 96; i++ {
					flips = append(flips, bitpos{padStart + rng.Intn(hdrSize-padStart), rng.Intn(8)})
				}
				flips = append(flips, bitpos{padStart, 0}, bitpos{hdrSize - 1, 7})
			} else {
				r.Count("files_with_every_header_bit_flipped", 1)
			}
		} else {
			addByte := func(o int) {
				for b := 0; b < 8; b++ {
					flips = append(flips, bitpos{o, b})
				}
			}
			prev := hdrSize
			for _, co := range lay.crcOff {
				for o := co; o < co+crcSize; o++ {
					addByte(o)
				}
				addByte(prev)   // first byte of the block
				addByte(co - 1) // last byte of the block
				prev = co + crcSize
			}
			for o := lay.size - tailSize; o < lay.size; o++ {
				addByte(o)
			}
			for i := 0; i < r.Pick(40, 120); i++ {
				flips = append(flips, bitpos{hdrSize + rng.Intn(lay.size-hdrSize-tailSize), rng.Intn(8)})
			}
			for i := 0; i < r.Pick(24, 64); i++ {
				flips = append(flips, bitpos{rng.Intn(12 + lay.hdrLen), rng.Intn(8)})
			}
		}
		fh := common.Hash(bf.Bytes, len(flips), fmt.Sprint(flips[len(flips)-1]))
		r.Case(len(sp.Payload) > 0 && len(flips) > 0, fh)
		r.Count("files_"+sp.Kind, 1)
		if big {
			r.Count("files_multiblock", 1)
		}
		if bf.SlotFilled {
			r.Count("files_with_header_crc_slot_filled", 1)
		}
		wf, err := fs.OpenForAppend(fp)
		if err != nil {
			r.Inconclusive("flip: OpenForAppend: " + err.Error())
			continue
		}
		mut := make([]byte, len(bf.Bytes))
		copy(mut, bf.Bytes)
		for _, f := range flips {
			mask := byte(1) << uint(f.bit)
			mut[f.off] ^= mask
			if _, err := wf.WriteAt(mut[f.off:f.off+1], int64(f.off)); err != nil {
				r.Inconclusive("flip: WriteAt: " + err.Error())
				break
			}
			region := lay.region(f.off)
			escape := region[:3] == "hdr" && zeroSlot(mut)
			res := loadFile(fs, fp, flipReadSizes(rng, big))
			r.Count("flips", 1)
			r.Count("flips_"+region, 1)
			var outcome string
			switch {
			case res.Panic != "":
				outcome = "detected-panic"
				r.Count("detected_by_panic", 1)
				r.Count("detected_"+region, 1)
			case res.Err != "":
				outcome = "detected-error"
				r.Count("detected_by_error", 1)
				r.Count("detected_"+region, 1)
			case bytes.Equal(res.Data, sp.Payload):
				outcome = "original-bytes"
				r.Count("harmless_"+region, 1)
			default:
				outcome = "ALTERED-BYTES-LOADED"
				if escape {
					r.Count("unprotected_header_altered_bytes_loaded", 1)
					r.Count("unprotected_header_altered_"+sp.Kind, 1)
					if sp.CT == pb.Snappy && bytes.Equal(res.Data, storedOf(bf, lay)) {
						// the only alteration seen so far: CompressionType lost
						r.Count("unprotected_header_altered_is_the_stored_compressed_stream", 1)
					}
					if os.Getenv("SNAPCHECK_DEBUG") != "" {
						fmt.Fprintf(os.Stderr, "unprotected: kind=%s ct=%d len=%d off=%d bit=%d region=%s hdr=%x got=%d bytes firstdiff=%d\n", sp.Kind, sp.CT, len(sp.Payload), f.off, f.bit, region, mut[:12+lay.hdrLen], len(res.Data), firstDiff(res.Data, sp.Payload))
					}
				} else {
					w := flipWitness{Case: c, Kind: sp.Kind, CT: int(sp.CT), Len: len(sp.Payload), PayloadH: common.Hash(sp.Payload),
						Off: f.off, Bit: f.bit, Region: region, Outcome: fmt.Sprintf("load returned %d bytes differing from the %d written at %d, no error", len(res.Data), len(sp.Payload), firstDiff(res.Data, sp.Payload))}
					if len(bf.Bytes) < 4096 {
						w.Payload = hex.EncodeToString(sp.Payload)
						w.FileHex = hex.EncodeToString(bf.Bytes)
					}
					filled := "slot-zero"
					if bf.SlotFilled {
						filled = "slot-crc"
					}
					key := fmt.Sprintf("flip:%s:%s:altered-bytes-loaded", sp.Kind, region)
					if region[:3] == "hdr" {
						key = fmt.Sprintf("flip:%s:%s:%s:altered-bytes-loaded", sp.Kind, filled, region)
					}
					r.Violation(key, fmt.Sprintf("bit %d of byte %d (%s) flipped in a %s file: %s", f.bit, f.off, region, sp.Kind, w.Outcome), w)
				}
			}
			if r.WantSample() && outcome == "detected-panic" && region == "payload" {
				r.Sample(flipWitness{Case: c, Kind: sp.Kind, CT: int(sp.CT), Len: len(sp.Payload), PayloadH: common.Hash(sp.Payload),
					Off: f.off, Bit: f.bit, Region: region, Outcome: outcome + ": " + res.Panic})
			}
			mut[f.off] ^= mask
			if _, err := wf.WriteAt(mut[f.off:f.off+1], int64(f.off)); err != nil {
				r.Inconclusive("flip: WriteAt: " + err.Error())
				break
			}
		}
		_ = wf.Close()
		// the file must be intact again (harness self-check)
		if after := mustRead(fs, fp); !bytes.Equal(after, bf.Bytes) {
			r.Inconclusive("flip: harness failed to restore the file")
		}
		r.Flush()
	}
}

func flipReadSizes(rng *rand.Rand, big bool) []int {
	if big {
		return []int{[]int{64 * 1024, bs, bs + 5, 1 << 20}[rng.Intn(4)]}
	}
	return []int{[]int{1, 7, 64, 4096}[rng.Intn(4)]}
}

// storedOf returns the payload as stored in the file (before decompression).
func storedOf(bf *builtFile, lay layout) []byte {
	if lay.v1 {
		return bf.Bytes[hdrSize:]
	}
	stored, _, _, _ := parseV2(bf.Bytes)
	return stored
}
