package main

import (
	"bytes"
	"encoding/binary"
	"errors"
	"fmt"
	"hash/crc32"
	"io"
	"math/rand"
	"time"

	"github.com/golang/snappy"
	"github.com/lni/vfs"

	"github.com/lni/dragonboat/v4/internal/rsm"
	"github.com/lni/dragonboat/v4/internal/utils/dio"
	pb "github.com/lni/dragonboat/v4/raftpb"
)

// How a snapshot file under test is produced.
const (
	kindW2       = "writer-v2"   // rsm.NewSnapshotWriter the way snapshotter.Save uses it (header CRC slot left zero)
	kindStream   = "stream-v2"   // rsm.NewChunkWriter the way snapshotter.Stream uses it; the received file is the concatenated chunk data (header CRC slot filled)
	kindV1       = "harness-v1"  // v1 layout written by the harness, header marshalled by the current code
	kindV1Legacy = "harness-v1l" // v1 layout, header without the CompressionType field (as in testdata/v1snapshot.gbsnap)
)

type fileSpec struct {
	Kind    string
	CT      pb.CompressionType
	Payload []byte
	WSegs   []int // sizes of the individual Write calls (sum == len(Payload))
}

type builtFile struct {
	InputModified bool // a writer changed the bytes of the slice handed to Write
	Path          string
	Bytes         []byte // the file as found on the FS after the writer finished
	RecSize       uint64 // size the writer reports (what Save puts into pb.Snapshot.FileSize); 0 if n/a
	RecSum        []byte // checksum the writer reports (pb.Snapshot.Checksum); nil if n/a
	Stored        uint64 // bytes handed to the snapshot writer after compression
	Chunks        []pb.Chunk
	HeaderLen     int  // length of the marshalled header record
	SlotFilled    bool // header CRC slot is non-zero
}

func readAllFS(fs vfs.FS, fp string) ([]byte, error) {
	f, err := fs.Open(fp)
	if err != nil {
		return nil, err
	}
	defer f.Close()
	return io.ReadAll(f)
}

func writeFS(fs vfs.FS, fp string, data []byte) error {
	f, err := fs.Create(fp)
	if err != nil {
		return err
	}
	if _, err := f.Write(data); err != nil {
		f.Close()
		return err
	}
	return f.Close()
}

func writeSegs(w io.Writer, payload []byte, segs []int) error {
	off := 0
	for _, s := range segs {
		n, err := w.Write(payload[off : off+s])
		if err != nil {
			return err
		}
		if n != s {
			return fmt.Errorf("short write %d of %d", n, s)
		}
		off += s
	}
	if off != len(payload) {
		return fmt.Errorf("harness: segments cover %d of %d", off, len(payload))
	}
	return nil
}

// collectSink is the pb.IChunkSink of the streamed variant: it does what
// transport.job.streamSnapshot does to every chunk before it goes on the wire
// (stamp the deployment id) and keeps it.
type collectSink struct {
	shard, to, did uint64
	chunks         []pb.Chunk
	failAt         int // Receive reports "not sent" for this chunk number (-1: never)
	closed         bool
}

func (s *collectSink) Receive(c pb.Chunk) (bool, bool) {
	if s.failAt >= 0 && len(s.chunks) >= s.failAt {
		return false, false
	}
	c.DeploymentId = s.did
	// the chunk is kept as handed over, without copying its data: the real sink (transport job)
	// queues chunks in a channel and sends them later from another goroutine, so a chunk must
	// not share its buffer with anything the writer touches afterwards
	s.chunks = append(s.chunks, c)
	return true, false
}
func (s *collectSink) Close() error        { s.closed = true; return nil }
func (s *collectSink) ShardID() uint64     { return s.shard }
func (s *collectSink) ToReplicaID() uint64 { return s.to }

// streamChunks produces the chunk sequence of the streaming path exactly as
// snapshotter.Stream does: Compressor(ct, ChunkWriter(sink, meta)).
func streamChunks(sink *collectSink, meta rsm.SSMeta, payload []byte, segs []int) error {
	cw := dio.NewCompressor(meta.CompressionType, rsm.NewChunkWriter(sink, meta))
	if err := writeSegs(cw, payload, segs); err != nil {
		_ = sink.Close()
		return err
	}
	return cw.Close()
}

// buildFile produces a snapshot file on fs.
func buildFile(fs vfs.FS, fp string, sp fileSpec) (bf *builtFile, err error) {
	bf = &builtFile{Path: fp}
	// the writers get a private copy of the payload: sp.Payload stays what the state machine
	// wrote also when a writer scribbles over its input (io.Writer forbids that)
	pristine := sp.Payload
	sp.Payload = append([]byte(nil), pristine...)
	defer func() {
		if bf != nil && !bytes.Equal(sp.Payload, pristine) {
			bf.InputModified = true
		}
	}()
	switch sp.Kind {
	case kindW2:
		// snapshotter.Save: NewSnapshotWriter -> CountedWriter -> Compressor
		w, err := rsm.NewSnapshotWriter(fp, sp.CT, fs)
		if err != nil {
			return nil, err
		}
		cw := dio.NewCountedWriter(w)
		sw := dio.NewCompressor(sp.CT, cw)
		if err := writeSegs(sw, sp.Payload, sp.WSegs); err != nil {
			return nil, err
		}
		if err := sw.Close(); err != nil {
			return nil, err
		}
		bf.Stored = cw.BytesWritten()
		bf.RecSum = w.GetPayloadChecksum()
		bf.RecSize = w.GetPayloadSize(bf.Stored) + rsm.HeaderSize
	case kindStream:
		sink := &collectSink{shard: 1, to: 2, did: 7, failAt: -1}
		meta := rsm.SSMeta{From: 1, Index: 100, Term: 3, CompressionType: sp.CT}
		if err := streamChunks(sink, meta, sp.Payload, sp.WSegs); err != nil {
			return nil, err
		}
		var all []byte
		for _, c := range sink.chunks {
			all = append(all, c.Data...)
		}
		bf.Chunks = sink.chunks
		if err := writeFS(fs, fp, all); err != nil {
			return nil, err
		}
	case kindV1, kindV1Legacy:
		stored := sp.Payload
		if sp.CT == pb.Snappy {
			var b bytes.Buffer
			sw := snappy.NewBufferedWriter(&b)
			if err := writeSegs(sw, sp.Payload, sp.WSegs); err != nil {
				return nil, err
			}
			if err := sw.Close(); err != nil {
				return nil, err
			}
			stored = b.Bytes()
		}
		all := append(v1Header(stored, sp.CT, sp.Kind == kindV1Legacy), stored...)
		bf.Stored = uint64(len(stored))
		if err := writeFS(fs, fp, all); err != nil {
			return nil, err
		}
	default:
		return nil, errors.New("harness: unknown kind")
	}
	bf.Bytes, err = readAllFS(fs, fp)
	if err != nil {
		return nil, err
	}
	if len(bf.Bytes) < hdrSize {
		return nil, fmt.Errorf("file shorter than a header: %d", len(bf.Bytes))
	}
	bf.HeaderLen = int(binary.LittleEndian.Uint64(bf.Bytes))
	if bf.HeaderLen <= hdrSize-12 {
		bf.SlotFilled = !bytes.Equal(bf.Bytes[8+bf.HeaderLen:12+bf.HeaderLen], []byte{0, 0, 0, 0})
	}
	return bf, nil
}

// v1Header follows SnapshotWriter.saveHeader for a V1 writer (rwv.go
// v1writer: the payload follows the 1 KB header verbatim, PayloadChecksum is
// the CRC32-IEEE of the stored payload, no blocks, no tail; the CRC slot after
// the header record stays zero).
func v1Header(stored []byte, ct pb.CompressionType, legacy bool) []byte {
	sum := crc32.ChecksumIEEE(stored)
	ps := make([]byte, 4)
	binary.BigEndian.PutUint32(ps, sum) // hash.Hash.Sum appends big endian
	sh := pb.SnapshotHeader{
		SessionSize:     uint64(len(stored) / 2),
		DataStoreSize:   uint64(len(stored) - len(stored)/2),
		UnreliableTime:  uint64(time.Now().UnixNano()),
		PayloadChecksum: ps,
		ChecksumType:    pb.CRC32IEEE,
		Version:         uint64(rsm.V1),
		CompressionType: ct,
	}
	strip := func(d []byte) []byte {
		if legacy { // drop the trailing "0x48 <ct>" field, absent from old files
			return d[:len(d)-2]
		}
		return d
	}
	data := strip(pb.MustMarshal(&sh))
	hs := make([]byte, 4)
	binary.BigEndian.PutUint32(hs, crc32.ChecksumIEEE(data))
	sh.HeaderChecksum = hs
	data = strip(pb.MustMarshal(&sh))
	out := make([]byte, hdrSize)
	binary.LittleEndian.PutUint64(out, uint64(len(data)))
	copy(out[8:], data)
	return out
}

// parseV2 is the harness's own reading of the v2 layout: 1 KB header, blocks of
// at most bs payload bytes each followed by the CRC32-IEEE of the block, a
// 16-byte tail (little endian total length of all blocks incl. CRCs, magic).
// Returns the stored payload and the CRC32 over the concatenated block CRCs.
func parseV2(file []byte) (stored []byte, sumOfSums []byte, crcOff []int, err error) {
	if len(file) < hdrSize+tailSize {
		return nil, nil, nil, fmt.Errorf("file too short: %d", len(file))
	}
	body := file[hdrSize : len(file)-tailSize]
	tail := file[len(file)-tailSize:]
	if got := binary.LittleEndian.Uint64(tail); got != uint64(len(body)) {
		return nil, nil, nil, fmt.Errorf("tail total %d, blocks occupy %d", got, len(body))
	}
	if !bytes.Equal(tail[8:], []byte{0x3F, 0x5B, 0xCB, 0xF1, 0xFA, 0xBA, 0x81, 0x9F}) {
		return nil, nil, nil, fmt.Errorf("tail magic %x", tail[8:])
	}
	h := crc32.NewIEEE()
	off := 0
	for off < len(body) {
		n := len(body) - off
		if n > bs+crcSize {
			n = bs + crcSize
		}
		if n <= crcSize {
			return nil, nil, nil, fmt.Errorf("block of %d bytes at %d", n, off)
		}
		data := body[off : off+n-crcSize]
		crc := body[off+n-crcSize : off+n]
		var want [4]byte
		binary.BigEndian.PutUint32(want[:], crc32.ChecksumIEEE(data))
		if !bytes.Equal(want[:], crc) {
			return nil, nil, nil, fmt.Errorf("block at %d: crc %x want %x", off, crc, want)
		}
		crcOff = append(crcOff, hdrSize+off+n-crcSize)
		h.Write(crc)
		stored = append(stored, data...)
		off += n
	}
	return stored, h.Sum(nil), crcOff, nil
}

// loadResult is the outcome of the real load path over a file.
type loadResult struct {
	Data    []byte
	Header  pb.SnapshotHeader
	Err     string // non-empty: an error was returned
	Panic   string // non-empty: the code panicked (normalised)
	Stalled bool   // Read kept returning (0, nil)
}

func (l loadResult) failed() bool { return l.Err != "" || l.Panic != "" }

// loadFile mimics snapshotter.Load: NewSnapshotReader (header parse and
// header check) -> Decompressor(header.CompressionType) -> the consumer reads
// (here: everything, in reads of the given sizes, cycling) -> Close (payload
// check of v1). readSizes==nil reads in 64 KB pieces.
func loadFile(fs vfs.FS, fp string, readSizes []int) (res loadResult) {
	defer func() {
		if x := recover(); x != nil {
			res.Panic = normPanic(x)
		}
	}()
	reader, header, err := rsm.NewSnapshotReader(fp, fs)
	if err != nil {
		res.Err = "open:" + err.Error()
		return
	}
	res.Header = header
	closed := false
	var cr io.ReadCloser
	defer func() {
		// a panic on the way still has to release the file (as the deferred
		// Close of snapshotter.Load does); a second panic there is irrelevant
		if !closed {
			func() {
				defer func() { _ = recover() }()
				if cr != nil {
					_ = cr.Close()
				} else {
					_ = reader.Close()
				}
			}()
		}
	}()
	// snapshotter.compressionType panics on unknown values, so does dio
	ct := header.CompressionType
	if ct != pb.NoCompression && ct != pb.Snappy {
		panic("unknown compression type")
	}
	cr = dio.NewDecompressor(ct, reader)
	var out []byte
	buf := make([]byte, 0)
	i, idle := 0, 0
	for {
		want := 64 * 1024
		if len(readSizes) > 0 {
			want = readSizes[i%len(readSizes)]
			i++
		}
		if cap(buf) < want {
			buf = make([]byte, want)
		}
		n, err := cr.Read(buf[:want])
		out = append(out, buf[:n]...)
		if err == io.EOF {
			break
		}
		if err != nil {
			res.Err = "read:" + err.Error()
			break
		}
		if n == 0 && want > 0 {
			idle++
			if idle > 10000 {
				res.Stalled = true
				res.Err = "read: no progress"
				break
			}
		} else {
			idle = 0
		}
	}
	closed = true
	if err := cr.Close(); err != nil && res.Err == "" {
		res.Err = "close:" + err.Error()
	}
	res.Data = out
	return
}

// ---- payload and segmentation generators ----

// boundaryLens are the payload lengths around block multiples.
func boundaryLens() []int {
	return []int{0, 1, 2, bs - 1, bs, bs + 1, 2*bs - 1, 2 * bs, 2*bs + 1, 3*bs - 1, 3 * bs, 3*bs + 1,
		bs - crcSize, bs - tailSize, bs - hdrSize, bs - hdrSize - crcSize, bs - hdrSize - crcSize - tailSize,
		2*bs - hdrSize - 2*crcSize - tailSize, bs + bs/2}
}

func genPayload(rng *rand.Rand, n int) []byte {
	p := make([]byte, n)
	switch rng.Intn(5) {
	case 0: // all zero
	case 1: // short repeating pattern (compresses well)
		pat := make([]byte, 1+rng.Intn(40))
		rng.Read(pat)
		for i := range p {
			p[i] = pat[i%len(pat)]
		}
	case 2: // runs
		for i := 0; i < n; {
			l := 1 + rng.Intn(3000)
			b := byte(rng.Intn(256))
			for j := 0; j < l && i < n; j++ {
				p[i] = b
				i++
			}
		}
	default:
		rng.Read(p)
	}
	return p
}

// genSegs cuts n bytes into pieces; styles: one piece, tiny pieces (only for
// small n), pieces around the block size, mixed, with empty pieces now and then.
func genSegs(rng *rand.Rand, n int) []int {
	var segs []int
	style := rng.Intn(5)
	left := n
	if rng.Intn(4) == 0 {
		segs = append(segs, 0)
	}
	for left > 0 {
		var s int
		switch style {
		case 0:
			s = left
		case 1:
			if n <= 4096 {
				s = 1 + rng.Intn(3)
			} else {
				s = 1 + rng.Intn(70000)
			}
		case 2:
			s = []int{bs - 1, bs, bs + 1, bs + crcSize, 2 * bs, 2*bs + 1, bs / 2}[rng.Intn(7)]
		case 3:
			s = 1 + rng.Intn(1+left)
		default:
			switch rng.Intn(4) {
			case 0:
				s = 1 + rng.Intn(16)
			case 1:
				s = 1 + rng.Intn(5000)
			case 2:
				s = bs - 2 + rng.Intn(5)
			default:
				s = 1 + rng.Intn(1+left)
			}
			if n > 1<<16 && s < 256 && rng.Intn(8) != 0 {
				s = 256 + rng.Intn(100000)
			}
		}
		if s > left {
			s = left
		}
		segs = append(segs, s)
		left -= s
		if rng.Intn(16) == 0 {
			segs = append(segs, 0)
		}
	}
	return segs
}

// genReadSizes returns a cycle of read sizes (never all zero).
func genReadSizes(rng *rand.Rand, n int) []int {
	switch rng.Intn(6) {
	case 0:
		return []int{n + 1}
	case 1:
		if n <= 8192 {
			return []int{1}
		}
		return []int{4096}
	case 2:
		return []int{bs - 1, 1, bs + 1, 0, 7}
	case 3:
		return []int{bs, bs + crcSize, bs + crcSize + 1}
	case 4:
		k := 1 + rng.Intn(6)
		out := make([]int, k)
		for i := range out {
			out[i] = 1 + rng.Intn(3*bs)
		}
		return out
	default:
		k := 1 + rng.Intn(8)
		out := make([]int, k)
		for i := range out {
			if n <= 8192 {
				out[i] = rng.Intn(64)
			} else {
				out[i] = rng.Intn(200000)
			}
		}
		out[0]++
		return out
	}
}
