// snapcheck decides C14 (snapshot files read back intact; corruption is
// detected, not loaded) and C15 (snapshot chunk transfer reassembles exactly
// or rejects) by driving the real rsm snapshot writer / reader / validator and
// the real transport.Chunk receiver over in-memory file systems.
//
//	-mode rw | flip | validator   (C14)
//	-mode chunks                  (C15)
package main

import (
	"encoding/json"
	"flag"
	"fmt"
	"os"
	"regexp"
	"runtime/debug"
	"runtime/pprof"
	"strings"
	"syscall"

	"github.com/lni/dragonboat/v4/internal/rsm"
	"github.com/lni/dragonboat/v4/internal/settings"
	"github.com/lni/dragonboat/v4/logger"
	"github.com/lni/dragonboat/v4/verifh/common"
)

// bs is the block size of the v2 snapshot format (rwv.go: blockSize =
// settings.SnapshotChunkSize) and also the chunk size of the sender.
var bs = int(settings.SnapshotChunkSize)

const (
	hdrSize  = int(rsm.HeaderSize)
	tailSize = 16
	crcSize  = 4
)

// The reader/validator under test allocate 2 MB buffers per instance, so the
// engine churns through memory; with MADV_FREE (GODEBUG=madvdontneed=0) the
// kernel does not zero and re-fault those pages on every cycle (system time
// drops 7x). GODEBUG is read at start-up, hence the re-exec.
func reexecWithMadvFree() {
	if strings.Contains(os.Getenv("GODEBUG"), "madvdontneed") {
		return
	}
	exe, err := os.Executable()
	if err != nil {
		return
	}
	gd := "madvdontneed=0"
	if v := os.Getenv("GODEBUG"); v != "" {
		gd = v + "," + gd
	}
	env := append(os.Environ(), "GODEBUG="+gd)
	_ = syscall.Exec(exe, os.Args, env) // only returns on failure: carry on
}

func main() {
	reexecWithMadvFree()
	// logging is not an observation channel: silence it, but keep Panicf a
	// panic (the system under test relies on it to abort).
	logger.SetLoggerFactory(func(string) logger.ILogger { return quietLogger{} })
	flag.IntVar(&singleCase, "case", -1, "run only this case number (replay aid)")
	r := common.Start("snapcheck")
	// The reader and the validator of the tree under test allocate 2 MB block
	// buffers per instance; with the default pacing those are handed back to
	// the OS and page-faulted in again for every load. Collect on a memory
	// limit instead so that the buffers are recycled inside the Go heap.
	debug.SetGCPercent(-1)
	if r.Mode == "chunks" {
		debug.SetMemoryLimit(384 << 20)
	} else {
		debug.SetMemoryLimit(256 << 20)
	}
	if r.Replay != "" { // ./check --replay <witness>: re-run only the recorded case
		if b, err := os.ReadFile(r.Replay); err == nil {
			var w struct {
				Witness struct {
					Case   *int `json:"case"`
					Script struct {
						Case *int `json:"case"`
					} `json:"script"`
				} `json:"witness"`
			}
			if json.Unmarshal(b, &w) == nil {
				if w.Witness.Case != nil {
					singleCase = *w.Witness.Case
				} else if w.Witness.Script.Case != nil {
					singleCase = *w.Witness.Script.Case
				}
			}
		}
	}
	if pf := os.Getenv("SNAPCHECK_CPUPROFILE"); pf != "" { // tuning aid only
		if f, err := os.Create(pf); err == nil {
			_ = pprof.StartCPUProfile(f)
			stopProf = func() { pprof.StopCPUProfile(); f.Close() }
		}
	}
	// the format constants the harness relies on are re-derived from exported
	// functions of the tree under test; a mismatch means the harness's idea of
	// the layout is stale: nothing can be decided.
	if rsm.GetV2PayloadSize(uint64(bs)) != uint64(bs+crcSize+tailSize) ||
		rsm.GetV2PayloadSize(uint64(bs+1)) != uint64(bs+1+2*crcSize+tailSize) ||
		rsm.GetV2PayloadSize(0) != tailSize || hdrSize != 1024 {
		r.Inconclusive(fmt.Sprintf("unexpected format constants: blockSize=%d header=%d", bs, hdrSize))
		r.Finish()
	}
	switch r.Mode {
	case "rw":
		runRW(r)
	case "flip":
		runFlip(r)
	case "validator":
		runValidator(r)
	case "chunks":
		runChunks(r)
	default:
		fmt.Fprintln(os.Stderr, "unknown mode", r.Mode)
		os.Exit(2)
	}
	stopProf()
	r.Finish()
}

var stopProf = func() {}

type quietLogger struct{}

func (quietLogger) SetLevel(logger.LogLevel)        {}
func (quietLogger) Debugf(string, ...interface{})   {}
func (quietLogger) Infof(string, ...interface{})    {}
func (quietLogger) Warningf(string, ...interface{}) {}
func (quietLogger) Errorf(string, ...interface{})   {}
func (quietLogger) Panicf(f string, a ...interface{}) {
	panic(fmt.Sprintf(f, a...))
}

var (
	reNum  = regexp.MustCompile(`[0-9]+`)
	rePath = regexp.MustCompile(`/[A-Za-z0-9_./\-]+`)
)

// normPanic turns a recovered value into a stable key fragment: first line
// only, numbers and paths removed.
func normPanic(v interface{}) string {
	s := fmt.Sprint(v)
	if i := strings.IndexByte(s, '\n'); i >= 0 {
		s = s[:i]
	}
	s = rePath.ReplaceAllString(s, "PATH")
	s = reNum.ReplaceAllString(s, "N")
	if len(s) > 100 {
		s = s[:100]
	}
	return strings.TrimSpace(s)
}

// try runs f and reports a recovered panic.
func try(f func()) (panicked bool, pv interface{}) {
	defer func() {
		if x := recover(); x != nil {
			panicked = true
			pv = x
		}
	}()
	f()
	return false, nil
}

// myCases is r.MyCases restricted to the single case of a replay.
func myCases(r *common.Run, total int) []int {
	all := r.MyCases(total)
	if singleCase < 0 {
		return all
	}
	for _, c := range all {
		if c == singleCase {
			return []int{c}
		}
	}
	return nil
}
