package main

import (
	"encoding/hex"
	"fmt"
	"math/rand"
	"sort"

	"github.com/lni/vfs"

	"github.com/lni/dragonboat/v4/internal/rsm"
	pb "github.com/lni/dragonboat/v4/raftpb"
	"github.com/lni/dragonboat/v4/verifh/common"
)

// cut points -> chunks. cuts are ascending offsets in (0,len(stream)).
func cutStream(stream []byte, cuts []int) [][]byte {
	var out [][]byte
	prev := 0
	for _, c := range cuts {
		if c <= prev || c >= len(stream) {
			continue
		}
		out = append(out, stream[prev:c])
		prev = c
	}
	return append(out, stream[prev:])
}

// senderCuts: the non-streaming sender cuts the file every snapshotChunkSize
// bytes (transport.splitBySnapshotFile).
func senderCuts(n int) []int {
	var cuts []int
	for o := bs; o < n; o += bs {
		cuts = append(cuts, o)
	}
	return cuts
}

// randomCuts: any chunking whose first chunk holds the whole header (the
// validator's documented precondition: "first chunk is too small" panics).
func randomCuts(rng *rand.Rand, n int) []int {
	if n <= hdrSize {
		return nil
	}
	k := rng.Intn(6)
	if rng.Intn(4) == 0 {
		k = rng.Intn(40)
	}
	var cuts []int
	for i := 0; i < k; i++ {
		cuts = append(cuts, hdrSize+rng.Intn(n-hdrSize))
	}
	if rng.Intn(3) == 0 {
		cuts = append(cuts, hdrSize)
	}
	sort.Ints(cuts)
	return cuts
}

type valOutcome struct {
	Accepted        bool
	How             string // "accepted" | "addchunk-false" | "validate-false" | "panic:<msg>"
	ValidateAnyway  bool   // what Validate() says when the caller goes on after AddChunk said false
	AddChunkRefused int
}

// runValidatorOn feeds the chunks to a fresh rsm.SnapshotValidator.
func runValidatorOn(chunks [][]byte, trailingEmpty bool) (o valOutcome) {
	defer func() {
		if x := recover(); x != nil {
			o.Accepted = false
			o.How = "panic:" + normPanic(x)
		}
	}()
	v := rsm.NewSnapshotValidator()
	ok := true
	for i, c := range chunks {
		if !v.AddChunk(c, uint64(i)) {
			ok = false
			o.AddChunkRefused++
		}
	}
	if trailingEmpty { // the tail chunk of the streaming path carries no data
		if !v.AddChunk(nil, uint64(len(chunks))) {
			ok = false
			o.AddChunkRefused++
		}
	}
	val := v.Validate()
	if !ok {
		o.How = "addchunk-false"
		o.ValidateAnyway = val
		return
	}
	if !val {
		o.How = "validate-false"
		return
	}
	o.Accepted, o.How = true, "accepted"
	return
}

type valWitness struct {
	Case     int    `json:"case"`
	Kind     string `json:"kind"`
	CT       int    `json:"compression"`
	Len      int    `json:"payload_len"`
	PayloadH string `json:"payload_hash"`
	Stream   string `json:"stream_hex,omitempty"`
	Mutation string `json:"mutation"`
	Cuts     []int  `json:"chunk_cuts"`
	Outcome  string `json:"outcome"`
}

func runValidator(r *common.Run) {
	r.SetRule("case = one writer output (kind x compression x payload) taken as the chunk stream, cut into chunks (the sender's fixed snapshotChunkSize cuts, the streaming writer's own chunks, random cuts with the header inside chunk 0), with mutations: none; truncation at every byte position of small streams / at every position class of multi-block streams (header end, block start/end, CRC, +-1, +16, chunk boundaries, tail, last byte); " +
		"every single-bit flip of small streams (header padding: every bit in one case of ten, 64 sampled bits otherwise) / all CRC and tail bits plus PRNG-sampled payload and header bits of multi-block streams; random bytes appended; non-trivial = payload of at least one byte and at least one mutation evaluated; distinct by hash of (stream, mutation list)")
	r.Assume("rejected = some AddChunk returned false, Validate returned false, or the validator panicked (first chunk smaller than the header); accepted = all true")
	r.Assume("what the validator cannot see and is therefore not demanded: flips in the header padding behind the CRC slot; flips in a header record whose CRC slot reads zero (all-zero header CRC escape of validateHeader, see the flip mode; files written by SnapshotWriter have a zero slot) unless the record no longer parses; for v2 the PayloadChecksum header field (not used by the v2 validator)")
	nCases := r.Pick(320, 3000)
	for _, c := range myCases(r, nCases) {
		rng := r.Rand("validator", c)
		big := c%5 == 4
		full := c%10 == 0 // every bit of the header padding too
		var sp fileSpec
		if big {
			sp.Kind = []string{kindW2, kindStream}[rng.Intn(2)]
			if rng.Intn(3) == 0 {
				sp.CT = pb.Snappy
			}
			lens := []int{bs + 1, 2*bs + 1, 2*bs - 1, bs + 33, 2 * bs, bs - hdrSize - crcSize - tailSize, bs}
			n := lens[rng.Intn(len(lens))]
			sp.Payload = make([]byte, n)
			rng.Read(sp.Payload)
			sp.WSegs = genSegs(rng, n)
		} else {
			k := smallKinds[rng.Intn(len(smallKinds))]
			sp.Kind, sp.CT = k.Kind, k.CT
			n := rng.Intn(64)
			if rng.Intn(6) == 0 {
				n = rng.Intn(300)
			}
			if rng.Intn(10) == 0 {
				n = 0
			}
			sp.Payload = genPayload(rng, n)
			sp.WSegs = genSegs(rng, n)
		}
		fs := vfs.NewMem()
		_ = fs.MkdirAll("/d", 0o755)
		bf, err := buildFile(fs, "/d/s.gbsnap", sp)
		if err != nil {
			r.Inconclusive("validator: could not build file: " + err.Error())
			continue
		}
		lay, err := makeLayout(bf, sp.Kind)
		if err != nil {
			r.Violation("validator:"+sp.Kind+":layout", "writer output does not follow the v2 layout: "+err.Error(), map[string]interface{}{"case": c})
			continue
		}
		stream := bf.Bytes
		n := len(stream)
		nMut := 0
		wit := func(mut string, cuts []int, out string) valWitness {
			w := valWitness{Case: c, Kind: sp.Kind, CT: int(sp.CT), Len: len(sp.Payload), PayloadH: common.Hash(sp.Payload), Mutation: mut, Cuts: trimInts(cuts), Outcome: out}
			if n < 4096 {
				w.Stream = hex.EncodeToString(stream)
			}
			return w
		}
		pickCuts := func() []int {
			if rng.Intn(3) == 0 {
				return senderCuts(n)
			}
			return randomCuts(rng, n)
		}
		r.Count("streams_"+sp.Kind, 1)
		if big {
			r.Count("streams_multiblock", 1)
		}

		// (1) untouched stream, any chunking
		type chunking struct {
			cuts  []int
			extra bool
			name  string
		}
		cks := []chunking{{senderCuts(n), false, "sender"}}
		if sp.Kind == kindStream {
			var cuts []int
			o := 0
			for _, ch := range bf.Chunks {
				o += len(ch.Data)
				if o < n {
					cuts = append(cuts, o)
				}
			}
			cks = append(cks, chunking{cuts, true, "streaming"})
		}
		for i := 0; i < r.Pick(3, 6); i++ {
			cks = append(cks, chunking{randomCuts(rng, n), rng.Intn(4) == 0, "random"})
		}
		for _, ck := range cks {
			o := runValidatorOn(cutStream(stream, ck.cuts), ck.extra)
			r.Count("untouched_streams_validated", 1)
			r.Count("chunking_"+ck.name, 1)
			if !o.Accepted {
				r.Violation("validator:"+sp.Kind+":intact-stream-rejected:"+o.How,
					fmt.Sprintf("untouched %s stream (%d bytes, %s chunking) rejected: %s", sp.Kind, n, ck.name, o.How), wit("none", ck.cuts, o.How))
			}
		}

		// (2) truncations
		var points []int
		if !big {
			for p := hdrSize; p < n; p++ {
				points = append(points, p)
			}
			points = append(points, 0, 1, 8, 8+lay.hdrLen, hdrSize-1)
		} else {
			set := map[int]bool{}
			add := func(ps ...int) {
				for _, p := range ps {
					if p >= hdrSize && p < n {
						set[p] = true
					}
				}
			}
			add(hdrSize, hdrSize+1, hdrSize+tailSize, n-1, n-2, n-tailSize, n-tailSize-1, n-tailSize+1, n-tailSize+8, n-8)
			for _, co := range lay.crcOff {
				e := co + crcSize // end of block
				add(co-1, co, co+1, e-1, e, e+1, e+tailSize-1, e+tailSize, e+tailSize+1, e+crcSize+1, e+crcSize+tailSize, e+crcSize+tailSize+1)
			}
			for o := bs; o < n; o += bs {
				add(o-1, o, o+1)
			}
			for i := 0; i < 8; i++ {
				add(hdrSize + rng.Intn(n-hdrSize))
			}
			for p := range set {
				points = append(points, p)
			}
			sort.Ints(points)
		}
		for _, p := range points {
			cuts := pickCuts()
			var cc []int
			for _, x := range cuts {
				if x < p {
					cc = append(cc, x)
				}
			}
			var chunks [][]byte
			if p == 0 {
				chunks = [][]byte{{}}
			} else {
				chunks = cutStream(stream[:p], cc)
			}
			o := runValidatorOn(chunks, rng.Intn(8) == 0)
			nMut++
			r.Count("truncations", 1)
			r.Count("truncation_"+o.How[:min(len(o.How), 5)], 1)
			if o.How == "addchunk-false" && o.ValidateAnyway {
				r.Count("validate_true_after_addchunk_false", 1)
			}
			if o.Accepted {
				reg := "header"
				if p >= hdrSize {
					reg = lay.region(p)
				}
				r.Violation("validator:"+sp.Kind+":truncated-stream-accepted:"+reg,
					fmt.Sprintf("%s stream of %d bytes cut short at %d (first missing byte in %s) accepted", sp.Kind, n, p, reg), wit(fmt.Sprintf("truncate@%d", p), cc, "accepted"))
			}
		}

		// (3) single-bit flips
		type bitpos struct{ off, bit int }
		var flips []bitpos
		addByte := func(o int) {
			for b := 0; b < 8; b++ {
				flips = append(flips, bitpos{o, b})
			}
		}
		if !big {
			padStart := 12 + lay.hdrLen
			for o := 0; o < n; o++ {
				if !full && o >= padStart && o < hdrSize {
					continue
				}
				addByte(o)
			}
			if !full {
				for i := 0; i < 64; i++ {
					flips = append(flips, bitpos{padStart + rng.Intn(hdrSize-padStart), rng.Intn(8)})
				}
			} else {
				r.Count("streams_with_every_header_bit_flipped", 1)
			}
		} else {
			prev := hdrSize
			for _, co := range lay.crcOff {
				for o := co; o < co+crcSize; o++ {
					addByte(o)
				}
				flips = append(flips, bitpos{prev, rng.Intn(8)}, bitpos{co - 1, rng.Intn(8)})
				prev = co + crcSize
			}
			for o := n - tailSize; o < n; o++ {
				addByte(o)
			}
			for i := 0; i < r.Pick(30, 100); i++ {
				flips = append(flips, bitpos{hdrSize + rng.Intn(n-hdrSize-tailSize), rng.Intn(8)})
			}
			for i := 0; i < r.Pick(24, 64); i++ {
				flips = append(flips, bitpos{rng.Intn(12 + lay.hdrLen), rng.Intn(8)})
			}
		}
		mut := make([]byte, n)
		copy(mut, stream)
		for _, f := range flips {
			mask := byte(1) << uint(f.bit)
			mut[f.off] ^= mask
			region := lay.region(f.off)
			cuts := pickCuts()
			o := runValidatorOn(cutStream(mut, cuts), sp.Kind == kindStream && rng.Intn(2) == 0)
			nMut++
			r.Count("flips", 1)
			r.Count("flips_"+region, 1)
			if o.How == "addchunk-false" && o.ValidateAnyway {
				r.Count("validate_true_after_addchunk_false", 1)
			}
			switch {
			case !o.Accepted:
				r.Count("rejected_"+region, 1)
			case region == "hdr-padding":
				r.Count("accepted_legit_header_padding", 1)
			case region[:3] == "hdr" && zeroSlot(mut):
				r.Count("accepted_legit_zero_crc_slot_header", 1)
			default:
				filled := "slot-zero"
				if bf.SlotFilled {
					filled = "slot-crc"
				}
				key := fmt.Sprintf("validator:%s:flipped-stream-accepted:%s", sp.Kind, region)
				if region[:3] == "hdr" {
					key = fmt.Sprintf("validator:%s:%s:flipped-stream-accepted:%s", sp.Kind, filled, region)
				}
				r.Violation(key, fmt.Sprintf("bit %d of byte %d (%s) flipped in a %s stream of %d bytes: accepted", f.bit, f.off, region, sp.Kind, n),
					wit(fmt.Sprintf("flip byte %d bit %d", f.off, f.bit), cuts, "accepted"))
			}
			mut[f.off] ^= mask
		}

		// (4) bytes appended behind the tail
		for i := 0; i < r.Pick(3, 8); i++ {
			k := []int{1, 2, 7, 8, 15, 16, 17, 4, 100}[rng.Intn(9)]
			ext := make([]byte, n+k)
			copy(ext, stream)
			rng.Read(ext[n:])
			cuts := pickCuts()
			if rng.Intn(2) == 0 {
				cuts = append(cuts, n)
			}
			o := runValidatorOn(cutStream(ext, cuts), false)
			nMut++
			r.Count("extensions", 1)
			if o.Accepted {
				r.Violation("validator:"+sp.Kind+":extended-stream-accepted",
					fmt.Sprintf("%s stream of %d bytes with %d random bytes appended: accepted", sp.Kind, n, k), wit(fmt.Sprintf("append %x", ext[n:]), cuts, "accepted"))
			} else {
				r.Count("extension_rejected", 1)
			}
		}
		r.Case(len(sp.Payload) > 0 && nMut > 0, common.Hash(stream, nMut, len(flips), len(points)))
		if r.WantSample() && len(sp.Payload) > 0 {
			w := wit(fmt.Sprintf("%d truncations, %d flips", len(points), len(flips)), senderCuts(n), "all rejected or legit")
			w.Stream = ""
			r.Sample(w)
		}
		r.Flush()
	}
}
