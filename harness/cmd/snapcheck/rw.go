package main

import (
	"bytes"
	"fmt"
	"io"
	"math/rand"
	"sync"

	"github.com/golang/snappy"
	"github.com/lni/vfs"

	"github.com/lni/dragonboat/v4/internal/rsm"
	pb "github.com/lni/dragonboat/v4/raftpb"
	"github.com/lni/dragonboat/v4/verifh/common"
)

type rwWitness struct {
	Case      int    `json:"case"`
	Kind      string `json:"kind"`
	CT        int    `json:"compression"`
	Len       int    `json:"payload_len"`
	PayloadH  string `json:"payload_hash"`
	WSegs     []int  `json:"write_sizes,omitempty"`
	RSizes    []int  `json:"read_sizes_cycle,omitempty"`
	Detail    string `json:"detail"`
	FileLen   int    `json:"file_len"`
	FirstDiff int    `json:"first_diff,omitempty"`
}

func trimInts(a []int) []int {
	if len(a) > 200 {
		return a[:200]
	}
	return a
}

func firstDiff(a, b []byte) int {
	n := len(a)
	if len(b) < n {
		n = len(b)
	}
	for i := 0; i < n; i++ {
		if a[i] != b[i] {
			return i
		}
	}
	return n
}

func runRW(r *common.Run) {
	r.SetRule("case = (file kind, compression, payload length drawn from {0,1,2,k*blockSize+-1, blockSize minus header/crc/tail sizes} (2/3 of cases) or uniformly small/medium, payload style, write segmentation, read-size cycle) from the PRNG; " +
		"non-trivial = payload of at least one byte written and read back through the real writer/reader; distinct by hash of (kind, compression, payload, write sizes, read sizes)")
	r.Assume("blockSize is settings.SnapshotChunkSize (2 MB) as referenced by rwv.go; the load path is the one of snapshotter.Load: NewSnapshotReader, Decompressor(header.CompressionType), reads, Close")
	r.Assume("v1 files are written by a harness writer that follows rwv.go's v1writer and SnapshotWriter.saveHeader (raw payload after the 1 KB header, CRC32-IEEE of the stored payload in PayloadChecksum, zero CRC slot); the layout was compared with internal/rsm/testdata/v1snapshot.gbsnap")
	r.Assume("reads issued after the reader returned io.EOF are not part of the property (observed separately in counter post_eof_read_returned_bytes)")
	total := r.Pick(6000, 60000)
	lens := boundaryLens()
	for _, c := range myCases(r, total) {
		rng := r.Rand("rw", c)
		sp := fileSpec{}
		switch k := rng.Intn(20); {
		case k < 12:
			sp.Kind = kindW2
		case k < 16:
			sp.Kind = kindStream
		case k < 18:
			sp.Kind = kindV1
		default:
			sp.Kind = kindV1Legacy
		}
		if rng.Intn(2) == 0 && sp.Kind != kindV1Legacy {
			sp.CT = pb.Snappy
		}
		var n int
		switch k := rng.Intn(12); {
		case k < 2:
			n = lens[rng.Intn(len(lens))]
		case k < 3:
			n = rng.Intn(3*bs + 10)
		case k < 5:
			// lengths whose *stored* size lands around a block multiple also
			// for compressed payloads are found by the small/medium classes
			n = rng.Intn(200000)
		case k < 8:
			n = rng.Intn(5000)
		default:
			n = rng.Intn(64)
		}
		if !r.Thorough() && n > bs+bs/2 && rng.Intn(3) != 0 {
			n = lens[rng.Intn(6)] // keep the quick tier inside its budget
		}
		// orig is what the state machine wrote (buildFile hands a private copy to the writers, so a
		// writer that scribbles over its input cannot make the comparison agree with itself)
		orig := genPayload(rng, n)
		sp.Payload = orig
		sp.WSegs = genSegs(rng, n)
		rs := genReadSizes(rng, n)
		wit := rwWitness{Case: c, Kind: sp.Kind, CT: int(sp.CT), Len: n, PayloadH: common.Hash(sp.Payload),
			WSegs: trimInts(sp.WSegs), RSizes: rs}
		h := common.Hash(sp.Kind, int(sp.CT), sp.Payload, fmt.Sprint(sp.WSegs), fmt.Sprint(rs))
		r.Case(n > 0, h)
		r.Count("files_"+sp.Kind, 1)
		if sp.CT == pb.Snappy {
			r.Count("files_snappy", 1)
		}
		r.Max("max_payload_len", int64(n))
		if n >= bs-hdrSize-32 && (n%bs <= 1 || n%bs >= bs-hdrSize-32) {
			r.Count("payload_len_at_block_boundary", 1)
		}
		viol := func(key, detail string) {
			wit.Detail = detail
			r.Violation("rw:"+sp.Kind+":"+key, detail, wit)
		}
		fs := vfs.NewMem()
		_ = fs.MkdirAll("/d", 0o755)
		fp := "/d/snapshot-0000000000000064.gbsnap"
		var bf *builtFile
		var err error
		p, pv := try(func() { bf, err = buildFile(fs, fp, sp) })
		if p {
			viol("panic-writing:"+normPanic(pv), fmt.Sprintf("writer panicked: %v", pv))
			continue
		}
		if err != nil {
			viol("error-writing", "writer failed: "+err.Error())
			continue
		}
		wit.FileLen = len(bf.Bytes)
		if bf.InputModified {
			r.Count("writer_modified_its_input", 1)
		}
		r.Count("bytes_written", int64(len(bf.Bytes)))

		// (1) recorded size / checksum against the file, and the harness's own
		// reading of the layout
		if sp.Kind == kindW2 || sp.Kind == kindStream {
			stored, sum, crcOff, perr := parseV2(bf.Bytes)
			if perr != nil {
				viol("layout", "file does not follow the v2 layout: "+perr.Error())
				continue
			}
			r.Count("blocks_verified", int64(len(crcOff)))
			r.Max("max_blocks_in_file", int64(len(crcOff)))
			if sp.Kind == kindW2 {
				if bf.RecSize != uint64(len(bf.Bytes)) {
					viol("recorded-size", fmt.Sprintf("recorded file size %d, file has %d", bf.RecSize, len(bf.Bytes)))
				}
				if !bytes.Equal(bf.RecSum, sum) {
					viol("recorded-checksum", fmt.Sprintf("recorded checksum %x, file has %x", bf.RecSum, sum))
				}
				if uint64(len(stored)) != bf.Stored {
					viol("stored-length", fmt.Sprintf("%d bytes handed to the writer, %d in the blocks", bf.Stored, len(stored)))
				}
				r.Count("size_checksum_compared", 1)
				// the import tool's way of recomputing the checksum
				if len(stored) > 0 {
					got, gerr := rsm.GetV2PayloadChecksum(fp, fs)
					if gerr != nil || !bytes.Equal(got, bf.RecSum) {
						viol("GetV2PayloadChecksum", fmt.Sprintf("GetV2PayloadChecksum=%x err=%v, recorded %x", got, gerr, bf.RecSum))
					}
					r.Count("GetV2PayloadChecksum_compared", 1)
				}
				ss := pb.Snapshot{Filepath: fp, FileSize: bf.RecSize, Index: 100, Term: 3, Checksum: bf.RecSum}
				var ok bool
				if p, pv := try(func() { ok = ss.Validate(fs) }); p || !ok {
					viol("Snapshot.Validate", fmt.Sprintf("pb.Snapshot.Validate ok=%v panic=%v", ok, pv))
				}
			}
			if sp.CT == pb.NoCompression && !bytes.Equal(stored, orig) {
				viol("stored-bytes", fmt.Sprintf("blocks hold different bytes (first difference at %d)", firstDiff(stored, orig)))
			}
			if sp.CT == pb.Snappy {
				dec, derr := io.ReadAll(snappy.NewReader(bytes.NewReader(stored)))
				if derr != nil || !bytes.Equal(dec, orig) {
					viol("stored-bytes", fmt.Sprintf("blocks do not decompress to the payload (err=%v)", derr))
				}
			}
		}

		// (2) read back through the real load path
		res := loadFile(fs, fp, rs)
		r.Count("loads", 1)
		if res.failed() {
			viol("load-failed", "intact file not loadable: "+res.Err+res.Panic)
			continue
		}
		if !bytes.Equal(res.Data, orig) {
			wit.FirstDiff = firstDiff(res.Data, orig)
			viol("bytes-differ", fmt.Sprintf("read back %d bytes, wrote %d, first difference at %d", len(res.Data), len(orig), wit.FirstDiff))
			continue
		}
		r.Count("bytes_read_back_identical", int64(len(res.Data)))
		wantV := uint64(rsm.V2)
		if sp.Kind == kindV1 || sp.Kind == kindV1Legacy {
			wantV = uint64(rsm.V1)
		}
		if res.Header.Version != wantV || res.Header.CompressionType != sp.CT {
			viol("header-fields", fmt.Sprintf("header says version %d compression %d", res.Header.Version, res.Header.CompressionType))
		}
		// a second load with another read pattern must agree
		if rng.Intn(3) == 0 {
			res2 := loadFile(fs, fp, genReadSizes(rng, n))
			r.Count("loads", 1)
			if res2.failed() || !bytes.Equal(res2.Data, orig) {
				viol("bytes-differ-second-read", "second load with another read pattern differs: "+res2.Err+res2.Panic)
			}
		}
		postEOFProbe(r, fs, fp)

		// (3) shrink
		if sp.Kind != kindV1 && sp.Kind != kindV1Legacy && rng.Intn(3) == 0 {
			checkShrink(r, fs, fp, viol)
		}
		if r.WantSample() && n > 0 {
			wit.Detail = "read back identical"
			r.Sample(wit)
		}
	}
	// images read and written at overlapping times (one round per batch; thorough: 4)
	if r.Replay == "" {
		for k := 0; k < r.Pick(1, 4); k++ {
			runRWConcurrent(r, r.Batch*8+k)
		}
	}
}

// runRWConcurrent: several snapshot images are written and read at overlapping
// times in one process (several shards of one NodeHost recover, save and stream
// snapshots on different workers): every image must still read back
// byte-identical, whatever the other readers and writers are doing.
func runRWConcurrent(r *common.Run, round int) {
	rng := r.Rand("rw-concurrent", round)
	nFiles := 6
	type img struct {
		fs   vfs.FS
		fp   string
		orig []byte
		sp   fileSpec
	}
	mk := func(rng *rand.Rand, i int) (*img, string) {
		sp := fileSpec{Kind: []string{kindW2, kindW2, kindStream}[rng.Intn(3)]}
		if rng.Intn(2) == 0 {
			sp.CT = pb.Snappy
		}
		n := []int{bs + bs/2 + rng.Intn(bs), 2*bs + rng.Intn(5000), rng.Intn(200000), 3*bs - 40 + rng.Intn(80)}[rng.Intn(4)]
		orig := genPayload(rng, n)
		sp.Payload = orig
		sp.WSegs = genSegs(rng, n)
		fs := vfs.NewMem()
		_ = fs.MkdirAll("/d", 0o755)
		fp := fmt.Sprintf("/d/snapshot-%016X.gbsnap", 100+i)
		var err error
		p, pv := try(func() { _, err = buildFile(fs, fp, sp) })
		if p {
			return nil, fmt.Sprintf("writer panicked: %v", pv)
		}
		if err != nil {
			return nil, "writer failed: " + err.Error()
		}
		return &img{fs: fs, fp: fp, orig: orig, sp: sp}, ""
	}
	var imgs []*img
	for i := 0; i < nFiles; i++ {
		im, msg := mk(rng, i)
		if im == nil {
			r.Violation("rw:concurrent:write-failed", msg, map[string]interface{}{"round": round})
			return
		}
		// sequential read first: the image itself is fine
		if res := loadFile(im.fs, im.fp, nil); res.failed() || !bytes.Equal(res.Data, im.orig) {
			r.Violation("rw:concurrent:sequential-read-failed", "image not readable before the concurrent phase: "+res.Err+res.Panic, map[string]interface{}{"round": round})
			return
		}
		imgs = append(imgs, im)
	}
	type bad struct{ key, detail string }
	var mu sync.Mutex
	var bads []bad
	var loads, writes, bytesRead int64
	var wg sync.WaitGroup
	readers, rounds := 8, r.Pick(6, 30)
	for g := 0; g < readers; g++ {
		wg.Add(1)
		grng := rand.New(rand.NewSource(rng.Int63()))
		go func(g int) {
			defer wg.Done()
			for k := 0; k < rounds; k++ {
				im := imgs[(g+k)%len(imgs)]
				res := loadFile(im.fs, im.fp, genReadSizes(grng, len(im.orig)))
				mu.Lock()
				loads++
				bytesRead += int64(len(res.Data))
				if res.failed() {
					bads = append(bads, bad{"rw:concurrent:" + im.sp.Kind + ":intact-file-not-loadable", fmt.Sprintf("reader %d round %d: intact image (%d bytes, compression %d) not loadable while other images are read: %s%s", g, k, len(im.orig), im.sp.CT, res.Err, res.Panic)})
				} else if !bytes.Equal(res.Data, im.orig) {
					bads = append(bads, bad{"rw:concurrent:" + im.sp.Kind + ":bytes-differ", fmt.Sprintf("reader %d round %d: read back %d bytes, wrote %d, first difference at %d", g, k, len(res.Data), len(im.orig), firstDiff(res.Data, im.orig))})
				}
				mu.Unlock()
				if k%3 == 2 && im.sp.Kind == kindW2 {
					// the other users of the block reader
					_, _ = rsm.GetV2PayloadChecksum(im.fp, im.fs)
					_, _ = rsm.IsShrunkSnapshotFile(im.fp, im.fs)
				}
			}
		}(g)
	}
	// two writers produce and verify new images meanwhile
	for w := 0; w < 2; w++ {
		wg.Add(1)
		wrng := rand.New(rand.NewSource(rng.Int63()))
		go func(w int) {
			defer wg.Done()
			for k := 0; k < rounds/2+1; k++ {
				im, msg := mk(wrng, 1000+w*100+k)
				mu.Lock()
				writes++
				mu.Unlock()
				if im == nil {
					mu.Lock()
					bads = append(bads, bad{"rw:concurrent:write-failed", msg})
					mu.Unlock()
					continue
				}
				res := loadFile(im.fs, im.fp, nil)
				if res.failed() || !bytes.Equal(res.Data, im.orig) {
					mu.Lock()
					bads = append(bads, bad{"rw:concurrent:" + im.sp.Kind + ":written-during-reads-not-identical", "image written while others are read does not read back identical: " + res.Err + res.Panic})
					mu.Unlock()
				}
			}
		}(w)
	}
	wg.Wait()
	r.Case(loads > 0, common.Hash("rw-concurrent", round, r.Seed))
	r.Count("concurrent_phase_loads", loads)
	r.Count("concurrent_phase_images_written_meanwhile", writes)
	r.Count("concurrent_phase_bytes_read_back", bytesRead)
	r.Count("concurrent_phase_readers", int64(readers))
	seen := map[string]bool{}
	for _, b := range bads {
		if seen[b.key] {
			continue
		}
		seen[b.key] = true
		r.Violation(b.key, b.detail, map[string]interface{}{"round": round, "readers": readers, "rounds": rounds, "failures": len(bads)})
	}
}

// postEOFProbe only observes: what does a Read after io.EOF return.
func postEOFProbe(r *common.Run, fs vfs.FS, fp string) {
	_, _ = try(func() {
		reader, _, err := rsm.NewSnapshotReader(fp, fs)
		if err != nil {
			return
		}
		defer func() {
			defer func() { _ = recover() }()
			_ = reader.Close()
		}()
		buf := make([]byte, 1<<16)
		for {
			_, err := reader.Read(buf)
			if err != nil {
				break
			}
		}
		n, err := reader.Read(buf[:16])
		r.Count("post_eof_reads", 1)
		if n > 0 {
			r.Count("post_eof_read_returned_bytes", 1)
			if err == nil {
				r.Count("post_eof_read_returned_bytes_without_error", 1)
			}
		}
	})
}

// checkShrink: ShrinkSnapshot writes an empty-payload snapshot next to the
// file, IsShrunkSnapshotFile recognises it, ReplaceSnapshot swaps it in, and
// the result loads as a snapshot with empty sessions and nothing else.
func checkShrink(r *common.Run, fs vfs.FS, fp string, viol func(key, detail string)) {
	r.Count("shrinks", 1)
	shrunk := fp + ".shrunk"
	var err error
	if p, pv := try(func() { err = rsm.ShrinkSnapshot(fp, shrunk, fs) }); p || err != nil {
		viol("shrink-failed", fmt.Sprintf("ShrinkSnapshot err=%v panic=%v", err, pv))
		return
	}
	check := func(path, stage string) bool {
		var is bool
		if p, pv := try(func() { is, err = rsm.IsShrunkSnapshotFile(path, fs) }); p || err != nil || !is {
			viol("shrunk-not-recognised", fmt.Sprintf("%s: IsShrunkSnapshotFile=%v err=%v panic=%v", stage, is, err, pv))
			return false
		}
		res := loadFile(fs, path, []int{5, 64})
		if res.failed() {
			viol("shrunk-not-loadable", stage+": "+res.Err+res.Panic)
			return false
		}
		if res.Header.Version != uint64(rsm.V2) || res.Header.CompressionType != pb.NoCompression {
			viol("shrunk-header", fmt.Sprintf("%s: version %d compression %d", stage, res.Header.Version, res.Header.CompressionType))
			return false
		}
		// the load path of an on-disk state machine: sessions, then nothing
		var lerr error
		left := -1
		if p, pv := try(func() {
			sm := rsm.NewSessionManager()
			rd := bytes.NewReader(res.Data)
			lerr = sm.LoadSessions(rd, rsm.V2)
			left = rd.Len()
		}); p || lerr != nil || left != 0 {
			viol("shrunk-not-empty-payload", fmt.Sprintf("%s: LoadSessions err=%v panic=%v, %d payload bytes left", stage, lerr, pv, left))
			return false
		}
		if _, _, _, perr := parseV2(mustRead(fs, path)); perr != nil {
			viol("shrunk-layout", stage+": "+perr.Error())
			return false
		}
		return true
	}
	if !check(shrunk, "shrunk file") {
		return
	}
	if p, pv := try(func() { err = rsm.ReplaceSnapshot(shrunk, fp, fs) }); p || err != nil {
		viol("replace-failed", fmt.Sprintf("ReplaceSnapshot err=%v panic=%v", err, pv))
		return
	}
	if _, serr := fs.Stat(shrunk); serr == nil {
		viol("replace-left-file", "shrunk file still present after ReplaceSnapshot")
	}
	if check(fp, "after replace") {
		r.Count("shrunk_reloaded_as_empty", 1)
	}
}

func mustRead(fs vfs.FS, fp string) []byte {
	b, _ := readAllFS(fs, fp)
	return b
}
