package main

import (
	"fmt"
	"math/rand"

	"github.com/lni/vfs"

	"github.com/lni/dragonboat/v4/internal/rsm"
	"github.com/lni/dragonboat/v4/internal/server"
	"github.com/lni/dragonboat/v4/internal/transport"
	pb "github.com/lni/dragonboat/v4/raftpb"
	"github.com/lni/dragonboat/v4/verifh/common"
)

const (
	srcSplit   = "split"   // regular snapshot: file by SnapshotWriter, chunks by transport.splitSnapshotMessage + loadChunkData
	srcStream  = "stream"  // on-disk state machine: chunks straight out of rsm.ChunkWriter
	srcWitness = "witness" // witness snapshot: single chunk by transport.getWitnessChunk
)

const testDID = 7042

type extFile struct {
	ID   uint64
	Name string
	Data []byte
	Meta []byte
}

// source is a snapshot at a sender, already cut into chunks by the real
// sender code. ShardID / ReplicaID / From of the chunks are placeholders that
// a script rewrites (the sender code only copies them from the message).
type source struct {
	ID         int
	Kind       string
	CT         pb.CompressionType
	Index      uint64
	Term       uint64
	OnDisk     uint64
	Membership pb.Membership
	MainName   string
	Main       []byte // the main file the receiver must end up with
	Declared   uint64 // FileSize announced in the chunks
	Ext        []extFile
	Chunks     []pb.Chunk
	SlotFilled bool // header CRC slot filled (streaming path)
	HdrLen     int
	Hash       string
}

func testMembership(rng *rand.Rand) pb.Membership {
	m := pb.Membership{
		ConfigChangeId: uint64(rng.Intn(1000)),
		Addresses:      map[uint64]string{1: "a1:1", 2: "a2:2", 3: "a3:3"},
		Removed:        map[uint64]bool{},
		NonVotings:     map[uint64]string{},
		Witnesses:      map[uint64]string{},
	}
	if rng.Intn(2) == 0 {
		m.Removed[9] = true
	}
	if rng.Intn(2) == 0 {
		m.NonVotings[5] = "nv:5"
	}
	return m
}

// mainLenFor returns a payload length such that the v2 file is fileSize bytes.
func mainLenFor(fileSize int) int {
	for blocks := 0; blocks < 16; blocks++ {
		n := fileSize - hdrSize - tailSize - crcSize*blocks
		if n < 0 {
			return 0
		}
		need := (n + bs - 1) / bs
		if need == blocks {
			return n
		}
	}
	return 0
}

// buildSource makes one source. sizeClass: 0 small, 1 around one chunk, 2
// around two chunks, 3 four-to-five chunks.
func buildSource(rng *rand.Rand, id int, kind string, sizeClass int) (*source, error) {
	s := &source{ID: id, Kind: kind, Index: uint64(100 + id%3), Term: uint64(2 + rng.Intn(5)), Membership: testMembership(rng)}
	if rng.Intn(2) == 0 && (sizeClass == 0 || rng.Intn(2) == 0) {
		s.CT = pb.Snappy // (the stored size then misses the intended boundary by the framing overhead)
	}
	if rng.Intn(3) == 0 {
		s.OnDisk = s.Index - uint64(rng.Intn(50))
	}
	fs := vfs.NewMem()
	dir := fmt.Sprintf("/sender/snapshot-%d/%s", id, server.GetSnapshotDirName(s.Index))
	if err := fs.MkdirAll(dir, 0o755); err != nil {
		return nil, err
	}
	s.MainName = server.GetSnapshotFilename(s.Index)
	var n int
	switch sizeClass {
	case 0:
		n = []int{0, 1, 16, 100, 3000, 20000}[rng.Intn(6)]
	case 1:
		n = mainLenFor(bs + []int{-1, 0, 1, 2}[rng.Intn(4)])
	case 2:
		n = mainLenFor(2*bs + []int{-1, 0, 1, 100}[rng.Intn(4)])
	default:
		n = mainLenFor(3*bs + 100 + rng.Intn(bs+bs/2))
	}
	payload := make([]byte, n)
	rng.Read(payload) // incompressible, so that the stored size is the intended one
	segs := genSegs(rng, n)
	switch kind {
	case srcSplit:
		fp := fs.PathJoin(dir, s.MainName)
		bf, err := buildFile(fs, fp, fileSpec{Kind: kindW2, CT: s.CT, Payload: payload, WSegs: segs})
		if err != nil {
			return nil, err
		}
		s.Main, s.Declared, s.HdrLen, s.SlotFilled = bf.Bytes, bf.RecSize, bf.HeaderLen, bf.SlotFilled
		nExt := rng.Intn(4)
		if sizeClass > 0 {
			nExt = rng.Intn(2)
		}
		var files []*pb.SnapshotFile
		for i := 0; i < nExt; i++ {
			fid := uint64(1 + i*3 + rng.Intn(3))
			var sz int
			switch {
			case sizeClass == 0 && rng.Intn(8) != 0 || sizeClass == 3:
				sz = []int{1, 2, 10, 777, 5000}[rng.Intn(5)]
			case rng.Intn(3) == 0:
				sz = 2*bs + []int{-1, 0, 1}[rng.Intn(3)]
			default:
				sz = bs + []int{-1, 0, 1}[rng.Intn(3)]
			}
			e := extFile{ID: fid, Name: fmt.Sprintf("external-file-%d", fid), Data: make([]byte, sz)}
			rng.Read(e.Data)
			if rng.Intn(2) == 0 {
				e.Meta = []byte(fmt.Sprintf("meta-%d-%d", id, fid))
			}
			if err := writeFS(fs, fs.PathJoin(dir, e.Name), e.Data); err != nil {
				return nil, err
			}
			s.Ext = append(s.Ext, e)
			files = append(files, &pb.SnapshotFile{Filepath: fs.PathJoin(dir, e.Name), FileSize: uint64(sz), FileId: fid, Metadata: e.Meta})
		}
		m := pb.Message{Type: pb.InstallSnapshot, From: 1, To: 2, ShardID: 1,
			Snapshot: pb.Snapshot{Filepath: fp, FileSize: bf.RecSize, Index: s.Index, Term: s.Term, OnDiskIndex: s.OnDisk,
				Membership: s.Membership, Files: files, Checksum: bf.RecSum}}
		chunks, err := transport.VerifSplitSnapshotMessage(m, fs)
		if err != nil {
			return nil, err
		}
		buf := make([]byte, transport.VerifSnapshotChunkSize)
		for i := range chunks {
			// transport.job.sendChunks: stamp the deployment id, load the data
			chunks[i].DeploymentId = testDID
			data, err := transport.VerifLoadChunkData(chunks[i], buf, fs)
			if err != nil {
				return nil, err
			}
			chunks[i].Data = append([]byte(nil), data...)
		}
		s.Chunks = chunks
	case srcWitness:
		s.CT = pb.NoCompression
		m := pb.Message{Type: pb.InstallSnapshot, From: 1, To: 2, ShardID: 1,
			Snapshot: pb.Snapshot{Index: s.Index, Term: s.Term, Membership: s.Membership, Witness: true}}
		chunks, err := transport.VerifSplitSnapshotMessage(m, fs)
		if err != nil {
			return nil, err
		}
		if len(chunks) != 1 {
			return nil, fmt.Errorf("witness snapshot in %d chunks", len(chunks))
		}
		chunks[0].DeploymentId = testDID
		s.Chunks = chunks
		s.Main = chunks[0].Data
		s.MainName = fs.PathBase(chunks[0].Filepath)
		s.Declared = chunks[0].FileSize
		s.OnDisk = 0
	case srcStream:
		sink := &collectSink{shard: 1, to: 2, did: testDID, failAt: -1}
		meta := rsm.SSMeta{From: 1, Index: s.Index, Term: s.Term, OnDiskIndex: s.OnDisk, Membership: s.Membership, CompressionType: s.CT}
		if err := streamChunks(sink, meta, payload, segs); err != nil {
			return nil, err
		}
		s.Chunks = sink.chunks
		for _, c := range sink.chunks {
			s.Main = append(s.Main, c.Data...)
		}
		s.SlotFilled = true
	}
	if kind != srcSplit {
		if len(s.Main) < hdrSize {
			return nil, fmt.Errorf("main file of %d bytes", len(s.Main))
		}
		s.HdrLen = int(uint64(s.Main[0]) | uint64(s.Main[1])<<8)
		s.SlotFilled = !zeroSlot(s.Main)
	}
	if _, _, _, err := parseV2(s.Main); err != nil {
		return nil, fmt.Errorf("sender produced a malformed file: %v", err)
	}
	parts := []interface{}{s.Kind, s.Main, s.Index, s.Term}
	for _, e := range s.Ext {
		parts = append(parts, e.Data, e.ID)
	}
	s.Hash = common.Hash(parts...)
	return s, nil
}
