// compcheck: monitors for node-level plumbing components that the shard
// engines (E1/E2) reach only through rare schedules. Every mode drives the
// real component with PRNG op sequences (and concurrent producers under the
// race detector) and decides a conservation / exactly-once rule against a
// small reference model.
package main

import (
	"fmt"
	"math/rand"
	"os"
	"sort"
	"sync"

	"github.com/lni/dragonboat/v4/internal/server"
	pb "github.com/lni/dragonboat/v4/raftpb"
	"github.com/lni/dragonboat/v4/verifh/common"
)

func main() {
	r := common.Start("compcheck")
	switch r.Mode {
	case "msgqueue":
		msgQueue(r)
	default:
		fmt.Fprintln(os.Stderr, "unknown mode", r.Mode)
		os.Exit(2)
	}
	r.Finish()
}

func try(f func()) (panicked bool, v interface{}) {
	defer func() {
		if x := recover(); x != nil {
			panicked, v = true, x
		}
	}()
	f()
	return
}

// msgQueue (C17, delivery half): server.MessageQueue is the only path on which
// the step worker learns about received messages, snapshot stream results
// (SnapshotStatus, delayed by 2 or 10 ticks by nodehost.go) and unreachable
// peers. A leader whose SnapshotStatus is lost keeps the follower's remote in
// the snapshot state for as long as it leads, i.e. a reachable replica never
// catches up. Rule checked against a model of the queue:
//   - every message accepted by Add / MustAdd / AddDelayed is returned by Get exactly once
//     (no loss, no duplicate) as long as the queue is not closed;
//   - Add'ed messages come out in the order in which they were accepted;
//   - a delayed message is not returned before its delay has passed, whatever the order in which
//     delays were queued, and is returned once the drain at the end of the case has ticked past every delay;
//   - Add refuses only when the queue is full (size) or rate limited, and says so.
func msgQueue(r *common.Run) {
	r.SetRule("case = a PRNG sequence of 50-400 operations (Add of ordinary messages, MustAdd of snapshot/unreachable messages, AddDelayed of SnapshotStatus with delays drawn from {0,1,2,3,10,PRNG}, Tick, Get) on a real server.MessageQueue of PRNG size/lazy-free cycle, followed by enough ticks and a final Get, compared operation by operation with a reference model (accepted = delivered exactly once, FIFO for ordinary messages, delayed messages neither early nor late); one case in four runs 4 producers concurrently with the consumer and is decided on multiset equality; non-trivial = at least two delayed messages with different delays were pending at the same time and a Get returned messages of all three classes; distinct by hash of the op sequence")
	total := r.Pick(4000, 80000)
	for _, c := range r.MyCases(total) {
		rng := r.Rand("mq", c)
		if rng.Intn(4) == 0 {
			mqConcurrent(r, c, rng)
		} else {
			mqSequential(r, c, rng)
		}
	}
}

// every message carries a unique id in Hint (and LogIndex for delayed ones)
func mkMsg(t pb.MessageType, id uint64) pb.Message {
	return pb.Message{Type: t, ShardID: 1, From: 2, To: 1, Hint: id}
}

var ordinary = []pb.MessageType{pb.Replicate, pb.ReplicateResp, pb.Heartbeat, pb.HeartbeatResp, pb.RequestVote, pb.ReadIndex, pb.Propose}
var nodrop = []pb.MessageType{pb.InstallSnapshot, pb.Unreachable}

func delayOf(rng *rand.Rand) uint64 {
	switch rng.Intn(6) {
	case 0:
		return 0
	case 1:
		return 2 // streamConfirmedDelayTick
	case 2:
		return 10 // streamPushDelayTick
	case 3:
		return 1
	case 4:
		return 3
	}
	return uint64(rng.Intn(20))
}

type mqOp struct {
	Op    string   `json:"op"`
	Type  string   `json:"type,omitempty"`
	ID    uint64   `json:"id,omitempty"`
	Delay uint64   `json:"delay,omitempty"`
	Got   []uint64 `json:"got,omitempty"`
}

func mqSequential(r *common.Run, c int, rng *rand.Rand) {
	size := uint64(1 + rng.Intn(24))
	lazy := uint64(rng.Intn(3))
	q := server.NewMessageQueue(size, rng.Intn(2) == 0, lazy, 0)
	nops := 50 + rng.Intn(350)
	var ops []mqOp
	var nextID uint64
	// model
	var fifo []uint64 // accepted ordinary messages not yet returned
	var must []uint64 // accepted nodrop messages not yet returned
	type dl struct{ id, due uint64 }
	var pend []dl // delayed messages: deliverable by a Get once tick > due
	var tick uint64
	delivered := map[uint64]int{}
	accepted := map[uint64]string{}
	mixedDelays, allClasses := false, false
	viol := func(key, what string) {
		r.Violation("msgqueue:"+key, what, map[string]interface{}{"case": c, "size": size, "lazy_free_cycle": lazy, "ops": ops})
	}
	bad := false
	get := func() {
		var got []pb.Message
		if p, v := try(func() { got = q.Get() }); p {
			viol("panic:Get", fmt.Sprintf("Get panicked: %v", v))
			bad = true
			return
		}
		ids := make([]uint64, 0, len(got))
		classes := map[string]bool{}
		var gotFifo []uint64
		for _, m := range got {
			ids = append(ids, m.Hint)
			delivered[m.Hint]++
			classes[accepted[m.Hint]] = true
			if delivered[m.Hint] > 1 {
				viol("delivered-twice:"+accepted[m.Hint], fmt.Sprintf("message %d (%s) returned by Get a second time", m.Hint, m.Type))
				bad = true
			}
			if _, ok := accepted[m.Hint]; !ok {
				viol("unknown-message-delivered", fmt.Sprintf("Get returned message %d (%s) that was never accepted", m.Hint, m.Type))
				bad = true
			}
			if accepted[m.Hint] == "ordinary" {
				gotFifo = append(gotFifo, m.Hint)
			}
		}
		ops = append(ops, mqOp{Op: "Get", Got: ids})
		if len(classes) == 3 {
			allClasses = true
		}
		// ordinary: exactly the accepted ones, in order
		if fmt.Sprint(gotFifo) != fmt.Sprint(fifo) && !(len(gotFifo) == 0 && len(fifo) == 0) {
			viol("ordinary-messages-lost-or-reordered", fmt.Sprintf("Get returned ordinary messages %v, accepted and pending were %v", gotFifo, fifo))
			bad = true
		}
		fifo = nil
		// (a nodrop or due delayed message that is not in this batch is not a violation by itself:
		// the documented contract is "at least delay ticks" and "never dropped"; the drain at the end
		// of the case decides exactly-once)
		for _, id := range must {
			if delivered[id] != 1 {
				r.Count("mq_nodrop_not_in_next_get", 1)
			}
		}
		must = nil
		var keep []dl
		for _, d := range pend {
			due := tick > d.due
			if !due && delivered[d.id] > 0 {
				viol("delayed-message-delivered-early", fmt.Sprintf("SnapshotStatus %d returned at tick %d, not due before tick %d has passed", d.id, tick, d.due))
				bad = true
			}
			if due && delivered[d.id] == 0 {
				r.Count("mq_delayed_not_in_first_get_after_due", 1)
			}
			if delivered[d.id] == 0 {
				keep = append(keep, d)
			}
		}
		pend = keep
	}
	for i := 0; i < nops && !bad; i++ {
		switch k := rng.Intn(20); {
		case k < 8:
			nextID++
			t := ordinary[rng.Intn(len(ordinary))]
			var ok, stopped bool
			if p, v := try(func() { ok, stopped = q.Add(mkMsg(t, nextID)) }); p {
				viol("panic:Add", fmt.Sprintf("Add panicked: %v", v))
				bad = true
				break
			}
			ops = append(ops, mqOp{Op: "Add", Type: t.String(), ID: nextID})
			full := uint64(len(fifo)) >= size
			if ok == full || stopped {
				viol("add-result", fmt.Sprintf("Add returned (%v,%v) with %d of %d slots used", ok, stopped, len(fifo), size))
				bad = true
			}
			if ok {
				fifo = append(fifo, nextID)
				accepted[nextID] = "ordinary"
			}
		case k < 10:
			nextID++
			t := nodrop[rng.Intn(len(nodrop))]
			ok := q.MustAdd(mkMsg(t, nextID))
			ops = append(ops, mqOp{Op: "MustAdd", Type: t.String(), ID: nextID})
			if !ok {
				viol("mustadd-refused", "MustAdd refused a message on an open queue")
				bad = true
			}
			must = append(must, nextID)
			accepted[nextID] = "nodrop"
		case k < 14:
			nextID++
			d := delayOf(rng)
			ok := q.AddDelayed(mkMsg(pb.SnapshotStatus, nextID), d)
			ops = append(ops, mqOp{Op: "AddDelayed", ID: nextID, Delay: d})
			if !ok {
				viol("adddelayed-refused", "AddDelayed refused a message on an open queue")
				bad = true
			}
			for _, p := range pend {
				if p.due != tick+d {
					mixedDelays = true
				}
			}
			pend = append(pend, dl{nextID, tick + d})
			accepted[nextID] = "delayed"
		case k < 17:
			q.Tick()
			tick++
			ops = append(ops, mqOp{Op: "Tick"})
		default:
			get()
		}
	}
	// drain: after enough ticks everything accepted has been delivered once
	if !bad {
		for i := 0; i < 22; i++ {
			q.Tick()
			tick++
		}
		ops = append(ops, mqOp{Op: "Tick x22"})
		get()
		for id, cl := range accepted {
			if delivered[id] != 1 && !bad {
				viol("accepted-message-never-delivered:"+cl, fmt.Sprintf("message %d (%s) was accepted and returned %d times in total", id, cl, delivered[id]))
				bad = true
			}
		}
	}
	r.Count("mq_ops", int64(len(ops)))
	r.Count("mq_messages_accepted", int64(len(accepted)))
	r.Case(mixedDelays && allClasses, common.Hash(fmt.Sprintf("%d %d %v", size, lazy, ops)))
	if r.WantSample() && mixedDelays {
		n := len(ops)
		if n > 12 {
			n = 12
		}
		r.Sample(map[string]interface{}{"case": c, "size": size, "ops": len(ops), "accepted": len(accepted), "first_ops": ops[:n]})
	}
}

// mqConcurrent: 4 producers and the ticking consumer run concurrently (as the
// transport, the snapshot feedback path and the step worker do); decided on
// multiset equality of accepted and delivered ids.
func mqConcurrent(r *common.Run, c int, rng *rand.Rand) {
	size := uint64(4 + rng.Intn(64))
	q := server.NewMessageQueue(size, true, uint64(rng.Intn(3)), 0)
	var mu sync.Mutex
	accepted := map[uint64]string{}
	var wg sync.WaitGroup
	per := 40 + rng.Intn(100)
	seeds := []int64{rng.Int63(), rng.Int63(), rng.Int63(), rng.Int63()}
	for p := 0; p < 4; p++ {
		wg.Add(1)
		go func(p int) {
			defer wg.Done()
			prng := rand.New(rand.NewSource(seeds[p]))
			for i := 0; i < per; i++ {
				id := uint64(p+1)<<32 | uint64(i+1)
				cl := ""
				switch prng.Intn(4) {
				case 0:
					if q.AddDelayed(mkMsg(pb.SnapshotStatus, id), delayOf(prng)) {
						cl = "delayed"
					}
				case 1:
					if q.MustAdd(mkMsg(nodrop[prng.Intn(2)], id)) {
						cl = "nodrop"
					}
				default:
					if ok, _ := q.Add(mkMsg(ordinary[prng.Intn(len(ordinary))], id)); ok {
						cl = "ordinary"
					}
				}
				if cl != "" {
					mu.Lock()
					accepted[id] = cl
					mu.Unlock()
					q.Notify()
				}
			}
		}(p)
	}
	done := make(chan struct{})
	go func() { wg.Wait(); close(done) }()
	delivered := map[uint64]int{}
	lastOf := map[uint64]uint64{} // producer -> last ordinary sequence seen (per-producer FIFO)
	reordered := ""
	take := func() {
		for _, m := range q.Get() {
			delivered[m.Hint]++
			if m.Type != pb.SnapshotStatus && m.Type != pb.InstallSnapshot && m.Type != pb.Unreachable {
				p, s := m.Hint>>32, m.Hint&0xffffffff
				if s <= lastOf[p] && reordered == "" {
					reordered = fmt.Sprintf("producer %d: message %d returned after message %d", p, s, lastOf[p])
				}
				lastOf[p] = s
			}
		}
	}
	running := true
	for running {
		select {
		case <-done:
			running = false
		case <-q.Ch():
		default:
		}
		q.Tick()
		take()
	}
	for i := 0; i < 22; i++ {
		q.Tick()
	}
	take()
	wit := map[string]interface{}{"case": c, "size": size, "producers": 4, "per_producer": per}
	if reordered != "" {
		r.Violation("msgqueue:concurrent:ordinary-messages-reordered", reordered, wit)
	}
	ids := make([]uint64, 0, len(accepted))
	for id := range accepted {
		ids = append(ids, id)
	}
	sort.Slice(ids, func(i, j int) bool { return ids[i] < ids[j] })
	for _, id := range ids {
		if delivered[id] != 1 {
			r.Violation("msgqueue:concurrent:accepted-message-delivered-"+map[bool]string{true: "never", false: "twice"}[delivered[id] == 0]+":"+accepted[id],
				fmt.Sprintf("message %x (%s) accepted once, returned %d times", id, accepted[id], delivered[id]), wit)
			break
		}
	}
	for id := range delivered {
		if _, ok := accepted[id]; !ok {
			r.Violation("msgqueue:concurrent:refused-message-delivered", fmt.Sprintf("message %x was refused by the queue and still returned", id), wit)
			break
		}
	}
	r.Count("mq_concurrent_cases", 1)
	r.Count("mq_messages_accepted", int64(len(accepted)))
	r.Case(len(accepted) > 0, common.Hash("conc", c, size, per, len(accepted), fmt.Sprint(seeds)))
}
