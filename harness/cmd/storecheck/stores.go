package main

import (
	"fmt"
	"regexp"
	"strings"

	"github.com/lni/dragonboat/v4/config"
	"github.com/lni/dragonboat/v4/internal/logdb"
	"github.com/lni/dragonboat/v4/internal/logdb/kv"
	"github.com/lni/dragonboat/v4/internal/logdb/kv/pebble"
	"github.com/lni/dragonboat/v4/internal/tan"
	dvfs "github.com/lni/dragonboat/v4/internal/vfs"
	"github.com/lni/dragonboat/v4/logger"
	"github.com/lni/dragonboat/v4/raftio"
)

// flavour is one log store under test.
type flavour struct {
	name        string
	tan         bool
	batched     bool
	multiplexed bool
}

var flavours = map[string]flavour{
	"pebble-plain":    {name: "pebble-plain"},
	"pebble-batched":  {name: "pebble-batched", batched: true},
	"tan":             {name: "tan", tan: true},
	"tan-multiplexed": {name: "tan-multiplexed", tan: true, multiplexed: true},
}

// family is the prefix of violation keys: defects of the sharded Pebble store
// that do not depend on the entry format are keyed "pebble".
func (f flavour) family() string { return f.name }

const (
	execShards  = 4 // step workers
	logdbShards = 4 // Pebble instances of the sharded store
	batchSize   = 48
)

// the replicas used by every sequence: three of them share a step worker, a
// Pebble partition (shard%4 == 1) and a multiplexed Tan db (shard%16 == 1).
var allNodes = []nodeID{{1, 1}, {17, 1}, {1, 2}, {2, 1}}

// workerOf is the 1-based step worker id the engine would use for the shard.
func workerOf(shard uint64) uint64 { return shard%execShards + 1 }

// groupOf: updates of one SaveRaftState call must come from one step worker;
// all our replicas with shard%16 == 1 are in one group (same worker, same
// Pebble partition, same multiplexed Tan db).
func groupOf(id nodeID) uint64 { return id.Shard % 16 }

func nhConfig(fs dvfs.IFS, writeBuffer uint64) config.NodeHostConfig {
	cfg := config.NodeHostConfig{}
	cfg.Expert.FS = fs
	cfg.Expert.Engine.ExecShards = execShards
	cfg.Expert.LogDB = config.GetTinyMemLogDBConfig()
	cfg.Expert.LogDB.Shards = logdbShards
	cfg.Expert.LogDB.KVWriteBufferSize = writeBuffer
	return cfg
}

// openStore opens (or reopens) the store of the flavour on fs. kvf replaces
// the Pebble KV factory when not nil.
func openStore(fl flavour, fs dvfs.IFS, writeBuffer uint64, kvf kv.Factory) (raftio.ILogDB, error) {
	cfg := nhConfig(fs, writeBuffer)
	dirs := []string{"/data"}
	if fl.tan {
		if fl.multiplexed {
			return tan.CreateLogMultiplexedTan(cfg, nil, dirs, nil)
		}
		return tan.CreateTan(cfg, nil, dirs, nil)
	}
	if kvf == nil {
		kvf = pebble.NewKVStore
	}
	if fl.batched {
		return logdb.NewLogDB(cfg, nil, dirs, nil, true, false, kvf)
	}
	return logdb.NewLogDB(cfg, nil, dirs, nil, false, true, kvf)
}

func quietLogs() {
	for _, pkg := range []string{"logdb", "tan", "pebblekv", "raftpb", "config", "settings", "utils", "dragonboat", "rsm", "raft", "transport", "grpc", "order", "tests", "server", "fileutil"} {
		logger.GetLogger(pkg).SetLevel(logger.CRITICAL)
	}
}

var (
	reNumber = regexp.MustCompile(`[0-9]+`)
	reHexNum = regexp.MustCompile(`0x[0-9a-fA-F]+`)
)

// normPanic strips numbers from a panic message so that it can be a key.
func normPanic(v interface{}) string {
	s := fmt.Sprint(v)
	if i := strings.IndexByte(s, '\n'); i >= 0 {
		s = s[:i]
	}
	s = reNumber.ReplaceAllString(reHexNum.ReplaceAllString(s, "X"), "N")
	s = strings.Join(strings.Fields(s), "_")
	if len(s) > 100 {
		s = s[:100]
	}
	return s
}
