package main

import (
	"sync"

	"github.com/lni/dragonboat/v4/config"
	"github.com/lni/dragonboat/v4/internal/logdb/kv"
	"github.com/lni/dragonboat/v4/internal/logdb/kv/pebble"
	dvfs "github.com/lni/dragonboat/v4/internal/vfs"
)

// kvCtl counts the calls made to all kv.IKVStore instances of one sharded
// store and makes the j-th call (once armed) return an injected error.
type kvCtl struct {
	mu      sync.Mutex
	armed   bool
	n       int64
	failAt  int64
	hit     bool
	hitCall string
	onHit   func()
	record  bool
	log     []string
}

func (c *kvCtl) op(method string) error {
	c.mu.Lock()
	defer c.mu.Unlock()
	if !c.armed {
		return nil
	}
	c.n++
	if c.record {
		c.log = append(c.log, method)
	}
	if c.failAt > 0 && c.n == c.failAt && !c.hit {
		c.hit = true
		c.hitCall = method
		if c.onHit != nil {
			c.onHit()
		}
		return errInjected
	}
	return nil
}

func (c *kvCtl) arm(record bool) {
	c.mu.Lock()
	c.armed, c.record = true, record
	c.mu.Unlock()
}

func (c *kvCtl) disarm() {
	c.mu.Lock()
	c.armed = false
	c.mu.Unlock()
}

func (c *kvCtl) count() int64 {
	c.mu.Lock()
	defer c.mu.Unlock()
	return c.n
}

// factory returns a kv.Factory producing wrapped Pebble stores.
func (c *kvCtl) factory() kv.Factory {
	return func(cfg config.LogDBConfig, cb kv.LogDBCallback, dir string, wal string, fs dvfs.IFS) (kv.IKVStore, error) {
		inner, err := pebble.NewKVStore(cfg, cb, dir, wal, fs)
		if err != nil {
			return nil, err
		}
		return &kvWrap{IKVStore: inner, ctl: c}, nil
	}
}

// kvWrap passes write batches through untouched (the Pebble store insists on
// its own batch type); everything that touches the store is counted.
type kvWrap struct {
	kv.IKVStore
	ctl *kvCtl
}

func (w *kvWrap) IterateValue(fk []byte, lk []byte, inc bool, op func(key []byte, data []byte) (bool, error)) error {
	if err := w.ctl.op("IterateValue"); err != nil {
		return err
	}
	return w.IKVStore.IterateValue(fk, lk, inc, op)
}

func (w *kvWrap) GetValue(key []byte, op func([]byte) error) error {
	if err := w.ctl.op("GetValue"); err != nil {
		return err
	}
	return w.IKVStore.GetValue(key, op)
}

func (w *kvWrap) SaveValue(key []byte, value []byte) error {
	if err := w.ctl.op("SaveValue"); err != nil {
		return err
	}
	return w.IKVStore.SaveValue(key, value)
}

func (w *kvWrap) DeleteValue(key []byte) error {
	if err := w.ctl.op("DeleteValue"); err != nil {
		return err
	}
	return w.IKVStore.DeleteValue(key)
}

func (w *kvWrap) CommitWriteBatch(wb kv.IWriteBatch) error {
	if err := w.ctl.op("CommitWriteBatch"); err != nil {
		return err
	}
	return w.IKVStore.CommitWriteBatch(wb)
}

func (w *kvWrap) BulkRemoveEntries(fk []byte, lk []byte) error {
	if err := w.ctl.op("BulkRemoveEntries"); err != nil {
		return err
	}
	return w.IKVStore.BulkRemoveEntries(fk, lk)
}

func (w *kvWrap) CompactEntries(fk []byte, lk []byte) error {
	if err := w.ctl.op("CompactEntries"); err != nil {
		return err
	}
	return w.IKVStore.CompactEntries(fk, lk)
}

func (w *kvWrap) FullCompaction() error {
	if err := w.ctl.op("FullCompaction"); err != nil {
		return err
	}
	return w.IKVStore.FullCompaction()
}
