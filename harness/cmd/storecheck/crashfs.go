package main

import (
	"bytes"
	"errors"
	"io"
	"math/rand"
	"os"
	"regexp"
	"sort"
	"sync"

	"github.com/lni/vfs"
)

// crashFS wraps a strict in-memory file system. It counts every mutating
// operation (kind and path) once armed and can, at the k-th such operation,
// (a) switch the underlying FS to ignore syncs from then on (power loss: all
// that is not yet synced is lost at ResetToSyncedState), or (b) return an
// injected error instead of performing the operation.
type crashFS struct {
	inner *vfs.MemFS

	mu      sync.Mutex
	armed   bool
	n       int64
	crashAt int64 // 1-based; 0 = never
	failAt  int64 // 1-based; 0 = never
	hit     bool  // the crash / failure point has been reached
	hitKind string
	hitPath string
	onHit   func() // called (under mu) when the point is reached
	record  bool
	trace   func(n int64, kind, path string) // debugging
	log     []fsOp
	// dirtyClosed: files closed while holding data written after their last
	// effective sync, before the crash point (class -> count)
	dirtyClosed  map[string]int
	captureAtHit bool              // torn-tail variant: capture file contents at the crash instant
	volatile     map[string][]byte // ... here
	gen          int64             // bumped by powerLoss: file handles of an abandoned store instance are fenced off
	fence        sync.RWMutex
}

type fsOp struct {
	Kind  string `json:"kind"`
	Class string `json:"class"`
}

var errInjected = errors.New("storecheck: injected I/O error")

func newCrashFS() *crashFS {
	return &crashFS{inner: vfs.NewStrictMem()}
}

var reDigits = regexp.MustCompile(`[0-9]+`)

// fileClass normalises a path to a file class: the base name with digit runs
// replaced by N ("N.log", "MANIFEST-N", "N.sst", "BOOTSTRAP-N-N", ...).
func (c *crashFS) fileClass(path string) string {
	return reDigits.ReplaceAllString(c.inner.PathBase(path), "N")
}

// op is called before every mutating operation. It returns errInjected when
// this operation must fail, and crashNow when this operation is the power-loss
// point (the caller then performs the flip with every other operation
// quiesced, see enter).
func (c *crashFS) op(kind, path string) (crashNow bool, err error) {
	c.mu.Lock()
	defer c.mu.Unlock()
	if !c.armed {
		return false, nil
	}
	c.n++
	if c.record {
		c.log = append(c.log, fsOp{kind, c.fileClass(path)})
	}
	if c.trace != nil {
		c.trace(c.n, kind, path)
	}
	if c.crashAt > 0 && c.n == c.crashAt && !c.hit {
		c.hitKind, c.hitPath = kind, path
		return true, nil
	}
	if c.failAt > 0 && c.n == c.failAt && !c.hit {
		c.hit = true
		c.hitKind, c.hitPath = kind, path
		if c.onHit != nil {
			c.onHit()
		}
		return false, errInjected
	}
	return false, nil
}

func (c *crashFS) arm(record bool) {
	c.mu.Lock()
	c.armed = true
	c.record = record
	c.mu.Unlock()
}

func (c *crashFS) disarm() {
	c.mu.Lock()
	c.armed = false
	c.mu.Unlock()
}

func (c *crashFS) count() int64 {
	c.mu.Lock()
	defer c.mu.Unlock()
	return c.n
}

func (c *crashFS) wasHit() (bool, string, string) {
	c.mu.Lock()
	defer c.mu.Unlock()
	return c.hit, c.hitKind, c.hitPath
}

// powerLoss drops everything that has not been synced and makes the file
// system usable again. The store must have been closed or abandoned before:
// operations of older views / file handles still in flight are waited for,
// later ones freeze (see enter).
func (c *crashFS) powerLoss() {
	c.fence.Lock()
	defer c.fence.Unlock()
	c.mu.Lock()
	c.gen++
	c.mu.Unlock()
	c.inner.SetIgnoreSyncs(true)
	c.inner.ResetToSyncedState()
	c.inner.SetIgnoreSyncs(false)
}

// powerLossTorn is powerLoss under a harsher disk model: of the data appended
// to a file after its last sync, each 512-byte sector reaches the disk or not
// independently (a sector that did not reads as zeros, the file ends after the
// last sector that did). Only unsynced tails are affected; everything that was
// synced is kept exactly.
func (c *crashFS) powerLossTorn(rng *rand.Rand) int {
	c.fence.Lock()
	defer c.fence.Unlock()
	c.mu.Lock()
	c.gen++
	c.mu.Unlock()
	volatile := c.volatile
	if volatile == nil {
		volatile = c.snapshotFiles()
	}
	c.inner.SetIgnoreSyncs(true)
	c.inner.ResetToSyncedState()
	c.inner.SetIgnoreSyncs(false)
	return c.applyTorn(volatile, rng)
}

// snapshotFiles reads every file of the volatile file system.
func (c *crashFS) snapshotFiles() map[string][]byte {
	volatile := map[string][]byte{}
	var walk func(dir string)
	walk = func(dir string) {
		names, err := c.inner.List(dir)
		if err != nil {
			return
		}
		for _, n := range names {
			p := c.inner.PathJoin(dir, n)
			fi, err := c.inner.Stat(p)
			if err != nil {
				continue
			}
			if fi.IsDir() {
				walk(p)
			} else if b, ok := c.readAll(p); ok {
				volatile[p] = b
			}
		}
	}
	walk("/")
	return volatile
}

func (c *crashFS) applyTorn(volatile map[string][]byte, rng *rand.Rand) int {
	torn := 0
	paths := make([]string, 0, len(volatile))
	for p := range volatile {
		paths = append(paths, p)
	}
	sort.Strings(paths)
	for _, p := range paths {
		v := volatile[p]
		s, ok := c.readAll(p)
		if !ok || len(v) <= len(s) || !bytes.Equal(v[:len(s)], s) {
			continue
		}
		const sector = 512
		out := make([]byte, 0, len(v)-len(s))
		keep := 0
		for off := len(s); off < len(v); {
			end := (off/sector + 1) * sector
			if end > len(v) {
				end = len(v)
			}
			if rng.Intn(10) < 7 {
				out = append(out, v[off:end]...)
				keep = len(out)
			} else {
				out = append(out, make([]byte, end-off)...)
			}
			off = end
		}
		out = out[:keep]
		if len(out) == 0 {
			continue
		}
		f, err := c.inner.OpenForAppend(p)
		if err != nil {
			continue
		}
		_, _ = f.Write(out)
		_ = f.Sync()
		_ = f.Close()
		torn++
	}
	return torn
}

func (c *crashFS) readAll(p string) ([]byte, bool) {
	f, err := c.inner.Open(p)
	if err != nil {
		return nil, false
	}
	defer f.Close()
	fi, err := f.Stat()
	if err != nil {
		return nil, false
	}
	b := make([]byte, fi.Size())
	if len(b) == 0 {
		return b, true
	}
	if _, err := f.ReadAt(b, 0); err != nil && err != io.EOF {
		return nil, false
	}
	return b, true
}

// enter is called before every mutating operation with the generation of the
// view / handle that issues it. It returns the function to call when the
// operation is over, or errInjected. A goroutine of a store instance that did
// not survive the power failure freezes here.
func (c *crashFS) enter(gen int64, kind, path string) (func(), error) {
	c.fence.RLock()
	c.mu.Lock()
	stale := gen != c.gen
	c.mu.Unlock()
	if stale {
		c.fence.RUnlock()
		select {}
	}
	crashNow, err := c.op(kind, path)
	if err != nil {
		c.fence.RUnlock()
		return nil, err
	}
	if crashNow {
		// The power is lost here. Operations are counted and then executed
		// outside c.mu, so one that was counted earlier may still be executing:
		// wait until every operation in flight has physically completed and keep
		// new ones out while syncs are switched off, so that each operation is
		// entirely before or entirely after the power loss, and so that a call
		// observed as completed has all its syncs honoured.
		c.fence.RUnlock()
		c.fence.Lock()
		c.mu.Lock()
		if !c.hit {
			c.hit = true
			c.inner.SetIgnoreSyncs(true)
			if c.captureAtHit {
				// what the volatile state looks like at the instant of the power
				// loss: only this can (partially) reach the disk, nothing written later
				c.volatile = c.snapshotFiles()
			}
			if c.onHit != nil {
				c.onHit()
			}
		}
		c.mu.Unlock()
		c.fence.Unlock()
		c.fence.RLock()
	}
	return c.fence.RUnlock, nil
}

// fsView is the vfs.FS handed to one store instance. After powerLoss() the
// views (and file handles) given out before are fenced off: an abandoned store
// instance whose goroutines are still alive cannot touch the recovered state.
type fsView struct {
	*crashFS
	gen int64
}

func (c *crashFS) view() *fsView {
	c.mu.Lock()
	defer c.mu.Unlock()
	return &fsView{crashFS: c, gen: c.gen}
}

func (c *fsView) isDir(name string) bool {
	fi, err := c.inner.Stat(name)
	return err == nil && fi.IsDir()
}

func (c *fsView) wrap(f vfs.File, err error, name string) (vfs.File, error) {
	if err != nil {
		return nil, err
	}
	return &crashFile{File: f, fs: c.crashFS, path: name, dir: c.isDir(name), gen: c.gen}, nil
}

func (c *fsView) Create(name string) (vfs.File, error) {
	done, err := c.enter(c.gen, "create", name)
	if err != nil {
		return nil, err
	}
	defer done()
	f, err := c.inner.Create(name)
	return c.wrap(f, err, name)
}

func (c *fsView) Link(oldname, newname string) error {
	done, err := c.enter(c.gen, "link", newname)
	if err != nil {
		return err
	}
	defer done()
	return c.inner.Link(oldname, newname)
}

func (c *fsView) Open(name string, opts ...vfs.OpenOption) (vfs.File, error) {
	f, err := c.inner.Open(name, opts...)
	return c.wrap(f, err, name)
}

func (c *fsView) OpenDir(name string) (vfs.File, error) {
	f, err := c.inner.OpenDir(name)
	return c.wrap(f, err, name)
}

func (c *fsView) OpenForAppend(name string) (vfs.File, error) {
	f, err := c.inner.OpenForAppend(name)
	return c.wrap(f, err, name)
}

func (c *fsView) Remove(name string) error {
	done, err := c.enter(c.gen, "remove", name)
	if err != nil {
		return err
	}
	defer done()
	return c.inner.Remove(name)
}

func (c *fsView) RemoveAll(name string) error {
	done, err := c.enter(c.gen, "removeall", name)
	if err != nil {
		return err
	}
	defer done()
	return c.inner.RemoveAll(name)
}

func (c *fsView) Rename(oldname, newname string) error {
	done, err := c.enter(c.gen, "rename", newname)
	if err != nil {
		return err
	}
	defer done()
	return c.inner.Rename(oldname, newname)
}

func (c *fsView) ReuseForWrite(oldname, newname string) (vfs.File, error) {
	done, err := c.enter(c.gen, "reuse", newname)
	if err != nil {
		return nil, err
	}
	defer done()
	f, err := c.inner.ReuseForWrite(oldname, newname)
	return c.wrap(f, err, newname)
}

func (c *fsView) MkdirAll(dir string, perm os.FileMode) error {
	done, err := c.enter(c.gen, "mkdir", dir)
	if err != nil {
		return err
	}
	defer done()
	return c.inner.MkdirAll(dir, perm)
}

func (c *fsView) Lock(name string) (io.Closer, error) {
	done, err := c.enter(c.gen, "lock", name)
	if err != nil {
		return nil, err
	}
	defer done()
	return c.inner.Lock(name)
}

func (c *fsView) List(dir string) ([]string, error)     { return c.inner.List(dir) }
func (c *fsView) Stat(name string) (os.FileInfo, error) { return c.inner.Stat(name) }
func (c *fsView) PathBase(path string) string           { return c.inner.PathBase(path) }
func (c *fsView) PathJoin(elem ...string) string        { return c.inner.PathJoin(elem...) }
func (c *fsView) PathDir(path string) string            { return c.inner.PathDir(path) }
func (c *fsView) GetDiskUsage(path string) (vfs.DiskUsage, error) {
	// MemFS does not support it; Pebble only uses it for a background metric
	return vfs.DiskUsage{AvailBytes: 1 << 40, TotalBytes: 1 << 41, UsedBytes: 1 << 40}, nil
}

var _ vfs.FS = (*fsView)(nil)

type crashFile struct {
	vfs.File
	fs    *crashFS
	path  string
	dir   bool
	gen   int64
	dirty bool // written since the last sync
}

func (f *crashFile) Close() error {
	if f.dirty && !f.dir {
		f.fs.mu.Lock()
		if f.fs.armed && !(f.fs.crashAt > 0 && f.fs.hit) && f.gen == f.fs.gen {
			if f.fs.dirtyClosed == nil {
				f.fs.dirtyClosed = map[string]int{}
			}
			f.fs.dirtyClosed[f.fs.fileClass(f.path)]++
		}
		f.fs.mu.Unlock()
	}
	return f.File.Close()
}

func (f *crashFile) Write(p []byte) (int, error) {
	done, err := f.fs.enter(f.gen, "write", f.path)
	if err != nil {
		return 0, err
	}
	defer done()
	f.dirty = true
	return f.File.Write(p)
}

func (f *crashFile) WriteAt(p []byte, off int64) (int, error) {
	done, err := f.fs.enter(f.gen, "write", f.path)
	if err != nil {
		return 0, err
	}
	defer done()
	f.dirty = true
	return f.File.WriteAt(p, off)
}

func (f *crashFile) Sync() error {
	kind := "sync"
	if f.dir {
		kind = "dirsync"
	}
	done, err := f.fs.enter(f.gen, kind, f.path)
	if err != nil {
		return err
	}
	defer done()
	f.fs.mu.Lock()
	ignored := f.fs.crashAt > 0 && f.fs.hit
	f.fs.mu.Unlock()
	if !ignored {
		f.dirty = false
	}
	return f.File.Sync()
}
