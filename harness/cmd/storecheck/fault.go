package main

import (
	"fmt"
	"math/rand"
	"strings"
	"sync/atomic"

	"github.com/lni/dragonboat/v4/internal/tan"
	"github.com/lni/dragonboat/v4/raftio"
	pb "github.com/lni/dragonboat/v4/raftpb"
	"github.com/lni/dragonboat/v4/verifh/common"
)

// workload is a deterministic op list (derived from seed and number) replayed
// once per fault point.
type workload struct {
	Flavour string
	No      int
	Ops     []op
	Models  []*model // Models[i] = reference model after ops[0:i] (len = len(Ops)+1)
	LogSize int64    // Tan max log file size
	WBuf    uint64   // Pebble memtable size
	Big     int
	Hash    string
	Saves   int
	Jumbo   int // entries of the last save that got 40-70 KB commands
}

// genWorkload draws a workload: mostly SaveRaftState (appends, suffix
// overwrites, hard-state-only updates including commit-only ones, received
// snapshots), snapshot records, RemoveEntriesTo (+ CompactEntriesTo), bootstrap
// records and - in some - a clean close/reopen in the middle.
func genWorkload(seed int64, fl flavour, no int, nOps int) *workload {
	w := genWorkloadJ(seed, fl, no, nOps, -1)
	if no%2 == 1 {
		// jumbo save: the entries of the last SaveRaftState that appends something
		// get commands of 40-70 KB, so that one saved record spans several 32 KB
		// blocks of a Tan log file / a large Pebble batch. Every file-system
		// operation of the last save is a fault point in the quick tier too.
		// (generated again from the same PRNG stream with that op enlarged, so
		// that the reference models agree with the ops)
		for i := len(w.Ops) - 1; i >= 0; i-- {
			if w.Ops[i].Kind == "save" && jumboCandidates(w.Ops[i]) > 0 {
				return genWorkloadJ(seed, fl, no, nOps, i)
			}
		}
	}
	return w
}

func jumboCandidates(o op) int {
	n := 0
	for _, ud := range o.Updates {
		for _, e := range ud.EntriesToSave {
			if e.Type != pb.ConfigChangeEntry {
				n++
			}
		}
	}
	return n
}

func genWorkloadJ(seed int64, fl flavour, no int, nOps int, jumboAt int) *workload {
	rng := rand.New(rand.NewSource(seed*1000003 + int64(no)*7919 + int64(len(fl.name))))
	w := &workload{Flavour: fl.name, No: no}
	w.LogSize = []int64{1200, 3000, 9000}[rng.Intn(3)]
	w.WBuf = []uint64{64 * 1024, 256 * 1024}[rng.Intn(2)]
	w.Big = []int{600, 3000, 12000}[rng.Intn(3)]
	s := &seq{fl: fl, m: newModel(allNodes), rng: rng, retired: map[nodeID]bool{}, reused: map[nodeID]bool{}, big: w.Big}
	s.r = nil
	w.Models = append(w.Models, s.m.clone())
	withReopen := no%3 == 1
	for len(w.Ops) < nOps {
		o := s.genOpQuiet()
		switch o.Kind {
		case "removenode", "import":
			continue
		case "reopen":
			if !withReopen || len(w.Ops) < nOps/3 {
				continue
			}
			withReopen = false
		}
		if o.Kind == "save" {
			w.Saves++
		}
		if len(w.Ops) == jumboAt {
			jr := rand.New(rand.NewSource(seed*31 + int64(no)))
			for u := range o.Updates {
				es := o.Updates[u].EntriesToSave
				for e := range es {
					if w.Jumbo < 3 && es[e].Type != pb.ConfigChangeEntry {
						es[e].Cmd = make([]byte, 40000+jr.Intn(30000))
						jr.Read(es[e].Cmd)
						w.Jumbo++
					}
				}
			}
		}
		applyToModel(s.m, o)
		w.Ops = append(w.Ops, o)
		w.Models = append(w.Models, s.m.clone())
	}
	var sb strings.Builder
	for _, o := range w.Ops {
		sb.WriteString(o.String())
		sb.WriteByte('\n')
	}
	w.Hash = common.Hash(fl.name, sb.String(), w.Jumbo)
	return w
}

// genOpQuiet is genOp without evidence counters (workload pre-generation).
func (s *seq) genOpQuiet() op {
	s.quiet = true
	defer func() { s.quiet = false }()
	return s.genOp()
}

func (w *workload) opStrings() []string {
	out := make([]string, len(w.Ops))
	for i, o := range w.Ops {
		out[i] = o.String()
	}
	return out
}

// faultSpec says what to inject and where.
type faultSpec struct {
	Level string `json:"level"` // count | crash | errfs | errkv
	K     int64  `json:"k"`     // 1-based index of the mutating FS op / KV call
	// counting run: spans in KV calls instead of FS ops
	CountKV bool `json:"count_kv,omitempty"`
	// power loss with torn unsynced tails (sectors of unsynced appended data
	// reach the disk independently) instead of dropping all unsynced data
	Torn bool `json:"torn,omitempty"`
}

// faultResult is the outcome of one fault run.
type faultResult struct {
	N            int64      `json:"n"` // ops / calls counted in this run
	Reached      bool       `json:"reached"`
	HitKind      string     `json:"hit_kind"`
	HitClass     string     `json:"hit_class"`
	HitCall      int        `json:"hit_call"` // workload op in flight when the fault hit (-1: none)
	HitAPI       string     `json:"hit_api"`
	Outcome      string     `json:"outcome"` // of the call in flight: nil | error | panic | none
	OutMsg       string     `json:"outcome_msg,omitempty"`
	Acked        int        `json:"acked"` // calls that had returned nil when the run stopped
	Stopped      int        `json:"stopped_at"`
	Verified     bool       `json:"verified"`
	Inconclusive string     `json:"inconclusive,omitempty"`
	VioKey       string     `json:"violation_key,omitempty"`
	VioWhat      string     `json:"violation_what,omitempty"`
	Log          []fsOp     `json:"-"`
	KVLog        []string   `json:"-"`
	TornFiles    int        `json:"torn_files"`
	DirtyLog     int        `json:"log_files_closed_unsynced"` // Tan: N.log closed with unsynced data before the fault
	Spans        [][2]int64 `json:"-"`                         // counting run: op counter before/after each call
}

func apiName(o op) string {
	switch o.Kind {
	case "save":
		return "SaveRaftState"
	case "snapshots":
		return "SaveSnapshots"
	case "removeto":
		return "RemoveEntriesTo"
	case "compact":
		return "CompactEntriesTo"
	case "bootstrap":
		return "SaveBootstrapInfo"
	case "reopen":
		return "Close+Open"
	}
	return o.Kind
}

// runFault replays the workload with one fault, stops at the first call that
// does not return nil (or, for a power loss, after the call in flight), then
// simulates a power failure, reopens the store and compares it with the
// model: every call that returned nil must be completely readable, the call
// in flight is per replica all-or-nothing.
//
// progress (may be nil) is told about each call before and after it runs, so
// that the parent of a child process can classify a process death.
func runFault(fl flavour, w *workload, spec faultSpec, progress func(string)) (res faultResult) {
	countKV := spec.CountKV
	if progress == nil {
		progress = func(string) {}
	}
	if fl.tan {
		tan.VerifSetMaxLogFileSize(w.LogSize)
		defer tan.VerifSetMaxLogFileSize(0)
	}
	var cur, done atomic.Int64 // workload op in flight (-1 none); calls completed
	fs := newCrashFS()
	if debugKeepFS {
		debugFS = fs
		fs.trace = func(n int64, kind, path string) {
			fmt.Printf("  fsop %d %s %s cur=%d done=%d hit=%v\n", n, kind, path, cur.Load(), done.Load(), fs.hit)
		}
	}
	ctl := &kvCtl{}
	cur.Store(-1)
	res.HitCall = -1
	hitCur, hitDone := int64(-1), int64(0)
	onHit := func() { // runs under the lock of fs / ctl
		hitCur, hitDone = cur.Load(), done.Load()
		if spec.Level == "errkv" {
			progress(fmt.Sprintf("hit kv %s cur=%d", ctl.hitCall, hitCur))
		} else {
			progress(fmt.Sprintf("hit %s %s cur=%d", fs.hitKind, fs.fileClass(fs.hitPath), hitCur))
		}
	}
	switch spec.Level {
	case "crash":
		fs.crashAt = spec.K
		fs.onHit = onHit
		fs.captureAtHit = spec.Torn
	case "errfs":
		fs.failAt = spec.K
		fs.onHit = onHit
	case "errkv":
		ctl.failAt = spec.K
		ctl.onHit = onHit
	}
	kvf := ctl.factory()
	if fl.tan {
		kvf = nil
	}
	open := func() (db raftio.ILogDB, err error, pv interface{}) {
		defer func() {
			if p := recover(); p != nil {
				pv = p
			}
		}()
		db, err = openStore(fl, fs.view(), w.WBuf, kvf)
		return
	}
	db, err, pv := open()
	if err != nil || pv != nil {
		res.VioKey = fl.name + ":error:open"
		res.VioWhat = fmt.Sprintf("cannot open an empty store: %v %v", err, pv)
		return
	}
	fs.arm(spec.Level == "count")
	ctl.arm(spec.Level == "count")
	isHit := func() bool {
		if spec.Level == "errkv" {
			ctl.mu.Lock()
			defer ctl.mu.Unlock()
			return ctl.hit
		}
		h, _, _ := fs.wasHit()
		return h
	}
	stopped := len(w.Ops) // first call that did not return nil (or was not run)
	healthy := true       // the store instance can still be closed normally
	res.Outcome = "none"
	for i, o := range w.Ops {
		if spec.Level == "crash" && isHit() {
			stopped = i
			break
		}
		progress(fmt.Sprintf("start %d %s", i, apiName(o)))
		before := fs.count()
		if spec.Level == "errkv" || (spec.Level == "count" && countKV) {
			before = ctl.count()
		}
		cur.Store(int64(i))
		var cerr error
		var cpv interface{}
		func() {
			defer func() {
				if p := recover(); p != nil {
					cpv = p
				}
			}()
			if o.Kind == "reopen" {
				if cerr = db.Close(); cerr != nil {
					return
				}
				var ndb raftio.ILogDB
				ndb, cerr, cpv = open()
				if cerr == nil && cpv == nil {
					db = ndb
				} else {
					db = nil
				}
				return
			}
			cerr = applyToStore(db, o)
		}()
		if cerr == nil && cpv == nil {
			done.Add(1)
		}
		cur.Store(-1)
		if spec.Level == "count" {
			after := fs.count()
			if countKV {
				after = ctl.count()
			}
			res.Spans = append(res.Spans, [2]int64{before, after})
		}
		out := "nil"
		if cpv != nil {
			out = "panic"
		} else if cerr != nil {
			out = "error"
		}
		progress(fmt.Sprintf("ret %d %s", i, out))
		if out != "nil" {
			stopped = i
			res.Outcome = out
			res.OutMsg = firstLine(fmt.Sprint(cerr, " ", cpv))
			healthy = out == "error" && db != nil
			if cerr == errCompactionTimeout {
				res.Inconclusive = cerr.Error()
				res.Stopped = i
				return
			}
			if !isHit() {
				// a legal call failed although nothing was injected (yet)
				res.VioKey = fl.name + ":" + out + "-without-fault:" + apiName(o)
				if out == "panic" {
					res.VioKey = fl.name + ":panic:" + normPanic(cpv)
				}
				res.VioWhat = fmt.Sprintf("%s: %s before any fault was injected: %s", apiName(o), out, res.OutMsg)
				res.Stopped = i
				return
			}
			break
		}
		if spec.Level == "crash" && isHit() {
			stopped = i + 1
			break
		}
	}
	fs.disarm()
	ctl.disarm()
	res.N = fs.count()
	res.Log = fs.log
	res.KVLog = ctl.log
	if countKV {
		res.N = ctl.count()
	}
	if spec.Level == "errkv" {
		res.N = ctl.count()
		res.Reached = isHit()
		res.HitKind, res.HitClass = "kv", ctl.hitCall
	} else {
		var p string
		res.Reached, res.HitKind, p = fs.wasHit()
		if res.Reached {
			res.HitClass = fs.fileClass(p)
		}
	}
	res.Stopped = stopped
	fs.mu.Lock()
	res.DirtyLog = fs.dirtyClosed["N.log"]
	fs.mu.Unlock()
	closeStore := func() {
		// after an injected error the process would die (the engine panics on a
		// failed save): the instance is abandoned, not closed; its goroutines are
		// frozen by the file system fence at their next mutating operation
		if db == nil || !healthy || (res.Reached && spec.Level != "crash") {
			return
		}
		defer func() { _ = recover() }()
		_ = db.Close()
	}
	if spec.Level == "count" || !res.Reached {
		closeStore()
		return
	}
	// which calls are acknowledged, which one is in flight
	acked, inflight := stopped, -1
	if spec.Level == "crash" {
		if hitCur >= 0 {
			acked, inflight = int(hitCur), int(hitCur)
			res.Outcome = "nil"
		} else {
			acked = int(hitDone) // power lost between two calls: only what had completed counts
		}
	} else if res.Outcome == "error" || res.Outcome == "panic" {
		inflight = stopped
	}
	res.HitCall = int(hitCur)
	if hitCur >= 0 {
		res.HitAPI = apiName(w.Ops[hitCur])
	}
	res.Acked = acked
	closeStore()
	if spec.Torn {
		res.TornFiles = fs.powerLossTorn(rand.New(rand.NewSource(int64(w.No)*7907 + spec.K)))
	} else {
		fs.powerLoss()
	}
	ndb, err, pv := open()
	if err != nil || pv != nil {
		res.VioKey = fl.name + ":recovery:open-failed"
		res.VioWhat = fmt.Sprintf("store cannot be opened after the power failure: %v %v", err, firstLine(pv))
		return
	}
	defer func() {
		defer func() { _ = recover() }()
		_ = ndb.Close()
	}()
	a := w.Models[acked].clone()
	var b *model
	if inflight >= 0 {
		b = w.Models[inflight+1].clone()
	}
	if fl.tan && spec.Level != "errkv" {
		for _, id := range allNodes {
			a.nodes[id].altStates = w.unsyncedCommitStates(id, acked)
			if b != nil {
				b.nodes[id].altStates = w.unsyncedCommitStates(id, inflight+1)
			}
		}
	}
	qrng := rand.New(rand.NewSource(int64(w.No)*131 + spec.K))
	func() {
		defer func() {
			if p := recover(); p != nil {
				res.VioKey = fl.name + ":recovery:panic:" + normPanic(p)
				res.VioWhat = "queries on the recovered store panicked: " + firstLine(p)
			}
		}()
		var written map[nodeID][]pb.State
		if b != nil {
			written = w.statesWritten(inflight + 1)
		} else {
			written = w.statesWritten(acked)
		}
		d := verifyRecovered(ndb, fl, a, b, qrng, written, fl.tan && res.DirtyLog > 0)
		if d != "" {
			i := strings.IndexByte(d, '|')
			res.VioKey, res.VioWhat = d[:i], d[i+1:]
		}
	}()
	res.Verified = true
	return
}

// verifyRecovered compares the reopened store with the model of the
// acknowledged calls (a) and, per replica, alternatively with the model that
// also contains the call in flight (b). Returns "key|what" or "".
func verifyRecovered(db raftio.ILogDB, fl flavour, a, b *model, rng *rand.Rand, written map[nodeID][]pb.State, dirtyLog bool) string {
	sq := &seq{rng: rng}
	key := func(d *discrepancy) string {
		if fl.tan && strings.Contains(d.Detail, ErrTanCRC) {
			// a torn tail record is detected by its CRC but open() fails instead of
			// treating it as the end of the log (tan/record.go IsInvalidRecord)
			return "tan:after-crash:torn-tail-crc-mismatch-fails-open"
		}
		if dirtyLog {
			// Tan closed a log file holding unsynced records (rollover or Close) and
			// saved its index durably: one root cause, many symptoms; shared by the
			// regular and the multiplexed flavour (tan/db.go, tan/open.go)
			return "tan:after-crash:log-file-closed-without-fsync"
		}
		kind := d.Kind
		if d.Check == "ReadRaftState" && d.Kind == "state-mismatch" {
			kind = "state-never-written"
			if rs, err := db.ReadRaftState(d.Node.Shard, d.Node.Replica, 0); err == nil {
				for _, st := range written[d.Node] {
					if pb.IsStateEqual(st, rs.State) {
						kind = "acknowledged-state-lost"
					}
				}
			}
		}
		return fl.name + ":after-crash:" + d.Check + ":" + kind
	}
	for _, id := range allNodes {
		qa := sq.randomQueries(a.nodes[id])
		da := checkNode(db, id, a.nodes[id], qa)
		if da == nil {
			continue
		}
		if b != nil {
			if db2 := checkNode(db, id, b.nodes[id], sq.randomQueries(b.nodes[id])); db2 == nil {
				continue
			} else {
				return fmt.Sprintf("%s|replica %s is neither in the acknowledged state (%s) nor in the state with the interrupted call applied (%s)",
					key(da), id, da.String(), db2.String())
			}
		}
		return fmt.Sprintf("%s|replica %s lost acknowledged data: %s", key(da), id, da.String())
	}
	da := checkNodeList(db, a)
	if da != nil && b != nil && checkNodeList(db, b) == nil {
		da = nil
	}
	if da != nil {
		return fmt.Sprintf("%s|%s", key(da), da.String())
	}
	return ""
}

// unsyncedCommitStates lists the older hard states of a replica that Tan may
// legitimately come back with after a power loss when ops[0:upto] had been
// applied: walking backwards from the newest state, every update that changed
// nothing but Commit (no entries, no snapshot, same term and vote) need not
// have been fsynced, so the state before it is acceptable as well.
func (w *workload) unsyncedCommitStates(id nodeID, upto int) []pb.State {
	var out []pb.State
	for i := upto - 1; i >= 0; i-- {
		o := w.Ops[i]
		if o.Kind != "save" {
			continue
		}
		touched, commitOnly := false, true
		for _, ud := range o.Updates {
			if ud.ShardID != id.Shard || ud.ReplicaID != id.Replica {
				continue
			}
			touched = true
			prev := w.Models[i].nodes[id].state
			if len(ud.EntriesToSave) > 0 || !pb.IsEmptySnapshot(ud.Snapshot) ||
				(!pb.IsEmptyState(ud.State) && (ud.State.Term != prev.Term || ud.State.Vote != prev.Vote)) {
				commitOnly = false
			}
		}
		if !touched {
			continue
		}
		if !commitOnly {
			break
		}
		out = append(out, w.Models[i].nodes[id].state)
	}
	return out
}

// statesWritten lists every hard state written for each replica by ops[0:upto].
func (w *workload) statesWritten(upto int) map[nodeID][]pb.State {
	out := map[nodeID][]pb.State{}
	for i := 0; i < upto && i < len(w.Ops); i++ {
		for _, ud := range w.Ops[i].Updates {
			if w.Ops[i].Kind == "save" && !pb.IsEmptyState(ud.State) {
				id := nodeID{ud.ShardID, ud.ReplicaID}
				out[id] = append(out[id], ud.State)
			}
		}
	}
	return out
}

// ErrTanCRC is the text of tan.ErrCRCMismatch.
const ErrTanCRC = "tan: crc mismatch"

var (
	debugKeepFS bool
	debugFS     *crashFS
)
