package main

import (
	"fmt"
	"math/rand"
	"strings"
	"time"

	"github.com/lni/dragonboat/v4/raftio"
	pb "github.com/lni/dragonboat/v4/raftpb"
)

// op is one call (or call group) on the ILogDB under test.
type op struct {
	Kind    string // save snapshots removeto compact removenode bootstrap import reopen
	Node    nodeID
	Updates []pb.Update
	Index   uint64
	Lower   uint64 // compact: a second CompactEntriesTo for this lower index follows at once (0: none)
	Boot    pb.Bootstrap
	Snap    pb.Snapshot
	// bookkeeping for evidence
	overwrite  bool
	shorter    bool
	straddle   bool
	recvSnap   bool
	stateOnly  bool
	staleSnaps bool
}

func (o op) String() string {
	switch o.Kind {
	case "save", "snapshots":
		var parts []string
		for _, ud := range o.Updates {
			s := fmt.Sprintf("(%d,%d)", ud.ShardID, ud.ReplicaID)
			if !pb.IsEmptyState(ud.State) {
				s += fmt.Sprintf(" state{t%d v%d c%d}", ud.State.Term, ud.State.Vote, ud.State.Commit)
			}
			if !pb.IsEmptySnapshot(ud.Snapshot) {
				s += fmt.Sprintf(" snapshot{i%d t%d}", ud.Snapshot.Index, ud.Snapshot.Term)
			}
			if n := len(ud.EntriesToSave); n > 0 {
				s += fmt.Sprintf(" entries[%d..%d]@t%d", ud.EntriesToSave[0].Index, ud.EntriesToSave[n-1].Index, ud.EntriesToSave[n-1].Term)
			}
			parts = append(parts, s)
		}
		name := "SaveRaftState"
		if o.Kind == "snapshots" {
			name = "SaveSnapshots"
		}
		return name + "[" + strings.Join(parts, "; ") + "]"
	case "removeto":
		return fmt.Sprintf("RemoveEntriesTo(%s,%d)", o.Node, o.Index)
	case "compact":
		if o.Lower > 0 {
			return fmt.Sprintf("CompactEntriesTo(%s,%d);CompactEntriesTo(%s,%d)", o.Node, o.Index, o.Node, o.Lower)
		}
		return fmt.Sprintf("CompactEntriesTo(%s,%d)", o.Node, o.Index)
	case "removenode":
		return fmt.Sprintf("RemoveNodeData%s", o.Node)
	case "bootstrap":
		return fmt.Sprintf("SaveBootstrapInfo(%s,%+v)", o.Node, o.Boot)
	case "import":
		return fmt.Sprintf("reopen;ImportSnapshot(%s,{i%d t%d});reopen", o.Node, o.Snap.Index, o.Snap.Term)
	case "importlive":
		return fmt.Sprintf("ImportSnapshot(%s,{i%d t%d})", o.Node, o.Snap.Index, o.Snap.Term)
	case "reopen":
		return "Close;reopen"
	}
	return o.Kind
}

// applyToModel updates the reference model with the effect of a successful op.
func applyToModel(m *model, o op) {
	switch o.Kind {
	case "save":
		for _, ud := range o.Updates {
			m.nodes[nodeID{ud.ShardID, ud.ReplicaID}].applyUpdate(ud)
		}
	case "snapshots":
		for _, ud := range o.Updates {
			m.nodes[nodeID{ud.ShardID, ud.ReplicaID}].applySnapshotRecord(ud.Snapshot)
		}
	case "removeto":
		m.nodes[o.Node].applyRemoveTo(o.Index)
	case "removenode":
		t := m.nodes[o.Node].term
		m.nodes[o.Node] = newNodeModel()
		m.nodes[o.Node].term = t
		m.nodes[o.Node].purged = true
	case "bootstrap":
		b := o.Boot
		m.nodes[o.Node].boot = &b
	case "import", "importlive":
		m.nodes[o.Node].applyImport(o.Snap)
	}
}

// errCompactionTimeout: the wall clock never decides a verdict - inconclusive.
var errCompactionTimeout = fmt.Errorf("storecheck: compaction not reported done after 300s")

// applyToStore performs the op on the store. reopen is done by the caller.
func applyToStore(db raftio.ILogDB, o op) error {
	switch o.Kind {
	case "save":
		return db.SaveRaftState(o.Updates, workerOf(o.Updates[0].ShardID))
	case "snapshots":
		return db.SaveSnapshots(o.Updates)
	case "removeto":
		return db.RemoveEntriesTo(o.Node.Shard, o.Node.Replica, o.Index)
	case "compact":
		ch, err := db.CompactEntriesTo(o.Node.Shard, o.Node.Replica, o.Index)
		if err != nil {
			return err
		}
		chans := []<-chan struct{}{ch}
		if o.Lower > 0 {
			// (not generated: compaction indexes that move back are excluded by the log store's own
			// contract - logdb TestMovingCompactionIndexBackWillCausePanic; it is the node that must
			// not ask for them, see DESIGN.md defect 20)
			ch2, err := db.CompactEntriesTo(o.Node.Shard, o.Node.Replica, o.Lower)
			if err != nil {
				return err
			}
			chans = append(chans, ch2)
		}
		for _, c := range chans {
			select {
			case <-c:
			case <-time.After(300 * time.Second):
				return errCompactionTimeout
			}
		}
		return nil
	case "removenode":
		return db.RemoveNodeData(o.Node.Shard, o.Node.Replica)
	case "bootstrap":
		return db.SaveBootstrapInfo(o.Node.Shard, o.Node.Replica, o.Boot)
	case "import", "importlive":
		return db.ImportSnapshot(o.Snap, o.Node.Replica)
	}
	return fmt.Errorf("storecheck: unknown op %s", o.Kind)
}

// ---- generation ----

func mkEntries(rng *rand.Rand, first, n, term uint64, big int) []pb.Entry {
	out := make([]pb.Entry, 0, n)
	for i := uint64(0); i < n; i++ {
		var sz int
		switch x := rng.Intn(20); {
		case x == 0:
			sz = 0
		case x < 16:
			sz = 1 + rng.Intn(64)
		case x < 19:
			sz = 100 + rng.Intn(400)
		default:
			sz = big/2 + rng.Intn(big/2+1)
		}
		cmd := make([]byte, sz)
		rng.Read(cmd)
		e := pb.Entry{Index: first + i, Term: term, Cmd: cmd}
		if rng.Intn(4) == 0 {
			e.Key = rng.Uint64()
			e.ClientID = rng.Uint64()
			e.SeriesID = uint64(rng.Intn(100))
			e.RespondedTo = uint64(rng.Intn(100))
		}
		if rng.Intn(25) == 0 {
			e.Type = pb.ConfigChangeEntry
		}
		if sz == 0 && rng.Intn(2) == 0 {
			e.Cmd = nil
		}
		out = append(out, e)
	}
	return out
}

func mkSnapshot(rng *rand.Rand, id nodeID, index, term uint64) pb.Snapshot {
	ss := pb.Snapshot{
		Filepath: fmt.Sprintf("/data/snapshot-%d-%d/snapshot-%016X/snapshot-%016X.gbsnap", id.Shard, id.Replica, index, index),
		FileSize: uint64(1 + rng.Intn(1<<20)),
		Index:    index,
		Term:     term,
		ShardID:  id.Shard,
		Type:     pb.StateMachineType(1 + rng.Intn(3)),
		Membership: pb.Membership{
			ConfigChangeId: uint64(rng.Intn(int(index) + 1)),
			Addresses:      map[uint64]string{1: "a1:1", 2: "a2:2", uint64(3 + rng.Intn(5)): "a3:3"},
		},
	}
	if rng.Intn(3) == 0 {
		ss.Checksum = make([]byte, 8)
		rng.Read(ss.Checksum)
	}
	if rng.Intn(5) == 0 {
		ss.OnDiskIndex = index
	}
	return ss
}

// termAt returns the term the model has for index i (the snapshot term when
// i is the snapshot index, else the node's latest term).
func termAt(nm *nodeModel, i uint64) uint64 {
	if e, ok := nm.entries[i]; ok {
		return e.Term
	}
	if nm.snap.Index == i && i > 0 {
		return nm.snap.Term
	}
	return nm.term
}

// genUpdate builds one legal pb.Update for a replica in state nm. It obeys
// the interface's preconditions: no gap inside the update, first index not
// beyond last+1, nothing at or below the commit index is overwritten, terms
// never decrease along the log, snapshot index <= commit <= last.
func genUpdate(rng *rand.Rand, id nodeID, nm *nodeModel, o *op, big int) pb.Update {
	ud := pb.Update{ShardID: id.Shard, ReplicaID: id.Replica}
	commit := nm.state.Commit
	last := nm.last
	if nm.term == 0 {
		nm.term = 1
	}
	kind := rng.Intn(100)
	fresh := pb.IsEmptyState(nm.state)
	switch {
	case fresh || kind < 50: // append
		n := uint64(1 + rng.Intn(12))
		switch rng.Intn(6) {
		case 0: // land on / just around a multiple of the batch size
			to := (last/batchSize+1)*batchSize + uint64(rng.Intn(4)) - 2
			if to > last {
				n = to - last
			}
			o.straddle = true
		case 1:
			n = uint64(40 + rng.Intn(70)) // spans two or three batches
			o.straddle = true
		}
		if rng.Intn(5) == 0 {
			nm.term++
		}
		ud.EntriesToSave = mkEntries(rng, last+1, n, nm.term, big)
		last += n
	case kind < 72 && last > commit && last > nm.floor: // overwrite a suffix with a newer term
		lo := commit
		if nm.floor > lo {
			lo = nm.floor
		}
		start := lo + 1 + uint64(rng.Int63n(int64(last-lo)))
		old := last - start + 1
		var n uint64
		switch x := rng.Intn(10); {
		case x < 6 && old > 1: // shorter new suffix
			n = 1 + uint64(rng.Int63n(int64(old-1)))
			o.shorter = true
		case x < 8:
			n = old
		default:
			n = old + uint64(1+rng.Intn(60))
		}
		nm.term++
		ud.EntriesToSave = mkEntries(rng, start, n, nm.term, big)
		o.overwrite = true
		if start/batchSize != last/batchSize || (start+n-1)/batchSize != start/batchSize {
			o.straddle = true
		}
		last = start + n - 1
	case kind < 80: // a snapshot received from the leader, maybe followed by entries
		s := last + uint64(rng.Intn(120))
		if s <= nm.snap.Index {
			s = nm.snap.Index + 1 + uint64(rng.Intn(5))
		}
		if s <= commit { // raft ignores a snapshot at or below its commit index
			s = commit + 1
		}
		if rng.Intn(3) == 0 {
			nm.term++
		}
		ud.Snapshot = mkSnapshot(rng, id, s, nm.term)
		last = s
		commit = s
		if rng.Intn(2) == 0 {
			n := uint64(1 + rng.Intn(60))
			ud.EntriesToSave = mkEntries(rng, s+1, n, nm.term, big)
			last += n
		}
		o.recvSnap = true
	default: // hard state only
		o.stateOnly = true
		if !fresh && nm.term == nm.state.Term && rng.Intn(2) == 0 {
			// exactly one field of the hard state changes (a vote granted, or a commit index
			// learned, in a term the replica already knows)
			st := nm.state
			if rng.Intn(3) > 0 || last == commit {
				st.Vote = (st.Vote + 1 + uint64(rng.Intn(3))) % 5
			} else {
				st.Commit = commit + 1 + uint64(rng.Int63n(int64(last-commit)))
			}
			ud.State = st
			return ud
		}
	}
	// hard state: always with the first save, otherwise sometimes unchanged (empty)
	if rng.Intn(6) == 0 && len(ud.EntriesToSave) == 0 && pb.IsEmptySnapshot(ud.Snapshot) {
		nm.term++ // an election without new entries
	}
	if fresh || o.stateOnly || !pb.IsEmptySnapshot(ud.Snapshot) || nm.term != nm.state.Term || rng.Intn(3) > 0 {
		if last > commit {
			commit += uint64(rng.Int63n(int64(last-commit) + 1))
		}
		vote := nm.state.Vote
		if nm.term != nm.state.Term || rng.Intn(8) == 0 {
			vote = uint64(rng.Intn(4))
		}
		ud.State = pb.State{Term: nm.term, Vote: vote, Commit: commit}
	}
	return ud
}
