package main

import (
	"bytes"
	"errors"
	"fmt"
	"math"
	"sort"

	"github.com/lni/dragonboat/v4/raftio"
	pb "github.com/lni/dragonboat/v4/raftpb"
)

// nodeID identifies one replica of one shard.
type nodeID struct {
	Shard   uint64 `json:"shard"`
	Replica uint64 `json:"replica"`
}

func (n nodeID) String() string { return fmt.Sprintf("(%d,%d)", n.Shard, n.Replica) }

// nodeModel is the reference model of what the log store must report for one
// replica.
type nodeModel struct {
	entries map[uint64]pb.Entry
	last    uint64 // logical end of the log (0: nothing)
	floor   uint64 // entries <= floor "may or may not be present": never queried
	state   pb.State
	snap    pb.Snapshot
	boot    *pb.Bootstrap
	term    uint64 // highest term used so far (generator bookkeeping)
	// after RemoveNodeData nothing that was saved before may ever be reported again (entries at
	// or below an imported / received snapshot may legitimately linger): purged marks that such a reset
	// happened, lowest is the lowest entry index saved since (0: none)
	purged bool
	lowest uint64
	// altStates: hard states also acceptable after a power loss (Tan only: a
	// hard-state update that changes nothing but Commit is deliberately not
	// fsynced - tan/db.go stateSyncChange, the etcd MustSync rule)
	altStates []pb.State
}

func newNodeModel() *nodeModel {
	return &nodeModel{entries: map[uint64]pb.Entry{}}
}

func (m *nodeModel) clone() *nodeModel {
	c := &nodeModel{entries: make(map[uint64]pb.Entry, len(m.entries)),
		last: m.last, floor: m.floor, state: m.state, snap: m.snap, term: m.term, altStates: m.altStates,
		purged: m.purged, lowest: m.lowest}
	for k, v := range m.entries {
		c.entries[k] = v
	}
	if m.boot != nil {
		b := *m.boot
		c.boot = &b
	}
	return c
}

type model struct {
	nodes map[nodeID]*nodeModel
}

func newModel(ids []nodeID) *model {
	m := &model{nodes: map[nodeID]*nodeModel{}}
	for _, id := range ids {
		m.nodes[id] = newNodeModel()
	}
	return m
}

func (m *model) clone() *model {
	c := &model{nodes: map[nodeID]*nodeModel{}}
	for k, v := range m.nodes {
		c.nodes[k] = v.clone()
	}
	return c
}

// applyUpdate is SaveRaftState for one update.
func (m *nodeModel) applyUpdate(ud pb.Update) {
	if !pb.IsEmptyState(ud.State) {
		m.state = ud.State
	}
	if !pb.IsEmptySnapshot(ud.Snapshot) && ud.Snapshot.Index > m.snap.Index {
		// a snapshot received from the leader: the log restarts after it
		m.snap = ud.Snapshot
		m.entries = map[uint64]pb.Entry{}
		m.last = ud.Snapshot.Index
		if ud.Snapshot.Index > m.floor {
			m.floor = ud.Snapshot.Index
		}
	}
	if n := len(ud.EntriesToSave); n > 0 {
		if m.lowest == 0 || ud.EntriesToSave[0].Index < m.lowest {
			m.lowest = ud.EntriesToSave[0].Index
		}
		for _, e := range ud.EntriesToSave {
			m.entries[e.Index] = e
		}
		nl := ud.EntriesToSave[n-1].Index
		for i := nl + 1; i <= m.last; i++ {
			delete(m.entries, i)
		}
		m.last = nl
	}
}

func (m *nodeModel) applySnapshotRecord(ss pb.Snapshot) {
	if ss.Index > m.snap.Index {
		m.snap = ss
	}
}

func (m *nodeModel) applyRemoveTo(index uint64) {
	if index > m.floor {
		m.floor = index
	}
}

func (m *nodeModel) applyImport(ss pb.Snapshot) {
	m.snap = ss
	m.state = pb.State{Term: ss.Term, Commit: ss.Index}
	m.entries = map[uint64]pb.Entry{}
	m.last = ss.Index
	m.floor = ss.Index
	m.boot = &pb.Bootstrap{Join: true, Type: ss.Type}
	if ss.Term > m.term {
		m.term = ss.Term
	}
}

func (m *nodeModel) slice(low, high uint64) []pb.Entry {
	var out []pb.Entry
	for i := low; i < high && i <= m.last; i++ {
		e, ok := m.entries[i]
		if !ok {
			break
		}
		out = append(out, e)
	}
	return out
}

func entryEqual(a, b pb.Entry) bool {
	return a.Index == b.Index && a.Term == b.Term && a.Type == b.Type && a.Key == b.Key &&
		a.ClientID == b.ClientID && a.SeriesID == b.SeriesID && a.RespondedTo == b.RespondedTo &&
		bytes.Equal(a.Cmd, b.Cmd)
}

func snapshotEqual(a, b pb.Snapshot) bool {
	if a.Index != b.Index || a.Term != b.Term || a.Filepath != b.Filepath || a.FileSize != b.FileSize ||
		a.ShardID != b.ShardID || a.Type != b.Type || a.Dummy != b.Dummy || a.Imported != b.Imported ||
		a.OnDiskIndex != b.OnDiskIndex || a.Witness != b.Witness || !bytes.Equal(a.Checksum, b.Checksum) {
		return false
	}
	if a.Membership.ConfigChangeId != b.Membership.ConfigChangeId ||
		len(a.Membership.Addresses) != len(b.Membership.Addresses) {
		return false
	}
	for k, v := range a.Membership.Addresses {
		if b.Membership.Addresses[k] != v {
			return false
		}
	}
	return true
}

func bootstrapEqual(a, b pb.Bootstrap) bool {
	if a.Join != b.Join || a.Type != b.Type || len(a.Addresses) != len(b.Addresses) {
		return false
	}
	for k, v := range a.Addresses {
		if b.Addresses[k] != v {
			return false
		}
	}
	return true
}

// discrepancy is one difference between store and model.
type discrepancy struct {
	Check  string `json:"check"` // API observed
	Kind   string `json:"kind"`  // stable class of the difference
	Node   nodeID `json:"node"`
	Detail string `json:"detail"`
}

func (d discrepancy) String() string {
	return fmt.Sprintf("%s:%s node %s: %s", d.Check, d.Kind, d.Node, d.Detail)
}

// query is one IterateEntries request.
type query struct {
	Low, High, MaxSize uint64
}

// expectedIterate applies the size rule shared by all stores (and relied on by
// LogReader.entriesLocked: "all of the range, or size > maxSize"): entries are
// appended until the accumulated SizeUpperLimit exceeds maxSize; the entry
// that crosses the limit is included.
func expectedIterate(m *nodeModel, q query) ([]pb.Entry, uint64) {
	all := m.slice(q.Low, q.High)
	var out []pb.Entry
	size := uint64(0)
	for _, e := range all {
		out = append(out, e)
		size += uint64(e.SizeUpperLimit())
		if size > q.MaxSize {
			break
		}
	}
	return out, size
}

// checkIterate compares one IterateEntries answer with the model.
func checkIterate(db raftio.ILogDB, id nodeID, m *nodeModel, q query) *discrepancy {
	got, gsz, err := db.IterateEntries(nil, 0, id.Shard, id.Replica, q.Low, q.High, q.MaxSize)
	if err != nil {
		return &discrepancy{"IterateEntries", "error", id,
			fmt.Sprintf("[%d,%d) max %d: %v", q.Low, q.High, q.MaxSize, err)}
	}
	exp, esz := expectedIterate(m, q)
	what := fmt.Sprintf("[%d,%d) max %d (model last %d floor %d): got %s, want %s", q.Low, q.High, q.MaxSize,
		m.last, m.floor, entsSummary(got), entsSummary(exp))
	for i, e := range got {
		if e.Index > m.last {
			return &discrepancy{"IterateEntries", "entry-past-logical-end", id, what}
		}
		if i > 0 && e.Index != got[i-1].Index+1 {
			return &discrepancy{"IterateEntries", "gap", id, what}
		}
	}
	if len(got) > 0 && got[0].Index != q.Low {
		return &discrepancy{"IterateEntries", "wrong-start", id, what}
	}
	for i := 0; i < len(got) && i < len(exp); i++ {
		if !entryEqual(got[i], exp[i]) {
			if got[i].Index == exp[i].Index && got[i].Term < exp[i].Term {
				return &discrepancy{"IterateEntries", "stale-overwritten-entry", id, what}
			}
			return &discrepancy{"IterateEntries", "wrong-entry", id, what}
		}
	}
	if len(got) < len(exp) {
		return &discrepancy{"IterateEntries", "short", id, what}
	}
	if len(got) > len(exp) {
		return &discrepancy{"IterateEntries", "beyond-size-limit-or-range", id, what}
	}
	if gsz != esz {
		return &discrepancy{"IterateEntries", "wrong-size", id, fmt.Sprintf("%s: size %d want %d", what, gsz, esz)}
	}
	return nil
}

func entsSummary(es []pb.Entry) string {
	if len(es) == 0 {
		return "[]"
	}
	s := fmt.Sprintf("%d entries [", len(es))
	for i, e := range es {
		if i >= 6 && i < len(es)-2 {
			if i == 6 {
				s += "... "
			}
			continue
		}
		s += fmt.Sprintf("%d@t%d ", e.Index, e.Term)
	}
	return s + "]"
}

// checkNode compares everything the store reports for one replica with the
// model; qs are the range queries to issue besides the full-range one.
func checkNode(db raftio.ILogDB, id nodeID, m *nodeModel, qs []query) *discrepancy {
	// snapshot record
	ss, err := db.GetSnapshot(id.Shard, id.Replica)
	if err != nil {
		return &discrepancy{"GetSnapshot", "error", id, err.Error()}
	}
	if !snapshotEqual(ss, m.snap) {
		kind := "wrong-record"
		if ss.Index < m.snap.Index {
			kind = "not-newest"
		} else if ss.Index > m.snap.Index {
			kind = "never-saved-or-removed"
		}
		return &discrepancy{"GetSnapshot", kind, id,
			fmt.Sprintf("got index %d term %d, want index %d term %d", ss.Index, ss.Term, m.snap.Index, m.snap.Term)}
	}
	// hard state, first index, length - consumed as node.replayLog does
	rs, err := db.ReadRaftState(id.Shard, id.Replica, m.snap.Index)
	if pb.IsEmptyState(m.state) {
		if err == nil && !pb.IsEmptyState(rs.State) {
			return &discrepancy{"ReadRaftState", "state-never-saved-or-removed", id, fmt.Sprintf("got %+v, none saved", rs.State)}
		}
		if err != nil && !errors.Is(err, raftio.ErrNoSavedLog) {
			return &discrepancy{"ReadRaftState", "error", id, err.Error()}
		}
	} else {
		if err != nil {
			kind := "error"
			if errors.Is(err, raftio.ErrNoSavedLog) {
				kind = "saved-state-missing"
			}
			return &discrepancy{"ReadRaftState", kind, id, fmt.Sprintf("%v, want state %+v", err, m.state)}
		}
		if !pb.IsStateEqual(rs.State, m.state) {
			ok := false
			for _, a := range m.altStates {
				if pb.IsStateEqual(rs.State, a) {
					ok = true
				}
			}
			if !ok {
				return &discrepancy{"ReadRaftState", "state-mismatch", id, fmt.Sprintf("got %+v, want %+v", rs.State, m.state)}
			}
			if rs.State.Commit < ss.Index {
				return &discrepancy{"ReadRaftState", "commit-below-snapshot-index", id,
					fmt.Sprintf("recovered hard state %+v (an older, unsynced-commit value) is below the recovered snapshot index %d: raft.loadState panics on restart", rs.State, ss.Index)}
			}
		}
		what := fmt.Sprintf("snapshot index %d: first %d count %d, model last %d", m.snap.Index, rs.FirstIndex, rs.EntryCount, m.last)
		if m.last > m.snap.Index {
			if rs.EntryCount == 0 {
				return &discrepancy{"ReadRaftState", "log-missing", id, what}
			}
			if rs.FirstIndex > m.snap.Index+1 {
				return &discrepancy{"ReadRaftState", "first-index-leaves-gap", id, what}
			}
			if rs.FirstIndex+rs.EntryCount-1 != m.last {
				return &discrepancy{"ReadRaftState", "wrong-last-index", id, what}
			}
			if m.purged && m.lowest > 0 && rs.FirstIndex < m.lowest {
				return &discrepancy{"ReadRaftState", "entries-from-before-the-removal-reappear", id,
					fmt.Sprintf("%s; the data of the replica was removed (RemoveNodeData) and the lowest entry saved since is %d", what, m.lowest)}
			}
		} else if rs.EntryCount != 0 {
			return &discrepancy{"ReadRaftState", "entries-past-logical-end", id, what}
		}
	}
	// bootstrap
	bs, err := db.GetBootstrapInfo(id.Shard, id.Replica)
	if m.boot == nil {
		if err == nil {
			return &discrepancy{"GetBootstrapInfo", "never-saved-or-removed", id, fmt.Sprintf("got %+v", bs)}
		}
		if !errors.Is(err, raftio.ErrNoBootstrapInfo) {
			return &discrepancy{"GetBootstrapInfo", "error", id, err.Error()}
		}
	} else {
		if err != nil {
			return &discrepancy{"GetBootstrapInfo", "saved-record-missing", id, err.Error()}
		}
		if !bootstrapEqual(bs, *m.boot) {
			return &discrepancy{"GetBootstrapInfo", "mismatch", id, fmt.Sprintf("got %+v want %+v", bs, *m.boot)}
		}
	}
	// the whole retrievable log, then the requested ranges
	if m.last > m.floor {
		if d := checkIterate(db, id, m, query{m.floor + 1, m.last + 1, math.MaxUint64}); d != nil {
			return d
		}
	}
	for _, q := range qs {
		if d := checkIterate(db, id, m, q); d != nil {
			return d
		}
	}
	return nil
}

// checkNodeList compares ListNodeInfo with the set of replicas that have a
// bootstrap record.
func checkNodeList(db raftio.ILogDB, m *model) *discrepancy {
	nis, err := db.ListNodeInfo()
	if err != nil {
		return &discrepancy{"ListNodeInfo", "error", nodeID{}, err.Error()}
	}
	got := map[nodeID]int{}
	for _, ni := range nis {
		got[nodeID{ni.ShardID, ni.ReplicaID}]++
	}
	var want []nodeID
	for id, nm := range m.nodes {
		if nm.boot != nil {
			want = append(want, id)
		}
	}
	sort.Slice(want, func(i, j int) bool {
		return want[i].Shard < want[j].Shard || (want[i].Shard == want[j].Shard && want[i].Replica < want[j].Replica)
	})
	for _, id := range want {
		if got[id] != 1 {
			return &discrepancy{"ListNodeInfo", "node-missing-or-duplicated", id, fmt.Sprintf("got %v want %v", nis, want)}
		}
	}
	if len(got) != len(want) {
		return &discrepancy{"ListNodeInfo", "unexpected-node", nodeID{}, fmt.Sprintf("got %v want %v", nis, want)}
	}
	return nil
}
