package main

import (
	"fmt"

	"github.com/lni/dragonboat/v4/verifh/common"
)

const workloadOps = 26

type faultCase struct {
	w    *workload
	k    int64
	torn bool
}

// faultPoints runs the counting pass of each workload and lists the fault
// points: every k (thorough) or a stride sample plus every operation of the
// last SaveRaftState call (quick).
func faultPoints(r *common.Run, fl flavour, level string, nW int, perW int) ([]faultCase, bool) {
	var cases []faultCase
	all := true
	for wn := 0; wn < nW; wn++ {
		w := genWorkload(r.Seed, fl, wn, workloadOps)
		cnt := runFault(fl, w, faultSpec{Level: "count", CountKV: level == "errkv"}, nil)
		if cnt.Inconclusive != "" {
			r.Inconclusive(fmt.Sprintf("%s workload %d counting run: %s", fl.name, wn, cnt.Inconclusive))
			continue
		}
		if cnt.VioKey != "" {
			r.Violation(cnt.VioKey, fl.name+" (fault-free counting run): "+cnt.VioWhat,
				map[string]interface{}{"flavour": fl.name, "workload": wn, "ops": w.opStrings()})
			continue
		}
		n := cnt.N
		r.Max("max_fault_points_per_workload", n)
		r.Count("workloads", 1)
		r.Count("workload_saves", int64(w.Saves))
		take := map[int64]bool{}
		if r.Thorough() || int(n) <= perW {
			for k := int64(1); k <= n; k++ {
				take[k] = true
			}
		} else {
			all = false
			stride := (n + int64(perW) - 1) / int64(perW)
			off := (r.Seed + int64(wn)) % stride
			for k := 1 + off; k <= n; k += stride {
				take[k] = true
			}
			// every operation of the last SaveRaftState
			for i := len(w.Ops) - 1; i >= 0; i-- {
				if w.Ops[i].Kind == "save" && i < len(cnt.Spans) {
					for k := cnt.Spans[i][0] + 1; k <= cnt.Spans[i][1]; k++ {
						take[k] = true
					}
					break
				}
			}
		}
		for k := int64(1); k <= n; k++ {
			if take[k] {
				cases = append(cases, faultCase{w, k, false})
				if level == "crash" {
					cases = append(cases, faultCase{w, k, true})
				}
			}
		}
	}
	return cases, all
}

func faultWitness(fl flavour, c faultCase, level string, res faultResult) map[string]interface{} {
	return map[string]interface{}{
		"flavour": fl.name, "workload": c.w.No, "level": level, "k": c.k, "torn": c.torn, "ops": c.w.opStrings(),
		"tan_max_log_file_size": c.w.LogSize, "pebble_memtable": c.w.WBuf, "result": res,
	}
}

// modeCrash: power loss at mutating FS operation k of a workload.
func modeCrash(r *common.Run, fl flavour) {
	r.SetRule("a case is (workload, k): the workload (26 calls: SaveRaftState with appends/overwrites/state-only/received snapshots, SaveSnapshots, RemoveEntriesTo, " +
		"CompactEntriesTo, SaveBootstrapInfo, sometimes close+reopen) is replayed and at its k-th mutating file-system operation the strict in-memory FS stops honouring syncs; " +
		"after the call in flight returns the store is closed, unsynced state dropped, the store reopened and compared with the model; " +
		"non-trivial = the power loss hit inside an API call with at least one earlier acknowledged call; distinct by (workload hash, k)")
	r.Assume("power loss = everything not yet fsynced (file data) / dir-synced (directory entries) is lost (lni/vfs StrictMem); every crash point is run a second time with torn tails (diagnostic only, beyond the fault model of C10, never a violation): " +
		"of the data appended to a file since its last sync each 512-byte sector independently reaches the disk or reads as zeros; synced data is never damaged")
	r.Assume("Pebble's background flushes/compactions make the numbering of file-system operations slightly schedule dependent: the site actually hit is recorded")
	if *flagDbg != "" {
		var wn int
		var k int64
		var torn bool
		fmt.Sscanf(*flagDbg, "%d,%d,%t", &wn, &k, &torn)
		w := genWorkload(r.Seed, fl, wn, workloadOps)
		debugKeepFS = true
		res := runFault(fl, w, faultSpec{Level: "crash", K: k, Torn: torn}, func(s string) { fmt.Println("progress:", s) })
		fmt.Printf("%+v\n", res)
		fmt.Println(debugFS.inner.String())
		r.Case(true, "dbg")
		return
	}
	cases, all := faultPoints(r, fl, "crash", r.Pick(16, 60), 1<<30)
	reachedAll := true
	for _, ci := range r.MyCases(len(cases)) {
		c := cases[ci]
		if replayOf != nil && (c.w.No != replayOf.Workload || c.k != replayOf.K || c.torn != replayOf.Torn) {
			continue
		}
		res := runFault(fl, c.w, faultSpec{Level: "crash", K: c.k, Torn: c.torn}, nil)
		if res.Inconclusive != "" {
			r.Inconclusive(fmt.Sprintf("%s workload %d k %d: %s", fl.name, c.w.No, c.k, res.Inconclusive))
			r.Case(false, "")
			continue
		}
		if !res.Reached {
			reachedAll = false
			r.Count("fault_point_not_reached", 1)
			r.Case(false, "")
			continue
		}
		r.Count("crash_site:"+res.HitKind+":"+res.HitClass, 1)
		if res.HitCall >= 0 {
			r.Count("in_flight:"+res.HitAPI, 1)
		} else {
			r.Count("in_flight:none(background)", 1)
		}
		if res.Verified {
			r.Count("recoveries_compared", 1)
		}
		r.Count("acknowledged_calls_checked", int64(res.Acked))
		r.Case(res.HitCall >= 0 && res.Acked >= 1 && res.Verified, common.Hash(c.w.Hash, c.k, c.torn))
		if c.torn {
			r.Count("power_loss_with_torn_unsynced_tail", 1)
			r.Count("torn_files", int64(res.TornFiles))
		}
		if res.VioKey != "" && c.torn {
			// C10 quantifies over crashes in which all unsynced data is dropped; a
			// torn unsynced tail is a stronger disk model than the property states,
			// what it finds is recorded as a diagnostic, never as a violation
			r.Count("diagnostic_beyond_the_property_fault_model:torn-tail:"+res.VioKey, 1)
		} else if res.VioKey != "" {
			how := "all unsynced data dropped"
			r.Violation(res.VioKey, fmt.Sprintf("power loss (%s) at FS op %d (%s %s) during %s of workload %d: %s", how, c.k, res.HitKind, res.HitClass,
				res.HitAPI, c.w.No, res.VioWhat), faultWitness(fl, c, "crash", res))
		}
		if r.WantSample() && res.HitCall >= 0 && res.Acked > 3 {
			r.Sample(map[string]interface{}{"flavour": fl.name, "workload": c.w.No, "k": c.k, "site": res.HitKind + " " + res.HitClass,
				"in_flight": c.w.Ops[res.HitCall].String(), "acknowledged_calls": res.Acked})
		}
		if ci%100 == 0 {
			r.Flush()
		}
	}
	r.SetExhaustive(all && reachedAll && len(cases) > 0)
}
