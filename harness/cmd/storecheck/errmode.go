package main

import (
	"bufio"
	"context"
	"encoding/json"
	"fmt"
	"os"
	"os/exec"
	"path/filepath"
	"strings"
	"time"

	"github.com/lni/dragonboat/v4/verifh/common"
)

// Error injection runs each fault in a child process: Pebble reacts to a
// failed WAL write / sync with Fatalf (a panic in whatever goroutine noticed
// it), Tan panics in its sync goroutine; both take the process down, which is
// the loud failure the property asks for.

type childSpec struct {
	Flavour  string    `json:"flavour"`
	Seed     int64     `json:"seed"`
	Workload int       `json:"workload"`
	Spec     faultSpec `json:"spec"`
	Result   string    `json:"result"`
	Progress string    `json:"progress"`
}

// childMain is the entry point of a child process (-child=<spec file>).
func childMain() {
	var path string
	for _, a := range os.Args[1:] {
		if strings.HasPrefix(a, "-child=") {
			path = strings.TrimPrefix(a, "-child=")
		}
	}
	b, err := os.ReadFile(path)
	if err != nil {
		fmt.Fprintln(os.Stderr, "child: ", err)
		os.Exit(3)
	}
	var cs childSpec
	if err := json.Unmarshal(b, &cs); err != nil {
		fmt.Fprintln(os.Stderr, "child: ", err)
		os.Exit(3)
	}
	fl := flavours[cs.Flavour]
	w := genWorkload(cs.Seed, fl, cs.Workload, workloadOps)
	pf, err := os.OpenFile(cs.Progress, os.O_CREATE|os.O_WRONLY|os.O_TRUNC, 0o644)
	if err != nil {
		fmt.Fprintln(os.Stderr, "child: ", err)
		os.Exit(3)
	}
	progress := func(s string) { _, _ = pf.WriteString(s + "\n") }
	res := runFault(fl, w, cs.Spec, progress)
	progress("finished")
	rb, _ := json.Marshal(res)
	tmp := cs.Result + ".tmp"
	if err := os.WriteFile(tmp, rb, 0o644); err == nil {
		_ = os.Rename(tmp, cs.Result)
	}
	os.Exit(0)
}

type childOutcome struct {
	res      *faultResult
	died     bool
	timedOut bool
	exit     int
	progress []string
	stderr   string
}

func runChild(r *common.Run, cs childSpec, scratch string) childOutcome {
	tag := fmt.Sprintf("%s.%s.b%d", r.Prop, r.Mode, r.Batch)
	specPath := filepath.Join(scratch, tag+".child-spec.json")
	cs.Result = filepath.Join(scratch, tag+".child-result.json")
	cs.Progress = filepath.Join(scratch, tag+".child-progress.txt")
	_ = os.Remove(cs.Result)
	_ = os.Remove(cs.Progress)
	b, _ := json.Marshal(cs)
	_ = os.WriteFile(specPath, b, 0o644)
	exe, err := os.Executable()
	if err != nil {
		exe = os.Args[0]
	}
	ctx, cancel := context.WithTimeout(context.Background(), 90*time.Second)
	defer cancel()
	cmd := exec.CommandContext(ctx, exe, "-child="+specPath)
	var errb strings.Builder
	cmd.Stderr = &tailWriter{sb: &errb, max: 6000}
	cmd.Stdout = cmd.Stderr
	runErr := cmd.Run()
	var out childOutcome
	out.stderr = errb.String()
	if ctx.Err() != nil {
		out.timedOut = true
	}
	if runErr != nil {
		out.died = true
		if ee, ok := runErr.(*exec.ExitError); ok {
			out.exit = ee.ExitCode()
		} else {
			out.exit = -1
		}
	}
	if f, err := os.Open(cs.Progress); err == nil {
		sc := bufio.NewScanner(f)
		for sc.Scan() {
			out.progress = append(out.progress, sc.Text())
		}
		f.Close()
	}
	if rb, err := os.ReadFile(cs.Result); err == nil {
		var res faultResult
		if json.Unmarshal(rb, &res) == nil {
			out.res = &res
		}
	}
	return out
}

// tailWriter keeps the last max bytes.
type tailWriter struct {
	sb  *strings.Builder
	max int
}

func (t *tailWriter) Write(p []byte) (int, error) {
	t.sb.Write(p)
	if t.sb.Len() > 2*t.max {
		s := t.sb.String()
		t.sb.Reset()
		t.sb.WriteString(s[len(s)-t.max:])
	}
	return len(p), nil
}

func scratchDir(r *common.Run) string {
	if r.OutPath != "" {
		return filepath.Dir(r.OutPath)
	}
	d := "/verif/.build/parts"
	_ = os.MkdirAll(d, 0o755)
	return d
}

// modeErr: an error injected at the k-th mutating FS operation (level errfs)
// or at the j-th kv.IKVStore call (level errkv) of a workload.
func modeErr(r *common.Run, fl flavour, level string) {
	what := "mutating file-system operation"
	if level == "errkv" {
		what = "kv.IKVStore call (GetValue, IterateValue, SaveValue, DeleteValue, CommitWriteBatch, BulkRemoveEntries, CompactEntries)"
	}
	r.SetRule("a case is (workload, k): the workload (26 ILogDB calls) is replayed in a child process and its k-th " + what + " returns an injected error; " +
		"the run stops at the first call that returns an error or panics (or the process dies), then power is lost, the store is reopened and compared with the model: " +
		"every call that returned nil - in particular the call during which the error was injected and every later one - must be completely readable, the failed call is per replica all-or-nothing; " +
		"non-trivial = the error was injected while an API call was in flight; distinct by (workload hash, k)")
	r.Assume("a call that returns nil after an injected error is a violation only if what it acknowledged is not readable after power loss + reopen (the failed operation may have belonged to background work that is retried)")
	r.Assume("when the process dies (Pebble Fatalf, Tan panic in its sync goroutine) the in-memory file system dies with it: that outcome counts as the loud failure required, durability of earlier acknowledgements is the crash mode's business")
	scratch := scratchDir(r)
	nW := r.Pick(4, 16)
	if level == "errkv" {
		nW = r.Pick(8, 40)
	}
	cases, all := faultPoints(r, fl, level, nW, 100)
	reachedAll := true
	for _, ci := range r.MyCases(len(cases)) {
		c := cases[ci]
		if replayOf != nil && (c.w.No != replayOf.Workload || c.k != replayOf.K) {
			continue
		}
		cs := childSpec{Flavour: fl.name, Seed: r.Seed, Workload: c.w.No, Spec: faultSpec{Level: level, K: c.k}}
		out := runChild(r, cs, scratch)
		wit := func() map[string]interface{} {
			m := map[string]interface{}{"flavour": fl.name, "workload": c.w.No, "level": level, "k": c.k, "ops": c.w.opStrings(),
				"tan_max_log_file_size": c.w.LogSize, "pebble_memtable": c.w.WBuf, "child_progress": out.progress, "child_exit": out.exit}
			if out.res != nil {
				m["result"] = out.res
			}
			if out.died {
				m["child_output_tail"] = out.stderr
			}
			return m
		}
		// where did the fault hit, according to the progress file
		hit, hitSite, hitCur := false, "", -1
		lastStart, lastRet := -1, -1
		lastAPI := ""
		for _, ln := range out.progress {
			f := strings.Fields(ln)
			switch {
			case len(f) >= 4 && f[0] == "hit":
				hit = true
				hitSite = f[1] + ":" + f[2]
				fmt.Sscanf(f[3], "cur=%d", &hitCur)
			case len(f) >= 3 && f[0] == "start":
				fmt.Sscanf(f[1], "%d", &lastStart)
				lastAPI = f[2]
			case len(f) >= 3 && f[0] == "ret":
				fmt.Sscanf(f[1], "%d", &lastRet)
			}
		}
		if out.timedOut {
			r.Inconclusive(fmt.Sprintf("%s workload %d k %d: child process did not finish in 90 s (progress: %v)", fl.name, c.w.No, c.k, tail(out.progress, 3)))
			r.Case(false, "")
			continue
		}
		if out.res == nil {
			// the process died
			if !hit {
				r.Case(false, "")
				r.Violation(fl.name+":process-died-without-fault", fmt.Sprintf("%s: child process died (exit %d) before any fault was injected, during %s", fl.name, out.exit, lastAPI), wit())
				continue
			}
			r.Count("injected:"+hitSite, 1)
			if lastStart > lastRet {
				r.Count("outcome:process-died-during-"+lastAPI, 1)
			} else {
				r.Count("outcome:process-died-between-calls", 1)
			}
			if hitCur >= 0 && lastRet >= hitCur {
				// the call in flight at the injection had returned before the death
				r.Count("call_in_flight_returned_nil_then_process_died_later", 1)
			}
			r.Case(hitCur >= 0, common.Hash(c.w.Hash, level, c.k))
			continue
		}
		res := out.res
		if res.Inconclusive != "" {
			r.Inconclusive(fmt.Sprintf("%s workload %d k %d: %s", fl.name, c.w.No, c.k, res.Inconclusive))
			r.Case(false, "")
			continue
		}
		if !res.Reached {
			if res.VioKey != "" {
				r.Violation(res.VioKey, fl.name+": "+res.VioWhat, wit())
			}
			reachedAll = false
			r.Count("fault_point_not_reached", 1)
			r.Case(false, "")
			continue
		}
		r.Count("injected:"+res.HitKind+":"+res.HitClass, 1)
		api := "none(background)"
		if res.HitCall >= 0 {
			api = res.HitAPI
		}
		r.Count("in_flight:"+api, 1)
		r.Count("outcome:"+res.Outcome, 1)
		if res.HitCall >= 0 && res.Stopped > res.HitCall {
			r.Count("call_in_flight_returned_nil", 1)
		}
		if res.Verified {
			r.Count("recoveries_compared", 1)
		}
		r.Case(res.HitCall >= 0, common.Hash(c.w.Hash, level, c.k))
		if res.VioKey != "" {
			key := res.VioKey
			swallowed := res.HitCall >= 0 && res.Stopped > res.HitCall
			if swallowed && (strings.Contains(key, ":after-crash:") || strings.Contains(key, ":recovery:")) &&
				!strings.Contains(key, "log-file-closed-without-fsync") {
				// the call in flight reported success and what it acknowledged (or an
				// earlier acknowledgement it destroyed) is not there
				// (the sharded Pebble store shares db.go between both entry formats)
				key = fmt.Sprintf("pebble:error-swallowed:%s:%s", res.HitAPI, res.HitClass)
				if level == "errfs" {
					key = fmt.Sprintf("%s:error-swallowed:%s:%s-%s", fl.name, res.HitAPI, res.HitKind, res.HitClass)
				}
			}
			r.Violation(key, fmt.Sprintf("%s: error injected at %s %d (%s %s) during %s of workload %d; outcome of the run: %s; %s", fl.name,
				map[string]string{"errfs": "FS op", "errkv": "KV call"}[level], c.k, res.HitKind, res.HitClass, api, c.w.No, res.Outcome, res.VioWhat), wit())
		}
		if r.WantSample() && res.HitCall >= 0 {
			r.Sample(map[string]interface{}{"flavour": fl.name, "workload": c.w.No, "k": c.k, "injected_at": res.HitKind + " " + res.HitClass,
				"in_flight": c.w.Ops[res.HitCall].String(), "outcome": res.Outcome, "outcome_msg": res.OutMsg})
		}
		if ci%50 == 0 {
			r.Flush()
		}
	}
	r.SetExhaustive(all && reachedAll && len(cases) > 0)
}

func tail(s []string, n int) []string {
	if len(s) > n {
		return s[len(s)-n:]
	}
	return s
}

func modeErrFS(r *common.Run, fl flavour) { modeErr(r, fl, "errfs") }
func modeErrKV(r *common.Run, fl flavour) {
	if fl.tan {
		fmt.Fprintln(os.Stderr, "errkv applies to the Pebble flavours only")
		os.Exit(2)
	}
	modeErr(r, fl, "errkv")
}
