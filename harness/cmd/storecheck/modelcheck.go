package main

import (
	"fmt"
	"math/rand"
	"strings"

	"github.com/lni/dragonboat/v4/internal/tan"
	"github.com/lni/dragonboat/v4/raftio"
	pb "github.com/lni/dragonboat/v4/raftpb"
	"github.com/lni/dragonboat/v4/verifh/common"
)

// seq runs one operation sequence against one store and its reference model.
type seq struct {
	r      *common.Run
	fl     flavour
	fs     *crashFS
	db     raftio.ILogDB
	m      *model
	rng    *rand.Rand
	caseNo int
	label  string
	wbuf   uint64
	big    int
	hazard bool

	ops     []string
	retired map[nodeID]bool // RemoveNodeData'd in this process (since the last reopen)
	reused  map[nodeID]bool // ... and written to again in the same process (hazard sequences only)
	shared  []op            // RemoveNodeData/ImportSnapshot calls that hit a multiplexed db shared with others
	failed  bool
	quiet   bool // generation only: no evidence counters

	nOverwrite, nShorter, nRemoveTo, nReopen, nStraddle int
}

func (s *seq) open() error {
	db, err := openStore(s.fl, s.fs.view(), s.wbuf, nil)
	if err != nil {
		return err
	}
	s.db = db
	return nil
}

func (s *seq) reopen() error {
	if err := s.db.Close(); err != nil {
		return fmt.Errorf("Close: %w", err)
	}
	s.db = nil
	s.retired = map[nodeID]bool{}
	s.reused = map[nodeID]bool{}
	return s.open()
}

func (s *seq) witness(step int, detail string) map[string]interface{} {
	return map[string]interface{}{
		"flavour": s.fl.name, "case": s.caseNo, "label": s.label, "step": step,
		"ops": s.ops, "detail": detail, "hazard_sequence": s.hazard,
	}
}

// keyFor gives the stable witness key of a discrepancy; consequences of the
// two in-process hazards (reuse of a node id after RemoveNodeData; removal or
// import on a node whose multiplexed Tan db is shared) get their own keys.
func (s *seq) keyFor(d *discrepancy) string {
	for i := len(s.shared) - 1; i >= 0; i-- {
		if w := s.shared[i]; d.Node != w.Node && groupOf(d.Node) == groupOf(w.Node) {
			name := "RemoveNodeData"
			if w.Kind != "removenode" {
				name = "ImportSnapshot"
			}
			return s.fl.name + ":" + name + "-destroys-other-node"
		}
	}
	if s.reused[d.Node] {
		fam := s.fl.name
		if !s.fl.tan {
			fam = "pebble"
		}
		kind := d.Check + "-" + d.Kind
		switch {
		case d.Check == "ReadRaftState" && (d.Kind == "saved-state-missing" || d.Kind == "state-mismatch"):
			kind = "state-skipped"
		case d.Check == "GetSnapshot" && d.Kind == "not-newest":
			kind = "snapshot-skipped"
		}
		return fam + ":cache-stale-after-RemoveNodeData:" + kind
	}
	return s.fl.family() + ":" + d.Check + ":" + d.Kind
}

// guarded runs f, turning a panic of the store into a violation.
func (s *seq) guarded(step int, what string, f func() error) (err error) {
	defer func() {
		if p := recover(); p != nil {
			s.failed = true
			msg := normPanic(p)
			s.r.Violation(s.fl.family()+":panic:"+msg, fmt.Sprintf("%s panicked during %s: %v", s.fl.name, what, firstLine(p)),
				s.witness(step, fmt.Sprintf("panic during %s: %v", what, p)))
			err = fmt.Errorf("panic")
		}
	}()
	return f()
}

func firstLine(v interface{}) string {
	t := fmt.Sprint(v)
	if i := strings.IndexByte(t, '\n'); i >= 0 {
		t = t[:i]
	}
	if len(t) > 300 {
		t = t[:300]
	}
	return t
}

func (s *seq) randomQueries(nm *nodeModel) []query {
	if nm.last <= nm.floor {
		return nil
	}
	span := nm.last - nm.floor
	n := 2 + s.rng.Intn(2)
	qs := make([]query, 0, n)
	for i := 0; i < n; i++ {
		low := nm.floor + 1 + uint64(s.rng.Int63n(int64(span)+1)) // up to last+1
		var high uint64
		switch s.rng.Intn(5) {
		case 0:
			high = low + 1
		case 1:
			high = nm.last + 1 + uint64(s.rng.Intn(60)) // beyond the logical end
		default:
			high = low + uint64(s.rng.Int63n(int64(nm.last+2-low)+1))
		}
		if high < low {
			high = low
		}
		var max uint64
		switch s.rng.Intn(4) {
		case 0:
			max = uint64(1 + s.rng.Intn(200))
		case 1:
			max = uint64(1 + s.rng.Intn(4000))
		case 2:
			// exactly the size of a prefix, or one byte less
			k := 1 + s.rng.Intn(6)
			for _, e := range nm.slice(low, low+uint64(k)) {
				max += uint64(e.SizeUpperLimit())
			}
			if max > 1 && s.rng.Intn(2) == 0 {
				max--
			}
			if max == 0 {
				max = 1
			}
		default:
			max = ^uint64(0)
		}
		qs = append(qs, query{low, high, max})
	}
	return qs
}

// checkAll compares every replica with the model.
func (s *seq) checkAll(step int, after string) bool {
	var d *discrepancy
	nq := 0
	err := s.guarded(step, "queries after "+after, func() error {
		for _, id := range allNodes {
			nm := s.m.nodes[id]
			qs := s.randomQueries(nm)
			nq += len(qs) + 1
			if d = checkNode(s.db, id, nm, qs); d != nil {
				return nil
			}
		}
		d = checkNodeList(s.db, s.m)
		return nil
	})
	s.r.Count("queries_iterate", int64(nq))
	s.r.Count("node_comparisons", int64(len(allNodes)))
	if err != nil {
		return false
	}
	if d != nil {
		s.failed = true
		s.r.Violation(s.keyFor(d), fmt.Sprintf("%s after %s: %s", s.fl.name, after, d.String()), s.witness(step, d.String()))
		return false
	}
	return true
}

// exec performs one op on store and model and compares afterwards.
func (s *seq) exec(step int, o op) bool {
	s.ops = append(s.ops, o.String())
	s.r.Count("op_"+o.Kind, 1)
	var err error
	switch o.Kind {
	case "reopen":
		s.nReopen++
		err = s.guarded(step, "reopen", s.reopen)
	case "import":
		s.nReopen += 2
		err = s.guarded(step, o.String(), func() error {
			if err := s.reopen(); err != nil {
				return err
			}
			if err := applyToStore(s.db, o); err != nil {
				return err
			}
			return s.reopen()
		})
	default:
		err = s.guarded(step, o.String(), func() error { return applyToStore(s.db, o) })
	}
	if s.failed {
		return false
	}
	if err == errCompactionTimeout {
		s.failed = true
		s.r.Inconclusive(fmt.Sprintf("%s case %d: %v", s.fl.name, s.caseNo, err))
		return false
	}
	if err != nil {
		s.failed = true
		s.r.Violation(s.fl.family()+":error:"+o.Kind, fmt.Sprintf("%s: %s returned an error on a legal input without any injected fault: %v", s.fl.name, o.Kind, err),
			s.witness(step, err.Error()))
		return false
	}
	applyToModel(s.m, o)
	switch o.Kind {
	case "save", "snapshots":
		for _, ud := range o.Updates {
			if id := (nodeID{ud.ShardID, ud.ReplicaID}); s.retired[id] {
				s.reused[id] = true
			}
		}
	case "bootstrap", "removeto", "compact":
		if s.retired[o.Node] {
			s.reused[o.Node] = true
		}
	}
	switch o.Kind {
	case "removenode":
		s.retired[o.Node] = true
		delete(s.reused, o.Node)
	case "removeto":
		s.nRemoveTo++
	case "save":
		if o.overwrite {
			s.nOverwrite++
			s.r.Count("overwrites", 1)
		}
		if o.shorter {
			s.nShorter++
			s.r.Count("overwrites_with_shorter_suffix", 1)
		}
		if o.straddle {
			s.nStraddle++
			s.r.Count("saves_straddling_batch_boundary", 1)
		}
		if o.recvSnap {
			s.r.Count("saves_with_received_snapshot", 1)
		}
	}
	if (o.Kind == "removenode" || o.Kind == "import") && s.fl.multiplexed {
		for _, id := range allNodes {
			if id != o.Node && groupOf(id) == groupOf(o.Node) {
				s.shared = append(s.shared, o)
				break
			}
		}
	}
	return s.checkAll(step, o.String())
}

func (s *seq) hasData(id nodeID) bool {
	nm := s.m.nodes[id]
	return nm.last > 0 || !pb.IsEmptyState(nm.state) || nm.boot != nil || nm.snap.Index > 0
}

// usable: a replica id removed in this process is not reused before the next
// reopen except in hazard sequences.
func (s *seq) usable(id nodeID) bool { return s.hazard || !s.retired[id] }

// mayWipe: RemoveNodeData / ImportSnapshot on a replica whose multiplexed Tan
// db is shared with other replicas is generated in hazard sequences only.
func (s *seq) mayWipe(id nodeID) bool {
	if !s.fl.multiplexed || s.hazard {
		return true
	}
	for _, o := range allNodes {
		if o != id && groupOf(o) == groupOf(id) {
			return false
		}
	}
	return true
}

func (s *seq) pick(pred func(nodeID) bool) (nodeID, bool) {
	var c []nodeID
	for _, id := range allNodes {
		if pred(id) {
			c = append(c, id)
		}
	}
	if len(c) == 0 {
		return nodeID{}, false
	}
	return c[s.rng.Intn(len(c))], true
}

// genOp draws the next legal op from the PRNG and the model state.
func (s *seq) genOp() op {
	for {
		x := s.rng.Intn(100)
		switch {
		case x < 56: // SaveRaftState for 1-3 replicas of one step worker
			first, ok := s.pick(s.usable)
			if !ok {
				return op{Kind: "reopen"}
			}
			o := op{Kind: "save"}
			for _, id := range allNodes {
				if groupOf(id) != groupOf(first) || !s.usable(id) {
					continue
				}
				if id != first && s.rng.Intn(2) == 0 {
					continue
				}
				nm := s.m.nodes[id].clone() // genUpdate only advances the term bookkeeping
				ud := genUpdate(s.rng, id, nm, &o, s.big)
				s.m.nodes[id].term = nm.term
				if pb.IsEmptyState(ud.State) && pb.IsEmptySnapshot(ud.Snapshot) && len(ud.EntriesToSave) == 0 {
					continue
				}
				o.Updates = append(o.Updates, ud)
			}
			if len(o.Updates) == 0 {
				continue
			}
			return o
		case x < 66: // SaveSnapshots: the replica's own snapshot at an applied (<= commit) index
			id, ok := s.pick(func(id nodeID) bool {
				nm := s.m.nodes[id]
				return s.usable(id) && nm.state.Commit > nm.snap.Index && nm.state.Commit > nm.floor
			})
			if !ok {
				continue
			}
			nm := s.m.nodes[id]
			lo := nm.snap.Index
			if nm.floor > lo {
				lo = nm.floor
			}
			idx := lo + 1 + uint64(s.rng.Int63n(int64(nm.state.Commit-lo)))
			o := op{Kind: "snapshots", Node: id}
			o.Updates = []pb.Update{{ShardID: id.Shard, ReplicaID: id.Replica, Snapshot: mkSnapshot(s.rng, id, idx, termAt(nm, idx))}}
			if nm.snap.Index > 1 && s.rng.Intn(8) == 0 {
				// a stale record (lower index) in the same call: must not replace the newest
				st := 1 + uint64(s.rng.Int63n(int64(nm.snap.Index-1)))
				o.Updates = append([]pb.Update{{ShardID: id.Shard, ReplicaID: id.Replica, Snapshot: mkSnapshot(s.rng, id, st, 1)}}, o.Updates...)
				o.staleSnaps = true
				if !s.quiet {
					s.r.Count("stale_snapshot_records_offered", 1)
				}
			}
			return o
		case x < 75: // RemoveEntriesTo at or below the snapshot index
			id, ok := s.pick(func(id nodeID) bool {
				nm := s.m.nodes[id]
				return s.usable(id) && nm.snap.Index > nm.floor
			})
			if !ok {
				continue
			}
			nm := s.m.nodes[id]
			idx := nm.floor + 1 + uint64(s.rng.Int63n(int64(nm.snap.Index-nm.floor)))
			return op{Kind: "removeto", Node: id, Index: idx}
		case x < 79:
			id, ok := s.pick(func(id nodeID) bool { return s.usable(id) && s.m.nodes[id].floor > 0 })
			if !ok {
				continue
			}
			return op{Kind: "compact", Node: id, Index: s.m.nodes[id].floor}
		case x < 82:
			id, ok := s.pick(func(id nodeID) bool { return s.usable(id) && s.hasData(id) && s.mayWipe(id) })
			if !ok {
				continue
			}
			return op{Kind: "removenode", Node: id}
		case x < 87:
			id, ok := s.pick(s.usable)
			if !ok {
				continue
			}
			bs := pb.Bootstrap{Join: s.rng.Intn(2) == 0, Type: pb.StateMachineType(1 + s.rng.Intn(3))}
			if !bs.Join {
				bs.Addresses = map[uint64]string{1: "a1:1", 2: fmt.Sprintf("a2:%d", s.rng.Intn(1000))}
			}
			return op{Kind: "bootstrap", Node: id, Boot: bs}
		case x < 90:
			id, ok := s.pick(func(id nodeID) bool { return s.mayWipe(id) })
			if !ok {
				continue
			}
			nm := s.m.nodes[id]
			idx := uint64(1 + s.rng.Intn(200))
			if s.rng.Intn(2) == 0 && nm.last > 0 {
				idx = nm.last + uint64(s.rng.Intn(20))
			}
			if nm.term == 0 {
				nm.term = 1
			}
			ss := mkSnapshot(s.rng, id, idx, nm.term+uint64(s.rng.Intn(2)))
			ss.Imported = true
			return op{Kind: "import", Node: id, Snap: ss}
		default:
			return op{Kind: "reopen"}
		}
	}
}

func (s *seq) finish() {
	if s.db != nil {
		func() {
			defer func() { _ = recover() }()
			_ = s.db.Close()
		}()
	}
}

func newSeq(r *common.Run, fl flavour, caseNo int, label string, rng *rand.Rand) *seq {
	s := &seq{r: r, fl: fl, fs: newCrashFS(), m: newModel(allNodes), rng: rng, caseNo: caseNo, label: label,
		retired: map[nodeID]bool{}, reused: map[nodeID]bool{}}
	// Tan log-file size (rollover) and Pebble memtable size (flushes) per case
	sizes := []int64{1500, 6000, 40000, 300000}
	sz := sizes[rng.Intn(len(sizes))]
	s.big = int(sz)
	if s.big > 8000 {
		s.big = 8000
	}
	if fl.tan {
		tan.VerifSetMaxLogFileSize(sz)
		s.wbuf = 64 * 1024
	} else {
		s.wbuf = []uint64{256 * 1024, 1024 * 1024}[rng.Intn(2)]
	}
	return s
}

// runModelCase runs random sequence caseNo.
func runModelCase(r *common.Run, fl flavour, caseNo int, nOps int) {
	rng := r.Rand("model-"+fl.name, caseNo)
	s := newSeq(r, fl, caseNo, "random", rng)
	s.hazard = caseNo%8 == 7
	defer s.finish()
	if err := s.guarded(0, "open", s.open); err != nil {
		if !s.failed {
			r.Violation(fl.family()+":error:open", fmt.Sprintf("%s: cannot open an empty store: %v", fl.name, err), s.witness(0, err.Error()))
		}
		r.Case(false, "")
		return
	}
	for step := 0; step < nOps; step++ {
		if !s.exec(step, s.genOp()) {
			break
		}
	}
	if !s.failed && s.nReopen == 0 {
		s.exec(nOps, op{Kind: "reopen"})
	}
	nontrivial := s.nOverwrite > 0 && s.nRemoveTo > 0 && s.nReopen > 0
	r.Case(nontrivial, common.Hash(strings.Join(s.ops, "\n")))
	if s.hazard {
		r.Count("hazard_sequences", 1)
	}
	if r.WantSample() && nontrivial {
		ops := s.ops
		if len(ops) > 25 {
			ops = ops[:25]
		}
		r.Sample(map[string]interface{}{"flavour": fl.name, "case": caseNo, "first_ops": ops, "n_ops": len(s.ops)})
	}
}
