package main

import (
	"fmt"
	"math/rand"
	"strings"

	"github.com/lni/dragonboat/v4/internal/tan"
	pb "github.com/lni/dragonboat/v4/raftpb"
	"github.com/lni/dragonboat/v4/verifh/common"
)

// Scripted sequences: exact op lists that decide the candidate defects of
// DESIGN.md section 3 (5: multiplexed Tan removeAllLocked deletes the log files
// of the other replicas sharing the db; 6: logdb cache not cleared by
// RemoveNodeData). They run in every flavour (the flavours that are not
// concerned are the controls) as the first cases of the model mode, so that a
// confirmed defect is reported by every run under the same key.

type scenario struct {
	name    string
	logSize int64 // Tan max log file size (0: the 64 MB default)
	build   func(rng *rand.Rand) []op
}

func fixedEntries(rng *rand.Rand, first, n, term uint64, cmd int) []pb.Entry {
	out := make([]pb.Entry, 0, n)
	for i := uint64(0); i < n; i++ {
		c := make([]byte, cmd)
		rng.Read(c)
		out = append(out, pb.Entry{Index: first + i, Term: term, Cmd: c})
	}
	return out
}

func saveOp(uds ...pb.Update) op { return op{Kind: "save", Updates: uds} }

func ud(id nodeID, st pb.State, ents []pb.Entry) pb.Update {
	return pb.Update{ShardID: id.Shard, ReplicaID: id.Replica, State: st, EntriesToSave: ents}
}

func snapOp(rng *rand.Rand, id nodeID, index, term uint64) op {
	return op{Kind: "snapshots", Node: id, Updates: []pb.Update{{ShardID: id.Shard, ReplicaID: id.Replica,
		Snapshot: mkSnapshot(rng, id, index, term)}}}
}

func bootOp(id nodeID) op {
	return op{Kind: "bootstrap", Node: id, Boot: pb.Bootstrap{Type: pb.RegularStateMachine,
		Addresses: map[uint64]string{1: "a1:1", 2: "a2:2"}}}
}

var (
	nA = nodeID{1, 1}
	nB = nodeID{17, 1}
)

var scenarios = []scenario{
	{
		// candidate 6, hard state: the same (shard, replica) is used again after
		// RemoveNodeData in the same process and saves a hard state equal to the
		// one it had before the removal.
		name: "reuse-after-RemoveNodeData:equal-state", logSize: 6000,
		build: func(rng *rand.Rand) []op {
			st := pb.State{Term: 2, Vote: 1, Commit: 3}
			return []op{
				bootOp(nA),
				saveOp(ud(nA, st, fixedEntries(rng, 1, 5, 2, 16))),
				snapOp(rng, nA, 3, 2),
				{Kind: "removenode", Node: nA},
				bootOp(nA),
				saveOp(ud(nA, st, nil)),
				saveOp(ud(nA, pb.State{}, fixedEntries(rng, 1, 5, 2, 16))),
				{Kind: "reopen"},
			}
		},
	},
	{
		// candidate 6, snapshot record: after RemoveNodeData the same replica id
		// saves a snapshot record with an index lower than the removed one.
		name: "reuse-after-RemoveNodeData:lower-snapshot", logSize: 6000,
		build: func(rng *rand.Rand) []op {
			return []op{
				bootOp(nA),
				saveOp(ud(nA, pb.State{Term: 2, Vote: 1, Commit: 5}, fixedEntries(rng, 1, 5, 2, 16))),
				snapOp(rng, nA, 4, 2),
				{Kind: "removenode", Node: nA},
				bootOp(nA),
				saveOp(ud(nA, pb.State{Term: 3, Vote: 2, Commit: 3}, fixedEntries(rng, 1, 4, 3, 16))),
				snapOp(rng, nA, 2, 3),
				{Kind: "reopen"},
			}
		},
	},
	{
		// the replica comes back after RemoveNodeData (in the same process, and after a reopen) and
		// is brought up by a snapshot whose index lies inside the log it had before the removal:
		// nothing of that log may be reported again
		name: "reuse-after-RemoveNodeData:snapshot-inside-the-old-log", logSize: 6000,
		build: func(rng *rand.Rand) []op {
			ss := mkSnapshot(rng, nA, 50, 3)
			recv := ud(nA, pb.State{Term: 3, Vote: 2, Commit: 50}, fixedEntries(rng, 51, 2, 3, 16))
			recv.Snapshot = ss
			return []op{
				bootOp(nA),
				saveOp(ud(nA, pb.State{Term: 1, Vote: 1, Commit: 60}, fixedEntries(rng, 1, 60, 1, 16))),
				{Kind: "removenode", Node: nA},
				bootOp(nA),
				saveOp(recv),
				{Kind: "reopen"},
			}
		},
	},
	{
		name: "reuse-after-RemoveNodeData-and-reopen:snapshot-inside-the-old-log", logSize: 6000,
		build: func(rng *rand.Rand) []op {
			ss := mkSnapshot(rng, nA, 50, 3)
			recv := ud(nA, pb.State{Term: 3, Vote: 2, Commit: 50}, fixedEntries(rng, 51, 2, 3, 16))
			recv.Snapshot = ss
			return []op{
				bootOp(nA),
				saveOp(ud(nA, pb.State{Term: 1, Vote: 1, Commit: 60}, fixedEntries(rng, 1, 60, 1, 16))),
				{Kind: "removenode", Node: nA},
				{Kind: "reopen"},
				bootOp(nA),
				saveOp(recv),
				{Kind: "reopen"},
			}
		},
	},
	{
		// candidate 5: two replicas whose shard ids are equal mod 16 (one
		// multiplexed Tan db); their entries span several log files; the data of
		// one of them is removed.
		name: "RemoveNodeData-with-shared-db", logSize: 1500,
		build: func(rng *rand.Rand) []op {
			ops := []op{bootOp(nA), bootOp(nB)}
			for i := uint64(0); i < 4; i++ {
				c := (i + 1) * 10
				ops = append(ops, saveOp(
					ud(nA, pb.State{Term: 1, Vote: 1, Commit: c}, fixedEntries(rng, i*10+1, 10, 1, 100)),
					ud(nB, pb.State{Term: 1, Vote: 1, Commit: c}, fixedEntries(rng, i*10+1, 10, 1, 100))))
			}
			ops = append(ops, op{Kind: "removenode", Node: nA}, op{Kind: "reopen"})
			return ops
		},
	},
	{
		// candidate 5 with the default 64 MB log file: ImportSnapshot (used by the
		// repair tool on a stopped NodeHost) for one replica.
		name: "ImportSnapshot-with-shared-db", logSize: 0,
		build: func(rng *rand.Rand) []op {
			ss := mkSnapshot(rng, nA, 30, 2)
			ss.Imported = true
			return []op{
				bootOp(nA), bootOp(nB),
				saveOp(ud(nA, pb.State{Term: 1, Vote: 1, Commit: 10}, fixedEntries(rng, 1, 10, 1, 32)),
					ud(nB, pb.State{Term: 1, Vote: 1, Commit: 10}, fixedEntries(rng, 1, 10, 1, 32))),
				{Kind: "import", Node: nA, Snap: ss},
			}
		},
	},
}

func runScenario(r *common.Run, fl flavour, i int) {
	sc := scenarios[i]
	rng := rand.New(rand.NewSource(int64(1000 + i))) // scripted: independent of the seed
	s := newSeq(r, fl, i, "scripted:"+sc.name, rand.New(rand.NewSource(int64(i))))
	s.rng = r.Rand("scenario-queries-"+fl.name, i)
	s.hazard = true
	s.big = 200
	if fl.tan {
		tan.VerifSetMaxLogFileSize(sc.logSize)
	}
	defer s.finish()
	defer tan.VerifSetMaxLogFileSize(0)
	if err := s.guarded(0, "open", s.open); err != nil {
		if !s.failed {
			r.Violation(fl.family()+":error:open", fmt.Sprintf("%s: cannot open an empty store: %v", fl.name, err), s.witness(0, err.Error()))
		}
		r.Case(false, "")
		return
	}
	for step, o := range sc.build(rng) {
		if !s.exec(step, o) {
			break
		}
	}
	r.Count("scripted_sequences", 1)
	r.Case(false, common.Hash(strings.Join(s.ops, "\n")))
}
