// storecheck is engine E3: the real raftio.ILogDB implementations (sharded
// Pebble store in plain and batched entry format, Tan regular and multiplexed)
// against a reference model (C09), under power-loss and I/O-error enumeration
// (C10).
//
//	-mode model-<flavour>       C09: random + scripted op sequences vs. the model
//	-mode crash-<flavour>       C10: power loss at every mutating FS operation
//	-mode errfs-<flavour>       C10: I/O error injected at every mutating FS operation (child processes)
//	-mode errkv-<flavour>       C10: error injected at every kv.IKVStore call (Pebble flavours)
//
// flavour: pebble-plain | pebble-batched | tan | tan-multiplexed
package main

import (
	"encoding/json"
	"flag"
	"fmt"
	"os"
	"strings"

	"github.com/lni/dragonboat/v4/verifh/common"
)

var (
	flagChild = flag.String("child", "", "internal: run one injection in this process (spec)")
	flagOnly  = flag.Int("only", -1, "run only this case number (debugging)")
	flagDbg   = flag.String("dbg", "", "crash mode: run one case \"workload,k,torn\" verbosely (debugging)")
)

func main() {
	// a child process of the error-injection mode does not use the common flags
	for _, a := range os.Args[1:] {
		if strings.HasPrefix(a, "-child=") || a == "-child" {
			quietLogs()
			childMain()
			return
		}
	}
	r := common.Start("storecheck")
	quietLogs()
	i := strings.IndexByte(r.Mode, '-')
	if i < 0 {
		fmt.Fprintln(os.Stderr, "bad -mode", r.Mode)
		os.Exit(2)
	}
	kind, fname := r.Mode[:i], r.Mode[i+1:]
	fl, ok := flavours[fname]
	if !ok {
		fmt.Fprintln(os.Stderr, "unknown flavour", fname)
		os.Exit(2)
	}
	if r.Replay != "" {
		if err := loadReplay(r.Replay); err != nil {
			fmt.Fprintln(os.Stderr, "cannot read replay file:", err)
			os.Exit(2)
		}
	}
	switch kind {
	case "model":
		modeModel(r, fl)
	case "crash":
		modeCrash(r, fl)
	case "errfs":
		modeErrFS(r, fl)
	case "errkv":
		modeErrKV(r, fl)
	default:
		fmt.Fprintln(os.Stderr, "unknown mode", r.Mode)
		os.Exit(2)
	}
	r.Finish()
}

// replayOf holds the witness of a replay file: only that case is re-executed.
var replayOf *struct {
	Case     int    `json:"case"`
	Label    string `json:"label"`
	Workload int    `json:"workload"`
	K        int64  `json:"k"`
	Torn     bool   `json:"torn"`
}

func loadReplay(path string) error {
	b, err := os.ReadFile(path)
	if err != nil {
		return err
	}
	var f struct {
		Witness json.RawMessage `json:"witness"`
	}
	if err := json.Unmarshal(b, &f); err != nil {
		return err
	}
	return json.Unmarshal(f.Witness, &replayOf)
}

func modeModel(r *common.Run, fl flavour) {
	r.SetRule("a case is one op sequence (~60 ops: SaveRaftState with appends / suffix overwrites by a newer term / received snapshots / hard state, " +
		"SaveSnapshots, RemoveEntriesTo, CompactEntriesTo, RemoveNodeData, SaveBootstrapInfo, ImportSnapshot, close+reopen) over 4 (shard,replica) pairs " +
		"sharing one store, compared with the reference model after every op; non-trivial = contains an overwrite of a suffix AND a RemoveEntriesTo AND a reopen; distinct by hash of the op list")
	r.Assume("preconditions of raftio.ILogDB respected: no gap inside an update, first index <= last+1, nothing at or below the commit index overwritten, " +
		"updates of one SaveRaftState call belong to one step worker, RemoveEntriesTo only up to a saved snapshot index, no query at or below the compaction point")
	r.Assume("a snapshot inside SaveRaftState (received from the leader) has an index >= the last log index; ImportSnapshot is used as tools.ImportSnapshot does (fresh process, store closed afterwards)")
	r.Assume("a replica id removed by RemoveNodeData is written again in the same process, and RemoveNodeData/ImportSnapshot hit a multiplexed Tan db shared by other replicas, only in 1 of 8 random sequences and in the scripted sequences")
	nOps := 60
	nRandom := r.Pick(400, 6000)
	total := len(scenarios) + nRandom
	for _, c := range r.MyCases(total) {
		if *flagOnly >= 0 && c != *flagOnly {
			continue
		}
		if replayOf != nil {
			want := replayOf.Case
			if !strings.HasPrefix(replayOf.Label, "scripted:") {
				want += len(scenarios)
			}
			if c != want {
				continue
			}
		}
		if c < len(scenarios) {
			runScenario(r, fl, c)
		} else {
			runModelCase(r, fl, c-len(scenarios), nOps)
		}
		if c%50 == 0 {
			r.Flush()
		}
	}
}
