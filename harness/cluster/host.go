package cluster

import (
	"fmt"
	"github.com/lni/dragonboat/v4/internal/rsm"
	"github.com/lni/dragonboat/v4/internal/verifhook"
	"io"
	"os"
	"strings"
	"sync"
	"sync/atomic"
	"time"

	gvfs "github.com/lni/vfs"

	dragonboat "github.com/lni/dragonboat/v4"
	"github.com/lni/dragonboat/v4/config"
	"github.com/lni/dragonboat/v4/internal/fileutil"
	"github.com/lni/dragonboat/v4/internal/logdb"
	"github.com/lni/dragonboat/v4/internal/logdb/kv/pebble"
	"github.com/lni/dragonboat/v4/internal/server"
	"github.com/lni/dragonboat/v4/internal/tan"
	"github.com/lni/dragonboat/v4/raftio"
	pb "github.com/lni/dragonboat/v4/raftpb"
)

// StoreKind selects the log store.
type StoreKind int

const (
	// Pebble is the default sharded Pebble store.
	Pebble StoreKind = iota
	// Tan is the tan log store.
	Tan
)

func (k StoreKind) String() string { return [...]string{"pebble", "tan"}[k] }

// Options of a cluster.
type Options struct {
	Hosts        int
	Seed         int64
	RTTMs        uint64
	Store        StoreKind
	NotifyCommit bool
	SMOpt        func(shardID, replicaID uint64) SMOptions
	// SaveDelay widens the window between persisting and sending.
	SaveDelay time.Duration
	// Wire: real TCP transport on loopback behind byte-level proxies, NodeHost
	// directories on the real file system under WireDir (wire.go). Power loss is
	// not available in this mode: Crash is a graceful stop.
	Wire    bool
	WireDir string
	// byte limits of the send queues of the transport and of the receive queues of the
	// replicas (0 = none): messages over the limit are dropped by dragonboat itself
	MaxSendQueueSize    uint64
	MaxReceiveQueueSize uint64
}

// Shadow is the durable state of one replica as acknowledged by the log
// store: updated only after SaveRaftState / SaveSnapshots returned nil.
type Shadow struct {
	Term, Vote, Commit uint64
	SnapIndex          uint64
	SnapTerm           uint64
	Last               uint64
	Terms              map[uint64]uint64 // index -> term of saved entries
	Saves              int64
}

func (s *Shadow) clone() *Shadow {
	c := *s
	c.Terms = make(map[uint64]uint64, len(s.Terms))
	for k, v := range s.Terms {
		c.Terms[k] = v
	}
	return &c
}

// Host is one NodeHost with its own strict in-memory file system.
type Host struct {
	Index  int
	Addr   string
	FS     *gvfs.MemFS // nil in wire mode
	Disk   gvfs.FS     // the file system the NodeHost runs on (FS, or the real one in wire mode)
	Listen string      // wire mode: the address the NodeHost listens on (Addr is the proxy's)
	Proxy  *Proxy
	Dir    string
	// importSite: armed power-loss site of ImportWithPowerLoss (-1 = passed)
	importSite int32
	NH         *dragonboat.NodeHost
	c          *Cluster
	mu         sync.Mutex
	crashed    bool // between the crash instant and the restart
	// CrashStamp is the clock value of the last crash instant (0 = never):
	// anything a client observed from this host afterwards is "unknown".
	CrashStamp int64
	shadows    map[[2]uint64]*Shadow
	frozen     map[[2]uint64]*Shadow // shadows as they were at the crash instant
	starts     []startRec
	inner      raftio.ILogDB
	Restarts   int
	// armed crash point (0 none, 1 PreSave, 2 PostSave) and its notification
	armed   int32
	armedCh chan struct{}
}

// ArmCrash makes the host lose power the next time one of its replicas
// reaches the given step-worker point (1 = just before SaveRaftState, 2 = just
// after it returned). The returned channel is closed at the crash instant.
func (h *Host) ArmCrash(point int32) <-chan struct{} {
	h.mu.Lock()
	defer h.mu.Unlock()
	h.armedCh = make(chan struct{})
	atomic.StoreInt32(&h.armed, point)
	return h.armedCh
}

// Disarm removes an armed crash point; returns true if it had not fired.
func (h *Host) Disarm() bool {
	return atomic.SwapInt32(&h.armed, 0) != 0
}

// AtPoint is called from the step worker hooks.
func (h *Host) AtPoint(point int32) {
	if atomic.LoadInt32(&h.armed) != point {
		return
	}
	if !atomic.CompareAndSwapInt32(&h.armed, point, 0) {
		return
	}
	h.CrashInstant()
	h.mu.Lock()
	ch := h.armedCh
	h.mu.Unlock()
	if ch != nil {
		close(ch)
	}
}

type startRec struct {
	shardID, replicaID uint64
	members            map[uint64]dragonboat.Target
	join               bool
	kind               SMKind
	cfg                config.Config
}

// Cluster is a set of hosts on one network.
type Cluster struct {
	Opt   Options
	Net   *Net
	Clock *Clock
	SMs   *SMRegistry
	Hosts []*Host
	Sink  Sink
	// ticks processed per (shard, replica), counted at the NodeTick hook
	tickMu sync.Mutex
	ticks  map[[2]uint64]*int64
	// listeners
	leaderMu sync.Mutex
	leaders  map[[2]uint64]uint64 // (shard, term) -> leader
	leaderEv int64
}

// NewCluster creates the hosts (not started).
func NewCluster(opt Options, sink Sink) *Cluster {
	if opt.RTTMs == 0 {
		opt.RTTMs = 10
	}
	c := &Cluster{Opt: opt, Net: NewNet(opt.Seed), Clock: &Clock{}, Sink: sink, leaders: map[[2]uint64]uint64{}, ticks: map[[2]uint64]*int64{}}
	verifhook.SetPoint(verifhook.NodeTick, func(shardID, replicaID uint64) { atomic.AddInt64(c.tickCtr(shardID, replicaID), 1) })
	smopt := opt.SMOpt
	if smopt == nil {
		smopt = func(uint64, uint64) SMOptions { return SMOptions{Kind: Regular, RecordApply: true} }
	}
	userOpt := smopt
	smopt = func(shardID, replicaID uint64) SMOptions {
		o := userOpt(shardID, replicaID)
		if o.AtSite == nil {
			o.AtSite = func(host int, site int32) { c.Hosts[host].AtPoint(site) }
		}
		return o
	}
	c.SMs = NewSMRegistry(c.Clock, sink, smopt)
	for i := 0; i < opt.Hosts; i++ {
		h := &Host{Index: i, Addr: fmt.Sprintf("host%d:%d", i+1, 26000+i), c: c,
			shadows: map[[2]uint64]*Shadow{}}
		if opt.Wire {
			h.Disk = gvfs.Default
			h.Dir = fmt.Sprintf("%s/h%d", opt.WireDir, i+1)
			listen, p, err := wireHostSetup(c, i, h.Dir)
			if err != nil {
				panic(err)
			}
			h.Listen, h.Proxy, h.Addr = listen, p, p.Addr
		} else {
			h.FS = gvfs.NewStrictMem()
			h.Disk = h.FS
			h.Dir = "/nh"
		}
		c.Hosts = append(c.Hosts, h)
	}
	return c
}

func (c *Cluster) tickCtr(shardID, replicaID uint64) *int64 {
	c.tickMu.Lock()
	defer c.tickMu.Unlock()
	k := [2]uint64{shardID, replicaID}
	if c.ticks[k] == nil {
		c.ticks[k] = new(int64)
	}
	return c.ticks[k]
}

// Ticks returns how many ticks the replica has processed so far (all incarnations).
func (c *Cluster) Ticks(shardID, replicaID uint64) int64 {
	return atomic.LoadInt64(c.tickCtr(shardID, replicaID))
}

type logdbFactory struct{ h *Host }

func (f *logdbFactory) Name() string {
	if f.h.c.Opt.Store == Tan {
		return "Tan"
	}
	return "sharded-pebble"
}

func (f *logdbFactory) Create(cfg config.NodeHostConfig, cb config.LogDBCallback,
	dirs []string, wals []string) (raftio.ILogDB, error) {
	var inner raftio.ILogDB
	var err error
	if f.h.c.Opt.Store == Tan {
		inner, err = tan.Factory.Create(cfg, cb, dirs, wals)
	} else {
		inner, err = logdb.NewLogDB(cfg, cb, dirs, wals, false, true, pebble.NewKVStore)
	}
	if err != nil {
		return nil, err
	}
	f.h.inner = inner
	return &recLogDB{ILogDB: inner, h: f.h}, nil
}

// recLogDB wraps the real log store: it keeps the durable shadow (C04) and
// asserts that compaction never goes beyond a durable snapshot (C08).
type recLogDB struct {
	raftio.ILogDB
	h *Host
}

func (r *recLogDB) Name() string { return r.ILogDB.Name() }

// ImportSnapshot (tools.ImportSnapshot opens the log store through the factory of the host, so
// it gets this wrapper): the two power-loss sites of an import - right before and right after
// the log store is rewritten. From the site on nothing the tool writes becomes durable.
func (r *recLogDB) ImportSnapshot(ss pb.Snapshot, replicaID uint64) error {
	site := atomic.LoadInt32(&r.h.importSite)
	if site == ImportSiteBeforeLogStore && r.h.FS != nil {
		r.h.FS.SetIgnoreSyncs(true)
		atomic.StoreInt32(&r.h.importSite, -1)
	}
	err := r.ILogDB.ImportSnapshot(ss, replicaID)
	if site == ImportSiteAfterLogStore && r.h.FS != nil {
		r.h.FS.SetIgnoreSyncs(true)
		atomic.StoreInt32(&r.h.importSite, -1)
	}
	return err
}

// Power-loss sites of ImportWithPowerLoss.
const (
	ImportSiteBeforeLogStore int32 = 1
	ImportSiteAfterLogStore  int32 = 2
)

// ImportWithPowerLoss runs the import tool (fn) on a host that is down and cuts the power at the
// given site; the tool runs to its end on a disk that no longer persists anything, then
// everything that was not synced is discarded. reached tells whether the site was passed.
func (h *Host) ImportWithPowerLoss(site int32, fn func() error) (reached bool, err error) {
	if h.FS == nil {
		return false, fn()
	}
	atomic.StoreInt32(&h.importSite, site)
	func() {
		defer func() {
			if x := recover(); x != nil {
				err = fmt.Errorf("panic: %v", x)
			}
		}()
		err = fn()
	}()
	reached = atomic.SwapInt32(&h.importSite, 0) == -1
	h.FS.ResetToSyncedState()
	h.FS.SetIgnoreSyncs(false)
	repairNames(h.FS, "/")
	h.mu.Lock()
	h.Restarts++
	h.mu.Unlock()
	return reached, err
}

// CheckSnapshotDirsOf opens the NodeHost of a host that is down, applies the directory oracle of
// C16 (start-up cleanup, then: the recorded snapshot exists, complete and loadable, nothing else
// is left) to a replica that is not on the restart list, and closes the NodeHost again.
func (h *Host) CheckSnapshotDirsOf(shardID, replicaID uint64, ctx string) error {
	nh, err := dragonboat.NewNodeHost(h.nhConfig())
	if err != nil {
		return err
	}
	h.checkSnapshotDirs(startRec{shardID: shardID, replicaID: replicaID}, ctx)
	nh.Close()
	return nil
}

func (r *recLogDB) SaveRaftState(updates []pb.Update, workerID uint64) error {
	if d := r.h.c.Opt.SaveDelay; d > 0 {
		time.Sleep(d)
	}
	err := r.ILogDB.SaveRaftState(updates, workerID)
	if err != nil {
		return err
	}
	r.h.mu.Lock()
	if !r.h.crashed {
		for i := range updates {
			r.h.applyToShadow(&updates[i])
		}
	}
	r.h.mu.Unlock()
	return nil
}

func (r *recLogDB) SaveSnapshots(updates []pb.Update) error {
	err := r.ILogDB.SaveSnapshots(updates)
	if err != nil {
		return err
	}
	ahead := false
	r.h.mu.Lock()
	if !r.h.crashed {
		for i := range updates {
			ud := &updates[i]
			if !pb.IsEmptySnapshot(ud.Snapshot) {
				s := r.h.shadow(ud.ShardID, ud.ReplicaID)
				if ud.Snapshot.Index > s.SnapIndex {
					s.SnapIndex, s.SnapTerm = ud.Snapshot.Index, ud.Snapshot.Term
				}
				if ud.Snapshot.Index > s.Commit && s.Saves > 0 {
					// committed entries are handed to the apply worker before the update that carries
					// the new commit index is persisted (fast apply): the snapshot of what was applied
					// has just become durable while the durable hard state still has a lower commit
					ahead = true
				}
			}
		}
	}
	r.h.mu.Unlock()
	if ahead {
		r.h.c.Sink.Count("snapshot_records_durable_ahead_of_the_durable_commit_index", 1)
		r.h.AtPoint(SiteSnapshotRecordedAheadOfCommit)
	}
	return nil
}

func (r *recLogDB) RemoveEntriesTo(shardID uint64, replicaID uint64, index uint64) error {
	ss, err := r.ILogDB.GetSnapshot(shardID, replicaID)
	if err == nil {
		r.h.c.Sink.Count("compactions_checked", 1)
		if ss.Index < index {
			r.h.c.Sink.Violation("C08", "compaction-beyond-durable-snapshot",
				fmt.Sprintf("host %d replica %d: RemoveEntriesTo(%d) while the recorded snapshot is at %d", r.h.Index, replicaID, index, ss.Index),
				map[string]interface{}{"host": r.h.Index, "shard": shardID, "replica": replicaID, "compact_to": index, "snapshot_index": ss.Index})
		} else if !ss.Dummy && !ss.Witness && ss.OnDiskIndex == 0 && ss.Type != pb.OnDiskStateMachine {
			// regular / concurrent state machine: the recorded snapshot must be
			// recoverable from disk (on-disk state machines keep their own data;
			// their streamed snapshots carry no file size)
			ok := func() (ok bool) {
				defer func() {
					if x := recover(); x != nil {
						ok = false
					}
				}()
				return ss.Validate(r.h.Disk)
			}()
			for try := 0; !ok && try < 5; try++ {
				// the snapshot worker may have recorded a newer snapshot and removed the directory of
				// this one between the two reads above: judge the record that is current now
				ss2, err2 := r.ILogDB.GetSnapshot(shardID, replicaID)
				if err2 != nil || ss2.Index == ss.Index {
					break
				}
				ss = ss2
				r.h.c.Sink.Count("compaction_checks_repeated_with_a_newer_snapshot_record", 1)
				ok = func() (ok bool) {
					defer func() {
						if x := recover(); x != nil {
							ok = false
						}
					}()
					return ss.Validate(r.h.Disk)
				}()
			}
			if !ok && r.loads(ss.Filepath) {
				// the size recorded with the snapshot differs from the file, but the file is a complete
				// valid snapshot image (header, every block checksum, tail): the replica can recover
				// from it, which is what C08 asks for
				r.h.c.Sink.Count("recorded_snapshot_size_differs_but_the_file_loads", 1)
				ok = true
			}
			if !ok {
				state := "missing"
				if fi, err := r.h.Disk.Stat(ss.Filepath); err == nil {
					state = fmt.Sprintf("present with %d bytes", fi.Size())
				}
				var siblings []string
				if l, err := r.h.Disk.List(r.h.Disk.PathDir(r.h.Disk.PathDir(ss.Filepath))); err == nil {
					siblings = l
				}
				r.h.mu.Lock()
				crashed := r.h.crashed
				r.h.mu.Unlock()
				r.h.c.Sink.Violation("C08", "compaction-with-invalid-snapshot-file",
					fmt.Sprintf("host %d replica %d: RemoveEntriesTo(%d) while the recorded snapshot %d does not validate on disk (path %q size %d): the file is %s", r.h.Index, replicaID, index, ss.Index, ss.Filepath, ss.FileSize, state),
					map[string]interface{}{"host": r.h.Index, "shard": shardID, "replica": replicaID, "compact_to": index, "snapshot": ss.Filepath,
						"file_state": state, "snapshot_dirs": siblings, "after_crash_instant": crashed, "imported": ss.Imported, "type": ss.Type.String()})
			}
		}
	}
	return r.ILogDB.RemoveEntriesTo(shardID, replicaID, index)
}

// loads reports whether the file is a snapshot image the real reader accepts from the first to
// the last byte.
func (r *recLogDB) loads(fp string) (ok bool) {
	defer func() {
		if x := recover(); x != nil {
			ok = false
		}
	}()
	rd, _, err := rsm.NewSnapshotReader(fp, r.h.Disk)
	if err != nil {
		return false
	}
	defer func() { _ = rd.Close() }()
	if _, err := io.Copy(io.Discard, rd); err != nil {
		return false
	}
	return true
}

func (h *Host) shadow(shardID, replicaID uint64) *Shadow {
	k := [2]uint64{shardID, replicaID}
	s, ok := h.shadows[k]
	if !ok {
		s = &Shadow{Terms: map[uint64]uint64{}}
		h.shadows[k] = s
	}
	return s
}

// applyToShadow must be called with h.mu held.
func (h *Host) applyToShadow(ud *pb.Update) {
	s := h.shadow(ud.ShardID, ud.ReplicaID)
	s.Saves++
	if !pb.IsEmptyState(ud.State) {
		s.Term, s.Vote, s.Commit = ud.State.Term, ud.State.Vote, ud.State.Commit
	}
	if !pb.IsEmptySnapshot(ud.Snapshot) && ud.Snapshot.Index > s.SnapIndex {
		s.SnapIndex, s.SnapTerm = ud.Snapshot.Index, ud.Snapshot.Term
		if ud.Snapshot.Index > s.Last {
			s.Last = ud.Snapshot.Index
		}
	}
	if n := len(ud.EntriesToSave); n > 0 {
		for _, e := range ud.EntriesToSave {
			s.Terms[e.Index] = e.Term
		}
		last := ud.EntriesToSave[n-1].Index
		for i := last + 1; i <= s.Last; i++ {
			delete(s.Terms, i)
		}
		s.Last = last
	}
}

// ShadowOf returns a copy of the durable shadow of a replica on this host.
func (h *Host) ShadowOf(shardID, replicaID uint64) *Shadow {
	h.mu.Lock()
	defer h.mu.Unlock()
	if s, ok := h.shadows[[2]uint64{shardID, replicaID}]; ok {
		return s.clone()
	}
	return nil
}

// Crashed tells whether the host is between a crash instant and a restart.
func (h *Host) Crashed() bool {
	h.mu.Lock()
	defer h.mu.Unlock()
	return h.crashed
}

func (h *Host) nhConfig() config.NodeHostConfig {
	c := h.c
	cfg := config.NodeHostConfig{
		NodeHostDir:         h.Dir,
		RTTMillisecond:      c.Opt.RTTMs,
		RaftAddress:         h.Addr,
		DeploymentID:        77,
		NotifyCommit:        c.Opt.NotifyCommit,
		MaxSendQueueSize:    c.Opt.MaxSendQueueSize,
		MaxReceiveQueueSize: c.Opt.MaxReceiveQueueSize,
		Expert: config.ExpertConfig{
			FS:               h.Disk,
			LogDBFactory:     &logdbFactory{h: h},
			TransportFactory: &TransportFactory{Net: c.Net},
			LogDB:            config.GetTinyMemLogDBConfig(),
		},
		RaftEventListener: &leaderListener{c: c, host: h.Index},
	}
	cfg.Expert.Engine = config.EngineConfig{ExecShards: 2, CommitShards: 2, ApplyShards: 2, SnapshotShards: 2, CloseShards: 2}
	if c.Opt.Wire {
		cfg.ListenAddress = h.Listen
		cfg.Expert.TransportFactory = &WireTransportFactory{Net: c.Net}
	}
	return cfg
}

type leaderListener struct {
	c    *Cluster
	host int
}

// LeaderUpdated feeds the (shard, term) -> leader map (C03 at node level).
func (l *leaderListener) LeaderUpdated(info raftio.LeaderInfo) {
	if info.LeaderID == 0 || info.Term == 0 {
		return
	}
	c := l.c
	c.leaderMu.Lock()
	defer c.leaderMu.Unlock()
	atomic.AddInt64(&c.leaderEv, 1)
	k := [2]uint64{info.ShardID, info.Term}
	if prev, ok := c.leaders[k]; ok {
		if prev != info.LeaderID {
			c.Sink.Violation("C03", "two-leaders-in-one-term",
				fmt.Sprintf("shard %d term %d: leader %d reported earlier, host %d (replica %d) now reports leader %d", info.ShardID, info.Term, prev, l.host, info.ReplicaID, info.LeaderID),
				map[string]interface{}{"shard": info.ShardID, "term": info.Term, "leaders": []uint64{prev, info.LeaderID}})
		}
		return
	}
	c.leaders[k] = info.LeaderID
}

// Leaders returns the distinct leader ids announced for a shard.
func (c *Cluster) Leaders(shardID uint64) []uint64 {
	c.leaderMu.Lock()
	defer c.leaderMu.Unlock()
	seen := map[uint64]bool{}
	var out []uint64
	for k, l := range c.leaders {
		if k[0] == shardID && !seen[l] {
			seen[l] = true
			out = append(out, l)
		}
	}
	return out
}

// LeaderTerms returns how many (shard, term) pairs had a leader announced.
func (c *Cluster) LeaderTerms() int {
	c.leaderMu.Lock()
	defer c.leaderMu.Unlock()
	return len(c.leaders)
}

// Start creates the NodeHost (first start or restart) and restarts the
// replicas that were running on it.
func (h *Host) Start() error {
	nh, err := dragonboat.NewNodeHost(h.nhConfig())
	for try := 0; err != nil && h.Proxy != nil && try < 5 && strings.Contains(err.Error(), "address already in use"); try++ {
		// wire mode: another process took the listen port between the probe and the bind;
		// the host moves to another port (its advertised address, the proxy's, stays)
		listen, perr := freePort()
		if perr != nil {
			break
		}
		h.Listen = listen
		h.Proxy.Retarget(listen)
		h.c.Sink.Count("wire_listen_port_taken_moved", 1)
		nh, err = dragonboat.NewNodeHost(h.nhConfig())
	}
	if err != nil {
		return err
	}
	h.mu.Lock()
	h.NH = nh
	h.crashed = false
	starts := append([]startRec(nil), h.starts...)
	frozen := h.frozen
	h.frozen = nil
	h.mu.Unlock()
	if frozen != nil {
		h.CheckRecovered(frozen)
	}
	for _, s := range starts {
		h.checkSnapshotDirs(s)
		if err := h.startReplica(s, true); err != nil {
			return err
		}
	}
	return nil
}

func (h *Host) startReplica(s startRec, restart bool) error {
	members := s.members
	join := s.join
	var err error
	switch s.kind {
	case Regular:
		err = h.NH.StartReplica(members, join, h.c.SMs.RegularFactory(h.Index), s.cfg)
	case Concurrent:
		err = h.NH.StartConcurrentReplica(members, join, h.c.SMs.ConcurrentFactory(h.Index), s.cfg)
	case OnDisk:
		err = h.NH.StartOnDiskReplica(members, join, h.c.SMs.OnDiskFactory(h.Index), s.cfg)
	}
	return err
}

// StartReplica starts a replica on this host and remembers it for restarts.
func (h *Host) StartReplica(members map[uint64]dragonboat.Target, join bool, kind SMKind, cfg config.Config) error {
	s := startRec{shardID: cfg.ShardID, replicaID: cfg.ReplicaID, members: members, join: join, kind: kind, cfg: cfg}
	if err := h.startReplica(s, false); err != nil {
		return err
	}
	h.mu.Lock()
	h.starts = append(h.starts, s)
	h.mu.Unlock()
	return nil
}

// ImportConfig returns the NodeHostConfig of the host, as tools.ImportSnapshot
// must be given.
func (h *Host) ImportConfig() config.NodeHostConfig { return h.nhConfig() }

// ForgetAll empties the restart list of the host.
func (h *Host) ForgetAll() {
	h.mu.Lock()
	h.starts = nil
	h.mu.Unlock()
}

// NodeHost returns the present NodeHost of the host (nil while it is down).
func (h *Host) NodeHost() *dragonboat.NodeHost { return h.nodeHost() }

// RestartReplica starts a replica that was stopped with StopReplica /
// StopShard again (it stays on the restart list of the host).
func (h *Host) RestartReplica(members map[uint64]dragonboat.Target, kind SMKind, cfg config.Config) error {
	if h.nodeHost() == nil {
		return fmt.Errorf("host %d is down", h.Index)
	}
	return h.startReplica(startRec{shardID: cfg.ShardID, replicaID: cfg.ReplicaID, members: members, kind: kind, cfg: cfg}, true)
}

// ForgetReplica removes a replica from the restart list (after StopReplica /
// removal from the shard).
func (h *Host) ForgetReplica(shardID, replicaID uint64) {
	h.mu.Lock()
	defer h.mu.Unlock()
	out := h.starts[:0]
	for _, s := range h.starts {
		if !(s.shardID == shardID && s.replicaID == replicaID) {
			out = append(out, s)
		}
	}
	h.starts = out
}

// Stop closes the NodeHost gracefully.
func (h *Host) Stop() {
	h.mu.Lock()
	nh := h.NH
	h.NH = nil
	h.mu.Unlock()
	if nh != nil {
		nh.Close()
	}
}

// Crash simulates a power loss: traffic of the host is cut first, then syncs
// are ignored (under the lock that also freezes the durable shadow), the
// NodeHost is closed, and everything that was not synced is discarded.
// Returns the shadows as they were at the crash instant.
func (h *Host) Crash() map[[2]uint64]*Shadow {
	h.CrashInstant()
	return h.CrashFinish()
}

// CrashInstant is the first half of Crash: from now on nothing the host does
// reaches a peer and nothing it writes becomes durable. It does not block on
// the NodeHost, so it may be called from a hook inside a worker goroutine.
func (h *Host) CrashInstant() {
	h.c.Net.Isolate(h.Addr, false)
	h.mu.Lock()
	if h.crashed {
		h.mu.Unlock()
		return
	}
	h.crashed = true
	h.CrashStamp = h.c.Clock.Now()
	if h.FS != nil {
		h.FS.SetIgnoreSyncs(true)
		h.c.SMs.Freeze(h.Index)
	}
	frozen := map[[2]uint64]*Shadow{}
	for k, s := range h.shadows {
		frozen[k] = s.clone()
	}
	h.frozen = frozen
	h.mu.Unlock()
}

// CrashFinish closes the NodeHost of a host whose crash instant has passed
// and discards everything that was not synced.
func (h *Host) CrashFinish() map[[2]uint64]*Shadow {
	h.mu.Lock()
	nh := h.NH
	h.NH = nil
	frozen := h.frozen
	h.mu.Unlock()
	if nh != nil {
		nh.Close()
	}
	if h.FS != nil {
		h.FS.ResetToSyncedState()
		h.FS.SetIgnoreSyncs(false)
		repairNames(h.FS, "/")
		h.c.SMs.PowerLoss(h.Index)
	}
	h.mu.Lock()
	// after the restart the shadow restarts from what is durable
	h.shadows = map[[2]uint64]*Shadow{}
	for k, s := range frozen {
		h.shadows[k] = s.clone()
	}
	h.Restarts++
	h.mu.Unlock()
	return frozen
}

// Restart brings a crashed or stopped host back (traffic restored).
func (h *Host) Restart() error {
	if err := h.Start(); err != nil {
		return err
	}
	h.c.Net.Heal(h.Addr)
	return nil
}

// StartAll starts every host.
func (c *Cluster) StartAll() error {
	for _, h := range c.Hosts {
		if err := h.Start(); err != nil {
			return err
		}
	}
	return nil
}

// StopAll closes every running NodeHost (and, in wire mode, the proxies).
func (c *Cluster) StopAll() {
	defer func() {
		for _, h := range c.Hosts {
			if h.Proxy != nil {
				h.Proxy.Close()
			}
		}
	}()
	var wg sync.WaitGroup
	for _, h := range c.Hosts {
		wg.Add(1)
		go func(h *Host) {
			defer wg.Done()
			h.Stop()
		}(h)
	}
	wg.Wait()
}

// ShardConfig returns a config.Config for a replica.
func ShardConfig(shardID, replicaID uint64) config.Config {
	return config.Config{
		ShardID:      shardID,
		ReplicaID:    replicaID,
		ElectionRTT:  10,
		HeartbeatRTT: 1,
		CheckQuorum:  true,
	}
}

// Members returns the initial member map for replicas 1..n on hosts 0..n-1.
func (c *Cluster) Members(n int) map[uint64]dragonboat.Target {
	m := map[uint64]dragonboat.Target{}
	for i := 0; i < n; i++ {
		m[uint64(i+1)] = c.Hosts[i].Addr
	}
	return m
}

// checkSnapshotDirs (C16 at node level): called on a host that comes back (after a power loss
// at an arbitrary moment of its snapshot workers, or after a graceful stop) with the log store
// open and before the replica is started. It runs the replica's real start-up cleanup
// (snapshotter.processOrphans, exactly what NodeHost.startShard runs first) and then demands
// what the property states: only the snapshot recorded in the log store remains, complete and
// loadable, no temporary / flagged directory is left.
func (h *Host) checkSnapshotDirs(s startRec, ctx ...string) {
	suffix := strings.Join(ctx, "")
	if h.inner == nil {
		return
	}
	fs := h.Disk
	name := fmt.Sprintf("snapshot-%d-%d", s.shardID, s.replicaID)
	var find func(dir string, depth int) string
	find = func(dir string, depth int) string {
		names, err := fs.List(dir)
		if err != nil {
			return ""
		}
		for _, n := range names {
			p := fs.PathJoin(dir, n)
			if n == name {
				return p
			}
			if depth > 0 {
				if fi, err := fs.Stat(p); err == nil && fi.IsDir() {
					if f := find(p, depth-1); f != "" {
						return f
					}
				}
			}
		}
		return ""
	}
	dir := find(h.Dir, 4)
	if dir == "" {
		// the replica never got as far as creating its directory: then no snapshot may be recorded
		if rec, err := h.inner.GetSnapshot(s.shardID, s.replicaID); err == nil && rec.Index > 0 {
			h.c.Sink.Violation("C16", "recorded-snapshot-dir-missing"+suffix, fmt.Sprintf("host %d replica %d: the log store records snapshot %d (%s) but the replica has no snapshot directory at all", h.Index, s.replicaID, rec.Index, rec.Filepath),
				map[string]interface{}{"host": h.Index, "shard": s.shardID, "replica": s.replicaID, "recorded": rec.Index, "restarts": h.Restarts})
		}
		return
	}
	sink := h.c.Sink
	before, _ := fs.List(dir)
	fail := func(key, what string, extra map[string]interface{}) {
		after, _ := fs.List(dir)
		w := map[string]interface{}{"host": h.Index, "shard": s.shardID, "replica": s.replicaID, "dir": dir,
			"listing_before_cleanup": before, "listing_after_cleanup": after, "restarts": h.Restarts}
		for k, v := range extra {
			w[k] = v
		}
		if suffix != "" {
			w["context"] = suffix
		}
		sink.Violation("C16", key+suffix, fmt.Sprintf("host %d replica %d: %s", h.Index, s.replicaID, what), w)
	}
	ss := dragonboat.NewVerifSnapshotter(s.shardID, s.replicaID, func(uint64, uint64) string { return dir },
		h.inner, logdb.NewLogReader(s.shardID, s.replicaID, h.inner), fs)
	var cerr error
	panicked := func() (p interface{}) {
		defer func() { p = recover() }()
		cerr = ss.ProcessOrphans()
		return nil
	}()
	if panicked != nil || cerr != nil {
		fail("startup-cleanup-fails", fmt.Sprintf("the start-up cleanup of the snapshot directory failed: err=%v panic=%v", cerr, panicked), nil)
		return
	}
	sink.Count("snapshot_dirs_checked_after_restart", 1)
	rec, err := h.inner.GetSnapshot(s.shardID, s.replicaID)
	if err != nil {
		fail("record-unreadable", fmt.Sprintf("GetSnapshot failed: %v", err), nil)
		return
	}
	names, _ := fs.List(dir)
	want := ""
	if rec.Index > 0 {
		want = server.GetSnapshotDirName(rec.Index)
	}
	seen := false
	for _, n := range names {
		fi, err := fs.Stat(fs.PathJoin(dir, n))
		if err != nil || !fi.IsDir() {
			continue
		}
		switch {
		case n == want:
			seen = true
		case strings.HasSuffix(n, ".generating") || strings.HasSuffix(n, ".receiving"):
			if os.Getenv("VERIF_DEBUG") != "" {
				p := fs.PathJoin(dir, n)
				in, e1 := fs.List(p)
				e2 := fs.RemoveAll(p)
				l2, _ := fs.List(dir)
				fmt.Fprintf(os.Stderr, "DEBUG temp dir %s: inside %v (%v); RemoveAll -> %v; listing now %v; isdir %v name %q\n", p, in, e1, e2, l2, fi.IsDir(), fi.Name())
			}
			fail("temp-dir-left", "temporary directory "+n+" survives the start-up cleanup", map[string]interface{}{"recorded": rec.Index})
		default:
			fail("unrecorded-dir-left", fmt.Sprintf("directory %s survives the start-up cleanup; the log store records snapshot %d", n, rec.Index), map[string]interface{}{"recorded": rec.Index})
		}
	}
	if rec.Index == 0 {
		return
	}
	sink.Count("snapshot_dirs_checked_with_a_recorded_snapshot", 1)
	if len(before) > 1 {
		sink.Count("snapshot_dirs_checked_with_several_entries_before_cleanup", 1)
	}
	if !seen {
		fail("recorded-snapshot-dir-missing", fmt.Sprintf("the log store records snapshot %d (%s) but its directory does not exist", rec.Index, rec.Filepath), map[string]interface{}{"recorded": rec.Index})
		return
	}
	sdir := fs.PathJoin(dir, want)
	if fileutil.HasFlagFile(sdir, fileutil.SnapshotFlagFilename, fs) {
		fail("flag-file-left", "the flag file survives the start-up cleanup in "+want, nil)
	}
	if rec.Witness || rec.Dummy {
		return
	}
	if _, err := fs.Stat(rec.Filepath); err != nil {
		fail("recorded-snapshot-file-missing", fmt.Sprintf("snapshot %d is recorded with file %s: %v", rec.Index, rec.Filepath, err), nil)
		return
	}
	if !(&recLogDB{h: h}).loads(rec.Filepath) {
		fi, _ := fs.Stat(rec.Filepath)
		var sz int64
		if fi != nil {
			sz = fi.Size()
		}
		fail("recorded-snapshot-invalid", fmt.Sprintf("the file of the recorded snapshot %d (%d bytes on disk, recorded size %d) is not a complete valid snapshot image", rec.Index, sz, rec.FileSize), nil)
		return
	}
	sink.Count("recorded_snapshot_files_loaded_after_restart", 1)
}

// repairNames: lni/vfs's MemFS keeps the name of a file in the node, not in the directory entry.
// After ResetToSyncedState a directory entry that was renamed without a directory sync points to
// a node that still carries the new name, so Stat(path).Name() differs from the entry - on a
// real file system the name is the entry (snapshotter.processOrphans relies on that). Renaming
// an entry to itself makes the two agree again without changing the tree.
func repairNames(fs *gvfs.MemFS, dir string) {
	names, err := fs.List(dir)
	if err != nil {
		return
	}
	for _, n := range names {
		p := fs.PathJoin(dir, n)
		st, err := fs.Stat(p)
		if err != nil {
			continue
		}
		if st.Name() != n {
			_ = fs.Rename(p, p)
		}
		if st.IsDir() {
			repairNames(fs, p)
		}
	}
}
