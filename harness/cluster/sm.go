package cluster

import (
	"encoding/binary"
	"fmt"
	"io"
	"os"
	"sort"
	"sync"
	"sync/atomic"
	"time"

	sm "github.com/lni/dragonboat/v4/statemachine"
)

// SMKind selects the user state machine type.
type SMKind int

const (
	// Regular is statemachine.IStateMachine.
	Regular SMKind = iota
	// Concurrent is statemachine.IConcurrentStateMachine.
	Concurrent
	// OnDisk is statemachine.IOnDiskStateMachine.
	OnDisk
)

func (k SMKind) String() string { return [...]string{"regular", "concurrent", "ondisk"}[k] }

// Call is one recorded call of a user state machine method.
type Call struct {
	Method string
	Enter  int64
	Exit   int64
	First  uint64 // first entry index (Update)
	Last   uint64 // last entry index (Update)
}

// Sink receives violations found by the monitors of this package.
type Sink interface {
	Violation(prop, key, what string, witness interface{})
	Count(key string, n int64)
}

// Clock is the single monotonic stamp source of a cluster.
type Clock struct{ v int64 }

// Now returns the next stamp.
func (c *Clock) Now() int64 { return atomic.AddInt64(&c.v, 1) }

// kvData is the replicated data: per key an append-only list of unique ids.
type kvData struct {
	Lists   map[byte][]uint64
	Applied uint64 // index of the last applied entry (on-disk SM bookkeeping)
}

func newKVData() *kvData { return &kvData{Lists: map[byte][]uint64{}} }

func (d *kvData) clone() *kvData {
	c := &kvData{Lists: make(map[byte][]uint64, len(d.Lists)), Applied: d.Applied}
	for k, v := range d.Lists {
		c.Lists[k] = append([]uint64(nil), v...)
	}
	return c
}

func (d *kvData) keys() []byte {
	ks := make([]byte, 0, len(d.Lists))
	for k := range d.Lists {
		ks = append(ks, k)
	}
	sort.Slice(ks, func(i, j int) bool { return ks[i] < ks[j] })
	return ks
}

func (d *kvData) write(w io.Writer) error {
	var b8 [8]byte
	binary.BigEndian.PutUint64(b8[:], d.Applied)
	if _, err := w.Write(b8[:]); err != nil {
		return err
	}
	ks := d.keys()
	if _, err := w.Write([]byte{byte(len(ks))}); err != nil {
		return err
	}
	for _, k := range ks {
		l := d.Lists[k]
		if _, err := w.Write([]byte{k}); err != nil {
			return err
		}
		binary.BigEndian.PutUint64(b8[:], uint64(len(l)))
		if _, err := w.Write(b8[:]); err != nil {
			return err
		}
		buf := make([]byte, 8*len(l))
		for i, id := range l {
			binary.BigEndian.PutUint64(buf[8*i:], id)
		}
		if _, err := w.Write(buf); err != nil {
			return err
		}
	}
	return nil
}

func readKVData(r io.Reader) (*kvData, error) {
	d := newKVData()
	var b8 [8]byte
	if _, err := io.ReadFull(r, b8[:]); err != nil {
		return nil, err
	}
	d.Applied = binary.BigEndian.Uint64(b8[:])
	var b1 [1]byte
	if _, err := io.ReadFull(r, b1[:]); err != nil {
		return nil, err
	}
	n := int(b1[0])
	for i := 0; i < n; i++ {
		if _, err := io.ReadFull(r, b1[:]); err != nil {
			return nil, err
		}
		k := b1[0]
		if _, err := io.ReadFull(r, b8[:]); err != nil {
			return nil, err
		}
		cnt := binary.BigEndian.Uint64(b8[:])
		buf := make([]byte, 8*cnt)
		if _, err := io.ReadFull(r, buf); err != nil {
			return nil, err
		}
		l := make([]uint64, cnt)
		for j := range l {
			l[j] = binary.BigEndian.Uint64(buf[8*j:])
		}
		d.Lists[k] = l
	}
	return d, nil
}

// Hash of the data.
func (d *kvData) Hash() uint64 {
	h := uint64(1469598103934665603)
	mix := func(v uint64) {
		for i := 0; i < 8; i++ {
			h ^= v & 0xff
			h *= 1099511628211
			v >>= 8
		}
	}
	for _, k := range d.keys() {
		mix(uint64(k))
		for _, id := range d.Lists[k] {
			mix(id)
		}
		mix(0xffffffff)
	}
	return h
}

// MakeCmd encodes append(key, id).
func MakeCmd(key byte, id uint64) []byte {
	n := 0
	if m := atomic.LoadInt64(&cmdPad); m > 0 {
		n = padLen(id, int(m))
	}
	b := make([]byte, 9+n)
	b[0] = key
	binary.BigEndian.PutUint64(b[1:], id)
	if n > 0 {
		fillDerived(b[9:], id, 77, 0)
	}
	return b
}

// cmdPad > 0: commands carry 0..cmdPad bytes derived from the id after the 9 bytes that
// matter, so that a payload altered anywhere between Propose and Update no longer parses.
var cmdPad int64

// SetCmdPad sets the maximum padding of commands made from now on (0 = none).
func SetCmdPad(n int) { atomic.StoreInt64(&cmdPad, int64(n)) }

func padLen(id uint64, max int) int {
	x := id * 0x9e3779b97f4a7c15
	x ^= x >> 29
	switch x % 4 {
	case 0:
		return 0
	case 1:
		return int((x >> 8) % 16)
	}
	return int((x >> 8) % uint64(max+1))
}

// ParseCmd decodes a command; padded commands must carry exactly the padding MakeCmd gave them.
func ParseCmd(cmd []byte) (byte, uint64, bool) {
	if len(cmd) < 9 {
		return 0, 0, false
	}
	id := binary.BigEndian.Uint64(cmd[1:])
	n := 0
	if m := atomic.LoadInt64(&cmdPad); m > 0 {
		n = padLen(id, int(m))
	}
	if len(cmd) != 9+n {
		return 0, 0, false
	}
	if len(cmd) > 9 {
		want := make([]byte, len(cmd)-9)
		fillDerived(want, id, 77, 0)
		if string(want) != string(cmd[9:]) {
			return 0, 0, false
		}
	}
	return cmd[0], id, true
}

// ApplyRec is one applied entry as seen by a state machine instance.
type ApplyRec struct {
	Index uint64
	Key   byte
	ID    uint64
	Pos   uint64
	Stamp int64
}

// DiskImage is the "disk" of an on-disk state machine: what Sync made
// durable survives a power loss, the rest survives only a graceful stop.
type DiskImage struct {
	mu     sync.Mutex
	live   *kvData
	synced *kvData
	frozen bool // after the crash instant nothing becomes durable any more
}

// Freeze marks the crash instant.
func (di *DiskImage) Freeze() {
	di.mu.Lock()
	di.frozen = true
	di.mu.Unlock()
}

// PowerLoss drops everything that was not synced before the crash instant.
func (di *DiskImage) PowerLoss() {
	di.mu.Lock()
	if di.synced != nil {
		di.live = di.synced.clone()
	} else {
		di.live = nil
	}
	di.frozen = false
	di.mu.Unlock()
}

// SMOptions tunes an instrumented state machine.
type SMOptions struct {
	Kind        SMKind
	SlowLookup  time.Duration // legitimately slow user code
	SlowSave    time.Duration
	SlowUpdate  time.Duration
	SlowPrepare time.Duration // PrepareSnapshot dwells after fixing its view
	SlowSync    time.Duration
	SlowRecover time.Duration // RecoverFromSnapshot dwells (a large image)
	// OnApply is called for every user entry inside Update, before the result is returned
	OnApply      func(host int, id uint64)
	RaceCanary   bool // keep the deliberately unsynchronised field (race detector oracle)
	RecordApply  bool
	OpenFailStop bool
	// AtSite is called (outside of every lock of the instance) when a call reaches one of the
	// crash sites at the state machine boundary: SiteSyncAfterRecover .. SiteAnySync
	AtSite func(host int, site int32)
	// StrictCmd: every command handed to Update must be one that MakeCmd produced (the clients
	// of the stage propose nothing else)
	StrictCmd bool
	// Ballast: that many bytes derived from the data are appended to every snapshot image and
	// verified on recovery (images larger than one snapshot block / chunk).
	Ballast int
	// ExtDir: when set (a directory of the real file system), plain and concurrent state
	// machines add 1-2 external files, derived from the data, to every snapshot and verify
	// them on recovery.
	ExtDir func(host int) string
}

// Crash sites at the user state machine boundary (continuing the step-worker points 1 and 2).
const (
	SiteSyncAfterRecover int32 = 3 // entry of the first Sync that follows a RecoverFromSnapshot
	SiteRecoverExit      int32 = 4 // RecoverFromSnapshot is about to return
	SiteSaveEntry        int32 = 5 // SaveSnapshot entered
	SiteSaveExit         int32 = 6 // SaveSnapshot wrote everything and is about to return
	SiteAnySync          int32 = 7 // entry of any Sync
	// log store boundary: SaveSnapshots returned for a snapshot whose index is above the commit
	// index of the last hard state that SaveRaftState made durable
	SiteSnapshotRecordedAheadOfCommit int32 = 8
	SiteLast                          int32 = 8
)

// SiteName names a crash site.
func SiteName(p int32) string {
	return [...]string{"arbitrary-moment", "before-SaveRaftState", "after-SaveRaftState", "entry-of-first-Sync-after-RecoverFromSnapshot",
		"exit-of-RecoverFromSnapshot", "entry-of-SaveSnapshot", "exit-of-SaveSnapshot", "entry-of-Sync",
		"snapshot-record-durable-ahead-of-the-durable-commit-index"}[p]
}

func (s *SMInst) site(p int32) {
	if s.opt.AtSite != nil {
		s.opt.AtSite(s.Host, p)
	}
}

// ballastByte: byte i of the ballast / of external file id for data with the given hash.
func fillDerived(b []byte, hash uint64, id uint64, off int) {
	word := func(p uint64) uint64 {
		x := (hash ^ (id * 0x9e3779b97f4a7c15)) + p*0xbf58476d1ce4e5b9
		x ^= x >> 31
		x *= 0x94d049bb133111eb
		x ^= x >> 29
		return x
	}
	i := 0
	for i < len(b) {
		pos := off + i
		x := word(uint64(pos) >> 3)
		for k := pos & 7; k < 8 && i < len(b); k++ {
			b[i] = byte(x >> (8 * uint(k)))
			i++
		}
	}
}

var extSizes = []int{1, 4096, 1<<20 + 3, 2 << 20, 2<<20 + 1, 4 << 20}

func extPlan(hash uint64) (ids []uint64, sizes []int) {
	n := 1 + int(hash%2)
	for i := 0; i < n; i++ {
		ids = append(ids, uint64(i+1)+(hash>>8)%5)
		sizes = append(sizes, extSizes[int((hash>>(16+4*uint(i)))%uint64(len(extSizes)))])
	}
	return
}

// SMInst is one incarnation of a user state machine (one per replica start).
// It implements all three statemachine interfaces over the same data and
// monitors the call contract of C11 online.
type SMInst struct {
	ShardID, ReplicaID uint64
	Host               int
	Incarnation        int64
	opt                SMOptions
	clk                *Clock
	sink               Sink
	disk               *DiskImage

	mu       sync.Mutex // guards the monitor state below (not the data)
	excl     string     // exclusive-class method in progress
	exclSeq  int64
	shared   int // Lookup/SaveSnapshot in progress (plain SM)
	closed   bool
	lastIdx  uint64
	openIdx  uint64
	calls    map[string]int64
	applied  []ApplyRec
	overlaps int64

	dmu  sync.RWMutex // data lock (the SM protects itself: monitors must not crash the process)
	data *kvData

	afterRecover int32 // a RecoverFromSnapshot returned and no Sync was entered since

	// canary is written in the exclusive methods and read in the shared ones
	// of the plain SM without synchronisation: every breach of the threading
	// contract a user would suffer from shows up as a race report with a frame
	// of this file.
	canary int
}

var smIncarnation int64

// SMRegistry keeps every state machine instance of a cluster.
type SMRegistry struct {
	mu    sync.Mutex
	insts []*SMInst
	disks map[[3]uint64]*DiskImage // (host, shard, replica)
	clk   *Clock
	sink  Sink
	opt   func(shardID, replicaID uint64) SMOptions
}

// NewSMRegistry ...
func NewSMRegistry(clk *Clock, sink Sink, opt func(shardID, replicaID uint64) SMOptions) *SMRegistry {
	return &SMRegistry{clk: clk, sink: sink, opt: opt, disks: map[[3]uint64]*DiskImage{}}
}

// Disk returns the disk image of an on-disk SM replica on a host.
func (r *SMRegistry) Disk(host int, shardID, replicaID uint64) *DiskImage {
	r.mu.Lock()
	defer r.mu.Unlock()
	k := [3]uint64{uint64(host), shardID, replicaID}
	d, ok := r.disks[k]
	if !ok {
		d = &DiskImage{}
		r.disks[k] = d
	}
	return d
}

// Freeze marks the crash instant for every on-disk SM image of a host.
func (r *SMRegistry) Freeze(host int) {
	r.mu.Lock()
	var ds []*DiskImage
	for k, d := range r.disks {
		if k[0] == uint64(host) {
			ds = append(ds, d)
		}
	}
	r.mu.Unlock()
	for _, d := range ds {
		d.Freeze()
	}
}

// PowerLoss reverts every on-disk SM image of a host to its synced state.
func (r *SMRegistry) PowerLoss(host int) {
	r.mu.Lock()
	var ds []*DiskImage
	for k, d := range r.disks {
		if k[0] == uint64(host) {
			ds = append(ds, d)
		}
	}
	r.mu.Unlock()
	for _, d := range ds {
		d.PowerLoss()
	}
}

// Instances returns the instances created so far.
func (r *SMRegistry) Instances() []*SMInst {
	r.mu.Lock()
	defer r.mu.Unlock()
	return append([]*SMInst(nil), r.insts...)
}

// Latest returns the newest instance of a replica.
func (r *SMRegistry) Latest(shardID, replicaID uint64) *SMInst {
	r.mu.Lock()
	defer r.mu.Unlock()
	for i := len(r.insts) - 1; i >= 0; i-- {
		if r.insts[i].ShardID == shardID && r.insts[i].ReplicaID == replicaID {
			return r.insts[i]
		}
	}
	return nil
}

func (r *SMRegistry) newInst(host int, shardID, replicaID uint64) *SMInst {
	o := r.opt(shardID, replicaID)
	s := &SMInst{
		ShardID: shardID, ReplicaID: replicaID, Host: host, opt: o, clk: r.clk, sink: r.sink,
		Incarnation: atomic.AddInt64(&smIncarnation, 1), calls: map[string]int64{}, data: newKVData(),
	}
	if o.Kind == OnDisk {
		s.disk = r.Disk(host, shardID, replicaID)
	}
	r.mu.Lock()
	r.insts = append(r.insts, s)
	r.mu.Unlock()
	return s
}

// RegularFactory returns the factory for NodeHost.StartReplica.
func (r *SMRegistry) RegularFactory(host int) sm.CreateStateMachineFunc {
	return func(shardID, replicaID uint64) sm.IStateMachine {
		return &regularSM{r.newInst(host, shardID, replicaID)}
	}
}

// ConcurrentFactory ...
func (r *SMRegistry) ConcurrentFactory(host int) sm.CreateConcurrentStateMachineFunc {
	return func(shardID, replicaID uint64) sm.IConcurrentStateMachine {
		return &concurrentSM{r.newInst(host, shardID, replicaID)}
	}
}

// OnDiskFactory ...
func (r *SMRegistry) OnDiskFactory(host int) sm.CreateOnDiskStateMachineFunc {
	return func(shardID, replicaID uint64) sm.IOnDiskStateMachine {
		return &onDiskSM{r.newInst(host, shardID, replicaID)}
	}
}

func (s *SMInst) id() string {
	return fmt.Sprintf("%s SM of replica %d (shard %d, host %d)", s.opt.Kind, s.ReplicaID, s.ShardID, s.Host)
}

// enterExcl / exitExcl bracket Update, Sync, PrepareSnapshot,
// RecoverFromSnapshot, Close and Open: none of them may overlap another, none
// may come after Close; for the plain SM they may not overlap Lookup or
// SaveSnapshot either.
func (s *SMInst) enterExcl(method string) int64 {
	t := s.clk.Now()
	s.mu.Lock()
	s.calls[method]++
	if method == "Close" && os.Getenv("VERIF_DEBUG") == "4" {
		fmt.Fprintf(os.Stderr, "Close of %s: shared=%d excl=%q\n", s.id(), s.shared, s.excl)
	}
	if s.closed {
		s.sink.Violation("C11", "call-after-close:"+method, fmt.Sprintf("%s: %s called after Close", s.id(), method), s.witness())
	}
	if s.excl != "" {
		s.overlaps++
		s.sink.Violation("C11", "overlap:"+pair(s.excl, method), fmt.Sprintf("%s: %s entered while %s is in progress", s.id(), method, s.excl), s.witness())
	}
	if s.opt.Kind == Regular && s.shared > 0 {
		s.overlaps++
		s.sink.Violation("C11", "overlap:"+pair("Lookup/SaveSnapshot", method), fmt.Sprintf("%s: %s entered while %d Lookup/SaveSnapshot calls are in progress", s.id(), method, s.shared), s.witness())
	}
	s.excl = method
	s.mu.Unlock()
	if s.opt.RaceCanary {
		s.canary++
	}
	return t
}

func (s *SMInst) exitExcl(method string) {
	if s.opt.RaceCanary {
		s.canary++
	}
	s.mu.Lock()
	if s.excl == method {
		s.excl = ""
	}
	if method == "Close" {
		s.closed = true
	}
	s.mu.Unlock()
}

// enterShared / exitShared bracket Lookup and SaveSnapshot.
func (s *SMInst) enterShared(method string) {
	s.mu.Lock()
	s.calls[method]++
	if s.opt.Kind == Regular {
		if s.excl != "" {
			s.overlaps++
			s.sink.Violation("C11", "overlap:"+pair(s.excl, method), fmt.Sprintf("%s: %s entered while %s is in progress", s.id(), method, s.excl), s.witness())
		}
		if s.closed {
			// Lookup after Close must be refused by the library for a plain SM
			s.sink.Violation("C11", "call-after-close:"+method, fmt.Sprintf("%s: %s called after Close", s.id(), method), s.witness())
		}
	}
	s.shared++
	s.mu.Unlock()
	if s.opt.RaceCanary && s.opt.Kind == Regular {
		_ = s.canary
	}
}

func (s *SMInst) exitShared(method string) {
	if s.opt.RaceCanary && s.opt.Kind == Regular {
		_ = s.canary
	}
	s.mu.Lock()
	s.shared--
	s.mu.Unlock()
}

func pair(a, b string) string {
	if a > b {
		a, b = b, a
	}
	return a + "+" + b
}

func (s *SMInst) witness() interface{} {
	return map[string]interface{}{
		"shard": s.ShardID, "replica": s.ReplicaID, "host": s.Host, "kind": s.opt.Kind.String(),
		"incarnation": s.Incarnation, "calls": s.calls, "last_index": s.lastIdx, "open_index": s.openIdx,
	}
}

// Calls returns the per-method call counts.
func (s *SMInst) Calls() map[string]int64 {
	s.mu.Lock()
	defer s.mu.Unlock()
	out := map[string]int64{}
	for k, v := range s.calls {
		out[k] = v
	}
	return out
}

// Applied returns the apply records of this incarnation.
func (s *SMInst) Applied() []ApplyRec {
	s.mu.Lock()
	defer s.mu.Unlock()
	return append([]ApplyRec(nil), s.applied...)
}

// Closed reports whether Close was called.
func (s *SMInst) Closed() bool {
	s.mu.Lock()
	defer s.mu.Unlock()
	return s.closed
}

// Snapshot returns a copy of the current lists (harness use, takes the data lock).
func (s *SMInst) Snapshot() map[byte][]uint64 {
	s.dmu.RLock()
	defer s.dmu.RUnlock()
	return s.data.clone().Lists
}

// AppliedAndLists returns, atomically, the index of the last user entry the
// state machine holds and a copy of its lists.
func (s *SMInst) AppliedAndLists() (uint64, map[byte][]uint64) {
	s.dmu.RLock()
	defer s.dmu.RUnlock()
	return s.data.Applied, s.data.clone().Lists
}

// DataHash returns the hash of the current data.
func (s *SMInst) DataHash() uint64 {
	s.dmu.RLock()
	defer s.dmu.RUnlock()
	return s.data.Hash()
}

func (s *SMInst) update(ents []sm.Entry) []sm.Entry {
	first, last := uint64(0), uint64(0)
	if len(ents) > 0 {
		first, last = ents[0].Index, ents[len(ents)-1].Index
	}
	s.enterExcl("Update")
	s.mu.Lock()
	for i := range ents {
		idx := ents[i].Index
		if idx <= s.lastIdx {
			s.sink.Violation("C11", "update-index-not-increasing", fmt.Sprintf("%s: Update(%d) after index %d", s.id(), idx, s.lastIdx), s.witness())
		}
		if s.opt.Kind == OnDisk && idx <= s.openIdx {
			s.sink.Violation("C11", "ondisk-entry-at-or-below-open-index", fmt.Sprintf("%s: Update(%d) but Open returned %d", s.id(), idx, s.openIdx), s.witness())
		}
		s.lastIdx = idx
	}
	s.mu.Unlock()
	_ = first
	_ = last
	if s.opt.SlowUpdate > 0 {
		time.Sleep(s.opt.SlowUpdate)
	}
	s.dmu.Lock()
	for i := range ents {
		key, id, ok := ParseCmd(ents[i].Cmd)
		if !ok {
			if s.opt.StrictCmd {
				for _, p := range []string{"C13", "C01"} {
					s.sink.Violation(p, "applied-command-is-not-a-proposed-payload", fmt.Sprintf("%s: Update(index %d) was handed %d bytes that no client proposed: %x", s.id(), ents[i].Index, len(ents[i].Cmd), ents[i].Cmd),
						map[string]interface{}{"sm": s.id(), "index": ents[i].Index})
				}
			}
			ents[i].Result = sm.Result{Value: 0}
			continue
		}
		if s.opt.OnApply != nil {
			s.opt.OnApply(s.Host, id)
		}
		s.data.Lists[key] = append(s.data.Lists[key], id)
		s.data.Applied = ents[i].Index
		pos := uint64(len(s.data.Lists[key]))
		var idb [8]byte
		binary.BigEndian.PutUint64(idb[:], id)
		ents[i].Result = sm.Result{Value: pos, Data: idb[:]}
		if s.opt.RecordApply {
			s.mu.Lock()
			s.applied = append(s.applied, ApplyRec{Index: ents[i].Index, Key: key, ID: id, Pos: pos, Stamp: s.clk.Now()})
			s.mu.Unlock()
		}
	}
	if s.disk != nil {
		s.disk.mu.Lock()
		s.disk.live = s.data
		s.disk.mu.Unlock()
	}
	s.dmu.Unlock()
	s.exitExcl("Update")
	return ents
}

// LookupQuery asks for the list of a key.
type LookupQuery struct{ Key byte }

// HashQuery asks for the data hash and applied index.
type HashQuery struct{}

// HashResult ...
type HashResult struct {
	Hash    uint64
	Applied uint64
}

func (s *SMInst) lookup(q interface{}) (interface{}, error) {
	s.enterShared("Lookup")
	defer s.exitShared("Lookup")
	if s.opt.SlowLookup > 0 {
		time.Sleep(s.opt.SlowLookup)
	}
	s.dmu.RLock()
	defer s.dmu.RUnlock()
	switch v := q.(type) {
	case LookupQuery:
		return append([]uint64(nil), s.data.Lists[v.Key]...), nil
	case HashQuery:
		return HashResult{Hash: s.data.Hash(), Applied: s.data.Applied}, nil
	}
	return nil, fmt.Errorf("unknown query %T", q)
}

func (s *SMInst) saveTo(d *kvData, w io.Writer, stopc <-chan struct{}) error {
	s.site(SiteSaveEntry)
	defer s.site(SiteSaveExit)
	if s.opt.SlowSave > 0 {
		select {
		case <-time.After(s.opt.SlowSave):
		case <-stopc:
			return sm.ErrSnapshotStopped
		}
	}
	if err := d.write(w); err != nil {
		return err
	}
	if s.opt.Ballast > 0 {
		var b8 [8]byte
		binary.BigEndian.PutUint64(b8[:], uint64(s.opt.Ballast))
		if _, err := w.Write(b8[:]); err != nil {
			return err
		}
		h := d.Hash()
		buf := make([]byte, 64*1024)
		for off := 0; off < s.opt.Ballast; off += len(buf) {
			n := len(buf)
			if off+n > s.opt.Ballast {
				n = s.opt.Ballast - off
			}
			fillDerived(buf[:n], h, 0, off)
			if _, err := w.Write(buf[:n]); err != nil {
				return err
			}
		}
	}
	return nil
}

// addExtFiles writes the external files of a snapshot of d and registers them.
func (s *SMInst) addExtFiles(d *kvData, fc sm.ISnapshotFileCollection) error {
	if s.opt.ExtDir == nil || fc == nil {
		return nil
	}
	dir := s.opt.ExtDir(s.Host)
	if err := os.MkdirAll(dir, 0o755); err != nil {
		return err
	}
	h := d.Hash()
	ids, sizes := extPlan(h)
	seq := atomic.AddInt64(&extSeq, 1)
	for i, id := range ids {
		fp := fmt.Sprintf("%s/ext-%d-%d-%d-%d", dir, s.ShardID, s.ReplicaID, seq, id)
		b := make([]byte, sizes[i])
		fillDerived(b, h, id, 0)
		f, err := os.Create(fp)
		if err != nil {
			return err
		}
		if _, err := f.Write(b); err != nil {
			_ = f.Close()
			return err
		}
		if err := f.Sync(); err != nil {
			_ = f.Close()
			return err
		}
		_ = f.Close()
		var meta [16]byte
		binary.BigEndian.PutUint64(meta[:8], h)
		binary.BigEndian.PutUint64(meta[8:], uint64(sizes[i]))
		fc.AddFile(id, fp, meta[:])
		s.sink.Count("sm_external_files_added", 1)
	}
	return nil
}

var extSeq int64

func (s *SMInst) altered(what string, wit map[string]interface{}) {
	wit["sm"] = s.id()
	for _, p := range []string{"C14", "C15", "C08"} {
		s.sink.Violation(p, "altered-snapshot-data-handed-to-state-machine", fmt.Sprintf("%s: RecoverFromSnapshot: %s", s.id(), what), wit)
	}
}

// checkExtFiles verifies the external files handed to RecoverFromSnapshot against the data.
func (s *SMInst) checkExtFiles(d *kvData, files []sm.SnapshotFile) {
	if s.opt.ExtDir == nil {
		return
	}
	h := d.Hash()
	ids, sizes := extPlan(h)
	if len(files) != len(ids) {
		s.altered(fmt.Sprintf("%d external files handed over, the snapshot was saved with %d", len(files), len(ids)), map[string]interface{}{"files": fmt.Sprint(files)})
		return
	}
	for i, id := range ids {
		var f *sm.SnapshotFile
		for j := range files {
			if files[j].FileID == id {
				f = &files[j]
			}
		}
		if f == nil {
			s.altered(fmt.Sprintf("external file id %d missing", id), map[string]interface{}{"files": fmt.Sprint(files)})
			continue
		}
		want := make([]byte, sizes[i])
		fillDerived(want, h, id, 0)
		got, err := os.ReadFile(f.Filepath)
		if err != nil {
			s.altered(fmt.Sprintf("external file id %d not readable: %v", id, err), map[string]interface{}{"path": f.Filepath})
			continue
		}
		var meta [16]byte
		binary.BigEndian.PutUint64(meta[:8], h)
		binary.BigEndian.PutUint64(meta[8:], uint64(sizes[i]))
		if string(got) != string(want) || string(f.Metadata) != string(meta[:]) {
			diff := -1
			for k := 0; k < len(got) && k < len(want); k++ {
				if got[k] != want[k] {
					diff = k
					break
				}
			}
			s.altered(fmt.Sprintf("external file id %d differs from what SaveSnapshot wrote (length %d, written %d, first differing byte %d, metadata equal %v)", id, len(got), len(want), diff, string(f.Metadata) == string(meta[:])),
				map[string]interface{}{"path": f.Filepath})
		}
		s.sink.Count("sm_external_files_verified", 1)
	}
}

func (s *SMInst) recoverFrom(r io.Reader, files ...sm.SnapshotFile) error {
	s.enterExcl("RecoverFromSnapshot")
	defer s.exitExcl("RecoverFromSnapshot")
	d, err := readKVData(r)
	if err != nil {
		return err
	}
	if s.opt.Ballast > 0 {
		var b8 [8]byte
		if _, err := io.ReadFull(r, b8[:]); err != nil {
			s.altered(fmt.Sprintf("image ends before the ballast: %v", err), map[string]interface{}{})
			return err
		}
		n := binary.BigEndian.Uint64(b8[:])
		if n != uint64(s.opt.Ballast) {
			s.altered(fmt.Sprintf("ballast length %d, written %d", n, s.opt.Ballast), map[string]interface{}{})
		} else {
			h := d.Hash()
			buf := make([]byte, 64*1024)
			want := make([]byte, 64*1024)
			for off := 0; off < s.opt.Ballast; off += len(buf) {
				k := len(buf)
				if off+k > s.opt.Ballast {
					k = s.opt.Ballast - off
				}
				if _, err := io.ReadFull(r, buf[:k]); err != nil {
					s.altered(fmt.Sprintf("image ends inside the ballast at offset %d: %v", off, err), map[string]interface{}{})
					return err
				}
				fillDerived(want[:k], h, 0, off)
				if string(buf[:k]) != string(want[:k]) {
					s.altered(fmt.Sprintf("ballast differs from what SaveSnapshot wrote in [%d, %d)", off, off+k), map[string]interface{}{})
					break
				}
			}
			s.sink.Count("sm_ballast_images_verified", 1)
		}
		var b1 [1]byte
		if k, _ := r.Read(b1[:]); k > 0 {
			s.altered("bytes after the end of the image", map[string]interface{}{})
		}
	}
	s.checkExtFiles(d, files)
	if s.opt.SlowRecover > 0 {
		time.Sleep(s.opt.SlowRecover)
	}
	s.dmu.Lock()
	s.data = d
	if s.disk != nil {
		// like Update, RecoverFromSnapshot only changes the live image of an on-disk state
		// machine; it becomes durable with the next Sync (node.recover syncs before it shrinks
		// the snapshot it recovered from)
		s.disk.mu.Lock()
		s.disk.live = s.data
		s.disk.mu.Unlock()
	}
	s.dmu.Unlock()
	// the snapshot replaces the whole state: later updates continue after its
	// index (an imported snapshot may be older than what an on-disk state
	// machine had on its disk)
	s.mu.Lock()
	s.lastIdx = d.Applied
	if s.openIdx > d.Applied {
		s.openIdx = d.Applied
	}
	s.mu.Unlock()
	atomic.StoreInt32(&s.afterRecover, 1)
	s.site(SiteRecoverExit)
	return nil
}

func (s *SMInst) close() error {
	s.enterExcl("Close")
	s.exitExcl("Close")
	return nil
}

// ---- IStateMachine ----

type regularSM struct{ s *SMInst }

func (r *regularSM) Update(e sm.Entry) (sm.Result, error) {
	out := r.s.update([]sm.Entry{e})
	return out[0].Result, nil
}
func (r *regularSM) Lookup(q interface{}) (interface{}, error) { return r.s.lookup(q) }
func (r *regularSM) SaveSnapshot(w io.Writer, fc sm.ISnapshotFileCollection, stopc <-chan struct{}) error {
	r.s.enterShared("SaveSnapshot")
	defer r.s.exitShared("SaveSnapshot")
	r.s.dmu.RLock()
	d := r.s.data.clone()
	r.s.dmu.RUnlock()
	if err := r.s.addExtFiles(d, fc); err != nil {
		return err
	}
	return r.s.saveTo(d, w, stopc)
}
func (r *regularSM) RecoverFromSnapshot(rd io.Reader, files []sm.SnapshotFile, _ <-chan struct{}) error {
	if r.s.opt.ExtDir != nil {
		return r.s.recoverFrom(rd, files...)
	}
	return r.s.recoverFrom(rd)
}
func (r *regularSM) Close() error             { return r.s.close() }
func (r *regularSM) GetHash() (uint64, error) { return r.s.DataHash(), nil }

// ---- IConcurrentStateMachine ----

type concurrentSM struct{ s *SMInst }

func (c *concurrentSM) Update(ents []sm.Entry) ([]sm.Entry, error) { return c.s.update(ents), nil }
func (c *concurrentSM) Lookup(q interface{}) (interface{}, error)  { return c.s.lookup(q) }
func (c *concurrentSM) PrepareSnapshot() (interface{}, error) {
	c.s.enterExcl("PrepareSnapshot")
	defer c.s.exitExcl("PrepareSnapshot")
	c.s.dmu.RLock()
	d := c.s.data.clone()
	c.s.dmu.RUnlock()
	if c.s.opt.SlowPrepare > 0 {
		time.Sleep(c.s.opt.SlowPrepare)
	}
	return d, nil
}
func (c *concurrentSM) SaveSnapshot(ctx interface{}, w io.Writer, fc sm.ISnapshotFileCollection, stopc <-chan struct{}) error {
	c.s.enterShared("SaveSnapshot")
	defer c.s.exitShared("SaveSnapshot")
	if err := c.s.addExtFiles(ctx.(*kvData), fc); err != nil {
		return err
	}
	return c.s.saveTo(ctx.(*kvData), w, stopc)
}
func (c *concurrentSM) RecoverFromSnapshot(r io.Reader, files []sm.SnapshotFile, _ <-chan struct{}) error {
	if c.s.opt.ExtDir != nil {
		return c.s.recoverFrom(r, files...)
	}
	return c.s.recoverFrom(r)
}
func (c *concurrentSM) Close() error             { return c.s.close() }
func (c *concurrentSM) GetHash() (uint64, error) { return c.s.DataHash(), nil }

// ---- IOnDiskStateMachine ----

type onDiskSM struct{ s *SMInst }

func (o *onDiskSM) Open(stopc <-chan struct{}) (uint64, error) {
	o.s.enterExcl("Open")
	defer o.s.exitExcl("Open")
	o.s.disk.mu.Lock()
	if o.s.disk.live != nil {
		o.s.dmu.Lock()
		o.s.data = o.s.disk.live.clone()
		o.s.dmu.Unlock()
	}
	o.s.disk.mu.Unlock()
	o.s.dmu.RLock()
	idx := o.s.data.Applied
	o.s.dmu.RUnlock()
	o.s.mu.Lock()
	o.s.openIdx = idx
	o.s.lastIdx = idx
	o.s.mu.Unlock()
	return idx, nil
}
func (o *onDiskSM) Update(ents []sm.Entry) ([]sm.Entry, error) { return o.s.update(ents), nil }
func (o *onDiskSM) Lookup(q interface{}) (interface{}, error)  { return o.s.lookup(q) }
func (o *onDiskSM) Sync() error {
	if atomic.SwapInt32(&o.s.afterRecover, 0) == 1 {
		o.s.site(SiteSyncAfterRecover)
	}
	o.s.site(SiteAnySync)
	o.s.enterExcl("Sync")
	defer o.s.exitExcl("Sync")
	o.s.dmu.RLock()
	c := o.s.data.clone()
	o.s.dmu.RUnlock()
	if o.s.opt.SlowSync > 0 {
		time.Sleep(o.s.opt.SlowSync)
	}
	o.s.disk.mu.Lock()
	if !o.s.disk.frozen {
		o.s.disk.synced = c
	}
	o.s.disk.mu.Unlock()
	return nil
}
func (o *onDiskSM) PrepareSnapshot() (interface{}, error) {
	o.s.enterExcl("PrepareSnapshot")
	defer o.s.exitExcl("PrepareSnapshot")
	o.s.dmu.RLock()
	d := o.s.data.clone()
	o.s.dmu.RUnlock()
	if o.s.opt.SlowPrepare > 0 {
		time.Sleep(o.s.opt.SlowPrepare)
	}
	return d, nil
}
func (o *onDiskSM) SaveSnapshot(ctx interface{}, w io.Writer, stopc <-chan struct{}) error {
	o.s.enterShared("SaveSnapshot")
	defer o.s.exitShared("SaveSnapshot")
	return o.s.saveTo(ctx.(*kvData), w, stopc)
}
func (o *onDiskSM) RecoverFromSnapshot(r io.Reader, _ <-chan struct{}) error {
	return o.s.recoverFrom(r)
}
func (o *onDiskSM) Close() error             { return o.s.close() }
func (o *onDiskSM) GetHash() (uint64, error) { return o.s.DataHash(), nil }
