package cluster

import (
	"context"
	"encoding/binary"
	"errors"
	"fmt"
	"math/rand"
	"sync"
	"sync/atomic"
	"time"

	dragonboat "github.com/lni/dragonboat/v4"
	"github.com/lni/dragonboat/v4/client"
	"github.com/lni/dragonboat/v4/raftio"
	pb "github.com/lni/dragonboat/v4/raftpb"
	"github.com/lni/dragonboat/v4/verifh/linz"
)

// History records client operations with stamps from the cluster clock.
type History struct {
	mu  sync.Mutex
	ops []linz.Op
}

func (h *History) begin(op linz.Op) int {
	h.mu.Lock()
	defer h.mu.Unlock()
	op.ID = len(h.ops)
	op.Outcome = linz.Unknown
	h.ops = append(h.ops, op)
	return op.ID
}

func (h *History) end(id int, f func(op *linz.Op)) {
	h.mu.Lock()
	f(&h.ops[id])
	h.mu.Unlock()
}

// Ops returns a copy of the history.
func (h *History) Ops() []linz.Op {
	h.mu.Lock()
	defer h.mu.Unlock()
	return append([]linz.Op(nil), h.ops...)
}

// KeyName is the history key of a data key.
func KeyName(k byte) string { return string([]byte{'k', '0' + k}) }

var nextID uint64

// NewID returns a process-wide unique payload id.
func NewID() uint64 { return atomic.AddUint64(&nextID, 1) }

// classify maps an error of the public API to an outcome: definite failures
// are those where the request was never accepted or was reported
// Dropped/Rejected; everything else may still take effect.
func classify(err error) linz.Outcome {
	switch {
	case err == nil:
		return linz.OK
	case errors.Is(err, dragonboat.ErrShardNotReady), errors.Is(err, dragonboat.ErrRejected),
		errors.Is(err, dragonboat.ErrShardNotFound), errors.Is(err, dragonboat.ErrSystemBusy),
		errors.Is(err, dragonboat.ErrInvalidSession), errors.Is(err, dragonboat.ErrPayloadTooBig),
		errors.Is(err, dragonboat.ErrInvalidOperation), errors.Is(err, dragonboat.ErrInvalidDeadline):
		return linz.Fail
	}
	return linz.Unknown
}

// Workload drives clients against one shard.
type Workload struct {
	C       *Cluster
	ShardID uint64
	Keys    int
	Hist    *History
	Seed    int64
	// Replicas maps replica id -> host index for the replicas clients may use.
	Replicas map[uint64]int
	Timeout  time.Duration
	stats    map[string]int64
	smu      sync.Mutex
}

func (w *Workload) count(k string, n int64) {
	w.smu.Lock()
	if w.stats == nil {
		w.stats = map[string]int64{}
	}
	w.stats[k] += n
	w.smu.Unlock()
}

// Stats returns the client side counters.
func (w *Workload) Stats() map[string]int64 {
	w.smu.Lock()
	defer w.smu.Unlock()
	out := map[string]int64{}
	for k, v := range w.stats {
		out[k] = v
	}
	return out
}

// afterCrash reports whether the reply was observed after a crash instant of
// the host that happened after the call: the host may have acted on state
// that was never durable, so the result counts as unknown.
func (w *Workload) afterCrash(h *Host, call int64) bool {
	h.mu.Lock()
	defer h.mu.Unlock()
	return h.CrashStamp > call
}

// await waits for the next result of an accepted request. dragonboat expires requests by ticks:
// a request with a deadline of d ticks must have a result once its replica has processed a few
// times d ticks. If the replica's tick counter shows 4d+200 ticks and nothing arrived, the request
// is reported as never answered (C12) and the caller goes on; if the ticks do not advance (host
// closed under the request, starved machine) a wall-clock watchdog ends the wait without a verdict.
func (w *Workload) await(h *Host, rs *dragonboat.RequestState, kind string) (dragonboat.RequestResult, bool) {
	rep := uint64(0)
	for id, hi := range w.Replicas {
		if hi == h.Index {
			rep = id
		}
	}
	rtt := time.Duration(w.C.Opt.RTTMs) * time.Millisecond
	bound := 4*int64(w.Timeout/rtt) + 200
	t0 := w.C.Ticks(w.ShardID, rep)
	wall := time.Now()
	for {
		select {
		case r := <-rs.ResultC():
			return r, true
		case <-time.After(50 * time.Millisecond):
		}
		if rep != 0 && w.C.Ticks(w.ShardID, rep)-t0 > bound {
			select {
			case r := <-rs.ResultC():
				return r, true
			default:
			}
			w.C.Sink.Violation("C12", "no-terminal-result:"+kind,
				fmt.Sprintf("%s request accepted on host %d with a deadline of %d ticks has no result after its replica processed %d ticks", kind, h.Index, int64(w.Timeout/rtt), w.C.Ticks(w.ShardID, rep)-t0),
				map[string]interface{}{"host": h.Index, "kind": kind, "deadline_ticks": int64(w.Timeout / rtt)})
			w.count("requests_never_answered", 1)
			return dragonboat.RequestResult{}, false
		}
		if time.Since(wall) > 120*time.Second {
			w.count("request_waits_ended_by_watchdog", 1)
			return dragonboat.RequestResult{}, false
		}
	}
}

// Append proposes append(key, id) through host h.
func (w *Workload) Append(h *Host, key byte, async bool, client int) {
	nh := h.nodeHost()
	if nh == nil {
		return
	}
	id := NewID()
	cmd := MakeCmd(key, id)
	call := w.C.Clock.Now()
	opid := w.Hist.begin(linz.Op{Client: client, Append: true, Key: KeyName(key), Value: id,
		Call: call, Via: fmt.Sprintf("host %d", h.Index)})
	var pos uint64
	var data []byte
	var err error
	if async {
		var rs *dragonboat.RequestState
		rs, err = nh.Propose(nh.GetNoOPSession(w.ShardID), cmd, w.Timeout)
		if err == nil {
			r, got := w.await(h, rs, "propose")
			if got && r.Committed() && !r.Completed() {
				// NotifyCommit: the terminal result follows the commit notification
				w.count("commit_notifications", 1)
				r, got = w.await(h, rs, "propose")
			}
			switch {
			case !got:
				err = dragonboat.ErrTimeout // outcome unknown
			case r.Completed():
				pos, data = r.GetResult().Value, r.GetResult().Data
			case r.Rejected():
				err = dragonboat.ErrRejected
			case r.Dropped():
				err = dragonboat.ErrShardNotReady
			case r.Timeout():
				err = dragonboat.ErrTimeout
			case r.Terminated():
				err = dragonboat.ErrShardClosed
			default:
				err = dragonboat.ErrAborted
			}
			rs.Release()
		}
	} else {
		ctx, cancel := context.WithTimeout(context.Background(), w.Timeout)
		res, e := nh.SyncPropose(ctx, nh.GetNoOPSession(w.ShardID), cmd)
		cancel()
		pos, data, err = res.Value, res.Data, e
	}
	ret := w.C.Clock.Now()
	out := classify(err)
	if out == linz.OK && (len(data) != 8 || binary.BigEndian.Uint64(data) != id) {
		w.C.Sink.Violation("C12", "result-of-another-request",
			fmt.Sprintf("proposal %d completed with a result that carries id %x", id, data),
			map[string]interface{}{"id": id, "data": data, "pos": pos, "host": h.Index})
	}
	if out == linz.OK && w.afterCrash(h, call) {
		out = linz.Unknown
		w.count("results_after_crash_instant_discarded", 1)
	}
	w.Hist.end(opid, func(op *linz.Op) {
		op.Outcome, op.Ret, op.Pos = out, ret, pos
	})
	w.count(fmt.Sprintf("append_%s", outcomeName(out, err)), 1)
}

func outcomeName(o linz.Outcome, err error) string {
	switch o {
	case linz.OK:
		return "ok"
	case linz.Fail:
		return "definite_failure"
	}
	if errors.Is(err, dragonboat.ErrTimeout) {
		return "timeout"
	}
	return "unknown"
}

// Read performs a linearizable read through host h.
func (w *Workload) Read(h *Host, key byte, twoStep bool, client int) {
	nh := h.nodeHost()
	if nh == nil {
		return
	}
	call := w.C.Clock.Now()
	opid := w.Hist.begin(linz.Op{Client: client, Append: false, Key: KeyName(key),
		Call: call, Via: fmt.Sprintf("host %d", h.Index)})
	var v interface{}
	var err error
	if twoStep {
		var rs *dragonboat.RequestState
		rs, err = nh.ReadIndex(w.ShardID, w.Timeout)
		if err == nil {
			r, got := w.await(h, rs, "readindex")
			switch {
			case !got:
				err = dragonboat.ErrTimeout
			case r.Completed():
				v, err = nh.ReadLocalNode(rs, LookupQuery{Key: key})
			case r.Dropped():
				err = dragonboat.ErrShardNotReady
			case r.Timeout():
				err = dragonboat.ErrTimeout
			default:
				err = dragonboat.ErrShardClosed
			}
			rs.Release()
		}
	} else {
		ctx, cancel := context.WithTimeout(context.Background(), w.Timeout)
		v, err = nh.SyncRead(ctx, w.ShardID, LookupQuery{Key: key})
		cancel()
	}
	ret := w.C.Clock.Now()
	out := classify(err)
	if out == linz.OK && w.afterCrash(h, call) {
		out = linz.Unknown
	}
	var list []uint64
	if out == linz.OK {
		l, ok := v.([]uint64)
		if !ok {
			out = linz.Unknown
		}
		list = l
	}
	if out != linz.OK {
		out = linz.Fail // a read without a result constrains nothing
	}
	w.Hist.end(opid, func(op *linz.Op) {
		op.Outcome, op.Ret, op.Read = out, ret, list
	})
	if out == linz.OK {
		w.count("read_ok", 1)
	} else {
		w.count("read_no_result", 1)
	}
}

func (h *Host) nodeHost() *dragonboat.NodeHost {
	h.mu.Lock()
	defer h.mu.Unlock()
	return h.NH
}

// RunClients runs n client goroutines for at most ops operations each (until
// stop is closed, if given), pausing up to paceMs between operations.
func (w *Workload) RunClients(n, ops int, stop <-chan struct{}) {
	w.RunClientsPaced(n, ops, 2, stop)
}

// RunClientsPaced ...
func (w *Workload) RunClientsPaced(n, ops int, paceMs int, stop <-chan struct{}) {
	var wg sync.WaitGroup
	ids := make([]uint64, 0, len(w.Replicas))
	for id := range w.Replicas {
		ids = append(ids, id)
	}
	sortU64(ids)
	for c := 0; c < n; c++ {
		wg.Add(1)
		go func(c int) {
			defer wg.Done()
			rng := rand.New(rand.NewSource(w.Seed*1000 + int64(c)))
			for i := 0; i < ops; i++ {
				select {
				case <-stop:
					return
				default:
				}
				h := w.C.Hosts[w.Replicas[ids[rng.Intn(len(ids))]]]
				key := byte(rng.Intn(w.Keys))
				if rng.Intn(100) < 55 {
					w.Append(h, key, rng.Intn(2) == 0, c)
				} else {
					w.Read(h, key, rng.Intn(2) == 0, c)
				}
				if paceMs > 0 {
					time.Sleep(time.Duration(rng.Intn(paceMs*1000)) * time.Microsecond)
				}
			}
		}(c)
	}
	wg.Wait()
}

func sortU64(a []uint64) {
	for i := 1; i < len(a); i++ {
		for j := i; j > 0 && a[j] < a[j-1]; j-- {
			a[j], a[j-1] = a[j-1], a[j]
		}
	}
}

// Fault is one step of a fault script.
type Fault struct {
	Kind string
	Host int
	Arg  int
	Gap  time.Duration // pause after the fault
}

// MakeScript derives a fault script from the PRNG.
func MakeScript(rng *rand.Rand, hosts int, n int, crashes bool, gapMs int) []Fault {
	kinds := []string{"loss", "loss", "partition", "isolate-leader", "one-way", "transfer", "heal", "heal", "calm", "calm"}
	if crashes {
		kinds = append(kinds, "crash", "crash", "graceful-restart")
	}
	var out []Fault
	for i := 0; i < n; i++ {
		k := kinds[rng.Intn(len(kinds))]
		out = append(out, Fault{Kind: k, Host: rng.Intn(hosts), Arg: rng.Intn(1000),
			Gap: time.Duration(gapMs/2+rng.Intn(gapMs)) * time.Millisecond})
	}
	return out
}

// LeaderHost returns the host index of the present leader of the shard as
// known by any running host (-1 if unknown).
func (c *Cluster) LeaderHost(shardID uint64, replicas map[uint64]int) int {
	for _, h := range c.Hosts {
		nh := h.nodeHost()
		if nh == nil {
			continue
		}
		if lid, _, ok, err := nh.GetLeaderID(shardID); err == nil && ok {
			if hi, ok := replicas[lid]; ok {
				return hi
			}
		}
	}
	return -1
}

// SelfLeader returns the host index of a running replica that reports itself
// as the leader of the shard (-1 if none does). Unlike LeaderHost it does not
// trust what other hosts remember about a leader.
func (c *Cluster) SelfLeader(shardID uint64, replicas map[uint64]int) int {
	for rep, hi := range replicas {
		nh := c.Hosts[hi].nodeHost()
		if nh == nil {
			continue
		}
		if lid, _, ok, err := nh.GetLeaderID(shardID); err == nil && ok && lid == rep {
			return hi
		}
	}
	return -1
}

// RunScript executes the fault script; crash/restart steps go through the
// given callbacks so that the caller can attach its checks.
func (c *Cluster) RunScript(script []Fault, shardID uint64, replicas map[uint64]int,
	onCrash func(h *Host), stop <-chan struct{}) map[string]int64 {
	stats := map[string]int64{}
	for _, f := range script {
		select {
		case <-stop:
			return stats
		default:
		}
		h := c.Hosts[f.Host%len(c.Hosts)]
		switch f.Kind {
		case "loss":
			c.Net.SetLoss(20000+f.Arg*100, 100000, 100)
		case "calm":
			c.Net.SetLoss(0, 0, 0)
		case "heal":
			c.Net.SetLoss(0, 0, 0)
			c.Net.HealAll()
			for _, x := range c.Hosts {
				if x.Crashed() {
					// keep crashed hosts cut until they restart
					c.Net.Isolate(x.Addr, false)
				}
			}
		case "partition":
			k := 1 + f.Arg%(len(c.Hosts)-1)
			for i := 0; i < k; i++ {
				for j := k; j < len(c.Hosts); j++ {
					a, b := c.Hosts[(f.Host+i)%len(c.Hosts)], c.Hosts[(f.Host+j)%len(c.Hosts)]
					c.Net.Cut(a.Addr, b.Addr, f.Arg%2 == 0)
					c.Net.Cut(b.Addr, a.Addr, f.Arg%2 == 0)
				}
			}
		case "isolate-leader":
			if li := c.LeaderHost(shardID, replicas); li >= 0 {
				c.Net.Isolate(c.Hosts[li].Addr, f.Arg%2 == 0)
			}
		case "one-way":
			o := c.Hosts[(f.Host+1+f.Arg%(len(c.Hosts)-1))%len(c.Hosts)]
			c.Net.Cut(h.Addr, o.Addr, false)
		case "transfer":
			if li := c.LeaderHost(shardID, replicas); li >= 0 {
				if nh := c.Hosts[li].nodeHost(); nh != nil {
					target := uint64(1 + f.Arg%len(replicas))
					_ = nh.RequestLeaderTransfer(shardID, target)
				}
			}
		case "crash":
			if !h.Crashed() && h.nodeHost() != nil {
				onCrash(h)
			}
		case "graceful-restart":
			if !h.Crashed() && h.nodeHost() != nil {
				h.Stop()
				time.Sleep(20 * time.Millisecond)
				if err := h.Restart(); err != nil {
					c.Sink.Violation("C16", "restart-failed", fmt.Sprintf("host %d failed to restart after a graceful stop: %v", h.Index, err), nil)
				}
			}
		}
		stats["fault_"+f.Kind]++
		select {
		case <-time.After(f.Gap):
		case <-stop:
			return stats
		}
	}
	return stats
}

// ---- C04: durable shadow checks ----

// InstallSendMonitor installs the persist-before-send monitor (M1) on the
// verifhook send point. hostOf maps (shard, replica) to a host.
func (c *Cluster) SendMonitor(hostOf func(shardID, replicaID uint64) *Host) func(m *pb.Message) {
	return func(m *pb.Message) {
		h := hostOf(m.ShardID, m.From)
		if h == nil {
			return
		}
		switch m.Type {
		case pb.RequestVote, pb.RequestVoteResp, pb.ReplicateResp, pb.HeartbeatResp:
		default:
			return
		}
		h.mu.Lock()
		if h.crashed {
			h.mu.Unlock()
			return
		}
		var s Shadow
		if sp, ok := h.shadows[[2]uint64{m.ShardID, m.From}]; ok {
			s = *sp
		}
		h.mu.Unlock()
		c.Sink.Count("sends_checked_"+m.Type.String(), 1)
		bad := ""
		key := ""
		switch {
		case m.Term > s.Term:
			key = "term-not-durable-before-send"
			bad = fmt.Sprintf("%s of term %d leaves replica %d while the durable term is %d", m.Type, m.Term, m.From, s.Term)
		case m.Type == pb.RequestVote && s.Term == m.Term && s.Vote != m.From:
			key = "vote-not-durable-before-vote-request"
			bad = fmt.Sprintf("RequestVote of term %d leaves replica %d while its durable vote is %d", m.Term, m.From, s.Vote)
		case m.Type == pb.RequestVoteResp && !m.Reject && s.Term == m.Term && s.Vote != m.To:
			key = "vote-not-durable-before-grant"
			bad = fmt.Sprintf("replica %d grants its vote of term %d to %d while its durable vote is %d", m.From, m.Term, m.To, s.Vote)
		case m.Type == pb.ReplicateResp && !m.Reject && maxU(s.SnapIndex, s.Last) < m.LogIndex:
			key = "entries-not-durable-before-ack"
			bad = fmt.Sprintf("replica %d acknowledges index %d while its durable log ends at %d (snapshot %d)", m.From, m.LogIndex, s.Last, s.SnapIndex)
		}
		if bad != "" {
			c.Sink.Violation("C04", key, bad, map[string]interface{}{
				"message": fmt.Sprintf("%+v", *m), "durable": fmt.Sprintf("%+v", s), "host": h.Index})
		}
	}
}

func maxU(a, b uint64) uint64 {
	if a > b {
		return a
	}
	return b
}

// CheckRecovered compares what the reopened log store of h holds with the
// shadows frozen at the crash instant (M2) and re-bases the shadows on the
// recovered state. Must be called after the NodeHost was recreated.
func (h *Host) CheckRecovered(frozen map[[2]uint64]*Shadow) {
	db := h.inner
	if db == nil {
		return
	}
	for k, f := range frozen {
		shardID, replicaID := k[0], k[1]
		ss, err := db.GetSnapshot(shardID, replicaID)
		if err != nil {
			h.c.Sink.Violation("C04", "recovered-store-unreadable", fmt.Sprintf("host %d: GetSnapshot failed after restart: %v", h.Index, err), nil)
			continue
		}
		rs, err := db.ReadRaftState(shardID, replicaID, ss.Index)
		if err != nil && !errors.Is(err, raftio.ErrNoSavedLog) {
			h.c.Sink.Violation("C04", "recovered-store-unreadable", fmt.Sprintf("host %d: ReadRaftState failed after restart: %v", h.Index, err), nil)
			continue
		}
		rec := &Shadow{Term: rs.State.Term, Vote: rs.State.Vote, Commit: rs.State.Commit,
			SnapIndex: ss.Index, SnapTerm: ss.Term, Terms: map[uint64]uint64{}}
		last := ss.Index
		if rs.EntryCount > 0 {
			ents, _, err := db.IterateEntries(nil, 0, shardID, replicaID, rs.FirstIndex, rs.FirstIndex+rs.EntryCount, 1<<40)
			if err != nil {
				h.c.Sink.Violation("C04", "recovered-store-unreadable", fmt.Sprintf("host %d: IterateEntries failed after restart: %v", h.Index, err), nil)
				continue
			}
			for _, e := range ents {
				rec.Terms[e.Index] = e.Term
				if e.Index > last {
					last = e.Index
				}
			}
		}
		rec.Last = last
		w := map[string]interface{}{"host": h.Index, "shard": shardID, "replica": replicaID,
			"at_crash_instant": fmt.Sprintf("term %d vote %d commit %d snapshot %d last %d", f.Term, f.Vote, f.Commit, f.SnapIndex, f.Last),
			"recovered":        fmt.Sprintf("term %d vote %d commit %d snapshot %d last %d", rec.Term, rec.Vote, rec.Commit, rec.SnapIndex, rec.Last)}
		h.c.Sink.Count("recoveries_compared", 1)
		if rec.Term < f.Term {
			h.c.Sink.Violation("C04", "term-lost-in-crash", fmt.Sprintf("host %d replica %d: durable term %d before the crash, %d after restart", h.Index, replicaID, f.Term, rec.Term), w)
		} else if rec.Term == f.Term && f.Vote != 0 && rec.Vote != f.Vote {
			h.c.Sink.Violation("C04", "vote-lost-in-crash", fmt.Sprintf("host %d replica %d: durable vote %d for term %d before the crash, %d after restart", h.Index, replicaID, f.Vote, f.Term, rec.Vote), w)
		}
		if rec.SnapIndex < f.SnapIndex {
			h.c.Sink.Violation("C04", "snapshot-record-lost-in-crash", fmt.Sprintf("host %d replica %d: snapshot record %d before the crash, %d after restart", h.Index, replicaID, f.SnapIndex, rec.SnapIndex), w)
		}
		for i, t := range f.Terms {
			if i <= rec.SnapIndex {
				continue
			}
			if rt, ok := rec.Terms[i]; !ok || rt != t {
				if i <= f.Last {
					h.c.Sink.Violation("C04", "entry-lost-in-crash",
						fmt.Sprintf("host %d replica %d: entry %d (term %d) was durable before the crash, after restart the store has term %d there (present=%v)", h.Index, replicaID, i, t, rt, ok), w)
					break
				}
			}
			h.c.Sink.Count("entries_compared_after_crash", 1)
		}
		h.mu.Lock()
		h.shadows[k] = rec
		h.mu.Unlock()
	}
}

// RunSessionClients runs n clients that use registered client sessions and,
// as the API prescribes, retry a proposal with the same series id after a
// timeout (possibly through another host) until it completes; a Rejected
// proposal ends the session (the client registers a new one and goes on with
// new payloads). One history operation per logical proposal.
func (w *Workload) RunSessionClients(n, ops, paceMs int, stop <-chan struct{}) {
	var wg sync.WaitGroup
	ids := make([]uint64, 0, len(w.Replicas))
	for id := range w.Replicas {
		ids = append(ids, id)
	}
	sortU64(ids)
	for c := 0; c < n; c++ {
		wg.Add(1)
		go func(c int) {
			defer wg.Done()
			rng := rand.New(rand.NewSource(w.Seed*977 + int64(c)))
			stopped := func() bool {
				select {
				case <-stop:
					return true
				default:
					return false
				}
			}
			pick := func() *Host { return w.C.Hosts[w.Replicas[ids[rng.Intn(len(ids))]]] }
			for done := 0; done < ops && !stopped(); {
				// register a session
				var cs *client.Session
				for cs == nil && !stopped() {
					if nh := pick().nodeHost(); nh != nil {
						ctx, cancel := context.WithTimeout(context.Background(), w.Timeout)
						s, err := nh.SyncGetSession(ctx, w.ShardID)
						cancel()
						if err == nil {
							cs = s
							w.count("sessions_registered", 1)
						}
					}
					if cs == nil {
						time.Sleep(20 * time.Millisecond)
					}
				}
				if cs == nil {
					return
				}
				alive := true
				for alive && done < ops && !stopped() {
					key := byte(rng.Intn(w.Keys))
					id := NewID()
					cmd := MakeCmd(key, id)
					call := w.C.Clock.Now()
					opid := w.Hist.begin(linz.Op{Client: 1000 + c, Append: true, Key: KeyName(key), Value: id, Call: call, Via: "session client"})
					out := linz.Unknown
					var pos uint64
					attempts := 0
					for attempts < 40 && !stopped() {
						h := pick()
						nh := h.nodeHost()
						if nh == nil {
							time.Sleep(10 * time.Millisecond)
							continue
						}
						attempts++
						acall := w.C.Clock.Now()
						ctx, cancel := context.WithTimeout(context.Background(), w.Timeout)
						res, err := nh.SyncPropose(ctx, cs, cmd)
						cancel()
						if err == nil {
							if w.afterCrash(h, acall) {
								// completed on state that may not have been durable: the
								// session cannot be trusted any more
								alive = false
								break
							}
							if len(res.Data) != 8 || binary.BigEndian.Uint64(res.Data) != id {
								w.C.Sink.Violation("C12", "result-of-another-request", fmt.Sprintf("session proposal %d completed with a result that carries id %x", id, res.Data), nil)
							}
							out, pos = linz.OK, res.Value
							cs.ProposalCompleted()
							if attempts > 1 {
								w.count("session_proposals_completed_by_retry", 1)
							}
							break
						}
						if errors.Is(err, dragonboat.ErrRejected) || errors.Is(err, dragonboat.ErrInvalidSession) {
							// the session is gone on the server side: the client must stop using it
							alive = false
							w.count("session_rejected", 1)
							break
						}
						w.count("session_retries", 1)
					}
					if attempts >= 40 {
						alive = false
					}
					ret := w.C.Clock.Now()
					w.Hist.end(opid, func(op *linz.Op) { op.Outcome, op.Ret, op.Pos = out, ret, pos })
					done++
					if out == linz.OK {
						w.count("session_append_ok", 1)
					} else {
						w.count("session_append_unknown", 1)
					}
					if paceMs > 0 {
						time.Sleep(time.Duration(rng.Intn(paceMs*1000)) * time.Microsecond)
					}
				}
			}
		}(c)
	}
	wg.Wait()
}
