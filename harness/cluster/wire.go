package cluster

// Wire mode of engine E2: the NodeHosts talk through dragonboat's own TCP
// transport (internal/transport.TCP) on loopback. Every host advertises the
// address of a byte-level proxy of the harness (RaftAddress) and listens on
// another port (ListenAddress); whatever a peer sends to it crosses the
// proxy, which flips bits, cuts connections in the middle of a frame and
// stalls. A thin wrapper around the real transport applies the partitions and
// losses of Net (it knows sender and target) and perturbs snapshot chunk
// streams *before* they are framed (lost / corrupted / repeated chunks), so
// that the receiver-side chunk tracker and the snapshot stream validator are
// what has to reject them. The network still never fabricates a message and
// never duplicates a raft message batch.

import (
	"context"
	"fmt"
	"io"
	"math/rand"
	"net"
	"os"
	"sync"
	"sync/atomic"
	"time"

	"github.com/lni/dragonboat/v4/config"
	dbtransport "github.com/lni/dragonboat/v4/internal/transport"
	"github.com/lni/dragonboat/v4/raftio"
	pb "github.com/lni/dragonboat/v4/raftpb"
)

// WireFaults are the byte / chunk level fault rates of the wire mode.
type WireFaults struct {
	// FlipPerMB: expected number of single-bit flips per megabyte crossing a proxy.
	FlipPerMB int32
	// CutPerMB: expected number of connections cut (after a PRNG-chosen prefix of
	// the buffer at hand was forwarded) per megabyte crossing a proxy.
	CutPerMB int32
	// chunk streams, per mille of chunks: silently lost, one byte of the payload
	// changed, sent twice
	ChunkLostPm, ChunkCorruptPm, ChunkDupPm int32
}

// WireStats counts what the proxies and the chunk perturbation did.
type WireStats struct {
	Conns, Bytes, Flips, Cuts, ChunksSent, ChunksLost, ChunksCorrupted, ChunksDuplicated, ChunkSendErrors int64
}

// Proxy forwards TCP connections made to its own address to the listen
// address of a host.
type Proxy struct {
	ln     net.Listener
	tmu    sync.Mutex
	target string
	Addr   string
	net    *Net
	rngMu  sync.Mutex
	rng    *rand.Rand
	wg     sync.WaitGroup
	closed int32
	mu     sync.Mutex
	conns  map[net.Conn]struct{}
}

// freePort picks a loopback port below the ephemeral range (ports of that range are handed to
// outgoing connections of any process and may be gone again by the time the NodeHost binds the
// address it was given): 21000-24999 (the repository's own tests bind 25001 and 26001-26003), starting at a position derived from the process id, probing.
var portCursor uint32

func freePort() (string, error) {
	for try := 0; try < 2000; try++ {
		n := atomic.AddUint32(&portCursor, 1)
		port := 21000 + (uint32(os.Getpid())*131+n*17)%4000
		a := fmt.Sprintf("127.0.0.1:%d", port)
		l, err := net.Listen("tcp", a)
		if err != nil {
			continue
		}
		_ = l.Close()
		return a, nil
	}
	return "", fmt.Errorf("no free loopback port in 21000-24999")
}

// NewProxy listens on an ephemeral loopback port and forwards to target.
func NewProxy(n *Net, target string, seed int64) (*Proxy, error) {
	addr, err := freePort()
	if err != nil {
		return nil, err
	}
	ln, err := net.Listen("tcp", addr)
	if err != nil {
		return nil, err
	}
	p := &Proxy{ln: ln, target: target, Addr: ln.Addr().String(), net: n, rng: rand.New(rand.NewSource(seed)), conns: map[net.Conn]struct{}{}}
	p.wg.Add(1)
	go p.accept()
	return p, nil
}

func (p *Proxy) accept() {
	defer p.wg.Done()
	for {
		c, err := p.ln.Accept()
		if err != nil {
			return
		}
		atomic.AddInt64(&p.net.wire.Conns, 1)
		p.wg.Add(1)
		go p.serve(c)
	}
}

func (p *Proxy) track(c net.Conn, add bool) {
	p.mu.Lock()
	if add {
		p.conns[c] = struct{}{}
	} else {
		delete(p.conns, c)
	}
	p.mu.Unlock()
}

func (p *Proxy) roll(perMB int32, n int) bool {
	if perMB <= 0 || n <= 0 {
		return false
	}
	p.rngMu.Lock()
	defer p.rngMu.Unlock()
	// probability n*perMB/2^20 for a buffer of n bytes
	return p.rng.Int63n(1<<20) < int64(n)*int64(perMB)
}

func (p *Proxy) intn(n int) int {
	p.rngMu.Lock()
	defer p.rngMu.Unlock()
	return p.rng.Intn(n)
}

func (p *Proxy) serve(in net.Conn) {
	defer p.wg.Done()
	defer in.Close()
	p.tmu.Lock()
	target := p.target
	p.tmu.Unlock()
	out, err := net.DialTimeout("tcp", target, 2*time.Second)
	if err != nil {
		return
	}
	defer out.Close()
	p.track(in, true)
	p.track(out, true)
	defer p.track(in, false)
	defer p.track(out, false)
	done := make(chan struct{}, 2)
	// receiver -> sender direction (poison acknowledgements only): unperturbed
	go func() {
		_, _ = io.Copy(in, out)
		_ = in.Close()
		_ = out.Close()
		done <- struct{}{}
	}()
	go func() {
		defer func() { done <- struct{}{} }()
		buf := make([]byte, 32*1024)
		for {
			n, err := in.Read(buf)
			if n > 0 {
				b := buf[:n]
				atomic.AddInt64(&p.net.wire.Bytes, int64(n))
				f := p.net.WireFaults()
				if p.roll(f.FlipPerMB, n) {
					i := p.intn(n)
					b[i] ^= 1 << uint(p.intn(8))
					atomic.AddInt64(&p.net.wire.Flips, 1)
				}
				if p.roll(f.CutPerMB, n) {
					k := p.intn(n)
					_, _ = out.Write(b[:k])
					atomic.AddInt64(&p.net.wire.Cuts, 1)
					_ = in.Close()
					_ = out.Close()
					return
				}
				if _, werr := out.Write(b); werr != nil {
					_ = in.Close()
					return
				}
			}
			if err != nil {
				_ = out.Close()
				return
			}
		}
	}()
	<-done
	_ = in.Close()
	_ = out.Close()
	<-done
}

// Retarget makes the proxy forward to another address from now on.
func (p *Proxy) Retarget(target string) {
	p.tmu.Lock()
	p.target = target
	p.tmu.Unlock()
}

// Close stops the proxy and its connections.
func (p *Proxy) Close() {
	if !atomic.CompareAndSwapInt32(&p.closed, 0, 1) {
		return
	}
	_ = p.ln.Close()
	p.mu.Lock()
	for c := range p.conns {
		_ = c.Close()
	}
	p.mu.Unlock()
	p.wg.Wait()
}

// SetWireFaults sets the byte / chunk level fault rates.
func (n *Net) SetWireFaults(f WireFaults) {
	n.mu.Lock()
	n.wireFaults = f
	n.mu.Unlock()
}

// WireFaults returns the present rates.
func (n *Net) WireFaults() WireFaults {
	n.mu.Lock()
	defer n.mu.Unlock()
	return n.wireFaults
}

// WireStats returns a copy of the wire counters.
func (n *Net) WireStats() WireStats {
	return WireStats{
		Conns: atomic.LoadInt64(&n.wire.Conns), Bytes: atomic.LoadInt64(&n.wire.Bytes), Flips: atomic.LoadInt64(&n.wire.Flips),
		Cuts: atomic.LoadInt64(&n.wire.Cuts), ChunksSent: atomic.LoadInt64(&n.wire.ChunksSent), ChunksLost: atomic.LoadInt64(&n.wire.ChunksLost),
		ChunksCorrupted: atomic.LoadInt64(&n.wire.ChunksCorrupted), ChunksDuplicated: atomic.LoadInt64(&n.wire.ChunksDuplicated),
		ChunkSendErrors: atomic.LoadInt64(&n.wire.ChunkSendErrors),
	}
}

// WireTransportFactory creates the real TCP transport behind the wrapper.
type WireTransportFactory struct{ Net *Net }

// Create ...
func (f *WireTransportFactory) Create(cfg config.NodeHostConfig,
	h raftio.MessageHandler, ch raftio.ChunkHandler) raftio.ITransport {
	return &wireTransport{net: f.Net, addr: cfg.RaftAddress, inner: dbtransport.NewTCPTransport(cfg, h, ch)}
}

// Validate ...
func (f *WireTransportFactory) Validate(string) bool { return true }

type wireTransport struct {
	net   *Net
	addr  string
	inner raftio.ITransport
}

func (t *wireTransport) Name() string { return "verif-wire-" + t.inner.Name() }

func (t *wireTransport) Start() error {
	t.net.mu.Lock()
	t.net.endpoints[t.addr] = &endpoint{addr: t.addr, up: true}
	t.net.mu.Unlock()
	return t.inner.Start()
}

func (t *wireTransport) Close() error { return t.inner.Close() }

func (t *wireTransport) GetConnection(ctx context.Context, target string) (raftio.IConnection, error) {
	if blocked, fail := t.net.linkState(t.addr, target); blocked && fail {
		return nil, errConn
	}
	c, err := t.inner.GetConnection(ctx, target)
	if err != nil {
		return nil, err
	}
	return &wireConn{t: t, to: target, inner: c}, nil
}

func (t *wireTransport) GetSnapshotConnection(ctx context.Context, target string) (raftio.ISnapshotConnection, error) {
	if blocked, _ := t.net.linkState(t.addr, target); blocked {
		return nil, errConn
	}
	c, err := t.inner.GetSnapshotConnection(ctx, target)
	if err != nil {
		return nil, err
	}
	return &wireSSConn{t: t, to: target, inner: c}, nil
}

type wireConn struct {
	t     *wireTransport
	to    string
	inner raftio.IConnection
}

func (c *wireConn) Close() { c.inner.Close() }

func (c *wireConn) SendMessageBatch(batch pb.MessageBatch) error {
	n := c.t.net
	blocked, fail := n.linkState(c.t.addr, c.to)
	if blocked {
		n.mu.Lock()
		if fail {
			n.stats.ConnFailures++
		} else {
			n.stats.DroppedBlocked++
		}
		n.mu.Unlock()
		if fail {
			return errConn
		}
		return nil
	}
	if n.roll(atomic.LoadInt32(&n.dropPpm), 1000000) {
		n.mu.Lock()
		n.stats.Dropped++
		n.mu.Unlock()
		return nil
	}
	if n.roll(atomic.LoadInt32(&n.delayPpm), 1000000) {
		// holds this connection's queue back (head-of-line delay, as a slow link does)
		n.mu.Lock()
		n.stats.Delayed++
		n.mu.Unlock()
		time.Sleep(n.delayFor())
	}
	n.mu.Lock()
	n.stats.Batches++
	n.stats.Messages += int64(len(batch.Requests))
	n.mu.Unlock()
	return c.inner.SendMessageBatch(batch)
}

type wireSSConn struct {
	t     *wireTransport
	to    string
	inner raftio.ISnapshotConnection
}

func (c *wireSSConn) Close() { c.inner.Close() }

func (c *wireSSConn) SendChunk(chunk pb.Chunk) error {
	n := c.t.net
	if blocked, _ := n.linkState(c.t.addr, c.to); blocked {
		atomic.AddInt64(&n.wire.ChunkSendErrors, 1)
		return errConn
	}
	if chunk.HasFileInfo {
		n.mu.Lock()
		n.stats.ExtFileChunks++
		if chunk.FileSize%(2<<20) == 0 {
			n.stats.ExtFileChunksOfWholeChunkFiles++
		}
		n.mu.Unlock()
	}
	f := n.WireFaults()
	if n.roll(f.ChunkLostPm, 1000) {
		// lost on the way: the sender believes it was sent
		atomic.AddInt64(&n.wire.ChunksLost, 1)
		return nil
	}
	// chunks of external files are left alone: dragonboat keeps no checksum for files the user
	// adds to a snapshot (the stream validator skips chunks that carry file info), their
	// protection on the wire is the frame checksum, which the proxies attack (E4 classifies a
	// changed payload byte of an external file chunk as not judged for the same reason)
	if len(chunk.Data) > 0 && !chunk.HasFileInfo && n.roll(f.ChunkCorruptPm, 1000) {
		// one byte of the payload changes before the frame checksum is computed, so only the
		// snapshot stream validator / chunk tracker of the receiver can notice
		// not inside the 1 KB snapshot header at the start of chunk 0: its checksum slot is zero
		// by design for images of the stream / file writers, such a flip is not rejected but makes
		// the load fail loudly (a process-fatal panic here); E4 classifies those flips
		lo := 0
		if chunk.ChunkId == 0 && !chunk.HasFileInfo {
			lo = 1024
		}
		if len(chunk.Data) > lo {
			d := append([]byte(nil), chunk.Data...)
			n.mu.Lock()
			i := lo + n.rng.Intn(len(d)-lo)
			bit := byte(1) << uint(n.rng.Intn(8))
			n.mu.Unlock()
			d[i] ^= bit
			chunk.Data = d
			atomic.AddInt64(&n.wire.ChunksCorrupted, 1)
		}
	}
	atomic.AddInt64(&n.wire.ChunksSent, 1)
	if err := c.inner.SendChunk(chunk); err != nil {
		atomic.AddInt64(&n.wire.ChunkSendErrors, 1)
		return err
	}
	if n.roll(f.ChunkDupPm, 1000) {
		atomic.AddInt64(&n.wire.ChunksDuplicated, 1)
		if err := c.inner.SendChunk(chunk); err != nil {
			atomic.AddInt64(&n.wire.ChunkSendErrors, 1)
			return err
		}
	}
	return nil
}

// wireHostSetup prepares the wire-mode part of a host: a free listen address,
// the proxy in front of it, and a directory on the real file system.
func wireHostSetup(c *Cluster, i int, dir string) (listen string, p *Proxy, err error) {
	listen, err = freePort()
	if err != nil {
		return "", nil, fmt.Errorf("no free loopback port: %w", err)
	}
	p, err = NewProxy(c.Net, listen, c.Opt.Seed*131+int64(i))
	if err != nil {
		return "", nil, err
	}
	return listen, p, nil
}
