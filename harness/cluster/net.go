// Package cluster is the core of engine E2: real NodeHosts in one process,
// each on its own strict in-memory file system, connected by a fault
// injecting in-process transport, with a recording log store wrapper,
// instrumented user state machines and a client history recorder.
package cluster

import (
	"context"
	"errors"
	"math/rand"
	"sync"
	"sync/atomic"
	"time"

	"github.com/lni/dragonboat/v4/config"
	"github.com/lni/dragonboat/v4/raftio"
	pb "github.com/lni/dragonboat/v4/raftpb"
)

// Net is the in-process network shared by the NodeHosts of a cluster. Fault
// kinds: silent drop, connection failure, delay, reordering between batches,
// one- and two-directional partitions. It never duplicates or fabricates.
type Net struct {
	mu        sync.Mutex
	endpoints map[string]*endpoint
	blocked   map[[2]string]bool // (from, to): traffic cut
	failConn  map[[2]string]bool // cut links fail the connection instead of dropping silently
	rng       *rand.Rand
	dropPpm   int32 // silent loss of message batches, parts per million
	delayPpm  int32 // batches delayed
	maxDelay  time.Duration
	reorderPp int32 // per mille of batches swapped with the next one of the connection
	stats     NetStats
	// chunkDelay: every snapshot chunk dwells that long on the wire (a slow link), nanoseconds
	chunkDelay int64
	// wire mode (wire.go)
	wireFaults WireFaults
	wire       WireStats
}

// NetStats counts what the network did.
type NetStats struct {
	Batches, Messages, Dropped, DroppedBlocked, Delayed, Reordered, ConnFailures, Chunks, ChunksFailed int64
	ExtFileChunks, ExtFileChunksOfWholeChunkFiles                                                      int64
}

type endpoint struct {
	addr    string
	handler raftio.MessageHandler
	chunks  raftio.ChunkHandler
	up      bool
	// gate: handlers are called with the read lock held, Close takes the write
	// lock, so that no handler runs once the receiving transport is closed (a
	// real transport waits for its connection goroutines)
	gate sync.RWMutex
}

// NewNet creates a network.
func NewNet(seed int64) *Net {
	return &Net{
		endpoints: map[string]*endpoint{},
		blocked:   map[[2]string]bool{},
		failConn:  map[[2]string]bool{},
		rng:       rand.New(rand.NewSource(seed)),
		maxDelay:  15 * time.Millisecond,
	}
}

// Stats returns a copy of the counters.
func (n *Net) Stats() NetStats {
	n.mu.Lock()
	defer n.mu.Unlock()
	return n.stats
}

// SetLoss sets silent loss (ppm), delay probability (ppm) and reordering (per mille).
func (n *Net) SetLoss(dropPpm, delayPpm, reorderPerMille int) {
	atomic.StoreInt32(&n.dropPpm, int32(dropPpm))
	atomic.StoreInt32(&n.delayPpm, int32(delayPpm))
	atomic.StoreInt32(&n.reorderPp, int32(reorderPerMille))
}

// SetChunkDelay makes every snapshot chunk dwell on the wire.
func (n *Net) SetChunkDelay(d time.Duration) { atomic.StoreInt64(&n.chunkDelay, int64(d)) }

// Cut blocks traffic from -> to. failConnection makes sends fail (the real
// transport then tears the connection down and reports Unreachable) instead
// of vanishing silently.
func (n *Net) Cut(from, to string, failConnection bool) {
	n.mu.Lock()
	n.blocked[[2]string{from, to}] = true
	if failConnection {
		n.failConn[[2]string{from, to}] = true
	}
	n.mu.Unlock()
}

// Isolate cuts every link of addr in both directions.
func (n *Net) Isolate(addr string, failConnection bool) {
	n.mu.Lock()
	for a := range n.endpoints {
		if a != addr {
			n.blocked[[2]string{addr, a}] = true
			n.blocked[[2]string{a, addr}] = true
			if failConnection {
				n.failConn[[2]string{addr, a}] = true
				n.failConn[[2]string{a, addr}] = true
			}
		}
	}
	n.mu.Unlock()
}

// HealAll removes every cut.
func (n *Net) HealAll() {
	n.mu.Lock()
	n.blocked = map[[2]string]bool{}
	n.failConn = map[[2]string]bool{}
	n.mu.Unlock()
}

// Heal removes the cuts that involve addr.
func (n *Net) Heal(addr string) {
	n.mu.Lock()
	for k := range n.blocked {
		if k[0] == addr || k[1] == addr {
			delete(n.blocked, k)
			delete(n.failConn, k)
		}
	}
	n.mu.Unlock()
}

func (n *Net) linkState(from, to string) (blocked bool, fail bool) {
	n.mu.Lock()
	defer n.mu.Unlock()
	k := [2]string{from, to}
	return n.blocked[k], n.failConn[k]
}

func (n *Net) roll(ppm int32, scale int) bool {
	if ppm <= 0 {
		return false
	}
	n.mu.Lock()
	defer n.mu.Unlock()
	return n.rng.Intn(scale) < int(ppm)
}

func (n *Net) delayFor() time.Duration {
	n.mu.Lock()
	defer n.mu.Unlock()
	return time.Duration(n.rng.Int63n(int64(n.maxDelay)))
}

// TransportFactory is the config.TransportFactory of the network.
type TransportFactory struct{ Net *Net }

// Create ...
func (f *TransportFactory) Create(cfg config.NodeHostConfig,
	h raftio.MessageHandler, ch raftio.ChunkHandler) raftio.ITransport {
	return &transport{net: f.Net, addr: cfg.RaftAddress, handler: h, chunks: ch, stopc: make(chan struct{})}
}

// Validate ...
func (f *TransportFactory) Validate(string) bool { return true }

type transport struct {
	net     *Net
	addr    string
	handler raftio.MessageHandler
	chunks  raftio.ChunkHandler
	stopc   chan struct{}
	once    sync.Once
	wg      sync.WaitGroup
}

var errConn = errors.New("simnet: connection failed")

func (t *transport) Name() string { return "verif-simnet" }

func (t *transport) Start() error {
	t.net.mu.Lock()
	t.net.endpoints[t.addr] = &endpoint{addr: t.addr, handler: t.handler, chunks: t.chunks, up: true}
	t.net.mu.Unlock()
	return nil
}

func (t *transport) Close() error {
	t.once.Do(func() {
		close(t.stopc)
		t.net.mu.Lock()
		ep, ok := t.net.endpoints[t.addr]
		t.net.mu.Unlock()
		if ok {
			ep.gate.Lock()
			t.net.mu.Lock()
			ep.up = false
			t.net.mu.Unlock()
			ep.gate.Unlock()
		}
	})
	t.wg.Wait()
	return nil
}

func (t *transport) GetConnection(ctx context.Context, target string) (raftio.IConnection, error) {
	if blocked, fail := t.net.linkState(t.addr, target); blocked && fail {
		return nil, errConn
	}
	t.net.mu.Lock()
	ep, ok := t.net.endpoints[target]
	up := ok && ep.up
	t.net.mu.Unlock()
	if !up {
		return nil, errConn
	}
	c := &conn{t: t, to: target, q: make(chan []byte, 256), closed: make(chan struct{})}
	t.wg.Add(1)
	go c.run()
	return c, nil
}

func (t *transport) GetSnapshotConnection(ctx context.Context, target string) (raftio.ISnapshotConnection, error) {
	if blocked, _ := t.net.linkState(t.addr, target); blocked {
		return nil, errConn
	}
	t.net.mu.Lock()
	ep, ok := t.net.endpoints[target]
	up := ok && ep.up
	t.net.mu.Unlock()
	if !up {
		return nil, errConn
	}
	return &ssConn{t: t, to: target}, nil
}

type conn struct {
	t      *transport
	to     string
	q      chan []byte
	closed chan struct{}
	once   sync.Once
}

func (c *conn) Close() { c.once.Do(func() { close(c.closed) }) }

// SendMessageBatch serialises the batch before returning (the caller reuses
// and clears the entries of the batch afterwards).
func (c *conn) SendMessageBatch(batch pb.MessageBatch) error {
	n := c.t.net
	blocked, fail := n.linkState(c.t.addr, c.to)
	if blocked {
		n.mu.Lock()
		if fail {
			n.stats.ConnFailures++
		} else {
			n.stats.DroppedBlocked++
		}
		n.mu.Unlock()
		if fail {
			return errConn
		}
		return nil
	}
	n.mu.Lock()
	ep, ok := n.endpoints[c.to]
	up := ok && ep.up
	n.mu.Unlock()
	if !up {
		n.mu.Lock()
		n.stats.ConnFailures++
		n.mu.Unlock()
		return errConn
	}
	if n.roll(atomic.LoadInt32(&n.dropPpm), 1000000) {
		n.mu.Lock()
		n.stats.Dropped++
		n.mu.Unlock()
		return nil
	}
	data := pb.MustMarshal(&batch)
	select {
	case c.q <- data:
	case <-c.closed:
		return errConn
	case <-c.t.stopc:
		return errConn
	}
	return nil
}

func (c *conn) run() {
	defer c.t.wg.Done()
	n := c.t.net
	var held []byte
	deliver := func(data []byte) {
		// the cut may have happened while the batch was in flight
		if blocked, _ := n.linkState(c.t.addr, c.to); blocked {
			n.mu.Lock()
			n.stats.DroppedBlocked++
			n.mu.Unlock()
			return
		}
		n.mu.Lock()
		ep, ok := n.endpoints[c.to]
		n.mu.Unlock()
		if !ok {
			return
		}
		ep.gate.RLock()
		defer ep.gate.RUnlock()
		n.mu.Lock()
		var h raftio.MessageHandler
		if ep.up {
			h = ep.handler
		}
		n.mu.Unlock()
		if h == nil {
			return
		}
		var b pb.MessageBatch
		pb.MustUnmarshal(&b, data)
		n.mu.Lock()
		n.stats.Batches++
		n.stats.Messages += int64(len(b.Requests))
		n.mu.Unlock()
		h(b)
	}
	for {
		var data []byte
		if held != nil {
			select {
			case data = <-c.q:
			case <-time.After(2 * time.Millisecond):
				deliver(held)
				held = nil
				continue
			case <-c.closed:
				return
			case <-c.t.stopc:
				return
			}
		} else {
			select {
			case data = <-c.q:
			case <-c.closed:
				return
			case <-c.t.stopc:
				return
			}
		}
		if n.roll(atomic.LoadInt32(&n.delayPpm), 1000000) {
			n.mu.Lock()
			n.stats.Delayed++
			n.mu.Unlock()
			select {
			case <-time.After(n.delayFor()):
			case <-c.t.stopc:
				return
			}
		}
		if held != nil {
			// reordered pair: the later batch overtakes the held one
			deliver(data)
			deliver(held)
			held = nil
			continue
		}
		if n.roll(atomic.LoadInt32(&n.reorderPp), 1000) {
			n.mu.Lock()
			n.stats.Reordered++
			n.mu.Unlock()
			held = data
			continue
		}
		deliver(data)
	}
}

type ssConn struct {
	t  *transport
	to string
}

func (c *ssConn) Close() {}

func (c *ssConn) SendChunk(chunk pb.Chunk) error {
	n := c.t.net
	if d := atomic.LoadInt64(&n.chunkDelay); d > 0 {
		select {
		case <-time.After(time.Duration(d)):
		case <-c.t.stopc:
			return errConn
		}
	}
	if blocked, _ := n.linkState(c.t.addr, c.to); blocked {
		n.mu.Lock()
		n.stats.ChunksFailed++
		n.mu.Unlock()
		return errConn
	}
	n.mu.Lock()
	ep, ok := n.endpoints[c.to]
	n.stats.Chunks++
	n.mu.Unlock()
	if !ok {
		return errConn
	}
	ep.gate.RLock()
	defer ep.gate.RUnlock()
	n.mu.Lock()
	var h raftio.ChunkHandler
	if ep.up {
		h = ep.chunks
	}
	n.mu.Unlock()
	if h == nil {
		return errConn
	}
	var cp pb.Chunk
	pb.MustUnmarshal(&cp, pb.MustMarshal(&chunk))
	if !h(cp) {
		n.mu.Lock()
		n.stats.ChunksFailed++
		n.mu.Unlock()
		return errConn
	}
	return nil
}
