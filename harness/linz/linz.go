// Package linz decides linearizability of histories over the per-key
// append-only list model with unique values: append(k, id) returns the new
// length of k's list, read(k) returns the whole list. Unique ids make the
// history unambiguous: the final list fixes the order of all appends, a read
// identifies exactly the appends it saw. The decision is exact and runs in
// O(n log n); porcupine is run on the same history as an independent
// cross-check.
package linz

import (
	"fmt"
	"math"
	"sort"
	"time"

	"github.com/anishathalye/porcupine"
)

// Outcome of an operation as seen by the client.
type Outcome int

const (
	// OK: completed with a result.
	OK Outcome = iota
	// Fail: definite failure (Dropped / Rejected): must never take effect.
	Fail
	// Unknown: timeout, terminated, crashed client/host: may or may not take
	// effect, at any time after its invocation.
	Unknown
)

// Op is one client operation.
type Op struct {
	ID      int      `json:"id"`
	Client  int      `json:"client"`
	Append  bool     `json:"append"`
	Key     string   `json:"key"`
	Value   uint64   `json:"value,omitempty"` // id appended
	Call    int64    `json:"call"`
	Ret     int64    `json:"ret"` // ignored unless Outcome == OK
	Outcome Outcome  `json:"outcome"`
	Pos     uint64   `json:"pos,omitempty"`  // OK append: returned length
	Read    []uint64 `json:"read,omitempty"` // OK read: observed list
	Via     string   `json:"via,omitempty"`  // replica / API used (informational)
}

// Anomaly is one reason why the history is not linearizable.
type Anomaly struct {
	Kind string `json:"kind"`
	Key  string `json:"key"`
	What string `json:"what"`
	Ops  []Op   `json:"ops"`
}

const inf = int64(math.MaxInt64)

// Check decides the history. final is the list of every key as read from the
// replicas at quiescence (the caller has already checked that all replicas
// agree on it).
func Check(ops []Op, final map[string][]uint64) []Anomaly {
	var out []Anomaly
	add := func(kind, key, what string, o ...Op) {
		if len(out) < 40 {
			out = append(out, Anomaly{Kind: kind, Key: key, What: what, Ops: o})
		}
	}
	byKey := map[string][]Op{}
	for _, o := range ops {
		byKey[o.Key] = append(byKey[o.Key], o)
	}
	for key := range final {
		if _, ok := byKey[key]; !ok {
			byKey[key] = nil
		}
	}
	keys := make([]string, 0, len(byKey))
	for k := range byKey {
		keys = append(keys, k)
	}
	sort.Strings(keys)
	for _, key := range keys {
		kops := byKey[key]
		fin := final[key]
		pos := map[uint64]int{} // id -> 1-based position
		for i, id := range fin {
			if p, dup := pos[id]; dup {
				add("duplicate-apply", key, fmt.Sprintf("id %d occurs at positions %d and %d of the final list", id, p, i+1))
				continue
			}
			pos[id] = i + 1
		}
		appendOf := map[uint64]Op{}
		for _, o := range kops {
			if o.Append {
				appendOf[o.Value] = o
			}
		}
		// every element of the final list was proposed by someone
		for _, id := range fin {
			if _, ok := appendOf[id]; !ok {
				add("fabricated-value", key, fmt.Sprintf("id %d in the final list was never proposed", id))
			}
		}
		// results of appends
		for _, o := range kops {
			if !o.Append {
				continue
			}
			p, present := pos[o.Value]
			switch o.Outcome {
			case OK:
				if !present {
					add("acknowledged-write-lost", key, fmt.Sprintf("append %d completed with position %d but is not in the final list", o.Value, o.Pos), o)
				} else if uint64(p) != o.Pos {
					add("wrong-result", key, fmt.Sprintf("append %d returned position %d, final position is %d", o.Value, o.Pos, p), o)
				}
			case Fail:
				if present {
					add("failed-write-visible", key, fmt.Sprintf("append %d was reported Dropped/Rejected but is at position %d", o.Value, p), o)
				}
			}
		}
		// reads must be prefixes of the final list
		slots := map[int][]Op{}
		for _, o := range kops {
			if o.Append || o.Outcome != OK {
				continue
			}
			n := len(o.Read)
			if n > len(fin) {
				add("read-not-prefix", key, fmt.Sprintf("read returned %d elements, final list has %d", n, len(fin)), o)
				continue
			}
			okp := true
			for i := 0; i < n; i++ {
				if o.Read[i] != fin[i] {
					okp = false
					add("read-not-prefix", key, fmt.Sprintf("read differs from the final list at position %d: %d vs %d", i+1, o.Read[i], fin[i]), o)
					break
				}
			}
			if okp {
				slots[n] = append(slots[n], o)
			}
		}
		// real-time feasibility along the forced order:
		//   append_1 < reads(len 1) < append_2 < reads(len 2) < ...
		// (reads of length 0 come before append_1). lo is the strict lower
		// bound of the next linearization point.
		lo := int64(math.MinInt64)
		var loOp *Op
		place := func(o Op, what string) {
			ret := inf
			if o.Outcome == OK {
				ret = o.Ret
			}
			if lo >= ret {
				w := []Op{o}
				if loOp != nil {
					w = append(w, *loOp)
				}
				add("real-time-order", key, what, w...)
			}
		}
		for n := 0; n <= len(fin); n++ {
			if n > 0 {
				a, ok := appendOf[fin[n-1]]
				if ok {
					if a.Call > lo {
						lo = a.Call
						c := a
						loOp = &c
					}
					place(a, fmt.Sprintf("append %d (position %d) returned at %d, but an operation ordered before it was invoked at %d (stale read or reordered writes)", a.Value, n, a.Ret, lo))
				}
			}
			rs := slots[n]
			next := lo
			var nextOp *Op
			for i := range rs {
				r := rs[i]
				place(r, fmt.Sprintf("read of %d elements returned at %d, but it contains position %d whose append (or an operation before it) was invoked at %d", n, r.Ret, n, lo))
				if r.Call > next {
					next = r.Call
					nextOp = &rs[i]
				}
			}
			if next > lo {
				lo = next
				loOp = nextOp
			}
		}
	}
	return out
}

type pInput struct {
	Append bool
	Key    string
	Value  uint64
}

type pOutput struct {
	Unknown bool
	Pos     uint64
	Read    []uint64
}

// Porcupine cross-checks the same history with porcupine. Operations with a
// definite failure are left out (Check decides that they are invisible);
// unknown outcomes stay open until the end of the history and accept any
// result; a final read per key pins the final list.
func Porcupine(ops []Op, final map[string][]uint64, timeout time.Duration) (porcupine.CheckResult, string) {
	model := porcupine.Model{
		Partition: func(history []porcupine.Operation) [][]porcupine.Operation {
			m := map[string][]porcupine.Operation{}
			for _, o := range history {
				k := o.Input.(pInput).Key
				m[k] = append(m[k], o)
			}
			keys := make([]string, 0, len(m))
			for k := range m {
				keys = append(keys, k)
			}
			sort.Strings(keys)
			out := make([][]porcupine.Operation, 0, len(keys))
			for _, k := range keys {
				out = append(out, m[k])
			}
			return out
		},
		Init: func() interface{} { return []uint64(nil) },
		Step: func(state, input, output interface{}) (bool, interface{}) {
			st := state.([]uint64)
			in := input.(pInput)
			o := output.(pOutput)
			if in.Append {
				ns := make([]uint64, len(st)+1)
				copy(ns, st)
				ns[len(st)] = in.Value
				if o.Unknown {
					return true, ns
				}
				return o.Pos == uint64(len(ns)), ns
			}
			if o.Unknown {
				return true, st
			}
			if len(o.Read) != len(st) {
				return false, st
			}
			for i := range st {
				if st[i] != o.Read[i] {
					return false, st
				}
			}
			return true, st
		},
		Equal: func(a, b interface{}) bool {
			x, y := a.([]uint64), b.([]uint64)
			if len(x) != len(y) {
				return false
			}
			for i := range x {
				if x[i] != y[i] {
					return false
				}
			}
			return true
		},
		DescribeOperation: func(input, output interface{}) string {
			return fmt.Sprintf("%+v -> %+v", input, output)
		},
	}
	var maxT int64
	for _, o := range ops {
		if o.Call > maxT {
			maxT = o.Call
		}
		if o.Outcome == OK && o.Ret > maxT {
			maxT = o.Ret
		}
	}
	var hist []porcupine.Operation
	present := map[string]map[uint64]bool{}
	for k, l := range final {
		present[k] = map[uint64]bool{}
		for _, id := range l {
			present[k][id] = true
		}
	}
	for _, o := range ops {
		switch o.Outcome {
		case Fail:
			continue
		case Unknown:
			if !o.Append {
				continue // a read with unknown result constrains nothing
			}
			if !present[o.Key][o.Value] {
				continue // never took effect
			}
			hist = append(hist, porcupine.Operation{ClientId: o.Client, Input: pInput{true, o.Key, o.Value},
				Call: o.Call, Output: pOutput{Unknown: true}, Return: maxT + 1})
		case OK:
			if o.Append {
				hist = append(hist, porcupine.Operation{ClientId: o.Client, Input: pInput{true, o.Key, o.Value},
					Call: o.Call, Output: pOutput{Pos: o.Pos}, Return: o.Ret})
			} else {
				hist = append(hist, porcupine.Operation{ClientId: o.Client, Input: pInput{false, o.Key, 0},
					Call: o.Call, Output: pOutput{Read: o.Read}, Return: o.Ret})
			}
		}
	}
	cid := 1 << 20
	for k, l := range final {
		hist = append(hist, porcupine.Operation{ClientId: cid, Input: pInput{false, k, 0},
			Call: maxT + 2, Output: pOutput{Read: l}, Return: maxT + 3})
		cid++
	}
	res, info := porcupine.CheckOperationsVerbose(model, hist, timeout)
	desc := ""
	if res == porcupine.Illegal {
		desc = fmt.Sprintf("porcupine: illegal history (%d partial linearizations)", len(info.PartialLinearizations()))
	}
	return res, desc
}
