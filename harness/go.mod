module github.com/lni/dragonboat/v4/verifh

go 1.23.0

require (
	github.com/anishathalye/porcupine v1.3.0
	github.com/golang/snappy v0.0.4
	github.com/lni/dragonboat/v4 v4.0.0
	github.com/lni/goutils v1.4.0
	github.com/lni/vfs v0.2.1-0.20220616104132-8852fd867376
)

require (
	github.com/DataDog/zstd v1.4.5 // indirect
	github.com/HdrHistogram/hdrhistogram-go v1.1.2 // indirect
	github.com/VictoriaMetrics/metrics v1.18.1 // indirect
	github.com/armon/go-metrics v0.0.0-20180917152333-f0300d1749da // indirect
	github.com/cespare/xxhash/v2 v2.1.2 // indirect
	github.com/cockroachdb/errors v1.9.0 // indirect
	github.com/cockroachdb/logtags v0.0.0-20211118104740-dabe8e521a4f // indirect
	github.com/cockroachdb/pebble v0.0.0-20221207173255-0f086d933dac // indirect
	github.com/cockroachdb/redact v1.1.3 // indirect
	github.com/getsentry/sentry-go v0.12.0 // indirect
	github.com/gogo/protobuf v1.3.2 // indirect
	github.com/google/btree v1.0.0 // indirect
	github.com/google/uuid v1.3.0 // indirect
	github.com/hashicorp/errwrap v1.0.0 // indirect
	github.com/hashicorp/go-immutable-radix v1.0.0 // indirect
	github.com/hashicorp/go-msgpack v0.5.3 // indirect
	github.com/hashicorp/go-multierror v1.0.0 // indirect
	github.com/hashicorp/go-sockaddr v1.0.0 // indirect
	github.com/hashicorp/golang-lru v0.5.1 // indirect
	github.com/hashicorp/memberlist v0.3.1 // indirect
	github.com/kr/pretty v0.3.0 // indirect
	github.com/kr/text v0.2.0 // indirect
	github.com/miekg/dns v1.1.26 // indirect
	github.com/pierrec/lz4/v4 v4.1.14 // indirect
	github.com/pkg/errors v0.9.1 // indirect
	github.com/rogpeppe/go-internal v1.8.1 // indirect
	github.com/sean-/seed v0.0.0-20170313163322-e2103e2c3529 // indirect
	github.com/valyala/fastrand v1.1.0 // indirect
	github.com/valyala/histogram v1.2.0 // indirect
	golang.org/x/crypto v0.40.0 // indirect
	golang.org/x/exp v0.0.0-20200513190911-00229845015e // indirect
	golang.org/x/net v0.41.0 // indirect
	golang.org/x/sys v0.34.0 // indirect
)

replace github.com/lni/dragonboat/v4 => /repo
